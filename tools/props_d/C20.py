"""C20 -- contract violations are reported as errors before any output is written.

The translator part of this file reads, for every entry point
(`impl Partition<..> for X { fn partition(..) }` and the private functions it
tail-calls), the sequence of GUARD statements in source order up to the first
statement that may write the partition array or start the algorithm proper,
and writes it as one `list guard` per entry point into coq/Gen/GuardsGen.v
(vocabulary and meaning: coq/Model/Errors.v).  docs/C20.md lists exactly what
is recognised.  Anything with an early exit (`return`, `?`) that is not
recognised raises Fail (fail closed); gen_guards contains a Fail per entry point
(`[GUntranslated]` + a printed `error` line) so that the harness still runs."""
import os, re, sys
sys.path.insert(0, os.path.dirname(os.path.dirname(os.path.abspath(__file__))))
import translate_lib
from translate_lib import Fail, HEADER


# ------------------------------------------------------------------ lexing helpers
def strip_comments(s):
    """Remove // and /* */ comments (string literals are kept intact)."""
    out, i, n = [], 0, len(s)
    while i < n:
        c = s[i]
        if c == '"':
            j = skip_string(s, i)
            out.append(s[i:j]); i = j
        elif s.startswith("//", i):
            j = s.find("\n", i)
            i = n if j < 0 else j
        elif s.startswith("/*", i):
            depth, j = 1, i + 2
            while j < n and depth:
                if s.startswith("/*", j):
                    depth += 1; j += 2
                elif s.startswith("*/", j):
                    depth -= 1; j += 2
                else:
                    j += 1
            i = j
        elif c == "'":
            j = skip_char(s, i)
            out.append(s[i:j]); i = j
        else:
            out.append(c); i += 1
    return "".join(out)


def skip_string(s, i):
    """s[i] == '"': index just after the closing quote."""
    j = i + 1
    while j < len(s):
        if s[j] == "\\":
            j += 2
        elif s[j] == '"':
            return j + 1
        else:
            j += 1
    raise Fail("unterminated string literal")


def skip_char(s, i):
    """s[i] == "'": a char literal ('x', '\\n') or a lifetime ('a); index after it."""
    if i + 1 < len(s) and s[i + 1] == "\\":
        j = s.find("'", i + 2)
        if j < 0:
            raise Fail("unterminated char literal")
        return j + 1
    if i + 2 < len(s) and s[i + 2] == "'":
        return i + 3
    return i + 1  # lifetime


OPEN, CLOSE = "([{", ")]}"


def match_close(s, i):
    """s[i] is an opening bracket: index of the matching closing bracket."""
    depth, j = 0, i
    while j < len(s):
        c = s[j]
        if c == '"':
            j = skip_string(s, j); continue
        if c == "'":
            j = skip_char(s, j); continue
        if c in OPEN:
            depth += 1
        elif c in CLOSE:
            depth -= 1
            if depth == 0:
                return j
        j += 1
    raise Fail("unbalanced brackets")


BLOCK_KW = ("if", "match", "for", "while", "loop", "unsafe")


def split_statements(body):
    """body: text between the braces of a block.  Returns the list of top-level
    statements (text, with the terminating `;` when there is one)."""
    stmts, i, n = [], 0, len(body)
    while i < n:
        while i < n and body[i].isspace():
            i += 1
        if i >= n:
            break
        start = i
        # attributes belong to the statement that follows
        while body.startswith("#[", i):
            i = match_close(body, i + 1) + 1
            while i < n and body[i].isspace():
                i += 1
        m = re.match(r"[A-Za-z_]\w*", body[i:])
        blocklike = (m is not None and m.group(0) in BLOCK_KW) or body[i] == "{"
        j = i
        while j < n:
            c = body[j]
            if c == '"':
                j = skip_string(body, j); continue
            if c == "'":
                j = skip_char(body, j); continue
            if c in OPEN:
                k = match_close(body, j)
                if c == "{" and blocklike:
                    # a block-like statement ends at its closing brace unless `else` follows
                    rest = body[k + 1:].lstrip()
                    if rest.startswith("else"):
                        j = k + 1 + (len(body[k + 1:]) - len(rest)) + 4
                        continue
                    if rest.startswith(";"):
                        k = k + 1 + (len(body[k + 1:]) - len(rest))
                    j = k + 1
                    break
                j = k + 1
                continue
            if c == ";":
                j += 1
                break
            j += 1
        stmts.append(body[start:j].strip())
        i = j
    return stmts


def nows(s):
    return re.sub(r"\s+", "", s)


def split_top(s, sep):
    """Split at top-level occurrences of sep (outside (), [], {}, <> is NOT tracked)."""
    parts, depth, i, cur = [], 0, 0, []
    while i < len(s):
        c = s[i]
        if c == '"':
            j = skip_string(s, i); cur.append(s[i:j]); i = j; continue
        if c in OPEN:
            depth += 1
        elif c in CLOSE:
            depth -= 1
        if depth == 0 and s.startswith(sep, i):
            parts.append("".join(cur)); cur = []; i += len(sep); continue
        cur.append(c); i += 1
    parts.append("".join(cur))
    return parts


def split_params(s):
    """Split a parameter / argument list at top-level commas, tracking <> as well."""
    parts, depth, cur = [], 0, []
    for k, c in enumerate(s):
        if c in OPEN or c == "<":
            depth += 1
        elif c in CLOSE or (c == ">" and (k == 0 or s[k - 1] not in "-=")):
            depth -= 1
        if c == "," and depth == 0:
            parts.append("".join(cur)); cur = []
        else:
            cur.append(c)
    if "".join(cur).strip():
        parts.append("".join(cur))
    return [p.strip() for p in parts]


def find_fn(src, name):
    """(params_text, body_text_without_braces) of `fn name`, or None."""
    m = re.search(r"\bfn\s+" + re.escape(name) + r"\b", src)
    if not m:
        return None
    i = m.end()
    # generics
    while i < len(src) and src[i].isspace():
        i += 1
    if src[i] == "<":
        depth = 0
        while i < len(src):
            if src[i] == "<":
                depth += 1
            elif src[i] == ">" and src[i - 1] not in "-=":
                depth -= 1
                if depth == 0:
                    i += 1
                    break
            i += 1
    i = src.index("(", i)
    j = match_close(src, i)
    params = src[i + 1:j]
    k = j + 1
    # the body is the first `{` after the signature that is not inside brackets
    while k < len(src):
        if src[k] == "{":
            break
        if src[k] in "([":
            k = match_close(src, k)
        elif src[k] == ";":
            return None
        k += 1
    e = match_close(src, k)
    return params, src[k + 1:e]


# ------------------------------------------------------------------ roles
PART = ("PART",)
OTHER = ("OTHER",)
ORDER = ("ORDER",)
INPUT_NAMES = {"weights": "InWeights", "points": "InPoints", "adjacency": "InAdjacency"}
LEN_PRESERVING = {"into_iter", "into_par_iter", "par_iter", "iter", "cloned", "clone", "collect", "map"}
IDENT = r"[A-Za-z_]\w*"


def role(env, e):
    e = e.strip()
    if e == "self.part_count":
        return ("PC", "PcParam")
    if e == "self.order":
        return ORDER
    return env.get(e, OTHER)


def len_expr(env, e, what):
    """`X.len()` -> Coq len_expr"""
    m = re.fullmatch(r"(%s)\.len\(\)" % IDENT, e)
    if not m:
        raise Fail("%s: `%s` is not of the form x.len()" % (what, e))
    r = role(env, m.group(1))
    if r == PART:
        return "LPartition"
    if r[0] == "IN":
        return "(LInput %s)" % r[1]
    raise Fail("%s: `%s` is neither the partition nor a known input" % (what, m.group(1)))


def len_of_ident(env, x, what):
    r = role(env, x)
    if r == PART:
        return "LPartition"
    if r[0] == "IN":
        return "(LInput %s)" % r[1]
    raise Fail("%s: `%s` is neither the partition nor a known input" % (what, x))


def chain_root(rhs):
    """If rhs (whitespace-free) is IDENT followed by length-preserving adaptor calls
    (.into_iter() .into_par_iter() .par_iter() .iter() .cloned() .clone() .collect() .map(..)
    .zip(0..)), return IDENT, else None."""
    m = re.match(IDENT, rhs)
    if not m:
        return None
    i = m.end()
    root = m.group(0)
    while i < len(rhs):
        if rhs[i] == ";" and i == len(rhs) - 1:
            break
        m2 = re.match(r"\.(%s)(::<[^()]*>)?\(" % IDENT, rhs[i:])
        if not m2:
            return None
        name = m2.group(1)
        o = i + m2.end() - 1
        c = match_close(rhs, o)
        args = rhs[o + 1:c]
        if name == "zip":
            if args != "0..":
                return None
        elif name not in LEN_PRESERVING:
            return None
        elif name != "map" and args != "":
            return None
        i = c + 1
    return root


def mentions(text, ident):
    return re.search(r"(?<![\w.])" + re.escape(ident) + r"\b", text) is not None


# ------------------------------------------------------------------ geometry facts (Rib)
def check_from_points_none_iff_empty():
    """`OrientedBoundingBox::from_points(points)` is None exactly when `points` is empty:
    its only source of None is `BoundingBox::from_points(mapped)?` with `mapped` a
    `points.par_iter().map(..)`, and BoundingBox::from_points starts with
    `if points.len() == 0 { return None; }` and otherwise ends in `Some(..)`."""
    src = strip_comments(translate_lib.read("src/geometry.rs"))
    i_bb = src.find("impl<const D: usize> BoundingBox<D>")
    i_obb = src.find("impl<const D: usize> OrientedBoundingBox<D>")
    if i_bb < 0 or i_obb < 0 or i_obb < i_bb:
        raise Fail("geometry.rs: BoundingBox / OrientedBoundingBox impl blocks not found in the expected order")
    f_bb = find_fn(src[i_bb:i_obb], "from_points")
    f_obb = find_fn(src[i_obb:], "from_points")
    if f_bb is None or f_obb is None:
        raise Fail("geometry.rs: from_points not found")
    b = nows(f_bb[1])
    if not b.startswith("letpoints=points.into_par_iter();ifpoints.len()==0{returnNone;}"):
        raise Fail("BoundingBox::from_points does not start with the emptiness test")
    rest = b[len("letpoints=points.into_par_iter();ifpoints.len()==0{returnNone;}"):]
    if "None" in rest or "?" in rest or not rest.endswith("Some(Self{p_min,p_max})"):
        raise Fail("BoundingBox::from_points has another source of None")
    o = nows(f_obb[1])
    if o.count("?") != 1 or "None" in o or "BoundingBox::from_points(mapped)?" not in o \
            or "letmapped=points.par_iter().map(" not in o or not o.rstrip().endswith("})"):
        raise Fail("OrientedBoundingBox::from_points: None is not exactly `points is empty`")


# ------------------------------------------------------------------ conditions and bodies
def inline_helper(env, a, what):
    """A condition atom that CALLS a function of the same file -- `h(&x, |v| BODY)` or
    `!h(&x, |v| BODY)` -- is never treated as opaque.  If the body of `h(s, pred)` is exactly a
    sequential scan of the whole slice, `s.iter().any(|(w, _)| pred(w))`, the call is replaced by
    that scan with the closure applied (`x.iter().any(|(v, _)| BODY)`; the negated form with a
    negated BODY becomes `x.iter().all(|(v, _)| BODY')`) and the result is parsed like any other
    atom.  Anything else fails closed, naming the helper and the part of its body that is not
    understood.  Returns the rewritten atom, or None when `a` is not a call of a local function."""
    m = re.fullmatch(r"(!?)(%s)\((.*)\)" % IDENT, a)
    if not m:
        return None
    neg, h, args = m.group(1), m.group(2), m.group(3)
    src = env.get("__src__")
    if not isinstance(src, str):
        return None
    f = find_fn(src, h)
    if f is None:
        return None          # not a function of this file: the caller reports `not recognised`
    where = "%s: the condition calls the helper `fn %s` of the same file" % (what, h)
    params = [re.sub(r"^mut\s+", "", q.split(":", 1)[0].strip()) for q in split_params(f[0])]
    al = split_params(args)
    if len(params) != 2 or len(al) != 2:
        raise Fail("%s, which is not of the form h(slice, predicate) -- helper calls in a guard condition are inlined "
                   "or refused, never assumed to scan every element" % where)
    ps, pp = params
    body = nows(f[1])
    body = re.sub(r"^return(.*);$", r"\1", body)
    mb = re.fullmatch(r"%s\.iter\(\)\.any\(\|\(?(%s)(?:,_\w*)?\)?\|%s\(&?\1\)\)" % (re.escape(ps), IDENT, re.escape(pp)), body)
    if not mb:
        # say which construct stops the inlining
        culprit = ""
        for pat, txt in ((r"par_chunks(_exact)?|chunks(_exact)?\(", "it scans fixed-size blocks (a `chunks_exact` family iterator skips the remainder)"),
                         (r"\bif\b", "it branches (different scans for different input sizes?)"),
                         (r"\.(skip|take|step_by|rev|windows|split_at|get)\(|\[[^\]]*\.\.[^\]]*\]", "it scans a sub-range of the slice"),
                         (r"par_iter", "it uses a parallel iterator that is not recognised")):
            if re.search(pat, body):
                culprit = ": " + txt
                break
        raise Fail("%s, whose body is not the plain whole-slice scan `%s.iter().any(|(w, _)| %s(w))`%s; the helper is not "
                   "inlined and the guard is NOT assumed to look at every element [body: %s]"
                   % (where, ps, pp, culprit, body[:160]))
    ma = re.fullmatch(r"&?(%s)" % IDENT, al[0])
    mc = re.fullmatch(r"\|&?(%s)\|(.*)" % IDENT, al[1])
    if not ma or not mc:
        raise Fail("%s with arguments `%s` that are not (slice, |v| predicate)" % (where, args[:80]))
    x, v, pb = ma.group(1), mc.group(1), mc.group(2)
    if not neg:
        return "%s.iter().any(|(%s,_)|%s)" % (x, v, pb)
    if pb.startswith("!"):
        return "%s.iter().all(|(%s,_)|%s)" % (x, v, pb[1:])
    raise Fail("%s negated around a predicate that is not itself a negation: `%s`" % (where, a[:80]))


def parse_atom(env, a, what):
    """One disjunct of an `if` condition (whitespace-free).  Returns (kind, payload)."""
    inl = inline_helper(env, a, what)
    if inl is not None:
        return parse_atom(env, inl, what + " (helper inlined)")
    m = re.fullmatch(r"(%s\.len\(\))!=(%s\.len\(\))" % (IDENT, IDENT), a)
    if m:
        return ("lenneq", (m.group(1), m.group(2)))
    m = re.fullmatch(r"(%s)\.is_empty\(\)" % IDENT, a)
    if m:
        return ("cond", "CEmpty %s" % len_of_ident(env, m.group(1), what))
    m = re.fullmatch(r"(%s)\.len\(\)<2" % IDENT, a)
    if m:
        return ("cond", "CLenLt2 %s" % len_of_ident(env, m.group(1), what))
    m = re.fullmatch(r"(self\.part_count|%s)<2" % IDENT, a)
    if m:
        r = role(env, m.group(1))
        if r[0] != "PC":
            raise Fail("%s: `%s < 2`: not a part count whose origin is known" % (what, m.group(1)))
        return ("cond", "CPartCountLt2 %s" % r[1])
    m = re.fullmatch(r"(%s)\.iter\(\)\.all\(\|\(?(%s)(?:,_\w*)?\)?\|\*?\2\.is_zero\(\)\)" % (IDENT, IDENT), a)
    if m:
        if role(env, m.group(1)) != ("IN", "InWeights"):
            raise Fail("%s: all-zero test on `%s`, which is not the weights" % (what, m.group(1)))
        return ("cond", "CAllZero")
    m = re.fullmatch(r"(%s)\.iter\(\)\.any\(\|\(?(%s)(?:,_\w*)?\)?\|\*?\2<T::zero\(\)\)" % (IDENT, IDENT), a)
    if m:
        if role(env, m.group(1)) != ("IN", "InWeights"):
            raise Fail("%s: sign test on `%s`, which is not the weights" % (what, m.group(1)))
        return ("neg", None)
    m = re.fullmatch(r"1<\*(%s)\.(?:par_)?iter\(\)\.max\(\)\.unwrap_or\(&0\)" % IDENT, a)
    if m:
        if role(env, m.group(1)) != PART:
            raise Fail("%s: max() of `%s`, which is not the partition" % (what, m.group(1)))
        return ("bipart", None)
    m = re.fullmatch(r"self\.order>(\w+)", a)
    if m:
        return ("order", m.group(1))
    raise Fail("%s: condition `%s` not recognised" % (what, a))


def parse_guard_if(env, consts, stmt, what):
    """stmt: `if COND { BODY }` containing a `return`.  Returns the Coq guard term."""
    s = stmt.strip()
    i = s.index("{")
    # the condition may contain closures with braces?  none of the recognised ones do
    cond = nows(s[2:i])
    e = match_close(s, i)
    if s[e + 1:].strip() not in ("", ";"):
        raise Fail("%s: `if` with an early exit and an else branch" % what)
    body = nows(s[i + 1:e])
    atoms = [parse_atom(env, a, what) for a in split_top(cond, "||")]
    kinds = set(k for k, _ in atoms)
    part_names = [x for x, r in env.items() if r == PART]
    # --- bodies
    m = re.fullmatch(r"returnErr\(Error::InputLenMismatch\{expected:([^,{}]+),actual:([^,{}]+),?\},?\);", body)
    if m:
        if kinds != {"lenneq"} or len(atoms) != 1:
            raise Fail("%s: InputLenMismatch returned under a condition that is not `a.len() != b.len()`" % what)
        a, b = atoms[0][1]
        la, lb = len_expr(env, a, what), len_expr(env, b, what)
        if (la == "LPartition") == (lb == "LPartition"):
            raise Fail("%s: length comparison `%s != %s` is not between the partition and another input" % (what, a, b))
        which = (lb if la == "LPartition" else la)[len("(LInput "):-1]
        return "GLenMismatch %s %s %s" % (which, len_expr(env, m.group(1), what), len_expr(env, m.group(2), what))
    if body == "returnErr(Error::NegativeValues);":
        if kinds != {"neg"} or len(atoms) != 1:
            raise Fail("%s: NegativeValues returned under an unrecognised condition" % what)
        return "GNegative"
    if body == "returnErr(Error::BiPartitioningOnly);":
        if kinds != {"bipart"} or len(atoms) != 1:
            raise Fail("%s: BiPartitioningOnly returned under an unrecognised condition" % what)
        return "GBipartOnly"
    m = re.fullmatch(r"returnErr\(Error::InvalidOrder\{max:(\w+),actual:self\.order,?\},?\);", body)
    if m:
        if kinds != {"order"} or len(atoms) != 1 or atoms[0][1] != m.group(1):
            raise Fail("%s: InvalidOrder: the reported maximum is not the bound of the test" % what)
        mx = m.group(1)
        if not mx.isdigit():
            if mx not in consts:
                raise Fail("%s: constant %s not found" % (what, mx))
            mx = consts[mx]
        return "GInvalidOrder %s" % mx
    is_ok = re.fullmatch(r"returnOk\((\(\)|0|Metadata::default\(\))\);", body) is not None
    is_fill = any(body == "%s.fill(0);returnOk(());" % p for p in part_names)
    if is_ok or is_fill:
        if kinds != {"cond"}:
            raise Fail("%s: early Ok under an unrecognised condition" % what)
        c = None
        for _, t in reversed(atoms):
            c = "(%s)" % t if c is None else "(COr (%s) %s)" % (t, c)
        return "%s %s" % ("GFillOk" if is_fill else "GEarlyOk", c)
    raise Fail("%s: body `%s` of a guard not recognised" % (what, body[:80]))


# ------------------------------------------------------------------ the walk
def has_exit(stmt):
    return re.search(r"\breturn\b", stmt) is not None or re.search(r"\?\s*[;.)]", stmt) is not None \
        or re.search(r"\b(panic|unreachable|unimplemented|todo|assert|assert_eq|assert_ne)!", stmt) is not None


def walk(src, params, body, args_roles, consts, what, depth=0):
    """Returns the list of Coq guard terms of this function (ending in GCompute)."""
    if depth > 4:
        raise Fail("%s: call chain too deep" % what)
    env = {"__src__": src}     # (not an identifier: only inline_helper reads it)
    names = []
    for p in split_params(params):
        if p in ("&mut self", "&self", "self", "mut self"):
            names.append(None)
            continue
        pat = p.split(":", 1)[0].strip()
        names.append(re.sub(r"^mut\s+", "", pat))
    names = [x for x in names if x is not None]
    if len(names) != len(args_roles):
        raise Fail("%s: %d parameters, %d roles" % (what, len(names), len(args_roles)))
    for nme, r in zip(names, args_roles):
        if nme.startswith("("):
            idents = [x.strip() for x in nme.strip("()").split(",") if x.strip()]
            if r != "TUPLE":
                raise Fail("%s: tuple pattern where none is expected" % what)
            for x in idents:
                if x not in INPUT_NAMES:
                    raise Fail("%s: input `%s` has no known role (weights / points / adjacency)" % (what, x))
                env[x] = ("IN", INPUT_NAMES[x])
        elif r == "TUPLE":
            if nme not in INPUT_NAMES:
                raise Fail("%s: input `%s` has no known role (weights / points / adjacency)" % (what, nme))
            env[nme] = ("IN", INPUT_NAMES[nme])
        else:
            env[nme] = r
    guards = []
    stmts = split_statements(body)
    for idx, st in enumerate(stmts):
        last = idx == len(stmts) - 1
        w = "%s, statement %d" % (what, idx + 1)
        part_names = [x for x, r in env.items() if r == PART]
        touches = any(mentions(st, p) for p in part_names)
        ns = nows(st)
        # constants
        m = re.fullmatch(r"const(\w+):u32=(\d+);", ns)
        if m:
            consts[m.group(1)] = m.group(2)
            continue
        # verification hooks: read-only by construction (cargo feature coupe_verif)
        if ns.startswith('#[cfg(feature="coupe_verif")]'):
            if touches or has_exit(st):
                raise Fail("%s: a coupe_verif hook touches the partition or exits" % w)
            continue
        if ns.startswith("#["):
            raise Fail("%s: attribute not understood" % w)
        m = re.fullmatch(r"debug_assert_ne!\((%s),0\);" % IDENT, ns)
        if m:
            if role(env, m.group(1)) != ("PC", "PcMaxId"):
                raise Fail("%s: debug_assert_ne!(%s, 0) on a value that is not 1 + max(ids)" % (w, m.group(1)))
            continue  # 1 + max(ids) is never 0 (GPartCountMaxId already accounts for the overflow)
        # let statements
        m = re.match(r"let\s+(?:mut\s+)?(%s)\s*(?::[^=]*)?=(?!=)" % IDENT, st)
        if m:
            x = m.group(1)
            rhs = nows(st[m.end():])
            mm = re.fullmatch(r"1\+\*(%s)\.(?:par_)?iter\(\)\.max\(\)\.unwrap_or\(&0\);" % IDENT, rhs)
            if mm and role(env, mm.group(1)) == PART:
                guards.append("GPartCountMaxId")
                env[x] = ("PC", "PcMaxId")
                continue
            mm = re.fullmatch(r"match(?:\w+::)*from_points\((%s)\)\{Some\((\w+)\)=>\2,None=>returnOk\(\(\)\),?\};" % IDENT, rhs)
            if mm and "OrientedBoundingBox::from_points" in rhs:
                if role(env, mm.group(1)) != ("IN", "InPoints"):
                    raise Fail("%s: from_points of `%s`, which is not the points" % (w, mm.group(1)))
                check_from_points_none_iff_empty()
                guards.append("GEarlyOk (CEmpty (LInput InPoints))")
                env[x] = OTHER
                continue
            if has_exit(st):
                raise Fail("%s: `let` with an early exit that is not recognised: %s" % (w, ns[:80]))
            if touches:
                guards.append("GCompute")
                return guards
            root = chain_root(rhs)
            if root is not None and role(env, root)[0] == "IN":
                env[x] = role(env, root)      # same length as the input it is made from
            else:
                env[x] = OTHER                 # pure bookkeeping; its value is not tracked
            continue
        if st.startswith("let"):
            if has_exit(st):
                raise Fail("%s: `let` pattern with an early exit" % w)
            if touches:
                guards.append("GCompute")
                return guards
            for x in re.findall(IDENT, st.split("=", 1)[0]):
                if x not in ("let", "mut"):
                    env[x] = OTHER
            continue
        # guards
        if re.match(r"if\b", st):
            if re.search(r"\breturn\b", st):
                guards.append(parse_guard_if(env, consts, st, w))
                continue
            if has_exit(st):
                raise Fail("%s: `if` with an exit that is not a `return`" % w)
            guards.append("GCompute")
            return guards
        # tail call into a private function of the same file: continue there
        m = re.fullmatch(r"(%s)\((.*)\);?" % IDENT, ns)
        if m and last and not ns.endswith(";"):
            callee = find_fn(src, m.group(1))
            if callee is not None:
                roles = []
                for a in split_params(m.group(2)):
                    r = role(env, a)
                    roles.append(r if isinstance(r, tuple) else OTHER)
                if PART not in roles:
                    raise Fail("%s: tail call %s(..) does not receive the partition" % (w, m.group(1)))
                return guards + walk(src, callee[0], callee[1], roles, consts, "%s -> fn %s" % (what, m.group(1)), depth + 1)
        if re.search(r"\breturn\b", st) or re.search(r"\?\s*;", st):
            raise Fail("%s: early exit in a statement that is not recognised: %s" % (w, ns[:80]))
        guards.append("GCompute")
        return guards
    raise Fail("%s: the function ends without reaching the algorithm proper" % what)


# ------------------------------------------------------------------ entry points
ALG = "src/algorithms/"
ENTRIES = [
    # (Coq name, file, regex selecting the impl header)
    ("rcb", ALG + "recursive_bisection.rs", r"Partition<[^{;]*>\s*for\s+Rcb\b"),
    ("rib", ALG + "recursive_bisection.rs", r"Partition<[^{;]*>\s*for\s+Rib\b"),
    ("greedy", ALG + "greedy.rs", r"Partition<[^{;]*>\s*for\s+Greedy\b"),
    ("kk", ALG + "kk.rs", r"Partition<[^{;]*>\s*for\s+KarmarkarKarp\b"),
    ("ckk", ALG + "ckk.rs", r"Partition<[^{;]*>\s*for\s+CompleteKarmarkarKarp\b"),
    ("vnbest", ALG + "vn/best.rs", r"Partition<[^{;]*>\s*for\s+VnBest\b"),
    ("vnfirst", ALG + "vn/first.rs", r"Partition<[^{;]*>\s*for\s+VnFirst\b"),
    ("fm", ALG + "fiduccia_mattheyses.rs", r"Partition<[^{;]*>\s*for\s+FiducciaMattheyses\b"),
    ("arcswap", ALG + "arc_swap.rs", r"Partition<[^{;]*>\s*for\s+ArcSwap\b"),
    ("hilbert2d", ALG + "hilbert_curve.rs", r"Partition<\(&\[Point2D\][^{;]*>\s*for\s+HilbertCurve\b"),
    ("hilbert3d", ALG + "hilbert_curve.rs", r"Partition<\(&\[Point3D\][^{;]*>\s*for\s+HilbertCurve\b"),
]


def guards_of_entry(name, rel, header_re):
    src = strip_comments(translate_lib.read(rel))
    hs = list(re.finditer(r"\bimpl\b[^{;]*?" + header_re + r"[^{;]*\{", src))
    if len(hs) != 1:
        raise Fail("%s: expected exactly one `impl Partition<..> for ..` matching /%s/, found %d" % (rel, header_re, len(hs)))
    o = hs[0].end() - 1
    block = src[o:match_close(src, o) + 1]
    f = find_fn(block, "partition")
    if f is None:
        raise Fail("%s: fn partition not found in the impl block" % rel)
    params, body = f
    if len(split_params(params)) != 3:
        raise Fail("%s: fn partition is expected to take (&mut self, part_ids, inputs)" % rel)
    consts = {}
    gs = walk(src, params, body, [PART, "TUPLE"], consts, "%s: %s::partition" % (rel, name))
    return gs, consts


def gen_guards():
    out = HEADER.format(src="the `impl Partition<..>` blocks of src/algorithms/{recursive_bisection,greedy,kk,ckk,vn/best,"
                            "vn/first,fiduccia_mattheyses,arc_swap,hilbert_curve}.rs (and src/geometry.rs)")
    out += "(* The guard statements of every entry point in SOURCE ORDER, up to the first statement that may\n" \
           "   write the partition or start the algorithm proper (vocabulary: Model/Errors.v). *)\n"
    out += "From Coupe Require Import Lib.Prelude Model.Errors.\n\n"
    for name, rel, hre in ENTRIES:
        try:
            gs, consts = guards_of_entry(name, rel, hre)
            if name.startswith("hilbert"):
                mo = [g for g in gs if g.startswith("GInvalidOrder ")]
                if len(mo) != 1:
                    raise Fail("%s: expected exactly one order test" % name)
        except Fail as e:
            # Fail closed PER ENTRY POINT: the list [GUntranslated] satisfies no theorem, but the
            # run module still builds, so the harness and the checker still look for a failing
            # input.  The line printed here makes tools/check.py record a broken obligation.
            print("GuardsGen.v error: %s: %s" % (name, e))
            out += "(* translator error: %s *)\n" % str(e).replace("*)", "* )")
            if name.startswith("hilbert"):
                out += "Definition %s_max_order : N := 0.\n" % name
            out += "Definition %s_guards : list guard := [ GUntranslated ].\n" % name
            continue
        if name.startswith("hilbert"):
            out += "Definition %s_max_order : N := %s.\n" % (name, mo[0].split()[1])
            gs = [("GInvalidOrder %s_max_order" % name) if g.startswith("GInvalidOrder ") else g for g in gs]
        out += "Definition %s_guards : list guard :=\n  [ %s ].\n" % (name, ";\n    ".join(gs))
    return out


GENERATORS = {"GuardsGen.v": gen_guards}


PROP = dict(
    bin="c20",
    run_targets=["Run/RunC20.vo"],
    prop_targets=["Properties/C20.vo"],
    cases=dict(quick=3630, thorough=36300),
    level="proof",
    rule="case idx calls entry point idx % 11 (Rcb, Rib, Greedy, KarmarkarKarp, CompleteKarmarkarKarp, VnBest, VnFirst, "
         "FiducciaMattheyses, ArcSwap, HilbertCurve 2-D / 3-D) through coupe::Partition::partition; idx / 11 enumerates every "
         "combination of {equal, shorter, longer, empty} for the partition array and each other input (16 or 64 combinations), "
         "then well-formed slots that enumerate every position j < n <= 8 of an id above one (FM) / of a negative weight "
         "(VnBest, i64 and f64), orders max+1, above max, huge, u32::MAX and valid (HilbertCurve), an id equal to usize::MAX "
         "(VnBest, VnFirst, ArcSwap), degenerate parameters (iter_count 0/1/2, part_count 0/1/2/3/5, order 0..max, tolerances 0 and "
         "negative, max_imbalance None/0, max_passes 0) and well-formed controls; one slot in eleven is a LARGE call (4095..10000 "
         "elements, lengths around the multiples of 1024 and 4096) with exactly one offending element -- a negative weight (VnBest), an "
         "id above one (FM), one length off by one / rounded to a block / empty (the nine algorithms), an order above the maximum "
         "(HilbertCurve) -- at the last position, in the trailing len % 1024 positions, at the block seams (1023, 1024, 4095, 4096, last "
         "full block) or anywhere, written compactly (run-length encoded lists + the positions where the array changed) and rebuilt "
         "by Run/RunC20.v big20; arrays pre-filled with recognisable garbage; distinct = distinct "
         "(entry point, array, weight signs, lengths, part_count, order); non-trivial = some clause of the property applies "
         "(a length differs, an id above one for FM, a negative weight for VnBest, an order above the maximum)",
    class_names={0: "model: InputLenMismatch", 1: "model: BiPartitioningOnly", 2: "model: NegativeValues",
                 3: "model: InvalidOrder", 4: "model: early Ok, array untouched", 5: "model: early Ok, array zero-filled",
                 6: "model: guards passed; implementation returned", 7: "model: guards passed; implementation panicked/hung (outside C20)",
                 8: "model: `1 + max(ids)` overflows (debug build panic; id = usize::MAX, outside the contract)", 9: "model: NotFound"},
    trusted_base=[
        "axioms: none (every theorem of Properties/C20.v is closed under the global context)",
        "the C20 translator plugin (tools/props_d/C20.py): statement splitter + pattern recognition of the guard statements listed in "
        "docs/C20.md; statements that do not mention the partition array and have no early exit are taken to be pure bookkeeping "
        "(they cannot write the array; that they do not panic is observed by the harness only)",
        "`OrientedBoundingBox::from_points(points)` is None exactly when `points` is empty (checked textually in src/geometry.rs by the "
        "translator; the numerical code in between is not modelled)",
        "debug-build semantics of `1 + max(part_ids)` (overflow check on); the release profile wraps instead and is not run",
    ],
    assumptions=[
        "the partition array passed to VnBest / VnFirst holds no id equal to usize::MAX (otherwise `1 + max` overflows before any check)",
        "adjacency matrices are square (sprs CsMat n x n; Topology::len debug-asserts it)",
        "weights are not NaN (a NaN is neither negative nor zero for the guards)",
        "when a call violates several clauses at once, any of the promised errors satisfies the run-time checker (the theorems say "
        "which one the current guard order yields: the length mismatch)",
    ],
)

MANIFEST = dict(
    text="For each of the eleven entry points the translator extracts, on every run, the sequence of guard statements in source order "
         "up to the first statement that can write the partition or start the algorithm (coq/Gen/GuardsGen.v). Theorems about "
         "these GENERATED lists, for ALL input shapes and arrays: a length mismatch of any input (shorter, longer, empty) yields "
         "InputLenMismatch for Rcb, Rib, Greedy, KarmarkarKarp, CompleteKarmarkarKarp, VnBest, VnFirst, FiducciaMattheyses, ArcSwap; "
         "FM yields BiPartitioningOnly for an id above one; VnBest yields NegativeValues for a negative weight at any position; "
         "HilbertCurve yields InvalidOrder above 32 (2-D) / 21 (3-D); in every error case the array is untouched and nothing panics. "
         "The interpretation of the lists is compared with the real entry points on a malformed stream, and a checker computed from "
         "the input shape alone and proved equivalent to the property on one call (C20_checker_decides) judges every observation: "
         "when a clause applies, anything but a promised error with the array untouched is a rejection.",
    design_ref="DESIGN.md §7 C20",
    note="Trusted: Coq kernel; the guard-list translator (fails closed on unrecognised early exits); statements not mentioning the "
         "partition are assumed not to write it; differential runs (3.6k/36k calls, incl. calls on up to 10000 elements, public API, catch_unwind + watchdog). "
         "VnBest/VnFirst theorems assume no id equals usize::MAX. No axioms.",
    technique="Coq proof (reflective static analysis of guard lists, proved sound for the guard interpreter) + source-order translator "
              "+ model/implementation correspondence + checker",
)

"""C17 -- the C API computes what the Rust API computes and contains panics.

Translator: regenerates coq/Gen/FfiTables.v from ffi/src/lib.rs, ffi/src/data.rs,
ffi/include/coupe.h (and the two error enums of the library the glue converts from).
Everything is emitted as plain strings / booleans / numbers; the interpretation is in
coq/Model/Ffi.v and the lemmas that pin it are in coq/Properties/C17.v.  Fails closed:
a construct that is not understood raises Fail (the generated file then breaks every proof).
"""
import os, re, sys
sys.path.insert(0, os.path.dirname(os.path.dirname(os.path.abspath(__file__))))
from translate_lib import read, Fail, HEADER

LIB = "ffi/src/lib.rs"
DATA = "ffi/src/data.rs"
HDR = "ffi/include/coupe.h"


# ------------------------------------------------------------------ lexical helpers
def strip_comments(src, keep_todo=False):
    """Remove // and /* */ comments (string and char literals respected)."""
    out, i, n = [], 0, len(src)
    while i < n:
        c = src[i]
        if src.startswith("//", i):
            j = src.find("\n", i)
            i = n if j < 0 else j
        elif src.startswith("/*", i):
            j = src.find("*/", i + 2)
            if j < 0:
                raise Fail("unterminated block comment")
            out.append(" ")
            i = j + 2
        elif c == '"':
            j = i + 1
            while j < n and src[j] != '"':
                j += 2 if src[j] == "\\" else 1
            out.append(src[i : j + 1])
            i = j + 1
        else:
            out.append(c)
            i += 1
    return "".join(out)


def match_close(s, i):
    """s[i] is an opening bracket; index of the matching closing one (strings skipped)."""
    pairs = {"(": ")", "{": "}", "[": "]"}
    stack = []
    j, n = i, len(s)
    while j < n:
        c = s[j]
        if c == '"':
            j += 1
            while j < n and s[j] != '"':
                j += 2 if s[j] == "\\" else 1
        elif c in pairs:
            stack.append(pairs[c])
        elif c in ")}]":
            if not stack or stack.pop() != c:
                raise Fail("unbalanced bracket at offset %d" % j)
            if not stack:
                return j
        j += 1
    raise Fail("unbalanced bracket (end of file)")


def ws(s):
    return re.sub(r"\s+", " ", s).strip()


def split_top(s, sep=","):
    """Split at separators that are not nested in brackets; empty pieces dropped."""
    depth, cur, parts = 0, "", []
    for ch in s:
        if ch in "({[":
            depth += 1
        elif ch in ")}]":
            depth -= 1
        if ch == sep and depth == 0:
            parts.append(cur)
            cur = ""
        else:
            cur += ch
    parts.append(cur)
    return [p for p in parts if p.strip()]


def coq_str(s):
    if '"' in s or "\\" in s:
        raise Fail("unexpected character in identifier %r" % s)
    return '"%s"' % s


def coq_list(xs):
    return "[" + "; ".join(xs) + "]"


def coq_bool(b):
    return "true" if b else "false"


# ------------------------------------------------------------------ enums
def rust_enum(src, name, need_repr_c):
    """Variants of `pub enum name { ... }` in order: [(variant, has_payload)]."""
    m = re.search(r"((?:#\[[^\]]*\]\s*)*)pub\s+enum\s+" + re.escape(name) + r"\s*\{", src)
    if not m:
        raise Fail("enum %s not found" % name)
    attrs = m.group(1)
    if need_repr_c and not re.search(r"#\[repr\(C\)\]", attrs):
        raise Fail("enum %s is not #[repr(C)]" % name)
    i = m.end() - 1
    j = match_close(src, i)
    body = src[i + 1 : j]
    out = []
    k = 0
    # split at top-level commas
    depth, cur = 0, ""
    parts = []
    for ch in body:
        if ch in "({[":
            depth += 1
        elif ch in ")}]":
            depth -= 1
        if ch == "," and depth == 0:
            parts.append(cur)
            cur = ""
        else:
            cur += ch
    parts.append(cur)
    for p in parts:
        p = re.sub(r"#\[[^\]]*\]", "", p).strip()
        if not p:
            continue
        mm = re.match(r"^(\w+)\s*(\{.*\}|\(.*\))?$", p, re.S)
        if not mm:
            raise Fail("variant of enum %s not understood: %r" % (name, ws(p)))
        if "=" in p and not mm.group(2):
            raise Fail("explicit discriminant in enum %s: %r" % (name, ws(p)))
        out.append((mm.group(1), bool(mm.group(2))))
    if need_repr_c and any(pl for _, pl in out):
        raise Fail("repr(C) enum %s has a variant with a payload" % name)
    return out


def c_enum(hdr, name):
    m = re.search(r"\benum\s+" + re.escape(name) + r"\s*\{", hdr)
    if not m:
        raise Fail("enum %s not found in coupe.h" % name)
    i = m.end() - 1
    j = match_close(hdr, i)
    out = []
    for p in hdr[i + 1 : j].split(","):
        p = p.strip()
        if not p:
            continue
        if not re.match(r"^\w+$", p):
            raise Fail("enumerator of %s not understood (explicit value?): %r" % (name, p))
        out.append(p)
    return out


# ------------------------------------------------------------------ functions of lib.rs
def functions(src):
    """All `fn` items of the file: name -> dict(attrs, header, body, exported)."""
    fns = {}
    for m in re.finditer(r"((?:#\[[^\]]*\]\s*)*)((?:pub\s+)?(?:unsafe\s+)?(?:extern\s+\"C\"\s+)?)fn\s+(\w+)", src):
        attrs, quals, name = m.group(1), m.group(2), m.group(3)
        # opening brace of the body: first '{' after the parameter list and return type / where clause
        i = src.find("(", m.end())
        if i < 0:
            continue
        # generic parameters may precede '('
        j = match_close(src, i)
        k = src.find("{", j)
        semi = src.find(";", j)
        if k < 0 or (0 <= semi < k):
            continue  # a declaration without body (fn pointer type etc.)
        e = match_close(src, k)
        if name in fns:
            raise Fail("two functions named %s" % name)
        fns[name] = dict(attrs=attrs, quals=quals, sig=src[m.start() : k], body=src[k : e + 1],
                         no_mangle="#[no_mangle]" in attrs, extern_c='extern "C"' in quals, pub="pub" in quals)
    return fns


def prechecks(pre, fname):
    """The early returns that precede the guarded region, in source order."""
    out = []
    for m in re.finditer(r"\breturn\b\s*([^;,}]*)", pre):
        expr = m.group(1).strip()
        mm = re.match(r"^Error::(\w+)$", expr)
        if not mm:
            raise Fail("%s: early return not understood: %r" % (fname, expr))
        code = mm.group(1)
        before = ws(pre[: m.start()])
        if re.search(r"if element_count != weights\.len\(\) \{$", before):
            kind = "len_points_weights"
        elif re.search(r"if weights\.type_\(\) != Type::Double \{$", before):
            kind = "weights_type_double"
        elif re.search(r"if points\.type_\(\) != Type::Double \{$", before):
            kind = "points_type_double"
        elif re.search(r"match &\*adjncy \{ Adjncy::Int64\(matrix\) => \*matrix, _ =>$", before):
            kind = "adjncy_type_int64"
        else:
            raise Fail("%s: condition of the early return not understood: ...%r" % (fname, before[-80:]))
        out.append((kind, code))
    if re.search(r"\?\s*[;)]", pre) or "panic!" in pre or "unwrap" in pre or "expect(" in pre or "assert" in pre:
        raise Fail("%s: a fallible/panicking construct precedes the guarded region" % fname)
    return out


def err_arms(text, fname):
    """Result -> code arms: (ok_code, err) with err = 'from' or a constant code."""
    oks = re.findall(r"\bOk\(\s*(?:_|\(\))?\s*\)\s*=>\s*Error::(\w+)", text)
    errs = re.findall(r"\bErr\(\s*(\w+)\s*\)\s*=>\s*(?!return\b)(Error::from\(\s*(\w+)\s*\)|Error::(\w+))", text)
    if len(oks) != 1 or len(errs) != 1:
        raise Fail("%s: expected exactly one `Ok(..) => Error::..` and one `Err(..) => ..` arm, found %d / %d"
                   % (fname, len(oks), len(errs)))
    binder, _, frm, const = errs[0]
    if frm:
        if frm != binder:
            raise Fail("%s: Error::from applied to %s, binder is %s" % (fname, frm, binder))
        err = "from"
    else:
        err = const
    # to_slice failures
    for a in re.findall(r"\bErr\(\s*_\s*\)\s*=>\s*return\s+Error::(\w+)", text):
        if a != "Alloc":
            raise Fail("%s: allocation failure mapped to %s" % (fname, a))
    return oks[0], err


TYPE_NAMES = {"std::os::raw::c_int": "c_int", "c_int": "c_int", "i64": "i64", "f64": "f64", "Real": "Real"}


def macro_tables(data_src):
    """For with_iter!/with_par_iter!/with_slice!: the element type chosen for each Type tag, and the
    accessor used for each representation."""
    tabs = {}
    for mac, meth in (("with_iter", "iter"), ("with_par_iter", "par_iter"), ("with_slice", "to_slice")):
        m = re.search(r"macro_rules!\s+" + mac + r"\s*\{", data_src)
        if not m:
            raise Fail("macro %s not found" % mac)
        i = m.end() - 1
        body = data_src[i : match_close(data_src, i) + 1]
        tags = []
        if mac == "with_slice":
            arms = re.findall(r"\$crate::data::Type::(\w+)\s*=>\s*\{\s*let\s+\$iter\s*=\s*match\s+\$iter\.to_slice::<([\w:]+)>\(\)", body)
            reprs = [("Array", meth), ("Constant", meth), ("Fn", meth)]  # Data::to_slice dispatches itself (checked below)
        else:
            arms = re.findall(r"\$crate::data::Type::(\w+)\s*=>\s*" + mac + r"!\(\s*\$iter\s*,\s*([\w:]+)\s*,\s*\$do\s*\)", body)
            reprs = re.findall(r"\$crate::data::Data::(\w+)\(\$iter\)\s*=>\s*\{\s*let\s+\$iter\s*=\s*\$iter\.(\w+)::<\$t>\(\)\s*;\s*\$do\s*\}", body)
        for tag, t in arms:
            if t not in TYPE_NAMES:
                raise Fail("macro %s: element type %s not understood" % (mac, t))
            tags.append((tag, TYPE_NAMES[t]))
        if [r for r, _ in reprs] != ["Array", "Constant", "Fn"] or any(mm != meth for _, mm in reprs):
            raise Fail("macro %s: representation arms not understood: %r" % (mac, reprs))
        tabs[mac] = tags
    return tabs


def data_accessors(data_src, errors):
    """Shape of the three representations' accessors in data.rs (one token per accessor);
    the model (Model/Ffi.v, [denote]) is written against exactly these shapes.  An accessor that no longer
    has its shape gets the token "unrecognised:<shape>" (ffi_accessors_as_modelled then fails) and the run
    module still builds, so that the correspondence run can look for a failing input."""
    flat = ws(data_src)
    shapes = []
    want = [
        ("Array", "slice", r"impl Array \{.*?pub unsafe fn iter<'a, T>\(&'a self\).*?\{ slice::from_raw_parts\(self\.array as \*const T, self\.len\) \.iter\(\) \.cloned\(\) \}"),
        ("Array", "par_slice", r"impl Array \{.*?pub unsafe fn par_iter<'a, T>\(&'a self\).*?\{ slice::from_raw_parts\(self\.array as \*const T, self\.len\) \.par_iter\(\) \.cloned\(\) \}"),
        ("Array", "to_slice", r"impl Array \{.*?pub unsafe fn to_slice<'a, T>\(&'a self\).*?\{ slice::from_raw_parts\(self\.array as \*const T, self\.len\) \}"),
        ("Constant", "repeat", r"impl Constant \{.*?pub unsafe fn iter<'a, T>\(&'a self\).*?\{ let value = \*\(self\.value as \*const T\); \(0\.\.self\.len\)\.map\(move \|_\| value\) \}"),
        ("Constant", "par_repeat", r"impl Constant \{.*?pub unsafe fn par_iter<'a, T>\(&'a self\).*?\{ let value = \*\(self\.value as \*const T\); coupe::rayon::iter::repeatn\(value, self\.len\) \}"),
        ("Constant", "to_slice", r"impl Constant \{.*?pub unsafe fn to_slice<T>\(&self\).*?let value = \*\(self\.value as \*const T\); v\.resize\(self\.len, value\); Ok\(v\) \}"),
        ("Fn", "call", r"impl Fn \{.*?pub unsafe fn iter<'a, T>\(&'a self\).*?\{ \(0\.\.self\.len\)\.map\(\|i\| \{ let ptr = \(self\.i_th\)\(self\.context, i\) as \*const T; \*ptr \}\) \}"),
        ("Fn", "par_call", r"impl Fn \{.*?pub unsafe fn par_iter<'a, T>\(&'a self\).*?\{ \(0\.\.self\.len\)\.into_par_iter\(\)\.map\(\|i\| \{ let ptr = \(self\.i_th\)\(self\.context, i\) as \*const T; \*ptr \}\) \}"),
        ("Fn", "to_slice", r"impl Fn \{.*?pub unsafe fn to_slice<T>\(&self\).*?v\.par_extend\(self\.par_iter::<T>\(\)\); Ok\(v\) \}"),
    ]
    for rep, shape, pat in want:
        if not re.search(pat, flat):
            errors.append("data.rs: accessor %s/%s no longer has the shape the model mirrors" % (rep, shape))
            shapes.append((rep, "unrecognised:" + shape))
        else:
            shapes.append((rep, shape))
    # Data::len / type_ / to_slice dispatch to the representation's own field / method
    for pat, what in (
        (r"pub fn len\(&self\) -> usize \{ match self \{ Self::Array\(iter\) => iter\.len\(\), Self::Constant\(iter\) => iter\.len\(\), Self::Fn\(iter\) => iter\.len\(\), \} \}", "Data::len"),
        (r"pub fn type_\(&self\) -> Type \{ match self \{ Self::Array\(iter\) => iter\.type_, Self::Constant\(iter\) => iter\.type_, Self::Fn\(iter\) => iter\.type_, \} \}", "Data::type_"),
        (r"Ok\(match self \{ Self::Array\(iter\) => Cow::from\(iter\.to_slice\(\)\), Self::Constant\(iter\) => Cow::from\(iter\.to_slice\(\)\?\), Self::Fn\(iter\) => Cow::from\(iter\.to_slice\(\)\?\), \}\)", "Data::to_slice"),
    ):
        if not re.search(pat, flat):
            errors.append("data.rs: %s no longer has the shape the model mirrors" % what)
            shapes.append(("Data", "unrecognised:" + what))
    for rep in ("Array", "Constant", "Fn"):
        if not re.search(r"impl %s \{ pub fn len\(&self\) -> usize \{ self\.len \}" % rep, flat):
            errors.append("data.rs: %s::len is not the stored length" % rep)
            shapes.append((rep, "unrecognised:len"))
    return shapes


RUST_TYPES = {
    "usize": "usize", "f64": "f64", "u32": "u32", "*mut usize": "ptr_mut_usize", "*const usize": "ptr_const_usize",
    "*const Data": "ptr_const_data", "*mut Data": "ptr_mut_data", "*const c_void": "ptr_const_void",
    "*const Adjncy<'_>": "ptr_const_adjncy", "*mut Adjncy": "ptr_mut_adjncy", "*mut Adjncy<'static>": "ptr_mut_adjncy",
    "Type": "enum_type", "Error": "enum_err", "*const c_char": "ptr_const_char",
    'extern "C" fn(*const c_void, usize) -> *const c_void': "fn_ith", "": "void",
}
C_TYPES = {
    "uintptr_t": "usize", "double": "f64", "uint32_t": "u32", "uintptr_t *": "ptr_mut_usize", "const uintptr_t *": "ptr_const_usize",
    "const coupe_data *": "ptr_const_data", "coupe_data *": "ptr_mut_data", "const void *": "ptr_const_void",
    "const coupe_adjncy *": "ptr_const_adjncy", "coupe_adjncy *": "ptr_mut_adjncy",
    "enum coupe_type": "enum_type", "enum coupe_err": "enum_err", "const char *": "ptr_const_char",
    "const void *(*)(const void *, uintptr_t)": "fn_ith", "void": "void",
}


def rust_signature(name, f):
    sig = f["sig"]
    pi = sig.find("(")
    pe = match_close(sig, pi)
    params = []
    for prm in split_top(sig[pi + 1 : pe]):
        mm = re.match(r"^\s*(?:mut\s+)?(\w+)\s*:\s*(.+?)\s*$", prm, re.S)
        if not mm:
            raise Fail("%s: parameter not understood: %r" % (name, ws(prm)))
        t = ws(mm.group(2))
        if t not in RUST_TYPES:
            raise Fail("%s: parameter type %r has no C counterpart known to the translator" % (name, t))
        params.append(RUST_TYPES[t])
    ret = ws(sig[pe + 1 :])
    ret = ws(re.sub(r"\bwhere\b.*$", "", ret, flags=re.S))
    ret = ret[2:].strip() if ret.startswith("->") else ret
    if ret not in RUST_TYPES:
        raise Fail("%s: return type %r has no C counterpart known to the translator" % (name, ret))
    return params, RUST_TYPES[ret]


def c_signature(decl):
    """`ret name(params)` -> (name, params, ret) with canonical type tokens."""
    d = ws(decl)
    m = re.match(r"^(.*?)\b(coupe_\w+)\s*\((.*)\)$", d, re.S)
    if not m:
        raise Fail("coupe.h: prototype not understood: %r" % d)
    ret, name, plist = ws(m.group(1)), m.group(2), m.group(3)
    params = []
    for prm in split_top(plist):
        prm = ws(prm)
        fm = re.match(r"^(.*)\(\*\s*\w+\s*\)\s*\((.*)\)$", prm)
        if fm:
            t = "%s(*)(%s)" % (fm.group(1).replace("* ", "*").replace(" *", " *"), fm.group(2))
            t = ws(t)
        else:
            mm = re.match(r"^(.*?)(\w+)$", prm)
            if not mm:
                raise Fail("coupe.h: parameter of %s not understood: %r" % (name, prm))
            t = ws(mm.group(1))
        t = re.sub(r"\s*\*\s*", " *", t).strip()
        t = t.replace(" *(", " *(").replace("( *)", "(*)")
        if t not in C_TYPES:
            raise Fail("coupe.h: parameter type %r of %s is not known to the translator" % (t, name))
        params.append(C_TYPES[t])
    ret = re.sub(r"\s*\*\s*", " *", ret).strip()
    if ret not in C_TYPES:
        raise Fail("coupe.h: return type %r of %s is not known to the translator" % (ret, name))
    return name, params, C_TYPES[ret]


def analyse_entry(name, f, fns, macros):
    """One exported algorithm entry point -> dict of table fields."""
    body = f["body"]
    helpers = [h for h in fns if h != name and not fns[h]["no_mangle"] and re.search(r"\b%s\b" % re.escape(h), body)
               and ".partition(" in fns[h]["body"]]
    # the call(s) into the algorithm
    calls = [m.start() for m in re.finditer(r"\.partition\(", body)]
    for h in helpers:
        calls += [m.start() for m in re.finditer(r"\b%s\s*(?:::<[^>]*>)?\s*\(" % re.escape(h), body)]
    if not calls:
        raise Fail("%s: no call into an algorithm found" % name)
    guards = [m for m in re.finditer(r"(?<![\w:])catch_unwind\s*\(", body)]
    if re.search(r"std::panic::catch_unwind|panic::catch_unwind", body):
        raise Fail("%s: uses std::panic::catch_unwind directly (only the local wrapper is understood)" % name)
    if len(guards) > 1:
        raise Fail("%s: more than one catch_unwind" % name)
    if guards:
        g0 = guards[0].end() - 1
        g1 = match_close(body, g0)
        closure = body[g0 + 1 : g1]
        if not re.match(r"^\s*(move\s+)?\|\|\s*\{", closure):
            raise Fail("%s: argument of catch_unwind is not a closure literal" % name)
        if not re.match(r"^\s*\}\s*$", body[g1 + 1 :]):
            raise Fail("%s: catch_unwind(..) is not the tail expression of the function" % name)
        guarded = all(g0 < c < g1 for c in calls)
        pre = body[: guards[0].start()]
        region = closure
    else:
        guarded = False
        first = min(calls)
        pre = body[:first]
        # keep only what precedes the statement holding the first call
        region = body
        pre = pre[: max(pre.rfind(";"), pre.rfind("{")) + 1]
    pcs = prechecks(pre, name)
    cnt = re.search(r"let element_count = (\w+)\.len\(\);", pre)
    if not cnt:
        raise Fail("%s: element_count is not the length of a data set" % name)
    if not re.search(r"slice::from_raw_parts_mut\(partition, element_count\)", region):
        raise Fail("%s: the output slice is not `partition[..element_count]`" % name)
    if guards and re.search(r"slice::from_raw_parts_mut\(partition", pre):
        raise Fail("%s: the output slice is made outside the guarded region" % name)
    # dimension dispatch
    dims, dim_default = [], ""
    md = re.search(r"match dimension \{", region)
    if md:
        i = md.end() - 1
        arms_txt = region[i + 1 : match_close(region, i)]
        arms = []
        for a in split_top(arms_txt):
            mm = re.match(r"^\s*(\w+)\s*=>\s*(.*)$", a, re.S)
            if not mm:
                raise Fail("%s: dimension arm not understood: %r" % (name, ws(a)))
            arms.append((mm.group(1), mm.group(2)))
        for pat, rhs in arms:
            rhs = ws(rhs)
            if pat == "_":
                mm = re.match(r"^Error::(\w+)$", rhs)
                if not mm:
                    raise Fail("%s: default dimension arm not understood: %r" % (name, rhs))
                dim_default = mm.group(1)
            else:
                mm = re.match(r"^(\w+)::<(\d+)>\(partition, points, weights, algo\)$", rhs)
                if not mm or mm.group(2) != pat or mm.group(1) not in helpers:
                    raise Fail("%s: dimension arm not understood: %s => %r" % (name, pat, rhs))
                dims.append(int(pat))
        if not dim_default or not dims:
            raise Fail("%s: dimension dispatch incomplete" % name)
    elif "dimension" in f["sig"]:
        raise Fail("%s: takes a dimension but has no `match dimension`" % name)
    # where the Result is turned into a code; which macro feeds the weights / points
    text = region + "".join(fns[h]["body"] for h in helpers)
    ok_code, err = err_arms(text, name)
    flat = ws(text)
    wtypes = None
    if re.search(r"match weights\.type_\(\) \{ Type::Int => \{? ?with_iter!\(weights, (\w+),", flat):
        arms = re.findall(r"Type::(\w+) => \{? ?with_iter!\(weights, ([\w:]+), \{", flat)
        wtypes = [(t, TYPE_NAMES.get(ty)) for t, ty in arms]
        wvia = "with_iter(explicit)"
    else:
        for mac in ("with_par_iter", "with_iter", "with_slice"):
            if re.search(mac + r"!\(weights, \{", flat):
                if wtypes is not None:
                    raise Fail("%s: weights go through two macros" % name)
                wtypes, wvia = macros[mac], mac
        if wtypes is None and re.search(r"weights\.to_slice::<f64>\(\)", flat):
            wtypes, wvia = [("Double", "f64")], "to_slice"
    if not wtypes or any(t is None for _, t in wtypes):
        raise Fail("%s: how the weights are read is not understood" % name)
    pview = ""
    if "points" in f["sig"]:
        mm = re.search(r"with_par_iter!\(points, ([\w<>]+), \{", flat) or re.search(r"points\.to_slice::<([\w<>]+)>\(\)", flat)
        if not mm or mm.group(1) not in ("PointND<D>", "Point2D"):
            raise Fail("%s: how the points are read is not understood" % name)
        pview = mm.group(1)
    # the algorithm's struct literal: which C argument feeds each field, through which conversion
    lits = [m for m in re.finditer(r"\bcoupe::(\w+)\s*\{", body)]
    if len(lits) != 1:
        raise Fail("%s: expected exactly one `coupe::Alg { .. }` literal, found %d" % (name, len(lits)))
    alg = lits[0].group(1)
    i = lits[0].end() - 1
    lit = body[i + 1 : match_close(body, i)]
    fields = []
    for fld in split_top(lit):
        fld = ws(fld)
        mm = re.match(r"^(\w+)(?:\s*:\s*(.*))?$", fld, re.S)
        if not mm:
            raise Fail("%s: field of coupe::%s not understood: %r" % (name, alg, fld))
        fname, expr = mm.group(1), mm.group(2)
        if expr is None:
            fields.append((fname, "same", fname))
            continue
        m1 = re.match(r"^(\w+)$", expr)
        m2 = re.match(r"^if (\w+) == 0 \{ None \} else \{ Some\((\w+)\) \}$", expr)
        m3 = re.match(r"^if (\w+) <= 0\.0 \{ None \} else \{ Some\((\w+)\) \}$", expr)
        if m1:
            fields.append((fname, "same", m1.group(1)))
        elif m2 and m2.group(1) == m2.group(2):
            fields.append((fname, "zero_none", m2.group(1)))
        elif m3 and m3.group(1) == m3.group(2):
            fields.append((fname, "nonpositive_none", m3.group(1)))
        else:
            raise Fail("%s: value of field %s of coupe::%s not understood: %r" % (name, fname, alg, expr))
    # scalar parameters of the C function, in order
    sig = f["sig"]
    pi = sig.find("(")
    plist = sig[pi + 1 : match_close(sig, pi)]
    scalars = []
    for prm in split_top(plist):
        mm = re.match(r"^\s*(?:mut\s+)?(\w+)\s*:\s*(.+?)\s*$", prm, re.S)
        if not mm:
            raise Fail("%s: parameter not understood: %r" % (name, ws(prm)))
        pn, pt = mm.group(1), ws(mm.group(2))
        if pt in ("usize", "f64", "u32"):
            if pn != "dimension":
                scalars.append((pn, pt))
        elif not pt.startswith("*"):
            raise Fail("%s: parameter %s has type %s" % (name, pn, pt))
    for _, _, arg in fields:
        if arg not in [n for n, _ in scalars]:
            raise Fail("%s: field value %s is not a scalar parameter of the function" % (name, arg))
    # nothing may rebind a scalar parameter before it is used
    for n_, _ in scalars:
        if re.search(r"\blet\s+(?:mut\s+)?%s\b" % re.escape(n_), body):
            raise Fail("%s: parameter %s is rebound" % (name, n_))
    return dict(name=name, guarded=guarded, prechecks=pcs, count_from=cnt.group(1), dims=dims, dim_default=dim_default,
                ok_code=ok_code, err=err, wtypes=wtypes, wvia=wvia, pview=pview, alg=alg, fields=fields, scalars=scalars)


def gen_ffi_tables(errors):
    lib = strip_comments(read(LIB))
    dat = strip_comments(read(DATA))
    hdr = strip_comments(read(HDR))
    hdr = "\n".join(l for l in hdr.split("\n") if not l.lstrip().startswith("#"))
    alg = strip_comments(read("src/algorithms.rs"))
    hil = strip_comments(read("src/algorithms/hilbert_curve.rs"))

    if "export_name" in lib or "link_name" in lib or "#[no_mangle]" in dat:
        raise Fail("symbol-renaming attribute or export outside lib.rs")

    # (a) enums
    r_err = rust_enum(lib, "Error", True)
    r_ty = rust_enum(dat, "Type", True)
    h_err = c_enum(hdr, "coupe_err")
    h_ty = c_enum(hdr, "coupe_type")
    lib_err = rust_enum(alg, "Error", False)
    hil_err = rust_enum(hil, "Error", False)

    # (b) conversion(s) coupe::Error -> Error
    convs = re.findall(r"impl\s+From<([\w:]+)>\s+for\s+Error\s*\{", lib)
    if convs != ["coupe::Error"]:
        raise Fail("expected exactly `impl From<coupe::Error> for Error`, found %r" % convs)
    m = re.search(r"impl\s+From<coupe::Error>\s+for\s+Error\s*\{", lib)
    i = m.end() - 1
    conv = lib[i : match_close(lib, i) + 1]
    mm = re.search(r"match err \{", conv)
    if not mm:
        raise Fail("From<coupe::Error>: no `match err`")
    i = mm.end() - 1
    arms_txt = conv[i + 1 : match_close(conv, i)]
    arms, wildcard = [], None
    for a in [x.strip() for x in re.split(r",\s*\n", arms_txt) if x.strip()]:
        a = a.rstrip(",").strip()
        m1 = re.match(r"^coupe::Error::(\w+)\s*(?:\{\s*\.\.\s*\}|\(\s*\.\.\s*\))?\s*=>\s*Self::(\w+)$", a)
        m2 = re.match(r"^_\s*=>\s*(\w+)!\(\)$", a)
        if m1:
            arms.append((m1.group(1), m1.group(2)))
        elif m2:
            wildcard = m2.group(1)
        else:
            raise Fail("From<coupe::Error>: arm not understood: %r" % a)
    if wildcard not in ("unreachable", "unimplemented", "panic", "todo"):
        raise Fail("From<coupe::Error>: wildcard arm is %r (expected a panicking macro)" % wildcard)

    # the local guard wrapper
    fns = functions(lib)
    g = fns.get("catch_unwind")
    if not g or not re.search(r"\{\s*std::panic::catch_unwind\(f\)\.unwrap_or\(Error::(\w+)\)\s*\}", g["body"]):
        raise Fail("fn catch_unwind is not `std::panic::catch_unwind(f).unwrap_or(Error::X)`")
    guard_code = re.search(r"unwrap_or\(Error::(\w+)\)", g["body"]).group(1)

    # (c) exported functions
    macros = macro_tables(dat)
    shapes = data_accessors(dat, errors)
    exported, entries = [], []
    for name, f in fns.items():
        if f["extern_c"] and f["pub"] and not f["no_mangle"]:
            raise Fail("%s: pub extern \"C\" fn without #[no_mangle]" % name)
        if f["no_mangle"]:
            if not (f["extern_c"] and f["pub"]):
                raise Fail("%s: #[no_mangle] on a fn that is not `pub extern \"C\"`" % name)
            exported.append(name)
    n_nm = len(re.findall(r"#\[no_mangle\]", lib))
    if n_nm != len(exported):
        raise Fail("%d #[no_mangle] attributes but %d exported functions parsed" % (n_nm, len(exported)))
    for name in exported:
        f = fns[name]
        reaches_alg = ".partition(" in f["body"] or any(
            h != name and not fns[h]["no_mangle"] and ".partition(" in fns[h]["body"]
            and re.search(r"\b%s\b" % re.escape(h), f["body"]) for h in fns)
        returns_error = re.search(r"->\s*Error\s*$", f["sig"].strip()) is not None
        if reaches_alg:
            if not returns_error:
                raise Fail("%s: calls an algorithm but does not return Error" % name)
            entries.append(analyse_entry(name, f, fns, macros))
        elif returns_error:
            raise Fail("%s: returns Error but no algorithm call was found" % name)

    # (d) header prototypes
    h = hdr
    for en in ("coupe_err", "coupe_type"):
        m = re.search(r"\benum\s+" + en + r"\s*\{", h)
        i = m.end() - 1
        h = h[: m.start()] + h[match_close(h, i) + 1 :]
    h = re.sub(r'extern\s+"C"\s*\{', "", h)
    declared = []
    hsigs = []
    rsigs = [(n,) + rust_signature(n, fns[n]) for n in exported]
    for decl in h.split(";"):
        d = ws(decl).lstrip("} ")
        if not d or "(" not in d:
            if d and not re.match(r"^(typedef struct \w+ \w+|\})$", d):
                raise Fail("coupe.h: declaration not understood: %r" % d)
            continue
        m = re.match(r"^[\w\s\*]*?\b(\w+)\s*\(", d)
        if not m or not m.group(1).startswith("coupe_"):
            raise Fail("coupe.h: prototype not understood: %r" % d)
        declared.append(m.group(1))
        hsigs.append(c_signature(d))

    S = coq_str
    o = HEADER.format(src="%s, %s, %s, src/algorithms.rs, src/algorithms/hilbert_curve.rs" % (LIB, DATA, HDR))
    o += "From Coq Require Import String List NArith.\nImport ListNotations.\nLocal Open Scope string_scope.\n\n"
    o += "(* (a) #[repr(C)] enums of the glue, and the enums of coupe.h, in declaration order *)\n"
    o += "Definition ffi_rust_error_enum : list string := %s.\n" % coq_list(S(v) for v, _ in r_err)
    o += "Definition ffi_header_error_enum : list string := %s.\n" % coq_list(S(v) for v in h_err)
    o += "Definition ffi_rust_type_enum : list string := %s.\n" % coq_list(S(v) for v, _ in r_ty)
    o += "Definition ffi_header_type_enum : list string := %s.\n" % coq_list(S(v) for v in h_ty)
    o += "\n(* the error enums of the library the glue converts from *)\n"
    o += "Definition ffi_coupe_error_enum : list string := %s.\n" % coq_list(S(v) for v, _ in lib_err)
    o += "Definition ffi_hilbert_error_enum : list string := %s.\n" % coq_list(S(v) for v, _ in hil_err)
    o += "\n(* (b) arms of `impl From<coupe::Error> for Error`, its wildcard arm, and the code catch_unwind returns on a panic *)\n"
    o += "Definition ffi_error_arms : list (string * string) := %s.\n" % coq_list("(%s, %s)" % (S(a), S(b)) for a, b in arms)
    o += "Definition ffi_error_wildcard : string := %s.\n" % S(wildcard)
    o += "Definition ffi_guard_code : string := %s.\n" % S(guard_code)
    o += "\n(* (c) exported (#[no_mangle] pub extern \"C\") functions *)\n"
    o += "Definition ffi_exported : list string := %s.\n" % coq_list(S(n) for n in exported)
    o += "\n(* algorithm entry points: name, algorithm call inside the catch_unwind closure?, early returns that precede the\n"
    o += "   guarded region (condition, code) in order, data set whose length sizes the output slice, supported dimensions and the\n"
    o += "   code of the default arm, code of Ok, how Err is mapped (\"from\" = Error::from, otherwise a constant code), element type\n"
    o += "   the weights are read at for each Type tag, element type of the points, the coupe:: algorithm struct that is built,\n"
    o += "   the scalar parameters of the C function in order, and for each field of the struct literal (field, conversion, parameter)\n"
    o += "   with conversion same | zero_none (0 => None) | nonpositive_none (<= 0.0 => None) *)\n"
    o += "Record ffi_entry := mk_ffi_entry {\n  fe_name : string; fe_guarded : bool; fe_prechecks : list (string * string); fe_count_from : string;\n"
    o += "  fe_dims : list N; fe_dim_default : string; fe_ok : string; fe_err : string;\n  fe_weight_types : list (string * string); fe_weights_via : string; fe_points : string;\n  fe_alg : string; fe_scalar_args : list string; fe_fields : list (string * string * string) }.\n"
    ents = []
    for e in entries:
        ents.append("mk_ffi_entry %s %s %s %s\n     %s %s %s %s\n     %s %s %s\n     %s %s\n     %s" % (
            S(e["name"]), coq_bool(e["guarded"]),
            coq_list("(%s, %s)" % (S(a), S(b)) for a, b in e["prechecks"]), S(e["count_from"]),
            coq_list("%d%%N" % d for d in e["dims"]), S(e["dim_default"]), S(e["ok_code"]), S(e["err"]),
            coq_list("(%s, %s)" % (S(a), S(b)) for a, b in e["wtypes"]), S(e["wvia"]), S(e["pview"]),
            S(e["alg"]), coq_list(S(n) for n, _ in e["scalars"]),
            coq_list("(%s, %s, %s)" % (S(a), S(b), S(c)) for a, b, c in e["fields"])))
    o += "Definition ffi_entries : list ffi_entry := [\n  " + ";\n  ".join(ents) + "\n].\n"
    o += "\n(* element type chosen by each data macro for each Type tag; accessor shape of each representation (data.rs) *)\n"
    o += "Definition ffi_macro_types : list (string * list (string * string)) := %s.\n" % coq_list(
        "(%s, %s)" % (S(k), coq_list("(%s, %s)" % (S(a), S(b)) for a, b in v)) for k, v in sorted(macros.items()))
    o += "Definition ffi_data_accessors : list (string * string) := %s.\n" % coq_list("(%s, %s)" % (S(a), S(b)) for a, b in shapes)
    o += "\n(* what the translator could not read as the model expects (must be empty: ffi_translator_clean) *)\n"
    o += "Definition ffi_translator_errors : list string := %s.\n" % coq_list(S(clean(e)) for e in errors)
    o += "\n(* (d) functions declared in coupe.h *)\n"
    o += "Definition ffi_declared : list string := %s.\n" % coq_list(S(n) for n in declared)
    o += "\n(* prototypes on both sides: (name, parameter types in order, return type), types as ABI tokens\n"
    o += "   (usize = uintptr_t, f64 = double, u32 = uint32_t, ptr_* = pointers, enum_* = the two enums, fn_ith = the callback) *)\n"
    o += "Definition ffi_rust_prototypes : list (string * list string * string) := %s.\n" % coq_list(
        "(%s, %s, %s)" % (S(n), coq_list(S(t) for t in ps), S(r)) for n, ps, r in rsigs)
    o += "Definition ffi_header_prototypes : list (string * list string * string) := %s.\n" % coq_list(
        "(%s, %s, %s)" % (S(n), coq_list(S(t) for t in ps), S(r)) for n, ps, r in hsigs)
    return o


def clean(msg):
    return re.sub(r"[^A-Za-z0-9 _.,:;<>()\[\]{}=!&|*/+%'#@?-]", " ", msg.replace('"', "'"))[:300]


FALLBACK = """From Coq Require Import String List NArith.
Import ListNotations.
Local Open Scope string_scope.

(* The translator could not read the source as the model expects.  Well-typed empty tables: the run module still
   builds (every case then fails the correspondence, the model-free property clause is still judged, so a concrete
   failing input can still be found), Model/FfiInst.v and every theorem do not. *)
Definition ffi_translator_errors : list string := [%s].
Definition ffi_rust_error_enum : list string := [].
Definition ffi_header_error_enum : list string := [].
Definition ffi_rust_type_enum : list string := [].
Definition ffi_header_type_enum : list string := [].
Definition ffi_coupe_error_enum : list string := [].
Definition ffi_hilbert_error_enum : list string := [].
Definition ffi_error_arms : list (string * string) := [].
Definition ffi_error_wildcard : string := "".
Definition ffi_guard_code : string := "".
Definition ffi_exported : list string := [].
Record ffi_entry := mk_ffi_entry {
  fe_name : string; fe_guarded : bool; fe_prechecks : list (string * string); fe_count_from : string;
  fe_dims : list N; fe_dim_default : string; fe_ok : string; fe_err : string;
  fe_weight_types : list (string * string); fe_weights_via : string; fe_points : string;
  fe_alg : string; fe_scalar_args : list string; fe_fields : list (string * string * string) }.
Definition ffi_entries : list ffi_entry := [].
Definition ffi_macro_types : list (string * list (string * string)) := [].
Definition ffi_data_accessors : list (string * string) := [].
Definition ffi_declared : list string := [].
Definition ffi_rust_prototypes : list (string * list string * string) := [].
Definition ffi_header_prototypes : list (string * list string * string) := [].
"""


def gen_ffi():
    errors = []
    try:
        out = gen_ffi_tables(errors)
    except Fail as e:
        errors = [str(e)]
        out = HEADER.format(src="(pattern not found)") + FALLBACK % coq_str(clean(str(e)))
    for e in errors:
        # a line of the translator's output that check.py records as a broken obligation
        print("FfiTables.v error: %s" % clean(e))
    return out


GENERATORS = {"FfiTables.v": gen_ffi}


PROP = dict(
    bin="c17",
    run_targets=["Run/RunC17.vo"],
    prop_targets=["Properties/C17.vo"],
    cases=dict(quick=1500, thorough=12000),
    level="proof",
    harness_timeout=2400,
    release_too=True,
    rule="each case = one call of a C entry point of the cdylib built from the current tree (dlopen), next to the Rust API on the same "
         "values: entry drawn from the 7 algorithm entry points (+ a small share for coupe_adjncy_csr's structure check); weights and "
         "points independently through array / constant / callback (callbacks half of the time over reversed storage) x Type tag int / "
         "int64 / double; element counts 0,1,2,2^k,3..24 (40 thorough, 11 for CKK); weight families uniform, ties, zeros, one dominant, "
         "ones, small, negative, skewed; point families uniform, clustered, collinear, coincident, lattice, outlier (dyadic grid); "
         "dimension 2 / 3 / {0,1,4,5,7,usize::MAX}; mismatched points/weights lengths (shorter, longer, empty); part counts 0,1,2,3,n,n+2; "
         "Hilbert orders 0..32,33,64,u32::MAX; FM graphs path/grid/star/two cliques/random, adjacency of type int/double, wrong vertex "
         "count, a third part, 0/finite limits, negative/zero/positive/NaN imbalance; inputs that panic inside the library (NaN weight "
         "under Real::cmp, tolerance that does not convert, part count usize::MAX, i32 sums that overflow, NaN imbalance) whose C call "
         "runs in a child process; 1/6 of the geometric cases on a second copy of the library with a 4-worker pool (exact inputs only); "
         "half of the double weights of greedy / kk / ckk / hilbert are proper fractions, non-dyadic fractional parts, magnitudes beyond "
         "2^53, negative zero or subnormals; the first 18 cases of a quick run (96 of a thorough run) are LARGE data sets, n in {4095, "
         "4096, 4097, 5000, 8191, 8192, 8193, 10000}, for the entry points that copy a data set (rib points, hilbert points and weights, "
         "fiduccia_mattheyses weights; rcb in thorough) x array / constant / callback x element types in rotation: these are compared "
         "with the Rust API inside the harness and only the verdict, the first differing index, the number of differing cells and a "
         "digest of each array go to Coq (the model is not evaluated on them); "
         "distinct = distinct (thread mode, entry, dimension, both data sets with representation/tag/cells, adjacency, parameters, "
         "initial array); non-trivial = at least 2 weights",
    class_names={0: "OK", 1: "ALLOC", 2: "CRASH", 3: "BAD_DIMENSION", 4: "BAD_TYPE", 5: "BIPART_ONLY", 6: "LEN_MISMATCH",
                 7: "NOT_FOUND", 8: "NEG_VALUES", 20: "abort/unwind", 21: "hang"},
    trusted_base=[
        "axioms: none (every theorem of Properties/C17.v is closed under the global context)",
        "tools/props_d/C17.py (translator plugin): trusted to copy what it parses from ffi/src/lib.rs, ffi/src/data.rs, ffi/include/coupe.h "
        "(enum orders, conversion arms, entry-point structure by brace matching, macro element types, accessor shapes of data.rs as "
        "whole-function regexes, struct-literal fields, prototypes mapped to ABI tokens); fails closed on anything else",
        "the Rust algorithms are an abstract parameter of the model: what they compute is the subject of the other properties",
        "modelled, not verified: undefined behaviour (memory read at another type than it holds / beyond what the caller provided) is the "
        "explicit outcome UB of the model and all theorems are stated outside it; allocation failure (COUPE_ERR_ALLOC, abort on OOM) "
        "is not modelled; that an uncaught panic really aborts at an `extern \"C\"` boundary is a property of the toolchain "
        "(observed by the harness in child processes, not proved)",
        "harness: cargo builds ffi/ with the dev profile (overflow checks on, as the harness's own coupe); libloading/dlopen; rayon pools of "
        "1 worker on both sides (RAYON_NUM_THREADS), 4 workers for the second library instance",
    ],
    assumptions=[
        "memory contract of coupe.h: every data set points to cells of the announced type, the partition array has at least as many "
        "cells as the data set that sizes it, callbacks are pure and thread-safe",
        "with one rayon worker on both sides the reduction trees coincide, so float sums agree bit for bit; on the 4-worker instance "
        "only inputs whose arithmetic is exact are used (DESIGN C06: dyadic grid for Rcb, 2^k integer points for Rib/Hilbert)",
        "FiducciaMattheyses iterates over HashSets: on success only code, array length, ids in {0,1}, untouched tail and "
        "`cut not worse` are compared, not the partition",
        "points must be announced as double (fix eb2545c): a points data set with another Type tag must give BAD_TYPE with the "
        "array untouched (the memory of such cases still holds doubles, so nothing is undefined if the check were missing)",
    ],
)

MANIFEST = dict(
    text="The C glue (7 algorithm entry points) is modelled as the composition it performs -- early returns, output slice, dimension "
         "dispatch, element type chosen from the Type tag, reading of array / constant / callback data, call of an abstract Rust "
         "algorithm, Result -> code conversion, catch_unwind -- with every table it depends on regenerated from lib.rs, data.rs and "
         "coupe.h on each run. Proved for ALL inputs and ALL Rust algorithms: each entry point returns exactly the documented code of "
         "the Rust result with the Rust partition in the caller's array (ffi_agrees_*), depends on a data set only through length, tag "
         "and denoted elements (ffi_repr_indep_*, with constant/callback = array lemmas), never lets a panic out and reports it as CRASH "
         "(ffi_never_unwinds, ffi_panic_contained, every generated entry guarded); error arms total/injective/documented; repr(C) enum "
         "order = header order; exported names and prototypes = declared ones. The real cdylib, rebuilt and dlopen'ed on every run, is "
         "compared with the Rust API and with the model on 1.5k/12k generated calls.",
    design_ref="DESIGN.md §7 C17, §8 #15",
    note="Partial by nature: UB (wrong element type, short arrays) is outside the model; allocation failure not modelled; real unwinding/"
         "abort is observed (child processes), not proved. FM partitions compared only on their deterministic aspects. Trusted: Coq kernel, "
         "the translator plugin (regex/brace level, fails closed), the harness. No axioms.",
    technique="Coq proof over a table-driven glue model + translator (dispatch/err/guard/prototype tables) + dlopen correspondence with the freshly built cdylib, panicking inputs isolated in child processes",
)

"""C13 -- CompleteKarmarkarKarp."""
import os, re, sys
sys.path.insert(0, os.path.dirname(os.path.dirname(os.path.abspath(__file__))))
from translate_lib import read, fn_body, Fail, HEADER

# ---------------------------------------------------------------- C13: CKK
def gen_ckk():
    rel = "src/algorithms/ckk.rs"
    src = read(rel)
    body = fn_body(src, "ckk_bipart_rec")
    if body is None:
        raise Fail("fn ckk_bipart_rec not found")
    lits = re.findall(r"separate\s*:\s*(true|false)", body)
    if len(lits) != 2:
        raise Fail("expected two `separate:` literals in ckk_bipart_rec, found %d" % len(lits))
    # the first push follows a_minus_b, the second a_plus_b
    i1 = body.find("a_minus_b")
    i2 = body.find("a_plus_b")
    if not (0 <= i1 < i2):
        raise Fail("difference branch is expected before the sum branch")
    # the acceptance test is done in the weight type T (not in f64): the model's `w <=? tol` on Z
    nows = re.sub(r"\s+", "", body)
    sig = re.sub(r"\s+", "", src[src.find("fn ckk_bipart_rec"):src.find("fn ckk_bipart_rec") + 400])
    if "tolerance:T," not in sig:
        raise Fail("ckk_bipart_rec: `tolerance: T` parameter not found (the bound must be held in the weight type)")
    if "iflast_weight<=tolerance{" not in nows:
        raise Fail("ckk_bipart_rec: base case `if last_weight <= tolerance {` not found")
    top = fn_body(src, "ckk_bipart")
    if top is None:
        raise Fail("fn ckk_bipart not found")
    if "lettolerance=T::from_f64(sum.to_f64().unwrap()*tolerance).unwrap();" not in re.sub(r"\s+", "", top):
        raise Fail("ckk_bipart: `let tolerance = T::from_f64(sum.to_f64().unwrap() * tolerance).unwrap();` not found "
                   "(the model's tol_int mirrors exactly this conversion)")
    out = HEADER.format(src=rel)
    out += "Definition ckk_diff_branch_separate : bool := %s.\n" % lits[0]
    out += "Definition ckk_sum_branch_separate : bool := %s.\n" % lits[1]
    return out


GENERATORS = {"CkkGen.v": gen_ckk}



PROP = dict(
    bin="c13",
    run_targets=["Run/RunC13.vo"],
    prop_targets=["Properties/C13.vo"],
    cases=dict(quick=6000, thorough=40000),
    level="proof",
    rule="cases drawn from 13 families (two or more weights whose only achievable difference is 2^k+e, k in 53..60, against a bound of 2^k: the binary64 boundary of the tolerance conversion; weights with a total near 0.75*i64::MAX, random element of the exhaustive space of vectors over {0..4} up to length 6, "
         "two-largest-balance-the-rest, random, ties, one dominant, perfect partition exists, zeros, long+loose tolerance, tiny, "
         "large values) x 10 tolerance choices (0, exact d/total, fixed, random), plus a malformed stream (partition length "
         "shorter/longer/empty); thorough tier: the first 19530 cases enumerate EVERY vector over {0..4} of length 1..6 at "
         "tolerance 0; distinct = distinct (weights, tolerance bits, partition length); non-trivial = at least 3 weights and "
         "matching lengths",
    class_names={0: "Ok", 1: "NotFound", 2: "other error", 3: "panic", 4: "hang"},
    trusted_base=[
        "axioms: none (every theorem of Properties/C13.v is closed under the global context)",
        "modelled, not verified: i64 overflow of the weight sum (contract: sums do not overflow), f64 weights (run with integer weights only)",
    ],
    assumptions=[
        "weights are non-negative i64 whose sum does not overflow",
        "num_traits FromPrimitive::from_f64 for i64 = truncation toward zero, None outside [-2^63, 2^63)",
        "sort_unstable_by on (weight, index) pairs is a sort (indices distinct, so the order is total)",
    ],
)

MANIFEST = dict(
    text="Theorems C13_sound / C13_complete / C13_terminates / C13_no_panic proved for ALL non-negative weight vectors, tolerances and "
         "initial arrays about a line-by-line Gallina model of ckk.rs (search, sorted insertion, back-tracking build, f64 tolerance "
         "conversion); the literal that decides the property (the `separate` flag of each branch) is re-read from the source on "
         "every run, the rest of the model is compared with the implementation on generated inputs, and a checker proved equivalent "
         "to the property (incl. a subset-sum decision procedure for NotFound) judges every implementation output.",
    design_ref="DESIGN.md §7 C13",
    note="Trusted: Coq kernel; the model<->code tie is the translator (two literals) plus differential runs (1.5k/12k cases); "
         "SpecFloat = hardware f64 multiply; i64 sums do not overflow (contract). No axioms.",
    technique="Coq proof (induction on the search) + translator + model/implementation correspondence + certified checker",
)

#!/bin/sh
# usage: tools/merge_branch.sh wip/Cxx  -- merge a builder branch; generated files are regenerated, ours win for evidence of other properties
set -e
cd "$(dirname "$0")/.."
b="$1"
git merge --no-ff "$b" -m "merge $b" >/dev/null 2>&1 || true
for f in $(git diff --name-only --diff-filter=U); do
  case "$f" in
    MANIFEST.json) git checkout --ours -- "$f" ;;
    evidence/*) git checkout --ours -- "$f" 2>/dev/null || git checkout --theirs -- "$f" ;;
    known_findings.json) echo "CONFLICT in known_findings.json: resolve by hand"; exit 1 ;;
    *) echo "CONFLICT in $f: resolve by hand"; exit 1 ;;
  esac
  git add "$f"
done
python3 tools/mkmanifest.py
git add -A
git commit -qm "merge $b" || true
git log --oneline | head -1

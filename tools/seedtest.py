#!/usr/bin/env python3
"""Confirm a seeded change and run the checks against it.

usage: seedtest.py PROP SRC_DIR NAME [--checks C13,C01] [--no-suite] [--demo-dest tests|tools/tests|...]
  SRC_DIR holds patch.diff, demo.rs (or other demo), meta.json as delivered by a seeding agent.
Steps (all in a scratch worktree of /repo under /tmp, removed afterwards):
  1. demo passes on the unchanged tree
  2. patch applies; demo fails with it
  3. the existing test suite passes with it
  4. ./check <each check> with VERIF_REPO=<worktree>  -> expects a VIOLATION
Result: /verif/seeded/<NAME>/{patch.diff, demo.*, meta.json}  (kept only if 1-3 hold)
"""
import json
import os
import re
import shutil
import subprocess
import sys
import time

ROOT = os.path.dirname(os.path.dirname(os.path.abspath(__file__)))


def sh(cmd, cwd=None, timeout=3600, env=None):
    e = dict(os.environ)
    e["CARGO_NET_OFFLINE"] = "true"
    if env:
        e.update(env)
    p = subprocess.run(cmd, cwd=cwd, shell=True, stdout=subprocess.PIPE, stderr=subprocess.STDOUT, timeout=timeout, env=e)
    return p.returncode, p.stdout.decode("utf-8", "replace")


def main():
    prop, src, name = sys.argv[1:4]
    checks = [prop]
    suite = True
    dest = "tests"
    pre = ""
    dflags = ""
    args = sys.argv[4:]
    i = 0
    while i < len(args):
        if args[i] == "--checks":
            checks = args[i + 1].split(","); i += 2
        elif args[i] == "--no-suite":
            suite = False; i += 1
        elif args[i] == "--demo-dest":
            dest = args[i + 1]; i += 2
        elif args[i] == "--demo-flags":
            dflags = args[i + 1] + " "; i += 2
        elif args[i] == "--pre":
            pre = args[i + 1] + " >/dev/null 2>&1; "; i += 2
        else:
            i += 1
    wt = "/tmp/mut-" + name
    sh("git -C /repo worktree remove --force %s" % wt)
    rc, out = sh("git -C /repo worktree add -q %s HEAD" % wt)
    assert rc == 0, out
    res = dict(property=prop, name=name, checks={}, ran=[])
    try:
        meta = {}
        mp = os.path.join(src, "meta.json")
        if os.path.exists(mp):
            try:
                meta = json.load(open(mp))
            except ValueError:
                meta = {"raw": open(mp).read()}
        demos = [f for f in os.listdir(src) if f not in ("patch.diff", "meta.json")]
        demo_rs = [f for f in demos if f.endswith(".rs")]
        tname = "seed_demo_" + re.sub(r"\W", "_", name).lower()
        run_demo = None
        if demo_rs:
            os.makedirs(os.path.join(wt, dest), exist_ok=True)
            shutil.copy(os.path.join(src, demo_rs[0]), os.path.join(wt, dest, tname + ".rs"))
            crate_dir = os.path.dirname(dest) or "."
            run_demo = "cd %s && %scargo test --offline %s--test %s 2>&1 | tail -15" % (os.path.join(wt, crate_dir), pre, dflags, tname)
        if run_demo:
            rc, out = sh(run_demo)
            ok0 = "test result: ok" in out and "FAILED" not in out
            res["demo_passes_without_change"] = ok0
            res["ran"].append(run_demo)
            if not ok0:
                res["demo_out0"] = out[-800:]
        rc, out = sh("git apply %s" % os.path.join(os.path.abspath(src), "patch.diff"), cwd=wt)
        res["patch_applies"] = rc == 0
        if rc != 0:
            res["apply_out"] = out[-500:]
        if run_demo and rc == 0:
            rc2, out = sh(run_demo)
            res["demo_fails_with_change"] = ("FAILED" in out) or ("test result: ok" not in out)
            res["demo_out1"] = out[-600:]
        if suite and res["patch_applies"]:
            # the demo file is not part of the suite: move it away
            if demo_rs:
                os.remove(os.path.join(wt, dest, tname + ".rs"))
            t0 = time.time()
            rc, out = sh("cargo test --workspace --no-fail-fast --offline 2>&1 | grep -E '^test result|FAILED|panicked' ", cwd=wt)
            passed = sum(int(x) for x in re.findall(r"(\d+) passed", out))
            failed = sum(int(x) for x in re.findall(r"(\d+) failed", out))
            res["suite_with_change"] = dict(passed=passed, failed=failed, wall_s=round(time.time() - t0))
            res["ran"].append("cargo test --workspace --no-fail-fast --offline")
        if res["patch_applies"]:
            for c in checks:
                t0 = time.time()
                rc, out = sh("./check %s --tier quick" % c, cwd=ROOT, env={"VERIF_REPO": wt})
                vio = [l for l in out.split("\n") if l.startswith("VIOLATION")]
                res["checks"][c] = dict(rc=rc, violation=vio[:1], tail=out.strip().split("\n")[-1], wall_s=round(time.time() - t0))
                res["ran"].append("VERIF_REPO=%s ./check %s --tier quick" % (wt, c))
                if vio:
                    m = re.search(r"replay=(\S+)", vio[0])
                    if m and os.path.exists(m.group(1)):
                        r = json.load(open(m.group(1)))
                        res["checks"][c]["replay_kind"] = r.get("kind")
                        res["checks"][c]["replay_detail"] = r.get("detail", "")[:300]
        valid = res.get("patch_applies") and res.get("demo_passes_without_change", True) and \
            res.get("demo_fails_with_change", True) and (not suite or res.get("suite_with_change", {}).get("failed", 1) == 0)
        res["valid_seed"] = bool(valid)
        if valid:
            d = os.path.join(ROOT, "seeded", name)
            os.makedirs(d, exist_ok=True)
            shutil.copy(os.path.join(src, "patch.diff"), os.path.join(d, "patch.diff"))
            for f in demos:
                shutil.copy(os.path.join(src, f), os.path.join(d, f))
            m = dict(breaks_property=prop, agent_meta=meta, confirmed=res)
            # keep earlier confirmations (first run with the suite, runs before the check was strengthened)
            oldp = os.path.join(d, "meta.json")
            if os.path.exists(oldp):
                try:
                    o = json.load(open(oldp))
                    h = o.get("history", [])
                    if not isinstance(h, list):
                        h = [h]
                    m["history"] = h + [o.get("confirmed")]
                except ValueError:
                    pass
            json.dump(m, open(os.path.join(d, "meta.json"), "w"), indent=1)
    finally:
        sh("git -C /repo worktree remove --force %s" % wt)
        alt = "-" + re.sub(r"\W", "_", wt)
        shutil.rmtree(os.path.join(ROOT, ".cache", "target" + alt), ignore_errors=True)
        shutil.rmtree(os.path.join(ROOT, ".cache", "harness" + alt), ignore_errors=True)
        # restore generated files the mutated tree may have changed
        sh("python3 tools/translate.py", cwd=ROOT)
    print(json.dumps(res, indent=1))


if __name__ == "__main__":
    main()

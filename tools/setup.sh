#!/bin/sh
# MANIFEST.setup_cmd: build the framework from files on disk only (offline).
set -e
cd "$(dirname "$0")/.."
export CARGO_NET_OFFLINE=true
mkdir -p .cache evidence replays
python3 tools/translate.py || true
tools/mkcoqproject.sh
timeout 3000 make -C coq -j16
[ -f harness/Cargo.lock ] || cp /repo/Cargo.lock harness/Cargo.lock
(cd harness && timeout 3000 cargo build --offline --bins && timeout 3000 cargo build --offline --release --bin c01 --bin c02 --bin c07)
echo setup done

#!/usr/bin/env python3
"""Translator: regenerates coq/Gen/*.v from /repo's CURRENT source on every run.

It extracts the constants, literal tables and guard orders that the Coq proofs
depend on, so that those proofs are re-checked against what the code says now.
It fails closed: when an expected pattern is not found, the generated file
contains a definition that makes the dependent proof fail (and the reason is
reported), never a silently stale value.

usage: translate.py [--repo /repo] [--out /verif/coq/Gen] [--only NAME ...]
Prints one line per generated file: "<file> unchanged|changed|error: ...".
"""
import os
import re
import sys

import translate_lib
from translate_lib import Fail, HEADER

OUT = os.path.join(os.path.dirname(os.path.abspath(__file__)), "..", "coq", "Gen")


def load_generators():
    """Collect the GENERATORS dicts of tools/props_d/*.py."""
    import importlib.util
    gens = {}
    d = os.path.join(os.path.dirname(os.path.abspath(__file__)), "props_d")
    for f in sorted(os.listdir(d)):
        if not f.endswith(".py"):
            continue
        spec = importlib.util.spec_from_file_location("props_d_" + f[:-3], os.path.join(d, f))
        m = importlib.util.module_from_spec(spec)
        spec.loader.exec_module(m)
        gens.update(getattr(m, "GENERATORS", {}))
    return gens


def main(argv):
    global OUT
    only = None
    i = 1
    while i < len(argv):
        if argv[i] == "--repo":
            translate_lib.REPO = argv[i + 1]; i += 2
        elif argv[i] == "--out":
            OUT = argv[i + 1]; i += 2
        elif argv[i] == "--only":
            only = argv[i + 1 :]; break
        else:
            i += 1
    os.makedirs(OUT, exist_ok=True)
    rc = 0
    for name, gen in load_generators().items():
        if only and name not in only:
            continue
        path = os.path.join(OUT, name)
        try:
            text = gen()
            status = None
        except Fail as e:
            # Fail closed for the PROOFS (tools/check.py counts a translator error as a broken
            # obligation) but keep the run module buildable: the previous snapshot's values stay,
            # so that the correspondence run and the search for a failing input can still happen.
            status = "error: %s" % e
            rc = 2
            if os.path.exists(path):
                print("%s %s" % (name, status))
                continue
            text = HEADER.format(src="(pattern not found)") + \
                "(* translator error: %s *)\nDefinition translator_failed_%s : False := I.\n" % (e, name.replace(".v", ""))
        old = None
        if os.path.exists(path):
            with open(path) as f:
                old = f.read()
        if old != text:
            with open(path, "w") as f:
                f.write(text)
            status = status or "changed"
        else:
            status = status or "unchanged"
        print("%s %s" % (name, status))
    return rc


if __name__ == "__main__":
    sys.exit(main(sys.argv))

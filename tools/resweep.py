#!/usr/bin/env python3
"""Re-run the quick check of each kept seeded change against the current machinery.

usage: resweep.py NAME [NAME ...]        (names of directories under seeded/)
For every seed: scratch worktree of /repo HEAD under /tmp, apply seeded/NAME/patch.diff,
run `./check PROP --tier quick` with VERIF_REPO pointing at it (from THIS checkout of the
framework, so several checkouts can sweep in parallel), record the outcome in
seeded/NAME/meta.json (`confirmed.checks`; the previous outcome moves to `history`), remove
the worktree.  The demonstration and the suite are not re-run (they were confirmed when the
seed was kept and /repo has only gained fix commits since: a patch that no longer applies is
reported as `stale`).
"""
import json
import os
import re
import shutil
import subprocess
import sys
import time

ROOT = os.path.dirname(os.path.dirname(os.path.abspath(__file__)))


def sh(cmd, cwd=None, timeout=3600, env=None):
    e = dict(os.environ)
    e["CARGO_NET_OFFLINE"] = "true"
    if env:
        e.update(env)
    p = subprocess.run(cmd, cwd=cwd, shell=True, stdout=subprocess.PIPE, stderr=subprocess.STDOUT, timeout=timeout, env=e)
    return p.returncode, p.stdout.decode("utf-8", "replace")


def main():
    for name in sys.argv[1:]:
        d = os.path.join(ROOT, "seeded", name)
        mp = os.path.join(d, "meta.json")
        m = json.load(open(mp))
        prop = m["breaks_property"]
        wt = "/tmp/mut-" + name
        sh("git -C /repo worktree remove --force %s" % wt)
        rc, out = sh("git -C /repo worktree add -q %s HEAD" % wt)
        res = {}
        try:
            rc, out = sh("git apply %s" % os.path.join(d, "patch.diff"), cwd=wt)
            if rc != 0:
                res = dict(stale=True, tail="patch no longer applies to /repo HEAD: " + out[-200:])
            else:
                checks = list(m.get("confirmed", {}).get("checks", {}).keys()) or [prop]
                for c in checks:
                    t0 = time.time()
                    rc, out = sh("./check %s --tier quick" % c, cwd=ROOT, env={"VERIF_REPO": wt})
                    vio = [l for l in out.split("\n") if l.startswith("VIOLATION")]
                    r = dict(rc=rc, violation=vio[:1], tail=out.strip().split("\n")[-1], wall_s=round(time.time() - t0),
                             repo_head=sh("git -C /repo rev-parse --short HEAD")[1].strip())
                    if vio:
                        mm = re.search(r"replay=(\S+)", vio[0])
                        if mm and os.path.exists(mm.group(1)):
                            rp = json.load(open(mm.group(1)))
                            r["replay_kind"] = rp.get("kind")
                            r["replay_detail"] = rp.get("detail", "")[:300]
                    res[c] = r
        finally:
            sh("git -C /repo worktree remove --force %s" % wt)
            alt = "-" + re.sub(r"\W", "_", wt)
            for sub in ("target", "harness", "evidence"):
                shutil.rmtree(os.path.join(ROOT, ".cache", sub + alt), ignore_errors=True)
        if res.get("stale"):
            m.setdefault("resweep", []).append(res)
        else:
            h = m.get("history", [])
            if not isinstance(h, list):
                h = [h]
            old = m.get("confirmed", {})
            h.append(dict(checks=old.get("checks", {})))
            m["history"] = h
            m.setdefault("confirmed", {})["checks"] = res
        json.dump(m, open(mp, "w"), indent=1)
        line = "; ".join("%s %s" % (c, ("VIOLATION" + (" nofail" if "no-failing-input-found" in r["violation"][0] else "")) if r.get("violation") else "MISSED")
                         for c, r in res.items() if isinstance(r, dict)) if not res.get("stale") else "STALE"
        print("%s: %s" % (name, line), flush=True)
    sh("python3 tools/translate.py", cwd=ROOT)


if __name__ == "__main__":
    main()

#!/usr/bin/env python3
"""Writes docs/SEEDED.md: every kept seeded change and what the checks reported on it."""
import glob, json, os, re
ROOT = os.path.dirname(os.path.dirname(os.path.abspath(__file__)))
out = ["# Seeded changes (mutation campaign)\n",
       "Each change was written by an independent sub-agent that saw only the property text and a scratch worktree of",
       "coupe (nothing from /verif). Kept only after confirmation in a scratch worktree by `tools/seedtest.py`: the patch",
       "applies, its demonstration passes without and fails with the change, the 57-test suite (+18 doctests) still passes.",
       "Then `VERIF_REPO=<worktree> ./check <property> --tier quick` was run. `mismatches` = model != implementation,",
       "`rejections` = the certified checker says the property fails on that output (a concrete failing input).\n",
       "| seed | change | needs to manifest | result of the check |", "|---|---|---|---|"]
for d in sorted(glob.glob(os.path.join(ROOT, "seeded", "*"))):
    mp = os.path.join(d, "meta.json")
    if not os.path.exists(mp):
        continue
    m = json.load(open(mp))
    am = m.get("agent_meta", {}) or {}
    res = []
    for k, v in m["confirmed"].get("checks", {}).items():
        mm = re.search(r"mismatches=(\d+) rejections=(\d+)", v.get("tail", ""))
        if v.get("violation"):
            nf = "no-failing-input-found" in v["violation"][0]
            res.append("%s: VIOLATION %s (%s mismatches, %s rejections)" % (
                k, "without a failing input" if nf else "with a failing input", mm.group(1) if mm else "?", mm.group(2) if mm else "?"))
        elif "KeyError" in v.get("tail", ""):
            continue
        else:
            res.append("%s: MISSED" % k)
    hist = m.get("history", "")
    if isinstance(hist, list):
        hs = []
        for h in hist:
            if isinstance(h, str):
                hs.append(h)
            elif isinstance(h, dict):
                for k, v in h.get("checks", {}).items():
                    if v.get("violation"):
                        if "no-failing-input-found" in v["violation"][0]:
                            hs.append("earlier run of %s: VIOLATION without a failing input (generator strengthened since)" % k)
                    else:
                        hs.append("earlier run of %s: MISSED (check strengthened since)" % k)
        seen = []
        for x in hs:
            if x not in seen:
                seen.append(x)
        hist = "; ".join(seen)
    clean = lambda s: (s or "").replace("|", "/").replace("\n", " ")
    out.append("| %s | %s | %s | %s%s |" % (os.path.basename(d), clean(am.get("summary"))[:400], clean(am.get("needs_to_manifest"))[:300],
                                           "; ".join(res), ((" — " + hist) if hist else "") + ((" — NOTE: " + clean(m.get("note"))) if m.get("note") else "")))
open(os.path.join(ROOT, "docs", "SEEDED.md"), "w").write("\n".join(out) + "\n")
print("docs/SEEDED.md: %d seeds" % (len(out) - 8))

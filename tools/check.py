#!/usr/bin/env python3
"""Entry point of every check:  ./check Cxx [--tier quick|thorough] [--replay FILE]

Pipeline (DESIGN §2, §5):
  1. lint the Coq development (no Admitted/Axiom/... anywhere)
  2. translator: regenerate coq/Gen/*.v from /repo's current source
  3. build the run module (model + generated constants) and the property's
     theorem file (forced re-check; Print Assumptions captured and compared
     with the allowlist)
  4. build the Rust harness against /repo's working tree, generate cases,
     run the implementation, evaluate model + certified checker inside coqc
  5. verdict, evidence file, VIOLATION / KNOWN-FINDING lines
"""
import concurrent.futures
import fcntl
import json
import os
import re
import subprocess
import sys
import time

ROOT = os.path.dirname(os.path.dirname(os.path.abspath(__file__)))
COQ = os.path.join(ROOT, "coq")
CACHE = os.path.join(ROOT, ".cache")
sys.path.insert(0, os.path.join(ROOT, "tools"))
import props  # noqa: E402

# The repository under check.  VERIF_REPO lets the integrator point the whole pipeline at a scratch
# worktree (mutation testing) without touching /repo; registered commands always use /repo.
REPO = os.environ.get("VERIF_REPO", "/repo")
ALT = "" if REPO == "/repo" else "-" + re.sub(r"\W", "_", REPO)

FORBIDDEN = [
    r"\bAdmitted\b", r"\badmit\b", r"\bAxiom\b", r"\bAxioms\b", r"\bParameter\b", r"\bParameters\b",
    r"\bConjecture\b", r"\bAdmit Obligations\b", r"Unset Guard", r"bypass_check", r"type-in-type",
    r"impredicative-set", r"Unset Universe Checking", r"Unset Positivity", r"\bnative_compute\b",
]
# axioms of the standard library that may appear under Print Assumptions (named in the trusted base)
AXIOM_ALLOW = {
    "ClassicalDedekindReals.sig_forall_dec", "ClassicalDedekindReals.sig_not_dec",
    "FunctionalExtensionality.functional_extensionality_dep", "Classical_Prop.classic",
    "ProofIrrelevance.proof_irrelevance", "Eqdep.Eq_rect_eq.eq_rect_eq",
}


def sh(cmd, cwd=None, timeout=None, env=None):
    e = dict(os.environ)
    e["CARGO_NET_OFFLINE"] = "true"
    if env:
        e.update(env)
    try:
        p = subprocess.run(cmd, cwd=cwd, shell=isinstance(cmd, str), stdout=subprocess.PIPE,
                           stderr=subprocess.STDOUT, timeout=timeout, env=e)
        return p.returncode, p.stdout.decode("utf-8", "replace")
    except subprocess.TimeoutExpired as ex:
        out = ex.stdout.decode("utf-8", "replace") if ex.stdout else ""
        return 124, out + "\n[timeout after %ss]" % timeout


class Lock:
    def __init__(self, name):
        os.makedirs(CACHE, exist_ok=True)
        self.f = open(os.path.join(CACHE, name + ".lock"), "w")

    def __enter__(self):
        fcntl.flock(self.f, fcntl.LOCK_EX)

    def __exit__(self, *a):
        fcntl.flock(self.f, fcntl.LOCK_UN)


def strip_comments(s):
    out, depth, i = [], 0, 0
    while i < len(s):
        if s.startswith("(*", i):
            depth += 1; i += 2
        elif s.startswith("*)", i) and depth:
            depth -= 1; i += 2
        else:
            if not depth:
                out.append(s[i])
            i += 1
    return "".join(out)


def lint():
    """Forbidden constructs anywhere in the development; Variable/Hypothesis outside a section."""
    hits = []
    for d, _, fs in os.walk(COQ):
        for f in fs:
            if not f.endswith(".v"):
                continue
            path = os.path.join(d, f)
            text = strip_comments(open(path).read())
            for pat in FORBIDDEN:
                for m in re.finditer(pat, text):
                    hits.append("%s: %s" % (os.path.relpath(path, ROOT), m.group(0)))
            depth = 0
            for line in text.split("\n"):
                if re.match(r"\s*Section\s+\w+", line):
                    depth += 1
                elif re.match(r"\s*End\s+\w+", line) and depth:
                    depth -= 1  # (also closes Modules; conservative enough: Modules are not used)
                elif depth == 0 and re.match(r"\s*(Variables?|Hypothes[ie]s|Context)\b", line):
                    hits.append("%s: %s outside a section" % (os.path.relpath(path, ROOT), line.strip()))
    return hits


def parse_assumptions(out):
    """Returns (n_closed, axioms:set) from the output of compiling a Properties file.
    An `Axioms:` block lists one axiom per entry: the name starts in column 0, its type follows
    on the same line (`name : type`) or on indented continuation lines (`  : type ...`)."""
    closed = out.count("Closed under the global context")
    axioms = set()
    in_block = False
    for line in out.split("\n"):
        if line.startswith("Axioms:"):
            in_block = True
            continue
        if not in_block:
            continue
        if line.startswith(" ") or line.startswith("\t") or line == "":
            continue  # continuation of the previous entry
        m = re.match(r"^([A-Za-z_][\w.']*)\s*(:|$)", line)
        if m and not line.startswith("Closed under") and not line.startswith("COQC") and not line.startswith("make"):
            axioms.add(m.group(1))
        else:
            in_block = False
    return closed, axioms


def theorems_of(vfile):
    text = strip_comments(open(vfile).read())
    return re.findall(r"^\s*(?:Theorem|Lemma|Example|Corollary)\s+([\w']+)", text, re.M)


def theorem_at_line(vfile, line):
    name = None
    for i, l in enumerate(open(vfile).read().split("\n"), 1):
        m = re.match(r"\s*(?:Theorem|Lemma|Example|Corollary|Definition|Fixpoint)\s+([\w']+)", l)
        if m and i <= line:
            name = m.group(1)
    return name


def coq_build(cfg, log):
    """Returns dict(ok_run, ok_props, broken: [desc], axioms, theorems, discharged)."""
    res = dict(ok_run=False, ok_props=False, broken=[], axioms=set(), closed=0, theorems=[], discharged=0)
    with Lock("coq"):
        rc, out = sh([os.path.join(ROOT, "tools", "mkcoqproject.sh")])
        if rc != 0:
            res["broken"].append("mkcoqproject failed: " + out[-300:])
            return res
        run_targets = cfg.get("run_targets", [])
        rc, out = sh(["make", "-j16"] + run_targets, cwd=COQ, timeout=1800)
        log.write("== make run targets\n" + out + "\n")
        if rc != 0:
            res["broken"].append("run module does not build: " + first_error(out))
            return res
        res["ok_run"] = True
        prop_targets = cfg["prop_targets"]
        for t in prop_targets:  # force the re-check of the theorem files themselves
            for ext in (".vo", ".glob", ".vok", ".vos"):
                try:
                    os.remove(os.path.join(COQ, t[:-3] + ext))
                except OSError:
                    pass
        rc, out = sh(["make", "-j16"] + prop_targets, cwd=COQ, timeout=3000)
        log.write("== make property targets\n" + out + "\n")
        for t in prop_targets:
            res["theorems"] += theorems_of(os.path.join(COQ, t[:-1]))
        if rc != 0:
            m = re.search(r'File "\./([^"]+)", line (\d+)', out)
            where = ""
            if m:
                th = theorem_at_line(os.path.join(COQ, m.group(1)), int(m.group(2)))
                where = "%s line %s (%s)" % (m.group(1), m.group(2), th)
            res["broken"].append("proof obligation no longer checks: %s: %s" % (where, first_error(out)))
            return res
        res["ok_props"] = True
        res["closed"], res["axioms"] = parse_assumptions(out)
        res["discharged"] = len(res["theorems"])
        bad = res["axioms"] - AXIOM_ALLOW
        if bad:
            res["broken"].append("Print Assumptions reports axioms outside the allowlist: " + ", ".join(sorted(bad)))
            res["ok_props"] = False
    return res


def gen_deps(cfg):
    """Generated files (Gen/*.v) in the dependency closure of the property's Coq targets, read from the
    dependency file coq_makefile maintains.  None = unknown (be conservative: every generator counts)."""
    dfile = os.path.join(COQ, ".Makefile.d")
    if not os.path.exists(dfile):
        return None
    deps = {}
    for line in open(dfile):
        if ":" not in line:
            continue
        lhs, rhs = line.split(":", 1)
        srcs = [x for x in rhs.split() if x.endswith(".vo")]
        for t in lhs.split():
            if t.endswith(".vo"):
                deps.setdefault(t, set()).update(srcs)
    todo = list(cfg.get("run_targets", [])) + list(cfg["prop_targets"])
    seen = set()
    while todo:
        t = todo.pop()
        if t in seen:
            continue
        seen.add(t)
        todo.extend(deps.get(t, ()))
    if not any(t in deps for t in cfg["prop_targets"]):
        return None
    return {os.path.basename(t)[:-1] for t in seen if t.startswith("Gen/")}


def first_error(out):
    m = re.search(r"(File [^\n]+\n)?Error:?[^\n]*\n?[^\n]*", out)
    return (m.group(0) if m else out[-300:]).replace("\n", " ").strip()[:400]


def harness_dir():
    hdir = os.path.join(ROOT, "harness")
    if not ALT:
        return hdir
    import shutil
    alt = os.path.join(CACHE, "harness" + ALT)
    if os.path.exists(alt):
        shutil.rmtree(alt)
    shutil.copytree(hdir, alt, ignore=shutil.ignore_patterns("target"))
    t = open(os.path.join(alt, "Cargo.toml")).read().replace('"/repo', '"' + REPO)
    open(os.path.join(alt, "Cargo.toml"), "w").write(t)
    open(os.path.join(alt, ".cargo", "config.toml"), "w").write(
        '[net]\noffline = true\n[build]\ntarget-dir = "%s"\n' % os.path.join(CACHE, "target" + ALT))
    return alt


def cargo_build(cfg, log, release=False):
    hdir = harness_dir()
    lock = os.path.join(hdir, "Cargo.lock")
    if not os.path.exists(lock):
        import shutil
        shutil.copy(os.path.join(REPO, "Cargo.lock"), lock)
    cmd = ["cargo", "build", "--offline", "--bin", cfg["bin"]]
    if release:
        cmd.append("--release")
    with Lock("cargo"):
        rc, out = sh(cmd, cwd=hdir, timeout=3000)
    log.write("== cargo build\n" + out[-3000:] + "\n")
    return rc == 0, out


def parse_report(out):
    """`= ([(i, c); ...], [cls; ...]) : ...` -> (failures, classes)"""
    m = re.search(r"=\s*\((\[.*?\]),\s*(\[.*?\])\)\s*:", out, re.S)
    if not m:
        return None
    fails = [(int(a), int(b)) for a, b in re.findall(r"\((\d+)(?:%N)?,\s*(\d+)(?:%N)?\)", m.group(1))]
    classes = [int(x) for x in re.findall(r"(\d+)(?:%N)?", m.group(2))]
    return fails, classes


def run_cases(cfg, seed, ncases, tier, tag, log, only=None, release=False):
    """Generate + run implementation + evaluate in Coq.  Returns dict."""
    out_dir = os.path.join(CACHE, "run", cfg["id"] + "-" + tag)
    os.makedirs(out_dir, exist_ok=True)
    binpath = os.path.join(CACHE, "target" + ALT, "release" if release else "debug", cfg["bin"])
    cmd = [binpath, "--seed", str(seed), "--cases", str(ncases), "--out", out_dir, "--tier", tier]
    env = {"VERIF_REPO": REPO}
    if only is not None:
        cmd += ["--only", str(only)]
    rc, out = sh(cmd, timeout=cfg.get("harness_timeout", 1500), env=env)
    log.write("== harness %s\n%s\n" % (" ".join(cmd), out[-2000:]))
    if rc != 0:
        return dict(error="harness failed (rc=%s): %s" % (rc, out[-400:]))
    meta = json.load(open(os.path.join(out_dir, "meta.json")))
    shards = sorted(f for f in os.listdir(out_dir) if re.match(r"cases_\d+\.v$", f))

    def one(f):
        return f, sh(["coqc", "-Q", COQ, "Coupe", "-noglob", f], cwd=out_dir, timeout=cfg.get("coqc_timeout", 900))

    fails, classes, errors = [], {}, []
    with concurrent.futures.ThreadPoolExecutor(16) as ex:
        results = list(ex.map(one, shards))
    # a shard that timed out (loaded machine) is evaluated again, alone, with a much longer limit:
    # a slow machine must not turn into an alarm
    for i, (f, (rc, o)) in enumerate(results):
        if rc == 124:
            results[i] = (f, sh(["coqc", "-Q", COQ, "Coupe", "-noglob", f], cwd=out_dir,
                                timeout=4 * cfg.get("coqc_timeout", 900)))
    if True:
        for f, (rc, o) in results:
            k = int(re.findall(r"\d+", f)[0])
            rep = parse_report(o) if rc == 0 else None
            if rep is None:
                errors.append("%s: coqc rc=%s %s" % (f, rc, o[-300:].replace("\n", " ")))
                continue
            for pos, code in rep[0]:
                fails.append((k, pos, code))
            for c in rep[1]:
                classes[c] = classes.get(c, 0) + 1
    cases = []
    with open(os.path.join(out_dir, "cases.jsonl")) as f:
        for line in f:
            try:
                cases.append(json.loads(line))
            except ValueError:
                cases.append({"raw": line.strip()})
    if cfg["bin"] != props.PROPS[cfg["id"]]["bin"]:
        for c in cases:   # a case of an extra binary says so (replays)
            c["bin"] = cfg["bin"]
    bykey = {(c.get("shard"), c.get("pos")): c for c in cases}
    failing = []
    for k, pos, code in fails:
        c = bykey.get((k, pos), {})
        failing.append(dict(code=code, case=c))
    for f in os.listdir(out_dir):  # keep the directory small
        if f.endswith(".vo") or f.endswith(".aux") or f.endswith(".glob"):
            try:
                os.remove(os.path.join(out_dir, f))
            except OSError:
                pass
    return dict(meta=meta, failing=failing, classes=classes, errors=errors, cases=cases, out_dir=out_dir)


def load_known():
    p = os.path.join(ROOT, "known_findings.json")
    if not os.path.exists(p):
        return []
    return json.load(open(p)).get("findings", [])


def write_replay(cfg, seed, tier, n, kind, detail, case):
    d = os.path.join(ROOT, "replays")
    os.makedirs(d, exist_ok=True)
    path = os.path.join(d, "%s-%s-%d.json" % (cfg["id"], seed, n))
    obj = dict(property=cfg["id"], kind=kind, detail=detail, seed=seed, tier=tier, case=case,
               rerun="cd /verif && VERIF_SEED=%s ./check %s --tier %s --replay %s" % (seed, cfg["id"], tier, path))
    with open(path, "w") as f:
        json.dump(obj, f, indent=1)
    return path


def main():
    args = sys.argv[1:]
    if not args:
        print("usage: check Cxx [--tier quick|thorough] [--replay FILE]")
        return 2
    pid = args[0]
    tier = os.environ.get("VERIF_TIER", "quick")
    replay = None
    i = 1
    while i < len(args):
        if args[i] == "--tier":
            tier = args[i + 1]; i += 2
        elif args[i] == "--replay":
            replay = args[i + 1]; i += 2
        else:
            i += 1
    if tier not in ("quick", "thorough"):
        tier = "quick"
    seed = int(os.environ.get("VERIF_SEED", "1") or "1")
    cfg = props.PROPS[pid]
    cfg["id"] = pid
    t0 = time.time()
    os.makedirs(os.path.join(CACHE, "logs"), exist_ok=True)
    log = open(os.path.join(CACHE, "logs", "%s-%s.log" % (pid, tier)), "w")
    violations = []   # (kind, detail, case)
    known_lines = []
    notes = []

    only = None
    only_bin = None
    if replay:
        r = json.load(open(replay))
        seed = r.get("seed", seed)
        tier = r.get("tier", tier)
        if isinstance(r.get("case"), dict) and "index" in r["case"]:
            only = r["case"]["index"]
            only_bin = r["case"].get("bin")

    # 1. lint
    hits = lint()
    broken = ["forbidden construct: " + h for h in hits]

    # 2. translator
    rc, out = sh([sys.executable, os.path.join(ROOT, "tools", "translate.py"), "--repo", REPO])
    log.write("== translate\n" + out + "\n")
    translator = [l for l in out.strip().split("\n") if l]
    translator_errors = [l for l in translator if " error" in l]
    regenerated = [l.split()[0] for l in translator if l.endswith("changed") and not l.endswith("unchanged")]

    # 3. Coq
    cb = coq_build(cfg, log)
    broken += cb["broken"]
    # a translator failure breaks the obligations of the properties whose theorems depend on that generated
    # file (and only those: other properties are not about that code)
    mine = gen_deps(cfg)
    for l in translator_errors:
        if mine is None or l.split()[0] in mine:
            broken.append("translator: " + l)
        else:
            notes.append("translator error in a generated file this property does not depend on: " + l)
    translator = [l for l in translator if mine is None or l.split()[0] in mine]
    if tier == "thorough" and cb["ok_props"] and cfg.get("coqchk", True):
        mods = ["Coupe." + t[:-3].replace("/", ".") for t in cfg["prop_targets"]]
        rc, out = sh(["coqchk", "-silent", "-o", "-Q", COQ, "Coupe"] + mods, cwd=COQ, timeout=3000)
        log.write("== coqchk\n" + out[-3000:] + "\n")
        if rc != 0:
            broken.append("coqchk rejects the compiled theorems: " + out[-300:].replace("\n", " "))
        else:
            notes.append("coqchk -o: " + " ".join(out.split())[-600:])

    # 4. harness + correspondence
    ncases = cfg["cases"][tier]
    runs = []
    if cb["ok_run"]:
        ok, out = cargo_build(cfg, log)
        if not ok:
            # the harness must build against the current tree; an API change that breaks it
            # leaves the property unchecked
            broken.append("harness does not build against /repo: " + first_error(out))
        else:
            # corpus first: cases kept from earlier failures / known-finding witnesses (seed, tier, cases, index)
            cp = os.path.join(ROOT, "corpus", pid + ".json")
            if os.path.exists(cp) and only is None:
                for n_c, ent in enumerate(json.load(open(cp))):
                    runs.append(run_cases(cfg, ent["seed"], ent["cases"], ent["tier"], "corpus%d" % n_c, log, only=ent["index"]))
            if only is not None and only_bin not in (None, cfg["bin"]):
                r = dict(error="replay of another binary")  # (not reported: see the extra_bins loop)
            else:
                r = run_cases(cfg, seed, ncases, tier, tier, log, only=only)
                runs.append(r)
            if tier == "thorough" and cfg.get("release_too") and "error" not in r:
                ok2, _ = cargo_build(cfg, log, release=True)
                if ok2:
                    runs.append(run_cases(cfg, seed + 7919, max(1, ncases // 2), tier, tier + "-rel", log, release=True))
            # optional further harness binaries of the same property (`extra_bins` in the property's PROP: a list of
            # dict(bin=..., cases=dict(quick=..., thorough=...))): built and run like the main one, their cases are judged
            # by the same verdict rules (their run module must be listed in the property's run_targets); a replay of a
            # case of an extra binary (its JSON carries "bin") runs that binary only
            for xb in cfg.get("extra_bins", []):
                if only is not None and only_bin != xb["bin"]:
                    continue
                xcfg = dict(cfg, bin=xb["bin"])
                okx, outx = cargo_build(xcfg, log)
                if not okx:
                    broken.append("harness %s does not build against /repo: %s" % (xb["bin"], first_error(outx)))
                else:
                    runs.append(run_cases(xcfg, seed, xb["cases"][tier], tier, tier + "-" + xb["bin"], log, only=only))
            # quick tier: a smaller batch against the release build (debug_assert! off, overflow wraps), for the
            # properties whose configuration asks for it -- some defects only exist without debug assertions
            if tier == "quick" and cfg.get("release_quick") and "error" not in r and only is None:
                ok2, out2 = cargo_build(cfg, log, release=True)
                if ok2:
                    runs.append(run_cases(cfg, seed + 7919, max(1, ncases // cfg["release_quick"]), tier, tier + "-rel", log, release=True))
                else:
                    broken.append("release harness does not build against /repo: " + first_error(out2))

    known = [k for k in load_known() if k.get("property") == pid and k.get("status") == "open"]
    known_classes = {k["class"]: k for k in known}
    seen_known = {}
    corr_fail, prop_fail = [], []
    evaluations = 0
    meta_all = {}
    classes_all = {}
    samples = []
    for r in runs:
        if "error" in r:
            broken.append(r["error"])
            continue
        for e in r["errors"]:
            broken.append("model evaluation failed: " + e)
        evaluations += r["meta"]["cases"]
        for k, v in r["meta"].items():
            if isinstance(v, int):
                meta_all[k] = meta_all.get(k, 0) + v
            elif isinstance(v, dict):
                d = meta_all.setdefault(k, {})
                for kk, vv in v.items():
                    d[kk] = d.get(kk, 0) + vv
        for c, n in r["classes"].items():
            classes_all[c] = classes_all.get(c, 0) + n
        if not samples:
            step = max(1, len(r["cases"]) // 5)
            samples = [c.get("case", c) for c in r["cases"][::step][:5]]
        for f in r["failing"]:
            kf = f["case"].get("case", {}).get("kf") if isinstance(f["case"].get("case"), dict) else None
            if kf and kf in known_classes:
                seen_known.setdefault(kf, f)
                continue
            if f["code"] in (2, 3):
                prop_fail.append(f)
            if f["code"] in (1, 3):
                corr_fail.append(f)

    for kf, f in seen_known.items():
        known_lines.append("KNOWN-FINDING: property=%s %s" % (pid, known_classes[kf]["what"]))

    # 5. verdict
    nrep = 0
    if prop_fail:
        f = prop_fail[0]
        path = write_replay(cfg, seed, tier, nrep, "failing-input",
                            "the certified checker rejects the implementation's output on this input "
                            "(%d such cases in this run)" % len(prop_fail), f["case"])
        violations.append("VIOLATION property=%s replay=%s" % (pid, path))
    elif corr_fail or broken:
        # the property is no longer shown to hold: search for a concrete failing input
        found = None
        if cb["ok_run"] and runs and "error" not in runs[0]:
            sr = run_cases(cfg, seed + 104729, cfg["cases"]["thorough"], "thorough", "search", log)
            if "error" not in sr:
                evaluations += sr["meta"]["cases"]
                for f in sr["failing"]:
                    kf = f["case"].get("case", {}).get("kf") if isinstance(f["case"].get("case"), dict) else None
                    if kf and kf in known_classes:
                        continue
                    if f["code"] in (2, 3):
                        found = f
                        break
        if found:
            path = write_replay(cfg, seed + 104729, "thorough", nrep, "failing-input",
                                "found by the enlarged search after: " + "; ".join(broken + ["implementation differs from the model"] * bool(corr_fail)),
                                found["case"])
            violations.append("VIOLATION property=%s replay=%s" % (pid, path))
        else:
            detail = "; ".join(broken) if broken else ""
            case = corr_fail[0]["case"] if corr_fail else None
            if corr_fail:
                detail = (detail + "; " if detail else "") + \
                    "correspondence no longer checks: implementation and model differ on %d case(s) (run module %s)" % (
                        len(corr_fail), ",".join(cfg.get("run_targets", [])))
            path = write_replay(cfg, seed, tier, nrep, "unproved", detail, case)
            violations.append("VIOLATION property=%s replay=%s no-failing-input-found" % (pid, path))

    wall = time.time() - t0
    obligations = len(cb["theorems"]) or 1
    ev = dict(
        property_id=pid, tier=tier, seed=seed, level=cfg.get("level", "proof"),
        coverage=dict(
            obligations=obligations,
            discharged=cb["discharged"] if not broken else min(cb["discharged"], max(0, obligations - 1)),
            checker_cmd="make -C /verif/coq %s  (Coq 8.16.1 kernel, full .vo build; Print Assumptions captured)%s" % (
                " ".join(cfg["prop_targets"]), "; coqchk -o" if tier == "thorough" else ""),
            trusted_base=cfg["trusted_base"],
            theorems=cb["theorems"],
            print_assumptions=dict(closed_under_global_context=cb["closed"], axioms=sorted(cb["axioms"])),
            translator=translator,
            evaluations=evaluations,
            distinct_nontrivial=meta_all.get("distinct_nontrivial", 0),
            rule=cfg["rule"],
            samples=samples or ["(no case was run: %s)" % "; ".join(broken)[:200]],
            input_families=meta_all.get("families", {}),
            outcome_classes={cfg.get("class_names", {}).get(c, str(c)): n for c, n in sorted(classes_all.items())},
            harness_counters={k: v for k, v in meta_all.items() if isinstance(v, int)},
            correspondence_mismatches=len(corr_fail),
            checker_rejections=len(prop_fail),
            known_findings_seen=sorted(seen_known),
            broken_obligations=broken,
            notes=notes,
        ),
        assumptions=cfg["assumptions"],
        wall_s=round(wall, 1),
        violations=len(violations),
    )
    # runs against a scratch worktree (VERIF_REPO) must not overwrite the evidence of the real tree
    evdir = os.path.join(ROOT, "evidence") if not ALT else os.path.join(CACHE, "evidence" + ALT)
    os.makedirs(evdir, exist_ok=True)
    with open(os.path.join(evdir, pid + ".json"), "w") as f:
        json.dump(ev, f, indent=1, sort_keys=True)
    for l in known_lines:
        print(l)
    for l in violations:
        print(l)
    print("%s tier=%s seed=%s theorems=%d cases=%d mismatches=%d rejections=%d wall=%.0fs %s" % (
        pid, tier, seed, len(cb["theorems"]), evaluations, len(corr_fail), len(prop_fail), wall,
        "FAIL" if violations else "ok"))
    log.close()
    return 1 if violations else 0


if __name__ == "__main__":
    sys.exit(main())

#!/usr/bin/env python3
"""Writes MANIFEST.json from tools/props.py (claimed checks) and tools/manifest_static.py."""
import json, os, sys
ROOT = os.path.dirname(os.path.dirname(os.path.abspath(__file__)))
sys.path.insert(0, os.path.join(ROOT, "tools"))
import props, manifest_static as ms

all_ids = [json.loads(l)["id"] for l in open(os.path.join(ROOT, "properties.jsonl"))]
checks = []
for pid in all_ids:
    if pid not in props.PROPS:
        continue
    c = props.PROPS[pid]
    m = props.MANIFESTS[pid]
    checks.append(dict(
        property_id=pid,
        quick_cmd="./check %s --tier quick" % pid,
        thorough_cmd="./check %s --tier thorough" % pid,
        evidence_file="/verif/evidence/%s.json" % pid,
        replay_cmd_template="./check %s --replay {path}" % pid,
        engine="coq-proof+correspondence",
        level_claimed=dict(category=c.get("level", "proof"), text=m["text"], design_ref=m["design_ref"]),
        level_note=m["note"],
        technique=m["technique"],
    ))
na = [dict(property_id=p, reason=ms.NOT_APPLICABLE.get(p, "not yet claimed: model/theorems under construction (see DESIGN.md §7)"))
      for p in all_ids if p not in props.PROPS]
man = dict(
    version=1,
    setup_cmd="tools/setup.sh",
    hooks=ms.HOOKS,
    engines=[dict(name="coq-proof+correspondence", path="/verif/coq, /verif/harness, /verif/tools",
                  serves_properties=[c["property_id"] for c in checks],
                  kind_free_text="Gallina models + theorems checked by the Coq 8.16.1 kernel; translator regenerates constants from the "
                                 "Rust source on every run; correspondence run executes model (vm_compute in coqc) and implementation "
                                 "on the same generated inputs; certified boolean checkers look for concrete failing inputs")],
    checks=checks,
    notes=ms.NOTES,
    not_applicable=na,
)
json.dump(man, open(os.path.join(ROOT, "MANIFEST.json"), "w"), indent=1)
print("MANIFEST.json: %d checks, %d not claimed" % (len(checks), len(na)))

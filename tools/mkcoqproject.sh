#!/bin/sh
# Regenerate coq/_CoqProject (all .v files of the development) and coq/Makefile.
set -e
cd "$(dirname "$0")/../coq"
{
  echo "-Q . Coupe"
  echo "-arg -w -arg -notation-overridden,-deprecated-hint-without-locality,-deprecated-instance-without-locality"
  find Lib Gen Model Run Proofs Properties -name '*.v' | LC_ALL=C sort
} > _CoqProject.new
if ! cmp -s _CoqProject.new _CoqProject 2>/dev/null; then mv _CoqProject.new _CoqProject; else rm _CoqProject.new; fi
if [ ! -f Makefile ] || [ _CoqProject -nt Makefile ]; then coq_makefile -f _CoqProject -o Makefile >/dev/null; fi

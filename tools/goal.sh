#!/bin/sh
# usage: tools/goal.sh coq/Proofs/X.v LINE [TAIL]  -- show the proof state after line LINE
root="$(cd "$(dirname "$0")/.." && pwd)"
f="$1"; n="$2"
mkdir -p "$root/.cache"
d=$(mktemp -d "$root/.cache/goal.XXXXXX")
head -n "$n" "$f" > "$d/G.v"; echo "Show." >> "$d/G.v"
(cd "$root/coq" && timeout 300 coqc -Q . Coupe -o "$d/G.vo" "$d/G.v" 2>&1 | tail -${3:-60})
rm -rf "$d"

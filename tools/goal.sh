#!/bin/sh
# usage: tools/goal.sh coq/Proofs/X.v LINE  -- show the proof state after line LINE
f="$1"; n="$2"
d=$(mktemp -d /verif/.cache/goal.XXXXXX 2>/dev/null || (mkdir -p /verif/.cache && mktemp -d /verif/.cache/goal.XXXXXX))
head -n "$n" "$f" > "$d/G.v"; echo "Show." >> "$d/G.v"
(cd /verif/coq && timeout 120 coqc -Q . Coupe -o "$d/G.vo" "$d/G.v" 2>&1 | tail -${3:-60})
rm -rf "$d"

(* Feasibility prototype for C13: CompleteKarmarkarKarp (two-way), model + soundness + completeness.
   Representation: the sorted Vec<(T, usize)> of ckk.rs is kept as a list in DESCENDING order
   (head = the element `pop()` returns).  Weights in Z, ids in nat. *)
From Coq Require Import ZArith List Bool Lia Arith Permutation.
Import ListNotations.
Open Scope Z_scope.

Definition item := (Z * nat)%type.
(* strict lexicographic order on (weight, id), as `a < b` on Rust tuples *)
Definition ltb_item (a b : item) : bool :=
  (fst a <? fst b) || ((fst a =? fst b) && (Nat.ltb (snd a) (snd b))).

(* insert keeping the list descending: before the first element that is < e
   (same place as `add` in ckk.rs, whose comparator never answers Equal) *)
Fixpoint insert (e : item) (l : list item) : list item :=
  match l with
  | [] => [e]
  | x :: t => if ltb_item x e then e :: l else x :: insert e t
  end.

Record step := { sa : nat; sb : nat; separate : bool }.

(* the search; [fixed] = faithful to the repaired code (sum branch records separate:=false),
   [fixed = false] reproduces the pinned tree *)
Fixpoint ckk_rec (fixed : bool) (fuel : nat) (l : list item) (tol : Z) (steps : list step)
  : option (option (nat * list step)) :=          (* None = out of fuel; Some None = not found *)
  match fuel with
  | O => None
  | S f =>
    match l with
    | [] => Some None                              (* unreachable from ckk: debug_assert_ne!(len, 0) *)
    | [(w, i)] => if w <=? tol then Some (Some (i, steps)) else Some None
    | (aw, ai) :: (bw, bi) :: t =>
      match ckk_rec fixed f (insert (aw - bw, ai) t) tol ({| sa := ai; sb := bi; separate := true |} :: steps) with
      | None => None
      | Some (Some r) => Some (Some r)
      | Some None =>
        ckk_rec fixed f (insert (aw + bw, ai) t) tol
                ({| sa := ai; sb := bi; separate := negb fixed |} :: steps)
      end
    end
  end.

(* ckk_bipart_build: steps are stored most-recent-first, the Rust code iterates `steps.iter().rev()`
   over a Vec that grows at the end, i.e. from most recent to oldest: here simply head first. *)
Definition side := nat -> bool.        (* true = part 1 *)
Definition upd (p : side) (i : nat) (b : bool) : side := fun j => if Nat.eqb j i then b else p j.
Fixpoint build (p : side) (steps : list step) : side :=
  match steps with
  | [] => p
  | s :: rest => build (upd p (sb s) (if separate s then negb (p (sa s)) else p (sa s))) rest
  end.
Definition ckk_partition (last : nat) (steps : list step) : side := build (fun _ => false) steps.

(* signed value of a configuration under a side assignment *)
Definition sgn (b : bool) (v : Z) : Z := if b then v else - v.
Fixpoint D (p : side) (l : list item) : Z :=
  match l with [] => 0 | (v, i) :: t => sgn (p i) v + D p t end.

Definition ids (l : list item) : list nat := map snd l.

Lemma insert_perm e l : Permutation (insert e l) (e :: l).
Proof.
  induction l as [|x t IH]; cbn; auto.
  destruct (ltb_item x e); auto.
  rewrite IH. apply perm_swap.
Qed.

Lemma D_perm p l l' : Permutation l l' -> D p l = D p l'.
Proof. induction 1 as [|[v i] l l' _ IH|[v i] [w j] l|]; cbn; try lia. Qed.

Lemma D_insert p e l : D p (insert e l) = sgn (p (snd e)) (fst e) + D p l.
Proof. rewrite (D_perm _ _ _ (insert_perm e l)). destruct e; reflexivity. Qed.

Lemma D_ext p q l : (forall i, In i (ids l) -> p i = q i) -> D p l = D q l.
Proof.
  induction l as [|[v i] t IH]; cbn; intros H; auto.
  rewrite (H i) by auto. rewrite IH; auto.
Qed.

(* ---------- completeness: if the search fails, no side assignment meets the tolerance ---------- *)

Lemma sgn_abs b v : 0 <= v -> Z.abs (sgn b v) = v.
Proof. destruct b; cbn; lia. Qed.

(* all weights non-negative and the list descending => a - b >= 0 stays non-negative *)
Fixpoint desc (l : list item) : Prop :=
  match l with
  | [] => True
  | x :: t => (match t with [] => True | y :: _ => ltb_item x y = false end) /\ desc t
  end.
Definition nonneg (l : list item) := Forall (fun x => 0 <= fst x) l.

Lemma ltb_false_ge x y : ltb_item x y = false -> fst y <= fst x.
Proof. unfold ltb_item. intros H. apply orb_false_iff in H as [H _]. lia. Qed.

Lemma desc_insert e l : desc l -> desc (insert e l).
Proof.
  induction l as [|x t IH]; cbn; intros Hd; auto.
  destruct Hd as [Hx Ht].
  destruct (ltb_item x e) eqn:E.
  - cbn. split; [|split; auto].
    (* e is not < x ... we need ltb_item e x = false; from x < e *)
    unfold ltb_item in *. apply orb_true_iff in E.
    apply orb_false_iff. destruct E as [E|E].
    + split; [lia|]. apply andb_false_iff. left. lia.
    + apply andb_true_iff in E as [E1 E2]. apply Nat.ltb_lt in E2. split; [lia|].
      apply andb_false_iff. right. apply Nat.ltb_ge. lia.
  - specialize (IH Ht). cbn. split; auto.
    destruct t as [|y t']; cbn in *.
    + exact E.
    + destruct (ltb_item y e); auto.
Qed.

Lemma nonneg_insert e l : 0 <= fst e -> nonneg l -> nonneg (insert e l).
Proof.
  intros He Hl. unfold nonneg in *. rewrite Forall_forall in *.
  intros x Hx. apply (Permutation_in _ (insert_perm e l)) in Hx. destruct Hx as [<-|Hx]; auto.
Qed.

Theorem ckk_complete fixed : forall fuel l tol steps,
  desc l -> nonneg l -> l <> [] ->
  ckk_rec fixed fuel l tol steps = Some None ->
  forall p : side, Z.abs (D p l) > tol.
Proof.
  induction fuel as [|f IH]; intros l tol steps Hd Hn Hne H p; [discriminate|].
  cbn in H. destruct l as [|[aw ai] [|[bw bi] t]]; [congruence| |].
  - destruct (aw <=? tol) eqn:E; [discriminate|].
    cbn. inversion Hn; subst; cbn in *. rewrite Z.add_0_r, sgn_abs by assumption. lia.
  - destruct Hd as [Hab Hd]. destruct Hd as [_ Hdt].
    apply ltb_false_ge in Hab; cbn in Hab.
    inversion Hn as [|? ? Ha Hn']; subst. inversion Hn' as [|? ? Hb Hnt]; subst. cbn in Ha, Hb.
    destruct (ckk_rec fixed f (insert (aw - bw, ai) t) tol _) as [[r|]|] eqn:E1; try discriminate.
    assert (N1 : forall q, Z.abs (D q (insert (aw - bw, ai) t)) > tol).
    { eapply IH; eauto.
      - apply desc_insert; auto.
      - apply nonneg_insert; cbn; auto; lia.
      - intro C. pose proof (insert_perm (aw - bw, ai) t) as P. rewrite C in P.
        apply Permutation_nil in P. discriminate. }
    assert (N2 : forall q, Z.abs (D q (insert (aw + bw, ai) t)) > tol).
    { eapply IH; eauto.
      - apply desc_insert; auto.
      - apply nonneg_insert; cbn; auto; lia.
      - intro C. pose proof (insert_perm (aw + bw, ai) t) as P. rewrite C in P.
        apply Permutation_nil in P. discriminate. }
    cbn [D].
    destruct (Bool.bool_dec (p ai) (p bi)) as [Same|Diff].
    + specialize (N2 p). rewrite D_insert in N2; cbn in N2.
      rewrite <- Same. destruct (p ai); cbn in *; lia.
    + specialize (N1 p). rewrite D_insert in N1; cbn in N1.
      destruct (p ai), (p bi); cbn in *; try congruence; lia.
Qed.

(* ---------- soundness of the repaired search ---------- *)

Lemma build_app p s1 s2 : build p (s1 ++ s2) = build (build p s1) s2.
Proof. revert p; induction s1 as [|s t IH]; cbn; intros; auto. Qed.

Lemma ids_insert e l : Permutation (ids (insert e l)) (snd e :: ids l).
Proof. unfold ids. rewrite (Permutation_map snd (insert_perm e l)). reflexivity. Qed.

Lemma upd_same p i b : upd p i b i = b.
Proof. unfold upd. now rewrite Nat.eqb_refl. Qed.
Lemma upd_other p i b j : j <> i -> upd p i b j = p j.
Proof. unfold upd. intros H. apply Nat.eqb_neq in H. now rewrite H. Qed.

Theorem ckk_sound_gen : forall fuel l tol steps last S,
  NoDup (ids l) -> desc l -> nonneg l ->
  ckk_rec true fuel l tol steps = Some (Some (last, S)) ->
  exists S', S = S' ++ steps /\ forall p0, Z.abs (D (build p0 S') l) <= tol.
Proof.
  induction fuel as [|f IH]; intros l tol steps last S Hnd Hd Hn H; [discriminate|].
  cbn in H. destruct l as [|[aw ai] [|[bw bi] t]]; [discriminate| |].
  - destruct (aw <=? tol) eqn:E; [|discriminate]. injection H as <- <-.
    exists []. split; auto. intros p0. cbn.
    inversion Hn; subst; cbn in *. destruct (p0 ai); cbn; lia.
  - destruct Hd as [Hge [_ Hdt]]. apply ltb_false_ge in Hge; cbn in Hge.
    inversion Hn as [|? ? Hna Hn']; subst. inversion Hn' as [|? ? Hnb Hnt]; subst. cbn in Hna, Hnb.
    cbn in Hnd. inversion Hnd as [|? ? Ha Hnd']; subst. inversion Hnd' as [|? ? Hb Hndt]; subst.
    assert (Hab : ai <> bi) by (intro; subst; apply Ha; left; reflexivity).
    assert (Hat : ~ In ai (ids t)) by (intro; apply Ha; right; assumption).
    assert (ND' : forall v, NoDup (ids (insert (v, ai) t))).
    { intros v. eapply Permutation_NoDup; [symmetry; apply ids_insert|]. cbn. constructor; auto. }
    assert (STEP : forall sep v S0 stp, stp = {| sa := ai; sb := bi; separate := sep |} ->
              v = (if sep then aw - bw else aw + bw) ->
              (exists S'', S0 = S'' ++ stp :: steps /\ forall p0, Z.abs (D (build p0 S'') (insert (v, ai) t)) <= tol) ->
              exists S', S0 = S' ++ steps /\ forall p0, Z.abs (D (build p0 S') ((aw, ai) :: (bw, bi) :: t)) <= tol).
    { intros sep v S0 stp -> -> [S'' [-> HS]]. exists (S'' ++ [{| sa := ai; sb := bi; separate := sep |}]). split.
      - rewrite <- app_assoc. reflexivity.
      - intros p0. rewrite build_app. cbn [build sa sb separate].
        set (q := build p0 S''). specialize (HS p0). fold q in HS. rewrite D_insert in HS. cbn [fst snd] in HS.
        cbn [D]. rewrite upd_same, (upd_other _ _ _ ai) by assumption.
        rewrite (D_ext _ q t) by (intros j Hj; apply upd_other; intro; subst; contradiction).
        destruct sep, (q ai); cbn in *; lia. }
    destruct (ckk_rec true f (insert (aw - bw, ai) t) tol _) as [[r|]|] eqn:E1; try discriminate.
    + injection H as ->. eapply (STEP true); eauto.
      eapply IH; eauto; [apply desc_insert; auto | apply nonneg_insert; cbn; auto; lia].
    + eapply (STEP false); eauto.
      eapply IH; eauto; [apply desc_insert; auto | apply nonneg_insert; cbn; auto; lia].
Qed.

(* loads and the final statement on the original weights *)
Fixpoint load (p : side) (b : bool) (l : list item) : Z :=
  match l with [] => 0 | (v, i) :: t => (if Bool.eqb (p i) b then v else 0) + load p b t end.
Lemma D_loads p l : D p l = load p true l - load p false l.
Proof. induction l as [|[v i] t IH]; cbn; auto. destruct (p i); cbn; lia. Qed.

Theorem ckk_sound : forall fuel l tol last S,
  NoDup (ids l) -> desc l -> nonneg l -> ckk_rec true fuel l tol [] = Some (Some (last, S)) ->
  Z.abs (load (ckk_partition last S) true l - load (ckk_partition last S) false l) <= tol.
Proof.
  intros fuel l tol last S Hnd Hd Hn H.
  destruct (ckk_sound_gen _ _ _ _ _ _ Hnd Hd Hn H) as [S' [-> HS]].
  rewrite app_nil_r. rewrite <- D_loads. apply HS.
Qed.

(* the pinned tree (fixed = false) violates soundness: [8;7;6;5;4], tolerance 0 *)
Definition w0 : list item := [(8,4%nat);(7,3%nat);(6,2%nat);(5,1%nat);(4,0%nat)].
Lemma ckk_pinned_refuted :
  exists last S, ckk_rec false 10 w0 0 [] = Some (Some (last, S)) /\
    Z.abs (load (ckk_partition last S) true w0 - load (ckk_partition last S) false w0) = 14.
Proof. eexists; eexists; split; vm_compute; reflexivity. Qed.
(* and the repaired one finds the perfect partition on the same input *)
Lemma ckk_fixed_example :
  exists last S, ckk_rec true 10 w0 0 [] = Some (Some (last, S)) /\
    load (ckk_partition last S) true w0 = load (ckk_partition last S) false w0.
Proof. eexists; eexists; split; vm_compute; reflexivity. Qed.

Print Assumptions ckk_sound.
Print Assumptions ckk_complete.
Print Assumptions ckk_pinned_refuted.

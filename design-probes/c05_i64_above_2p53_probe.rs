//! Probe: ArcSwap with i64 weights above 2^53 — the f64 share over-allocates.
use coupe::Partition as _;
use coupe::Topology;
struct G(Vec<Vec<(usize, i64)>>);
impl Topology<i64> for G {
    type Neighbors<'n> = std::iter::Cloned<std::slice::Iter<'n, (usize, i64)>> where Self: 'n;
    fn len(&self) -> usize { self.0.len() }
    fn neighbors(&self, v: usize) -> Self::Neighbors<'_> { self.0[v].iter().cloned() }
}
fn main() {
    // two vertices joined by an edge; vertex 0 (part 0) weighs 2^53+4, vertex 1 (part 1) weighs 1.
    // max_imbalance = None: cap = heaviest input part = 2^53+4; headroom of part 1 = 2^53+3.
    let g = G(vec![vec![(1, 1)], vec![(0, 1)]]);
    let w: Vec<i64> = vec![(1i64 << 53) + 4, 1];
    let p0 = vec![0usize, 1];
    let h = w[0] - w[1];
    println!("headroom {} as f64 = {} (exact share would be {})", h, h as f64, h);
    for threads in [1usize, 2] {
        let pool = coupe::rayon::ThreadPoolBuilder::new().num_threads(threads).build().unwrap();
        let mut p = p0.clone();
        let r = std::panic::catch_unwind(std::panic::AssertUnwindSafe(|| {
            pool.install(|| coupe::ArcSwap { max_imbalance: None }.partition(&mut p, (&g, &w[..])).unwrap())
        }));
        let load = |p: &[usize], q: usize| -> i64 { p.iter().zip(&w).filter(|(x, _)| **x == q).map(|(_, w)| *w).sum() };
        match r {
            Ok(md) => println!("threads={threads}: p={:?} loads {} | {}  cap {}  (input loads {} | {}) gain={}", p, load(&p, 0), load(&p, 1), w[0], w[0], w[1], md.edge_cut_gain),
            Err(e) => println!("threads={threads}: PANIC {:?}", e.downcast_ref::<String>().map(|s| s.as_str()).or(e.downcast_ref::<&str>().copied())),
        }
    }
}

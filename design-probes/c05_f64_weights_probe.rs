//! Probe: ArcSwap with f64 weights (integer-valued, all sums < 2^53): `pw + (max - pw) / tc` is
//! rounded to an f64 and can hand each worker more than its share.
use coupe::Partition as _;
use coupe::Topology;
struct G(Vec<Vec<(usize, i64)>>);
impl Topology<i64> for G {
    type Neighbors<'n> = std::iter::Cloned<std::slice::Iter<'n, (usize, i64)>> where Self: 'n;
    fn len(&self) -> usize { self.0.len() }
    fn neighbors(&self, v: usize) -> Self::Neighbors<'_> { self.0[v].iter().cloned() }
}
fn main() {
    // chunk 0 = {0,1,2}, chunk 1 = {3,4} on 2 workers.  movers 0 and 3 (part 0, weight 2) are each tied
    // to an anchor of part 1 (vertices 1 and 4, weight 2^51 each); vertex 2 (part 0) weighs 2^52 - 1.
    // part 0 = 2^52 + 3 (the cap, max_imbalance = None), part 1 = 2^52: headroom 3, 1.5 per worker.
    let p51 = (1u64 << 51) as f64;
    let p52 = (1u64 << 52) as f64;
    let g = G(vec![vec![(1, 1)], vec![(0, 1)], vec![], vec![(4, 1)], vec![(3, 1)]]);
    let w: Vec<f64> = vec![2.0, p51, p52 - 1.0, 2.0, p51];
    let p0 = vec![0usize, 1, 0, 0, 1];
    println!("thread budget of part 1: 2^52 + 1.5 rounds to {} (2^52 = {})", p52 + 3.0 / 2.0, p52);
    for threads in [1usize, 2] {
        let pool = coupe::rayon::ThreadPoolBuilder::new().num_threads(threads).build().unwrap();
        let mut p = p0.clone();
        let md = pool.install(|| coupe::ArcSwap { max_imbalance: None }.partition(&mut p, (&g, &w[..])).unwrap());
        let load = |p: &[usize], q: usize| -> f64 { p.iter().zip(&w).filter(|(x, _)| **x == q).map(|(_, w)| *w).sum() };
        println!("threads={threads}: p={:?} loads {} | {}  cap {}  gain={}", p, load(&p, 0), load(&p, 1), load(&p0, 0), md.edge_cut_gain);
    }
}

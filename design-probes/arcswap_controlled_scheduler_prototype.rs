//! Prototype of the controlled scheduler for ArcSwap (C05).
use coupe::sprs::CsMat;
use coupe::verif;
use coupe::Partition as _;
use std::collections::BTreeMap;
use std::sync::{Arc, Condvar, Mutex};
use std::time::Duration;

#[derive(Clone, Copy, PartialEq, Debug)]
enum St { Starting, Parked, Running, Done }

#[derive(Default)]
struct Sched {
    tasks: BTreeMap<usize, St>,
    granted: Option<usize>,
    expected: usize,
    finished: bool,
    trace: Vec<(usize, u8, usize, usize)>,
    choices: Vec<usize>,
    rng: u64,
}

struct Shared { m: Mutex<Sched>, cv: Condvar }

fn hook(sh: &Arc<Shared>) -> Arc<verif::Hook> {
    let sh = sh.clone();
    Arc::new(move |task, kind, vertex, value| {
        let mut g = sh.m.lock().unwrap();
        match kind {
            verif::PASS_BEGIN => { g.tasks.clear(); g.expected = task; g.trace.push((task, kind, 0, 0)); sh.cv.notify_all(); }
            verif::TASK_BEGIN => { g.tasks.insert(task, St::Starting); sh.cv.notify_all(); }
            verif::TASK_END => { g.tasks.insert(task, St::Done); g.trace.push((task, kind, 0, 0)); sh.cv.notify_all(); }
            verif::YIELD => {
                g.tasks.insert(task, St::Parked);
                sh.cv.notify_all();
                while g.granted != Some(task) { g = sh.cv.wait(g).unwrap(); }
                g.granted = None;
                g.tasks.insert(task, St::Running);
            }
            _ => g.trace.push((task, kind, vertex, value)),
        }
    })
}

fn controller(sh: Arc<Shared>) {
    let mut g = sh.m.lock().unwrap();
    loop {
        if g.finished { return; }
        let running = g.tasks.values().any(|s| *s == St::Running) || g.granted.is_some();
        let parked: Vec<usize> = g.tasks.iter().filter(|(_, s)| **s == St::Parked).map(|(t, _)| *t).collect();
        let settled = g.tasks.values().filter(|s| **s == St::Parked || **s == St::Done).count();
        if !running && !parked.is_empty() && settled >= g.expected.min(g.tasks.len().max(g.expected)) && g.tasks.values().all(|s| *s != St::Starting) {
            // every chunk of the pass is parked or done: pick one
            g.rng ^= g.rng << 13; g.rng ^= g.rng >> 7; g.rng ^= g.rng << 17;
            let t = parked[(g.rng % parked.len() as u64) as usize];
            g.choices.push(t);
            g.granted = Some(t);
            sh.cv.notify_all();
        }
        let (ng, _) = sh.cv.wait_timeout(g, Duration::from_millis(1)).unwrap();
        g = ng;
        // late starters: if nothing moved for a while and not all expected chunks have begun, go on with those parked
        if g.granted.is_none() && !g.tasks.values().any(|s| *s == St::Running || *s == St::Starting) {
            let parked: Vec<usize> = g.tasks.iter().filter(|(_, s)| **s == St::Parked).map(|(t, _)| *t).collect();
            let settled = g.tasks.len();
            if !parked.is_empty() && settled < g.expected {
                // give rayon a moment to start the remaining chunks
                let (ng, to) = sh.cv.wait_timeout(g, Duration::from_millis(20)).unwrap();
                g = ng;
                if to.timed_out() && g.granted.is_none() && g.tasks.len() == settled {
                    g.expected = settled; // proceed without them; they start later
                }
            }
        }
    }
}

fn graph(n: usize, seed: u64) -> CsMat<i64> {
    let mut s = seed | 1;
    let mut rows: Vec<Vec<(usize, i64)>> = vec![vec![]; n];
    for a in 0..n { for b in 0..a { s ^= s << 13; s ^= s >> 7; s ^= s << 17; if s % 100 < 45 { let w = 1 + (s >> 20) as i64 % 3; rows[a].push((b, w)); rows[b].push((a, w)); } } }
    let (mut ip, mut ix, mut d) = (vec![0], vec![], vec![]);
    for r in rows.iter_mut() { r.sort(); for (j, w) in r.iter() { ix.push(*j); d.push(*w); } ip.push(ix.len()); }
    CsMat::new((n, n), ip, ix, d)
}

fn cut(g: &CsMat<i64>, p: &[usize]) -> i64 { let mut c = 0; for (w, (a, b)) in g.iter() { if a < b && p[a] != p[b] { c += *w; } } c }

fn run(n: usize, threads: usize, gseed: u64, sseed: u64) -> (Vec<usize>, i64, i64, usize, Vec<usize>) {
    let g = graph(n, gseed);
    let mut s = gseed.wrapping_mul(77) | 1;
    let p0: Vec<usize> = (0..n).map(|_| { s ^= s << 13; s ^= s >> 7; s ^= s << 17; (s % 3) as usize }).collect();
    let w = vec![1i64; n];
    let sh = Arc::new(Shared { m: Mutex::new(Sched { rng: sseed | 1, ..Default::default() }), cv: Condvar::new() });
    verif::set_hook(Some(hook(&sh)));
    let c = { let sh = sh.clone(); std::thread::spawn(move || controller(sh)) };
    let pool = coupe::rayon::ThreadPoolBuilder::new().num_threads(threads).build().unwrap();
    let mut p = p0.clone();
    let md = pool.install(|| coupe::ArcSwap { max_imbalance: Some(0.5) }.partition(&mut p, (g.view(), &w[..])).unwrap());
    { let mut gd = sh.m.lock().unwrap(); gd.finished = true; sh.cv.notify_all(); }
    c.join().unwrap();
    verif::set_hook(None);
    let gd = sh.m.lock().unwrap();
    (p.clone(), cut(&g, &p0) - cut(&g, &p), md.edge_cut_gain, gd.trace.len(), gd.choices.clone())
}

fn main() {
    let t0 = std::time::Instant::now();
    let mut distinct = std::collections::BTreeSet::new();
    for sseed in 1..=40u64 {
        let a = run(8, 3, 5, sseed);
        let b = run(8, 3, 5, sseed);
        assert_eq!(a.0, b.0, "same schedule seed must give the same partition");
        assert_eq!(a.4, b.4, "same schedule seed must give the same choice sequence");
        assert_eq!(a.1, a.2, "accounting");
        distinct.insert(a.0.clone());
        if sseed <= 3 { println!("seed {sseed}: part {:?} gain {} events {} choices {}", a.0, a.2, a.3, a.4.len()); }
    }
    println!("40 schedule seeds x2 replays on one graph: {} distinct final partitions, {:.1}s", distinct.len(), t0.elapsed().as_secs_f64());
    let mut tot = 0;
    for gseed in 1..=30u64 { for threads in [2usize, 4] { let a = run(10, threads, gseed, gseed * 31); assert_eq!(a.1, a.2); tot += a.3; } }
    println!("60 more runs ok, {} events total, {:.1}s", tot, t0.elapsed().as_secs_f64());
}

(* Feasibility prototype for C05: the vertex-lock protocol of ArcSwap's make_move,
   at the granularity of individual shared accesses (CAS, one neighbour-lock read at a time,
   store, unlock).  Goal: the invariant sketched in DESIGN.md is inductive and implies that two
   adjacent vertices are never both past their neighbour check. *)
From Coq Require Import List Arith Bool Lia.
Import ListNotations.

Section Proto.
Variable nbrs : nat -> list nat.                      (* adjacency lists *)
Hypothesis nbrs_sym : forall v w, In w (nbrs v) -> In v (nbrs w).

Inductive tstate :=
| Idle
| Checking (v : nat) (todo : list nat)     (* holds lock v, still has to read locks of [todo] *)
| Critical (v : nat).                       (* holds lock v, all neighbour locks were read as free *)

Definition holds (s : tstate) : option nat :=
  match s with Idle => None | Checking v _ => Some v | Critical v => Some v end.

(* w has been read as unlocked by the thread (or the thread is past its check) *)
Definition cleared (s : tstate) (w : nat) : Prop :=
  match s with
  | Idle => False
  | Checking v todo => In w (nbrs v) /\ ~ In w todo
  | Critical v => In w (nbrs v)
  end.

Definition threads := nat -> tstate.
Definition locked (ts : threads) (v : nat) : Prop := exists t, holds (ts t) = Some v.

Definition upd (ts : threads) (t : nat) (s : tstate) : threads :=
  fun t' => if Nat.eq_dec t' t then s else ts t'.

Inductive step (ts : threads) : threads -> Prop :=
| s_cas t v : ts t = Idle -> ~ locked ts v ->
    step ts (upd ts t (Checking v (nbrs v)))                          (* compare_exchange succeeds *)
| s_read_free t v w todo : ts t = Checking v (w :: todo) -> ~ locked ts w ->
    step ts (upd ts t (Checking v todo))                              (* neighbour lock read: false *)
| s_read_busy t v w todo : ts t = Checking v (w :: todo) -> locked ts w ->
    step ts (upd ts t Idle)                                           (* raced: guard drops, unlock *)
| s_pass t v : ts t = Checking v [] ->
    step ts (upd ts t (Critical v))                                   (* .any() returned false *)
| s_done t v : ts t = Critical v ->
    step ts (upd ts t Idle).                                          (* gain reads, store, unlock *)

(* locks are exclusive *)
Definition Excl (ts : threads) : Prop :=
  forall t t' v, holds (ts t) = Some v -> holds (ts t') = Some v -> t = t'.

(* the invariant of DESIGN.md: if t has cleared w while t' holds w, then t' has not cleared holds(t) *)
Definition Inv (ts : threads) : Prop :=
  forall t t' v w, t <> t' -> holds (ts t) = Some v -> holds (ts t') = Some w ->
    cleared (ts t) w -> cleared (ts t') v -> False.

Lemma upd_same ts t s : upd ts t s t = s.
Proof. unfold upd; destruct (Nat.eq_dec t t); congruence. Qed.
Lemma upd_other ts t s t' : t' <> t -> upd ts t s t' = ts t'.
Proof. unfold upd; destruct (Nat.eq_dec t' t); congruence. Qed.

Lemma excl_step ts ts' : Excl ts -> step ts ts' -> Excl ts'.
Proof.
  intros HE Hs. destruct Hs as [t v Ht Hf | t v w todo Ht Hf | t v w todo Ht Hb | t v Ht | t v Ht];
  intros a b x Ha Hb'.
  all: destruct (Nat.eq_dec a t) as [->|Na]; destruct (Nat.eq_dec b t) as [->|Nb]; auto;
       rewrite ?upd_same, ?upd_other in * by assumption; cbn in *.
  all: try congruence.
  all: try (eapply HE; eauto; rewrite Ht; cbn; congruence).
  all: try (injection Ha as <-; exfalso; apply Hf; exists b; assumption).
  all: try (injection Hb' as <-; exfalso; apply Hf; exists a; assumption).
  all: try (eapply HE; [ exact Ha | rewrite Ht; exact Hb' ]).
  all: try (eapply HE; [ rewrite Ht; exact Ha | exact Hb' ]).
Qed.

Lemma inv_step ts ts' : Excl ts -> Inv ts -> step ts ts' -> Inv ts'.
Proof.
  intros HE HI Hs.
  destruct Hs as [t v Ht Hf | t v w todo Ht Hf | t v w todo Ht Hb | t v Ht | t v Ht];
  intros a b x y Hab Ha Hb' Ca Cb.
  all: destruct (Nat.eq_dec a t) as [->|Na]; destruct (Nat.eq_dec b t) as [->|Nb]; try congruence;
       rewrite ?upd_same, ?upd_other in * by assumption; cbn in *.
  (* neither thread moved *)
  all: try solve [exact (HI a b x y Hab Ha Hb' Ca Cb)].
  (* thread went Idle *)
  all: try discriminate.
  (* cas: the acquiring thread has cleared nothing *)
  all: try solve [destruct Ca as [C1 C2]; exact (C2 C1)].
  all: try solve [destruct Cb as [C1 C2]; exact (C2 C1)].
  (* pass: Checking v [] -> Critical v *)
  all: try solve [injection Ha as <-; eapply (HI t b v y); eauto; rewrite Ht; cbn; auto].
  all: try solve [injection Hb' as <-; eapply (HI a t x v); eauto; rewrite Ht; cbn; auto].
  (* read_free *)
  - injection Ha as <-. destruct Ca as [Ca1 Ca2].
    destruct (Nat.eq_dec y w) as [->|Nyw].
    + apply Hf. exists b. assumption.
    + eapply (HI t b v y); eauto; rewrite Ht; cbn; auto. split; auto. intros [E|E]; congruence.
  - injection Hb' as <-. destruct Cb as [Cb1 Cb2].
    destruct (Nat.eq_dec x w) as [->|Nxw].
    + apply Hf. exists a. assumption.
    + eapply (HI a t x v); eauto; rewrite Ht; cbn; auto. split; auto. intros [E|E]; congruence.
Qed.

(* consequence: two adjacent vertices are never both in the critical phase *)
Theorem no_adjacent_critical ts t t' v w :
  Inv ts -> t <> t' -> ts t = Critical v -> ts t' = Critical w -> In w (nbrs v) -> False.
Proof.
  intros HI Ntt Ht Ht' Hadj.
  eapply (HI t t' v w); eauto; rewrite ?Ht, ?Ht'; cbn; auto.
Qed.

Definition init : threads := fun _ => Idle.
Lemma init_ok : Excl init /\ Inv init.
Proof. split; intros ?; intros; cbn in *; discriminate. Qed.

Inductive reach : threads -> Prop :=
| r0 : reach init
| rS ts ts' : reach ts -> step ts ts' -> reach ts'.

Theorem reach_inv ts : reach ts -> Excl ts /\ Inv ts.
Proof.
  induction 1 as [|ts ts' _ [HE HI] Hs]; [apply init_ok|].
  split; [eapply excl_step | eapply inv_step]; eauto.
Qed.
End Proto.
Print Assumptions reach_inv.

From Coq Require Import NArith List Bool Lia Arith.
Require Import HilbertCurve2D.
Import ListNotations.
Open Scope N_scope.
(* tables of hilbert_curve.rs; quadrant index = 2*xbit + ybit *)
Definition base : list (list N) := [[0;1;3;2];[0;3;1;2];[2;3;1;0];[2;1;3;0]].
Definition conf : list (list nat) := [[1;0;3;0];[0;2;1;1];[2;1;2;3];[3;3;0;2]]%nat.
Definition qi (bx by_ : bool) : nat := ((if bx then 2 else 0) + (if by_ then 1 else 0))%nat.
Definition digit (s : nat) bx by_ : N := nth (qi bx by_) (nth s base []) 0.
Definition next (s : nat) bx by_ : nat := nth (qi bx by_) (nth s conf []) 0%nat.
Definition quads := [(false,false);(false,true);(true,false);(true,true)].
Definition invq (s : nat) (d : N) : bool * bool :=
  match find (fun q => N.eqb (digit s (fst q) (snd q)) d) quads with Some q => q | None => (false,false) end.
Definition entry (s : nat) := invq s 0.
Definition exit_ (s : nat) := invq s 3.
Definition states := [0;1;2;3]%nat.
Definition bools := [false;true].
Definition cert : bool :=
  forallb (fun s =>
    forallb (fun bx => forallb (fun by_ =>
      Nat.ltb (next s bx by_) 4 && N.ltb (digit s bx by_) 4 &&
      (let q := invq s (digit s bx by_) in eqb (fst q) bx && eqb (snd q) by_)) bools) bools &&
    forallb (fun d => N.eqb (digit s (fst (invq s d)) (snd (invq s d))) d) [0;1;2;3] &&
    (let e := entry s in let e' := entry (next s (fst e) (snd e)) in eqb (fst e) (fst e') && eqb (snd e) (snd e')) &&
    (let e := exit_ s in let e' := exit_ (next s (fst e) (snd e)) in eqb (fst e) (fst e') && eqb (snd e) (snd e')) &&
    forallb (fun d => let qa := invq s d in let qb := invq s (d+1) in
       adjq qa qb (exit_ (next s (fst qa) (snd qa))) (entry (next s (fst qb) (snd qb)))) [0;1;2]) states.
Lemma cert_ok : cert = true. Proof. vm_compute. reflexivity. Qed.

Lemma lt4 s : (s < 4)%nat -> s = 0%nat \/ s = 1%nat \/ s = 2%nat \/ s = 3%nat. Proof. lia. Qed.
Lemma ltN3 d : d < 3 -> d = 0 \/ d = 1 \/ d = 2. Proof. lia. Qed.
Lemma ltN4 d : d < 4 -> d = 0 \/ d = 1 \/ d = 2 \/ d = 3. Proof. lia. Qed.

Theorem hilbert2_continuous n s h : (s < 4)%nat -> h + 1 < 4 ^ N.of_nat n ->
  adjacent (dec next invq n s h) (dec next invq n s (h + 1)).
Proof.
  apply (dec_continuous 4%nat next invq entry exit_).
  - intros s0 bx by_ H; destruct (lt4 _ H) as [E|[E|[E|E]]]; subst s0; destruct bx, by_; vm_compute; lia.
  - intros s0 H; destruct (lt4 _ H) as [E|[E|[E|E]]]; subst s0; vm_compute; auto.
  - intros s0 H; destruct (lt4 _ H) as [E|[E|[E|E]]]; subst s0; vm_compute; auto.
  - intros s0 d H Hd; destruct (lt4 _ H) as [E|[E|[E|E]]]; subst s0; destruct (ltN3 _ Hd) as [E|[E|E]]; subst d; vm_compute; reflexivity.
Qed.
Print Assumptions hilbert2_continuous.

//! Replays one input on the REAL `weighted_quantiles` (and on HilbertCurve::partition) under a watchdog.
use coupe::Partition as _;
#[allow(dead_code)]
#[path = "wqcycle.rs"]
mod port;
use std::sync::mpsc;
use std::time::Duration;
fn main() {
    let pts: Vec<u64> = vec![7, 5, 0];
    let ws: Vec<f64> = vec![5.35162192338845e-16, 3.0704605524789486e-16, 5.117434254131581e-16];
    let n = 6usize;
    let (tx, rx) = mpsc::channel();
    let (p2, w2) = (pts.clone(), ws.clone());
    std::thread::spawn(move || { let r = coupe::verif_hilbert::weighted_quantiles_u64(&p2, &w2, n); let _ = tx.send(r); });
    match rx.recv_timeout(Duration::from_secs(20)) {
        Ok(r) => println!("weighted_quantiles_u64 returned {:?}", r),
        Err(_) => println!("weighted_quantiles_u64({:?}, {:?}, {}) did NOT return within 20 s (HANG)", pts, ws, n),
    }
    println!("weighted_quantiles_u64([0,4,8],[1e-16;3],5) = {:?}", { let (tx, rx) = mpsc::channel(); std::thread::spawn(move || { let _ = tx.send(coupe::verif_hilbert::weighted_quantiles_u64(&[0, 4, 8], &[1e-16, 1e-16, 1e-16], 5)); }); rx.recv_timeout(Duration::from_secs(10)).ok() });
    // the public API: 2-D points on a line, order 3; tiny weights
    for scale in [1.0e-16f64, 1.0e-17, 1.0e-15, 1.0e-12] {
        for (npts, k) in [(3usize, 6usize), (8, 4), (16, 5), (40, 7)] {
            let points: Vec<coupe::Point2D> = (0..npts).map(|i| coupe::Point2D::new(i as f64, ((i * 7) % 5) as f64)).collect();
            let weights: Vec<f64> = (0..npts).map(|i| scale * (1.0 + (i % 3) as f64)).collect();
            let (tx, rx) = mpsc::channel();
            let (pp, ww) = (points.clone(), weights.clone());
            std::thread::spawn(move || {
                let mut ids = vec![0usize; pp.len()];
                let r = coupe::HilbertCurve { part_count: k, order: 6 }.partition(&mut ids, (&pp[..], &ww[..]));
                let _ = tx.send((r.is_ok(), ids));
            });
            match rx.recv_timeout(Duration::from_secs(10)) {
                Ok((ok, ids)) => println!("HilbertCurve scale={:e} n={} k={}: returned ok={} ids={:?}", scale, npts, k, ok, ids),
                Err(_) => println!("HilbertCurve scale={:e} n={} k={}: did NOT return within 10 s (HANG)", scale, npts, k),
            }
        }
    }
    // search at the level of the public API: indices through the hook, cycle detection by the port,
    // confirmation on HilbertCurve::partition under a watchdog
    coupe::verif::trace_enable(true);
    let mut r = port::Rng(0x1234_5678_9abc_def1);
    let mut found = 0;
    for it in 0..2_000_000u64 {
        let npts = 3 + r.below(5) as usize;
        let order = 1 + r.below(3) as u32;
        let points: Vec<coupe::Point2D> = (0..npts).map(|_| coupe::Point2D::new(r.below(8) as f64, r.below(8) as f64)).collect();
        let scale = [1.0e-16f64, 3.0e-16, 1.0e-17, 5.0e-16][r.below(4) as usize];
        let weights: Vec<f64> = (0..npts).map(|_| scale * (1.0 + r.below(1000) as f64 / 500.0)).collect();
        let k = 3 + r.below(6) as usize;
        let _ = coupe::verif::drain();
        let mut ids = vec![0usize; npts];
        coupe::HilbertCurve { part_count: 1, order }.partition(&mut ids, (&points[..], &weights[..])).unwrap();
        let recs = coupe::verif::drain();
        let idx = recs.iter().find(|(n, _)| *n == "hilbert_indices").map(|(_, v)| v.clone()).unwrap();
        if let Err(round) = port::wq(&idx, &weights, k, 5000) {
            let (tx, rx) = mpsc::channel();
            let (pp, ww) = (points.clone(), weights.clone());
            std::thread::spawn(move || {
                let mut ids = vec![0usize; pp.len()];
                let r = coupe::HilbertCurve { part_count: k, order }.partition(&mut ids, (&pp[..], &ww[..]));
                let _ = tx.send((r.is_ok(), ids));
            });
            let hung = rx.recv_timeout(Duration::from_secs(10)).is_err();
            println!("case {}: port repeats a state at round {}; HilbertCurve{{part_count:{},order:{}}} on points={:?} weights={:?} (indices {:?}): {}",
                it, round, k, order, points.iter().map(|p| (p.x, p.y)).collect::<Vec<_>>(), weights, idx, if hung { "HANG (no return within 10 s)" } else { "returned" });
            if hung { found += 1; if found >= 3 { break; } }
        }
    }
    std::process::exit(0);
}

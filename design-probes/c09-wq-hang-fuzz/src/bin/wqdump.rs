//! Prints one line per generated input with the result of the REAL `weighted_quantiles`
//! (and of HilbertCurve::partition on small point sets): run it against two versions of coupe and diff.
use coupe::Partition as _;
#[allow(dead_code)]
#[path = "wqcycle.rs"]
mod port;
fn main() {
    let a: Vec<String> = std::env::args().collect();
    let seed: u64 = a[1].parse().unwrap();
    let cnt: u64 = a[2].parse().unwrap();
    let mut r = port::Rng(seed.wrapping_mul(0x9E3779B97F4A7C15) | 1);
    for i in 0..cnt {
        // ordinary weights: total >= 1 mostly; families of the earlier fuzzers plus large totals and fractions
        let m = 2 + r.below(40) as usize;
        let alpha: u64 = [8u64, 64, 1 << 16, 1 << 40, u64::MAX][r.below(5) as usize];
        let pts: Vec<u64> = (0..m).map(|_| r.below(alpha)).collect();
        let wk = r.below(8);
        let ws: Vec<f64> = (0..m).map(|_| match wk {
            0 => 1.0,
            1 => (1 + r.below(9)) as f64,
            2 => (1 + r.below(80)) as f64 / 8.0,
            3 => if r.below(3) == 0 { 1000.0 } else { 1.0 },
            4 => (1 + r.below(30)) as f64 * 0.1,
            5 => (r.below(1 << 30) as f64) / 1.0e6 + 1e-3,
            6 => (1 + r.below(1000)) as f64 * 1.0e4,          // large totals
            _ => (1 + r.below(1000)) as f64 * 1.0e-3,         // totals below 1 at times
        }).collect();
        let n = 1 + r.below(m as u64 + 2) as usize;
        let s = coupe::verif_hilbert::weighted_quantiles_u64(&pts, &ws, n);
        println!("{} wq {:?}", i, s);
        if i % 10 == 0 {
            let np = 3 + r.below(30) as usize;
            let pts2: Vec<coupe::Point2D> = (0..np).map(|_| coupe::Point2D::new(r.below(1000) as f64 / 7.0, r.below(1000) as f64 / 3.0)).collect();
            let w2: Vec<f64> = (0..np).map(|_| (1 + r.below(50)) as f64 * [1.0, 0.1, 100.0][(i % 3) as usize]).collect();
            let mut ids = vec![0usize; np];
            coupe::HilbertCurve { part_count: 1 + r.below(8) as usize, order: 1 + r.below(12) as u32 }.partition(&mut ids, (&pts2[..], &w2[..])).unwrap();
            println!("{} hc {:?}", i, ids);
        }
    }
}

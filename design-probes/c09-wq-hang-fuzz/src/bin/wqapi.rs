//! Finds public-API inputs (HilbertCurve 2-D / 3-D) on which the quantile search repeats a state
//! (port) and confirms them on `HilbertCurve::partition` under a watchdog.
use coupe::Partition as _;
use std::sync::mpsc;
use std::time::Duration;
#[allow(dead_code)]
#[path = "wqcycle.rs"]
mod port;
fn run<const D: usize>(pts: &[[f64; 3]], ws: &[f64], k: usize, order: u32) -> Option<Vec<usize>> {
    let (tx, rx) = mpsc::channel();
    let (p, w) = (pts.to_vec(), ws.to_vec());
    std::thread::spawn(move || {
        let mut ids = vec![usize::MAX; p.len()];
        if D == 2 {
            let v: Vec<coupe::Point2D> = p.iter().map(|q| coupe::Point2D::new(q[0], q[1])).collect();
            coupe::HilbertCurve { part_count: k, order }.partition(&mut ids, (&v[..], &w[..])).unwrap();
        } else {
            let v: Vec<coupe::Point3D> = p.iter().map(|q| coupe::Point3D::new(q[0], q[1], q[2])).collect();
            coupe::HilbertCurve { part_count: k, order }.partition(&mut ids, (&v[..], &w[..])).unwrap();
        }
        let _ = tx.send(ids);
    });
    rx.recv_timeout(Duration::from_secs(8)).ok()
}
fn main() {
    coupe::verif::trace_enable(true);
    let mut r = port::Rng(0xfeed_beef_1234_5671);
    let mut found = [0usize; 4];
    for _ in 0..200000u64 {
        let dim = 2 + r.below(2) as usize;
        let npts = 3 + r.below(7) as usize;
        let order = 1 + r.below(if dim == 2 { 4 } else { 3 }) as u32;
        let pts: Vec<[f64; 3]> = (0..npts).map(|_| [r.below(6) as f64, r.below(6) as f64, if dim == 3 { r.below(6) as f64 } else { 0.0 }]).collect();
        let scale = [1.0e-17f64, 1.0e-300][r.below(2) as usize];
        let ws: Vec<f64> = (0..npts).map(|_| (1 + r.below(9)) as f64 * scale).collect();
        let k = 3 + r.below(6) as usize;
        let _ = coupe::verif::drain();
        let one = if dim == 2 { run::<2>(&pts, &ws, 1, order) } else { run::<3>(&pts, &ws, 1, order) };
        if one.is_none() { continue; }
        let recs = coupe::verif::drain();
        let idx = match recs.iter().find(|(n, _)| *n == "hilbert_indices") { Some((_, v)) => v.clone(), None => continue };
        let slot = (dim - 2) * 2 + (scale < 1e-100) as usize;
        if found[slot] >= 1 { continue; }
        if port::wq(&idx, &ws, k, 5000).is_err() {
            let res = if dim == 2 { run::<2>(&pts, &ws, k, order) } else { run::<3>(&pts, &ws, k, order) };
            let pp: Vec<Vec<f64>> = pts.iter().map(|p| p[..dim].to_vec()).collect();
            println!("HilbertCurve {}D part_count={} order={} points={:?} weights={:?} indices={:?}: {}", dim, k, order, pp, ws, idx,
                     match res { None => "HANG (no return within 8 s)".to_string(), Some(ids) => format!("returned {:?}", ids) });
            found[slot] += 1;
            if found.iter().all(|x| *x >= 1) { break; }
        }
    }
    std::process::exit(0);
}

//! Re-implementation of `weighted_quantiles` (P = u64, W = f64, sequential sums) with
//! cycle detection on the loop state; differential check against the real function;
//! random / exhaustive search for a repeating state (= proof of non-termination).
use std::collections::HashSet;

#[derive(Clone, PartialEq, Eq, Hash, Debug)]
struct Split { pos: u64, mn: u64, mx: u64, st: bool }

fn bsearch_pc(a: &[u64], k: u64) -> usize {
    let mut size = a.len();
    if size == 0 { return 0; }
    let mut base = 0usize;
    while size > 1 {
        let half = size / 2;
        let mid = base + half;
        if a[mid] < k { base = mid; }
        size -= half;
    }
    base + (a[base] < k) as usize
}

/// Ok((positions, rounds)) | Err(rounds at which a state repeated)
static WIDEN: std::sync::atomic::AtomicU64 = std::sync::atomic::AtomicU64::new(0);
static NOTNEST: std::sync::atomic::AtomicU64 = std::sync::atomic::AtomicU64::new(0);
static INVERT: std::sync::atomic::AtomicU64 = std::sync::atomic::AtomicU64::new(0);
static UPDATES: std::sync::atomic::AtomicU64 = std::sync::atomic::AtomicU64::new(0);
static UNSORTED_ROUNDS: std::sync::atomic::AtomicU64 = std::sync::atomic::AtomicU64::new(0);
static NOSHRINK_MOVE: std::sync::atomic::AtomicU64 = std::sync::atomic::AtomicU64::new(0);
static NOTNEST_POSW: std::sync::atomic::AtomicU64 = std::sync::atomic::AtomicU64::new(0);
static UNS_UNSETTLED: std::sync::atomic::AtomicU64 = std::sync::atomic::AtomicU64::new(0);
static BR_NONMONO: std::sync::atomic::AtomicU64 = std::sync::atomic::AtomicU64::new(0);
static WIDEN_SORTED: std::sync::atomic::AtomicU64 = std::sync::atomic::AtomicU64::new(0);

pub fn wq(pts: &[u64], ws: &[f64], n: usize, cap: usize) -> Result<(Vec<u64>, usize), usize> {
    let fixed = std::env::var("WQ_FIX").is_ok();   // candidate fix: epsilon scaled by the total weight
    let mn = *pts.iter().min().unwrap();
    let mx = *pts.iter().max().unwrap();
    let mut s: Vec<Split> = (1..n).map(|i| Split { pos: mn + (mx - mn) / n as u64 * i as u64, mn, mx, st: false }).collect();
    let mut todo = s.len();
    let mut seen: HashSet<Vec<Split>> = HashSet::new();
    let mut rounds = 0;
    while todo > 0 {
        rounds += 1;
        if rounds > cap || !seen.insert(s.clone()) { return Err(rounds); }
        let pos: Vec<u64> = s.iter().map(|x| x.pos).collect();
        if !pos.windows(2).all(|w| w[0] <= w[1]) {
            use std::sync::atomic::Ordering::Relaxed;
            let k = UNSORTED_ROUNDS.fetch_add(1, Relaxed);
            let us: Vec<&Split> = s.iter().filter(|x| !x.st).collect();
            if !us.windows(2).all(|w| w[0].pos <= w[1].pos) { UNS_UNSETTLED.fetch_add(1, Relaxed); }
            if !us.windows(2).all(|w| w[0].mn <= w[1].mn && w[0].mx <= w[1].mx) { BR_NONMONO.fetch_add(1, Relaxed); }
            if k < 3 { println!("unsorted round {}: {:?} pts={:?} ws={:?} n={}", rounds, s.iter().map(|x| (x.pos, x.mn, x.mx, x.st as u8)).collect::<Vec<_>>(), pts, ws, n); }
        }
        let mut pw = vec![0.0f64; n];
        for (p, w) in pts.iter().zip(ws) { pw[bsearch_pc(&pos, *p)] += *w; }
        let total: f64 = pw.iter().cloned().sum();
        let eps = if fixed { f64::EPSILON * f64::min(1.0, total) } else { f64::EPSILON };
        let mut acc = 0.0;
        let pre: Vec<f64> = pw.iter().map(|x| { acc += *x; acc }).collect();
        let mut ns = s.clone();
        for p in 0..n - 1 {
            let sp = &mut ns[p];
            if sp.st { continue; }
            let left = pre[p];
            let lr = left / (p + 1) as f64;
            let rr = (total - left) / (n - p - 1) as f64;
            if f64::abs(lr - rr) / total < 0.05 { sp.st = true; todo -= 1; continue; }
            let exp = (p + 1) as f64 * total / n as f64;
            if lr < rr {
                sp.mn = sp.pos;
                let mut a = left;
                for q in p + 1..n - 1 {
                    a += pw[q];
                    if (a - exp).abs() <= eps { sp.mn = pos[q]; sp.mx = pos[q]; break; }
                    else if exp < a { if pos[q] < sp.mx { sp.mx = pos[q]; } break; }
                    else if a < exp { sp.mn = pos[q]; }
                }
            } else {
                sp.mx = sp.pos;
                let mut a = left;
                for q in (0..p).rev() {
                    a -= pw[q + 1];
                    if (a - exp).abs() <= eps { sp.mn = pos[q]; sp.mx = pos[q]; break; }
                    else if a < exp { if sp.mn < pos[q] { sp.mn = pos[q]; } break; }
                    else if exp < a { sp.mx = pos[q]; }
                }
            }
            {
                use std::sync::atomic::Ordering::Relaxed;
                let old = &s[p];
                UPDATES.fetch_add(1, Relaxed);
                let w0 = old.mx.abs_diff(old.mn); let w1 = sp.mx.abs_diff(sp.mn);
                let sorted = pos.windows(2).all(|w| w[0] <= w[1]);
                if w1 > w0 { WIDEN.fetch_add(1, Relaxed); if sorted { WIDEN_SORTED.fetch_add(1, Relaxed); } }
                if sp.mn > sp.mx { INVERT.fetch_add(1, Relaxed); }
                let (lo0, hi0) = (old.mn.min(old.mx), old.mn.max(old.mx));
                if sp.mn < lo0 || sp.mx > hi0 || sp.mn > hi0 || sp.mx < lo0 { NOTNEST.fetch_add(1, Relaxed); if w1 > 0 { NOTNEST_POSW.fetch_add(1, Relaxed); } }
                let np = (sp.mn & sp.mx) + (sp.mn ^ sp.mx) / 2;
                if np != sp.pos && w1 >= w0 { NOSHRINK_MOVE.fetch_add(1, Relaxed);
                    if NOSHRINK_MOVE.load(Relaxed) < 4 { println!("noshrink: p={} old={:?} new=({}, {}) pos={:?} pw={:?} n={}", p, old, sp.mn, sp.mx, pos, pw, n); } }
            }
            let np = (sp.mn & sp.mx) + (sp.mn ^ sp.mx) / 2;
            if np == sp.pos { sp.st = true; todo -= 1; } else { sp.pos = np; }
        }
        s = ns;
    }
    Ok((s.iter().map(|x| x.pos).collect(), rounds))
}

pub struct Rng(pub u64);
impl Rng {
    pub fn next(&mut self) -> u64 { let mut x = self.0; x ^= x >> 12; x ^= x << 25; x ^= x >> 27; self.0 = x; x.wrapping_mul(0x2545_F491_4F6C_DD1D) }
    pub fn below(&mut self, n: u64) -> u64 { self.next() % n }
}

fn gen(r: &mut Rng, maxm: usize, maxn: usize) -> (Vec<u64>, Vec<f64>, usize) {
    let m = 2 + r.below(maxm as u64 - 1) as usize;
    let alpha: u64 = [4u64, 8, 16, 16, 32, 64, 256, 1 << 16][r.below(8) as usize];
    let mut pts: Vec<u64> = (0..m).map(|_| r.below(alpha)).collect();
    if r.below(3) == 0 { let i = r.below(m as u64) as usize; pts[i] = alpha - 1; let j = r.below(m as u64) as usize; pts[j] = 0; }
    let absorb = std::env::var("WQ_ABSORB").is_ok();
    let wk = if absorb { 6 + r.below(5) } else { r.below(6) };
    let ws: Vec<f64> = (0..m).map(|_| match wk {
        // inexact sums: absorption (huge + tiny), tenths, wide random exponents
        6 => if r.below(3) == 0 { 9007199254740992.0 } else { 1.0 + r.below(3) as f64 },
        7 => if r.below(4) == 0 { 1.0e16 } else { [1.0, 2.0, 3.0, 0.0][r.below(4) as usize] },
        8 => (1 + r.below(30)) as f64 * 0.1,
        9 => ((1 + r.below(1000)) as f64) * (2.0f64).powi(r.below(120) as i32 - 60),
        10 => 1.0e-17 * (1 + r.below(60)) as f64,
        0 => 1.0,
        1 => r.below(4) as f64,
        2 => (1 + r.below(9)) as f64,
        3 => if r.below(4) == 0 { [10.0, 100.0, 7.0][r.below(3) as usize] } else { 1.0 },
        4 => if r.below(2) == 0 { 0.0 } else { 1.0 + r.below(2) as f64 },
        _ => (1 + r.below(16)) as f64 / 4.0,
    }).collect();
    let n = 3 + r.below(maxn as u64 - 2) as usize;
    let scale: f64 = std::env::var("WQ_SCALE").ok().and_then(|x| x.parse().ok()).unwrap_or(1.0);
    let ws: Vec<f64> = ws.iter().map(|w| w * scale).collect();
    (pts, ws, n)
}

fn main() {
    let a: Vec<String> = std::env::args().collect();
    let mode = a[1].as_str();
    match mode {
        // differential check of the port against the real function
        "diff" => {
            let mut r = Rng(a[2].parse::<u64>().unwrap().wrapping_mul(0x9E3779B97F4A7C15) | 1);
            let cnt: u64 = a[3].parse().unwrap();
            let mut bad = 0;
            for _ in 0..cnt {
                let (pts, ws, n) = gen(&mut r, 14, 18);
                let real = coupe::verif_hilbert::weighted_quantiles_u64(&pts, &ws, n);
                match wq(&pts, &ws, n, 100000) {
                    Ok((p, _)) => if p != real { bad += 1; println!("DIFF {:?} {:?} {} port={:?} real={:?}", pts, ws, n, p, real); },
                    Err(k) => { println!("CYCLE/cap at {} for {:?} {:?} {}", k, pts, ws, n); }
                }
            }
            println!("diff: {} cases, {} mismatches", cnt, bad);
        }
        // random search for a repeating state, multi-threaded
        "rand" => {
            let seed: u64 = a[2].parse().unwrap();
            let cnt: u64 = a[3].parse().unwrap();
            let maxm: usize = a[4].parse().unwrap();
            let maxn: usize = a[5].parse().unwrap();
            let threads = 6;
            let hs: Vec<_> = (0..threads).map(|t| std::thread::spawn(move || {
                let mut r = Rng((seed * 1000 + t as u64).wrapping_mul(0x9E3779B97F4A7C15) | 1);
                let mut maxr = 0usize; let mut worst = None;
                for _ in 0..cnt {
                    let (pts, ws, n) = gen(&mut r, maxm, maxn);
                    match wq(&pts, &ws, n, 100000) {
                        Ok((_, k)) => if k > maxr { maxr = k; worst = Some((pts, ws, n)); },
                        Err(k) => { println!("CYCLE at round {}: pts={:?} ws={:?} n={}", k, pts, ws, n); std::process::exit(3); }
                    }
                }
                (maxr, worst)
            })).collect();
            let mut best = (0, None);
            for h in hs { let x = h.join().unwrap(); if x.0 > best.0 { best = x; } }
            println!("rand: {} x {} cases, no repeating state; max rounds {} at {:?}", threads, cnt, best.0, best.1);
            use std::sync::atomic::Ordering::Relaxed;
            println!("bracket updates {}: widened {} (of which with sorted positions {}), not nested in the old bracket {}, inverted (min>max) {}; rounds with unsorted positions {}(unsettled splits out of order among themselves {}, their brackets not monotone {}); not nested with positive width {}; moving updates whose width did not shrink {}",
                UPDATES.load(Relaxed), WIDEN.load(Relaxed), WIDEN_SORTED.load(Relaxed), NOTNEST.load(Relaxed), INVERT.load(Relaxed), UNSORTED_ROUNDS.load(Relaxed), UNS_UNSETTLED.load(Relaxed), BR_NONMONO.load(Relaxed), NOTNEST_POSW.load(Relaxed), NOSHRINK_MOVE.load(Relaxed));
        }
        // hill-climbing on the number of rounds (weights from an absorbing alphabet)
        "climb" => {
            let seed: u64 = a[2].parse().unwrap();
            let restarts: u64 = a[3].parse().unwrap();
            let iters: u64 = a[4].parse().unwrap();
            let wv: Vec<f64> = vec![0.0, 1.0, 1.0, 2.0, 3.0, 0.5, 0.1, 0.3, 9007199254740992.0, 4503599627370496.0, 1.0e16, 1.0e17, 7.0e15, 1.0e-3];
            let hs: Vec<_> = (0..6u64).map(|t| { let wv = wv.clone(); std::thread::spawn(move || {
                let mut r = Rng((seed * 77 + t).wrapping_mul(0x9E3779B97F4A7C15) | 1);
                let mut best = 0usize;
                for _ in 0..restarts {
                    let m = 3 + r.below(12) as usize;
                    let bits = [4u32, 6, 8, 12, 20, 40, 63][r.below(7) as usize];
                    let mut pts: Vec<u64> = (0..m).map(|_| r.next() >> (64 - bits)).collect();
                    let mut ws: Vec<f64> = (0..m).map(|_| wv[r.below(wv.len() as u64) as usize]).collect();
                    let mut n = 3 + r.below(m as u64) as usize;
                    let mut f = match wq(&pts, &ws, n, 20000) { Ok((_, k)) => k, Err(k) => { println!("CYCLE at round {}: pts={:?} ws={:?} n={}", k, pts, ws, n); std::process::exit(3); } };
                    for _ in 0..iters {
                        let (mut p2, mut w2, mut n2) = (pts.clone(), ws.clone(), n);
                        let i = r.below(p2.len() as u64) as usize;
                        match r.below(8) {
                            0 | 1 => p2[i] = r.next() >> (64 - bits),
                            2 => { let j = r.below(p2.len() as u64) as usize; p2[i] = p2[j].wrapping_add(r.below(5)).wrapping_sub(2) & ((1u64 << bits) - 1).max(1); }
                            3 | 4 => w2[i] = wv[r.below(wv.len() as u64) as usize],
                            5 => n2 = (n2 as i64 + [-1i64, 1][r.below(2) as usize]).clamp(3, p2.len() as i64 + 2) as usize,
                            6 => if p2.len() < 20 { p2.push(r.next() >> (64 - bits)); w2.push(wv[r.below(wv.len() as u64) as usize]); },
                            _ => if p2.len() > 3 { p2.remove(i); w2.remove(i); n2 = n2.min(p2.len() + 2); },
                        }
                        match wq(&p2, &w2, n2, 20000) {
                            Ok((_, k)) => if k >= f { pts = p2; ws = w2; n = n2; f = k; },
                            Err(k) => { println!("CYCLE at round {}: pts={:?} ws={:?} n={}", k, p2, w2, n2); std::process::exit(3); }
                        }
                    }
                    if f > best { best = f; println!("thread {} best {} rounds: pts={:?} ws={:?} n={}", t, f, pts, ws, n); }
                }
                best
            })}).collect();
            let mut b = 0; for h in hs { b = b.max(h.join().unwrap()); }
            println!("climb: max rounds {}", b);
        }
        // exhaustive: m points with indices in 0..range (sorted multisets), weights in a small set, n in 3..=maxn
        "ex" => {
            let m: usize = a[2].parse().unwrap();
            let range: u64 = a[3].parse().unwrap();
            let maxn: usize = a[4].parse().unwrap();
            let wvals: Vec<f64> = a[5].split(',').map(|x| x.parse().unwrap()).collect();
            let mut ix = vec![0u64; m];
            let mut total: u64 = 0; let mut maxr = 0; let mut worst = None;
            loop {
                let wn = wvals.len().pow(m as u32);
                for wc in 0..wn {
                    let mut c = wc;
                    let ws: Vec<f64> = (0..m).map(|_| { let v = wvals[c % wvals.len()]; c /= wvals.len(); v }).collect();
                    for n in 3..=maxn {
                        total += 1;
                        match wq(&ix, &ws, n, 100000) {
                            Ok((_, k)) => if k > maxr { maxr = k; worst = Some((ix.clone(), ws.clone(), n)); },
                            Err(k) => { println!("CYCLE at round {}: pts={:?} ws={:?} n={}", k, ix, ws, n); std::process::exit(3); }
                        }
                    }
                }
                let mut k = m;
                while k > 0 && ix[k - 1] == range - 1 { k -= 1; }
                if k == 0 { break; }
                let v = ix[k - 1] + 1;
                for j in (k - 1)..m { ix[j] = v; }
            }
            println!("ex m={} range={} maxn={} weights={:?}: {} cases, no repeating state; max rounds {} at {:?}", m, range, maxn, wvals, total, maxr, worst);
        }
        _ => {}
    }
}

use std::sync::atomic::{AtomicU64, Ordering};
use std::sync::{Arc, Mutex};
use std::time::Duration;

struct Rng(u64);
impl Rng {
    fn next(&mut self) -> u64 { let mut x = self.0; x ^= x >> 12; x ^= x << 25; x ^= x >> 27; self.0 = x; x.wrapping_mul(0x2545_F491_4F6C_DD1D) }
    fn below(&mut self, n: u64) -> u64 { self.next() % n }
}

fn main() {
    let args: Vec<String> = std::env::args().collect();
    let seed: u64 = args.get(1).map(|s| s.parse().unwrap()).unwrap_or(1);
    let total: u64 = args.get(2).map(|s| s.parse().unwrap()).unwrap_or(1_000_000);
    let progress = Arc::new(AtomicU64::new(0));
    let current: Arc<Mutex<String>> = Arc::new(Mutex::new(String::new()));
    let (p2, c2) = (progress.clone(), current.clone());
    let unsorted = Arc::new(AtomicU64::new(0));
    let u2 = unsorted.clone();
    let exhaustive = args.get(3).map(|s| s == "ex").unwrap_or(false);
    if exhaustive {
        let (p3, c3) = (progress.clone(), current.clone());
        let alphabets: Vec<Vec<u64>> = vec![vec![0,1,2,3], vec![0,1,5,100], vec![0,2,4,8,16], vec![0,1,2,3,4,5,6,7], vec![10, 11, 1000, 1<<40, u64::MAX]];
        let wvals: Vec<f64> = vec![0.0, 1.0, 2.0, 5.0];
        std::thread::spawn(move || {
            let mut it: u64 = 0;
            for alpha in &alphabets {
                for m in 1..=(seed as usize) {
                    // sorted multisets of size m over alpha: iterate non-decreasing index vectors
                    let a = alpha.len();
                    let mut ix = vec![0usize; m];
                    loop {
                        let pts: Vec<u64> = ix.iter().map(|i| alpha[*i]).collect();
                        let wn = wvals.len().pow(m as u32);
                        for wc in 0..wn {
                            let mut c = wc;
                            let ws: Vec<f64> = (0..m).map(|_| { let v = wvals[c % wvals.len()]; c /= wvals.len(); v }).collect();
                            for n in 1..=(m + 2) {
                                *c3.lock().unwrap() = format!("pts={:?} ws={:?} n={}", pts, ws, n);
                                let _ = coupe::verif_hilbert::weighted_quantiles_u64(&pts, &ws, n);
                                it += 1;
                                p3.store(it, Ordering::SeqCst);
                            }
                        }
                        // next non-decreasing vector
                        let mut k = m;
                        while k > 0 && ix[k - 1] == a - 1 { k -= 1; }
                        if k == 0 { break; }
                        let v = ix[k - 1] + 1;
                        for j in (k - 1)..m { ix[j] = v; }
                    }
                }
            }
            println!("exhaustive: {} cases, no hang", it);
            p3.store(u64::MAX, Ordering::SeqCst);
        });
        let mut last = 0; let mut stall = 0;
        loop {
            std::thread::sleep(Duration::from_millis(500));
            let p = progress.load(Ordering::SeqCst);
            if p == u64::MAX { return; }
            if p == last { stall += 1; } else { stall = 0; last = p; }
            if stall >= 10 { println!("HANG after {} cases: {}", p, current.lock().unwrap()); std::process::exit(3); }
        }
    }
    let med = args.get(3).map(|s| s == "med").unwrap_or(false);
    std::thread::spawn(move || {
        let mut r = Rng(seed.wrapping_mul(0x9E3779B97F4A7C15) | 1);
        for it in 0..total {
            let m = if med { 4 + r.below(60) as usize } else { 1 + r.below(14) as usize };
            let alpha: u64 = [2u64, 4, 8, 16, 64, 256, 1 << 20, 1 << 40, u64::MAX][r.below(9) as usize];
            let mut pts: Vec<u64> = (0..m).map(|_| r.below(alpha)).collect();
            if r.below(4) == 0 { pts.sort(); }
            let wk = r.below(7);
            let ws: Vec<f64> = (0..m).map(|_| match wk {
                0 => 1.0,
                1 => r.below(5) as f64,
                2 => (1 + r.below(80)) as f64 / 8.0,
                3 => if r.below(3) == 0 { 1000.0 } else { 1.0 },
                4 => (1 + r.below(30)) as f64 * 0.1,
                5 => if r.below(2) == 0 { 0.0 } else { 1.0 + r.below(3) as f64 },
                _ => (r.below(1 << 30) as f64) / 1.0e6 + 1e-3,
            }).collect();
            let n = if med { 2 + r.below(24) as usize } else { 1 + r.below(m as u64 + 3) as usize };
            let mut pts = pts; let mut ws = ws;
            if med && r.below(2) == 0 {
                // a few very heavy points so that several quantile targets coincide
                for _ in 0..(1 + r.below(3)) { let i = r.below(m as u64) as usize; ws[i] = [50.0, 1000.0, 1.0e6][r.below(3) as usize]; }
                if r.below(2) == 0 { let i = r.below(m as u64) as usize; let j = r.below(m as u64) as usize; pts[j] = pts[i].wrapping_add(r.below(3)); }
            }
            let scale: f64 = std::env::var("WQ_SCALE").ok().and_then(|x| x.parse().ok()).unwrap_or(1.0);
            let ws: Vec<f64> = ws.iter().map(|w| w * scale).collect();
            *c2.lock().unwrap() = format!("pts={:?} ws={:?} n={}", pts, ws, n);
            let s = coupe::verif_hilbert::weighted_quantiles_u64(&pts, &ws, n);
            if s.windows(2).any(|w| w[0] > w[1]) { u2.fetch_add(1, Ordering::Relaxed); }
            p2.store(it + 1, Ordering::SeqCst);
        }
    });
    let mut last = 0;
    let mut stall = 0;
    loop {
        std::thread::sleep(Duration::from_millis(500));
        let p = progress.load(Ordering::SeqCst);
        if p >= total { println!("done {} cases, no hang; unsorted results: {}", p, unsorted.load(Ordering::Relaxed)); return; }
        if p == last { stall += 1; } else { stall = 0; last = p; }
        if stall >= 10 { println!("HANG after {} cases: {}", p, current.lock().unwrap()); std::process::exit(3); }
    }
}

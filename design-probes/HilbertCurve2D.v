(* Feasibility prototype for C08 (2-D): a table-driven recursive curve is a bijection and is
   continuous at every order, given a finite certificate about the tables. *)
From Coq Require Import NArith List Bool Lia Arith.
Import ListNotations.
Open Scope N_scope.

Definition b2n (b : bool) : N := if b then 1 else 0.

Section Curve.
Variable nstates : nat.
Variable digit : nat -> bool -> bool -> N.           (* state, x bit, y bit -> digit 0..3 *)
Variable next  : nat -> bool -> bool -> nat.
Variable invq  : nat -> N -> bool * bool.             (* state, digit -> quadrant *)
Variable entry exit_ : nat -> bool * bool.            (* corners *)

Definition adjq (a b : bool * bool) (ea eb : bool * bool) : bool :=
  (* quadrants a,b differ on exactly one axis; exit corner ea (in a) faces b, entry corner eb (in b) faces a;
     on the other axis quadrant bits and corner bits agree *)
  let '(ax, ay) := a in let '(bx, by_) := b in let '(eax, eay) := ea in let '(ebx, eby) := eb in
  (negb (eqb ax bx) && eqb ay by_ && eqb eax bx && eqb ebx ax && eqb eay eby)
  || (negb (eqb ay by_) && eqb ax bx && eqb eay by_ && eqb eby ay && eqb eax ebx).

Hypothesis H_closed : forall s bx by_, (s < nstates)%nat -> (next s bx by_ < nstates)%nat.
Hypothesis H_digit_lt : forall s bx by_, (s < nstates)%nat -> digit s bx by_ < 4.
Hypothesis H_inv1 : forall s bx by_, (s < nstates)%nat -> invq s (digit s bx by_) = (bx, by_).
Hypothesis H_inv2 : forall s d, (s < nstates)%nat -> d < 4 -> digit s (fst (invq s d)) (snd (invq s d)) = d.
Hypothesis H_entry : forall s, (s < nstates)%nat ->
  invq s 0 = entry s /\ entry (next s (fst (entry s)) (snd (entry s))) = entry s.
Hypothesis H_exit : forall s, (s < nstates)%nat ->
  invq s 3 = exit_ s /\ exit_ (next s (fst (exit_ s)) (snd (exit_ s))) = exit_ s.
Hypothesis H_glue : forall s d, (s < nstates)%nat -> d < 3 ->
  let qa := invq s d in let qb := invq s (d + 1) in
  adjq qa qb (exit_ (next s (fst qa) (snd qa))) (entry (next s (fst qb) (snd qb))) = true.

Fixpoint enc (n : nat) (s : nat) (x y : N) : N :=
  match n with
  | O => 0
  | S m => let bx := N.testbit x (N.of_nat m) in let by_ := N.testbit y (N.of_nat m) in
           digit s bx by_ * 4 ^ N.of_nat m + enc m (next s bx by_) (x mod 2 ^ N.of_nat m) (y mod 2 ^ N.of_nat m)
  end.

Fixpoint dec (n : nat) (s : nat) (h : N) : N * N :=
  match n with
  | O => (0, 0)
  | S m => let d := h / 4 ^ N.of_nat m in
           let q := invq s d in
           let xy := dec m (next s (fst q) (snd q)) (h mod 4 ^ N.of_nat m) in
           (b2n (fst q) * 2 ^ N.of_nat m + fst xy, b2n (snd q) * 2 ^ N.of_nat m + snd xy)
  end.

Lemma pow4_pos m : 0 < 4 ^ m. Proof. apply N.neq_0_lt_0, N.pow_nonzero; lia. Qed.
Lemma pow2_pos m : 0 < 2 ^ m. Proof. apply N.neq_0_lt_0, N.pow_nonzero; lia. Qed.
Lemma pow4_S m : 4 ^ N.of_nat (S m) = 4 * 4 ^ N.of_nat m.
Proof. rewrite Nat2N.inj_succ, N.pow_succ_r'; reflexivity. Qed.
Lemma pow2_S m : 2 ^ N.of_nat (S m) = 2 * 2 ^ N.of_nat m.
Proof. rewrite Nat2N.inj_succ, N.pow_succ_r'; reflexivity. Qed.

Lemma dec_range n : forall s h, (s < nstates)%nat -> h < 4 ^ N.of_nat n ->
  fst (dec n s h) < 2 ^ N.of_nat n /\ snd (dec n s h) < 2 ^ N.of_nat n.
Proof.
  induction n as [|m IH]; intros s h Hs Hh; cbn [dec fst snd].
  - cbn. lia.
  - rewrite pow4_S in Hh. rewrite pow2_S.
    set (p4 := 4 ^ N.of_nat m) in *. set (p2 := 2 ^ N.of_nat m) in *.
    assert (0 < p4) by apply pow4_pos.
    destruct (invq s (h / p4)) as [qx qy] eqn:Eq; cbn [fst snd].
    destruct (IH (next s qx qy) (h mod p4)) as [Hx Hy]; [apply H_closed; auto | apply N.mod_lt; lia |].
    fold p2 in Hx, Hy. destruct qx, qy; cbn [b2n]; lia.
Qed.

(* the curve starts at the entry corner and ends at the exit corner *)
Lemma dec_first n : forall s, (s < nstates)%nat ->
  dec n s 0 = (b2n (fst (entry s)) * (2 ^ N.of_nat n - 1), b2n (snd (entry s)) * (2 ^ N.of_nat n - 1)).
Proof.
  induction n as [|m IH]; intros s Hs; cbn [dec].
  - cbn. f_equal; lia.
  - assert (P4 := pow4_pos (N.of_nat m)). assert (P2 := pow2_pos (N.of_nat m)).
    rewrite N.div_0_l, N.mod_0_l by lia.
    destruct (H_entry s Hs) as [E1 E2]. rewrite E1, IH, E2 by (apply H_closed; auto).
    rewrite pow2_S. set (p2 := 2 ^ N.of_nat m) in *.
    destruct (entry s) as [ex ey]; cbn [fst snd]. destruct ex, ey; cbn [b2n]; f_equal; lia.
Qed.

Lemma dec_last n : forall s, (s < nstates)%nat ->
  dec n s (4 ^ N.of_nat n - 1) = (b2n (fst (exit_ s)) * (2 ^ N.of_nat n - 1), b2n (snd (exit_ s)) * (2 ^ N.of_nat n - 1)).
Proof.
  induction n as [|m IH]; intros s Hs; cbn [dec].
  - cbn. f_equal; lia.
  - assert (P4 := pow4_pos (N.of_nat m)). assert (P2 := pow2_pos (N.of_nat m)).
    rewrite pow4_S, pow2_S. set (p4 := 4 ^ N.of_nat m) in *. set (p2 := 2 ^ N.of_nat m) in *.
    assert (D : (4 * p4 - 1) / p4 = 3).
    { symmetry. apply N.div_unique with (r := p4 - 1); lia. }
    assert (M : (4 * p4 - 1) mod p4 = p4 - 1).
    { symmetry. apply N.mod_unique with (q := 3); lia. }
    rewrite D, M. destruct (H_exit s Hs) as [E1 E2]. rewrite E1, IH, E2 by (apply H_closed; auto).
    fold p2. destruct (exit_ s) as [ex ey]; cbn [fst snd]. destruct ex, ey; cbn [b2n]; f_equal; lia.
Qed.

Definition adjacent (a b : N * N) : Prop :=
  (fst a = fst b /\ (snd a + 1 = snd b \/ snd b + 1 = snd a)) \/
  (snd a = snd b /\ (fst a + 1 = fst b \/ fst b + 1 = fst a)).

Theorem dec_continuous n : forall s h, (s < nstates)%nat -> h + 1 < 4 ^ N.of_nat n ->
  adjacent (dec n s h) (dec n s (h + 1)).
Proof.
  induction n as [|m IH]; intros s h Hs Hh.
  - cbn in Hh. lia.
  - assert (P4 := pow4_pos (N.of_nat m)). assert (P2 := pow2_pos (N.of_nat m)).
    rewrite pow4_S in Hh. cbn [dec].
    set (p4 := 4 ^ N.of_nat m) in *. set (p2 := 2 ^ N.of_nat m) in *.
    set (d := h / p4). set (r := h mod p4).
    assert (Hdr : h = p4 * d + r) by (apply N.div_mod; lia).
    assert (Hr : r < p4) by (apply N.mod_lt; lia).
    assert (Hd : d < 4) by (apply N.div_lt_upper_bound; lia).
    destruct (N.lt_ge_cases (r + 1) p4) as [Hin | Hout].
    + (* same quadrant *)
      assert (D' : (h + 1) / p4 = d).
      { symmetry. apply N.div_unique with (r := r + 1); lia. }
      assert (M' : (h + 1) mod p4 = r + 1).
      { symmetry. apply N.mod_unique with (q := d); lia. }
      rewrite D', M'. destruct (invq s d) as [qx qy]; cbn [fst snd].
      specialize (IH (next s qx qy) r (H_closed s qx qy Hs) Hin).
      unfold adjacent in *; cbn [fst snd] in *. destruct qx, qy; cbn [b2n]; lia.
    + (* crossing into the next quadrant *)
      assert (Er : r = p4 - 1) by lia.
      assert (Hd3 : d < 3) by nia.
      assert (D' : (h + 1) / p4 = d + 1).
      { symmetry. apply N.div_unique with (r := 0); lia. }
      assert (M' : (h + 1) mod p4 = 0).
      { symmetry. apply N.mod_unique with (q := d + 1); lia. }
      rewrite D', M', Er.
      pose proof (H_glue s d Hs Hd3) as G. cbv zeta in G.
      destruct (invq s d) as [ax ay]; destruct (invq s (d + 1)) as [bx by_]; cbn [fst snd] in *.
      rewrite dec_last, dec_first by (apply H_closed; auto).
      fold p2.
      destruct (exit_ (next s ax ay)) as [eax eay]; destruct (entry (next s bx by_)) as [ebx eby].
      unfold adjacent; cbn [fst snd].
      destruct ax, ay, bx, by_, eax, eay, ebx, eby; cbn in G; try discriminate G; cbn [b2n]; lia.
Qed.

End Curve.

Print Assumptions dec_continuous.

import re, itertools
src=open('/repo/src/algorithms/hilbert_curve.rs').read()
BASE=[[0,1,3,2],[0,3,1,2],[2,3,1,0],[2,1,3,0]]
CONF=[[1,0,3,0],[0,2,1,1],[2,1,2,3],[3,3,0,2]]
# 2D: quadrant q = 2*xbit + ybit
def quad2(q): return (q>>1&1, q&1)
def slow2(x,y,n,c):
    h=0
    for i in reversed(range(n)):
        q=((x>>i)&1)*2+((y>>i)&1)
        h=(h<<2)|BASE[c][q]; c=CONF[c][q]
    return h,c
# certificate: entry/exit corners as fixpoint: entry(c) = corner e with: q0 = quadrant with digit 0, e = quad(q0) and entry(child)=e
def solve(D,nstates,digit,nxt,quad):
    nq=1<<D
    inv=[[None]*nq for _ in range(nstates)]
    for s in range(nstates):
        assert sorted(digit[s])==list(range(nq)), ("not perm",s)
        for q in range(nq): inv[s][digit[s][q]]=q
    # entry corner: follow first child forever: corner bits must be constant: entry(s)=quad(inv[s][0]) and entry(next)=same
    entry=[quad(inv[s][0]) for s in range(nstates)]
    exit_=[quad(inv[s][nq-1]) for s in range(nstates)]
    ok=True
    for s in range(nstates):
        c0=nxt[s][inv[s][0]]; cl=nxt[s][inv[s][nq-1]]
        if entry[c0]!=entry[s]: ok=False; print("entry mismatch",s)
        if exit_[cl]!=exit_[s]: ok=False; print("exit mismatch",s)
        for d in range(nq-1):
            qa,qb=inv[s][d],inv[s][d+1]
            a,b=quad(qa),quad(qb)
            diff=[i for i in range(D) if a[i]!=b[i]]
            if len(diff)!=1: ok=False; print("quadrants not adjacent",s,d); continue
            ax=diff[0]
            ca,cb=nxt[s][qa],nxt[s][qb]
            ex,en=exit_[ca],entry[cb]
            # exit cell of child a (corner ex within quadrant a) and entry cell of child b must be adjacent across axis ax:
            for i in range(D):
                if i==ax:
                    # ex must be on the side facing b: ex[i]==b[i]... within quadrant a (a[i]) the corner facing b has bit = b[i]; entry in b facing a has bit = a[i]
                    if ex[i]!=b[i] or en[i]!=a[i]: ok=False; print("glue axis fail",s,d,ex,en,a,b)
                else:
                    if ex[i]!=en[i]: ok=False; print("glue other fail",s,d,i,ex,en)
    return ok,entry,exit_
print("2D certificate:",solve(2,4,BASE,CONF,quad2))
# 3D
m=re.search(r'const LUT: \[u8; 96\] = \[(.*?)\];',src,re.S)
vals=[int(v.replace('_',''),2) for v in re.findall(r'0b([01_]+)',m.group(1))]
assert len(vals)==96
dig=[[vals[s*8+q]&7 for q in range(8)] for s in range(12)]
nx=[[vals[s*8+q]>>3 for q in range(8)] for s in range(12)]
def quad3(q): return (q>>2&1,q>>1&1,q&1)
print("3D certificate:",solve(3,12,dig,nx,quad3))
# brute check continuity order 3 from state 0 in 2D/3D
def enc3(x,y,z,n):
    h=0;c=0
    for i in reversed(range(n)):
        q=((x>>i)&1)*4+((y>>i)&1)*2+((z>>i)&1)
        h=(h<<3)|dig[c][q]; c=nx[c][q]
    return h
n=3
cells=sorted(((enc3(x,y,z,n),(x,y,z)) for x in range(8) for y in range(8) for z in range(8)))
assert [c[0] for c in cells]==list(range(512))
print("3D order3 continuous:",all(sum(abs(a-b) for a,b in zip(cells[i][1],cells[i+1][1]))==1 for i in range(511)))
cells=sorted(((slow2(x,y,4,0)[0],(x,y)) for x in range(16) for y in range(16)))
print("2D order4 continuous:",all(sum(abs(a-b) for a,b in zip(cells[i][1],cells[i+1][1]))==1 for i in range(255)), [c[0] for c in cells]==list(range(256)))

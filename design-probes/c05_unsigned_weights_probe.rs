//! Probe: ArcSwap with UNSIGNED integer weights and an input part above the cap.
use coupe::Partition as _;
use coupe::Topology;
struct G(Vec<Vec<(usize, i64)>>);
impl Topology<i64> for G {
    type Neighbors<'n> = std::iter::Cloned<std::slice::Iter<'n, (usize, i64)>> where Self: 'n;
    fn len(&self) -> usize { self.0.len() }
    fn neighbors(&self, v: usize) -> Self::Neighbors<'_> { self.0[v].iter().cloned() }
}
fn main() {
    // path 0-1-2-3-4-5, parts 0 0 0 0 1 0 : vertex 4 (part 1) sits between two part-0 vertices
    let n = 6;
    let mut rows = vec![vec![]; n];
    for i in 0..n - 1 { rows[i].push((i + 1, 1i64)); rows[i + 1].push((i, 1i64)); }
    let g = G(rows);
    let w: Vec<u64> = vec![1; n];
    let p0 = vec![0usize, 0, 0, 0, 1, 0];
    for threads in [1usize, 2, 3] {
        let pool = coupe::rayon::ThreadPoolBuilder::new().num_threads(threads).build().unwrap();
        let mut p = p0.clone();
        let r = std::panic::catch_unwind(std::panic::AssertUnwindSafe(|| {
            pool.install(|| coupe::ArcSwap { max_imbalance: Some(0.0) }.partition(&mut p, (&g, &w[..])).unwrap())
        }));
        let load = |p: &[usize], q: usize| -> u64 { p.iter().zip(&w).filter(|(x, _)| **x == q).map(|(_, w)| *w).sum() };
        match r {
            Ok(md) => println!("threads={threads}: ok p={:?} loads {}|{} (input 5|1, cap = ideal = 3) gain={}", p, load(&p, 0), load(&p, 1), md.edge_cut_gain),
            Err(e) => println!("threads={threads}: PANIC {:?}", e.downcast_ref::<String>().map(|s| s.as_str()).or(e.downcast_ref::<&str>().copied())),
        }
    }
}

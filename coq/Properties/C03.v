(* C03 — Rcb/Rib parts are leaves of a recursive axis-aligned bisection.
   Only the property theorems, each closed by [exact] of a lemma of
   Proofs/RcbInst.v / Proofs/RcbProofs.v, with [Print Assumptions] beneath.
   [rcb_impl] is the model at the variant of the cut search that the
   translator read from recursive_bisection.rs; the C03 theorems hold for
   every variant (the tree structure does not depend on the cut search).
   Rib = the same function applied to the rotated points recorded by the hook. *)
From Coupe Require Import Lib.Prelude Lib.SFloat Model.Rcb Gen.RcbGen
  Proofs.SFOrder Proofs.RcbProofs Proofs.RcbInst Proofs.RcbTotal Proofs.F32Rank Proofs.F32Flocq Proofs.RcbBox Proofs.RcbTotalInst Proofs.RcbTotalInf Proofs.RcbTotalInfInst Proofs.RcbSched Proofs.RcbSchedInst.
From Coq Require Import Floats.SpecFloat Permutation.
Open Scope Z_scope.

Definition rcb_variant : variant := mkvariant rcb_old_rules rcb_by_coord rcb_probe_max rcb_safe_mid rcb_clamp_cast.
(* the binary32 coordinates of the current source: images under its cast
   (clamped to [f32::MIN, f32::MAX] when rcb_clamp_cast, plain `as f32` otherwise;
   both are [to32] on coordinates whose image is finite) *)
Definition to32i := to32c rcb_clamp_cast.
Definition rcb_impl := rcb rcb_variant.

(* For every tolerance, fuel, split-tree schedule and initial array: if the
   call returns Ok, one id per point has been written, the ids together with
   the binary32 coordinates form a bisection tree of depth iter_count whose
   axes rotate from axis 0, and every id is below 2^iter_count (feeds C01). *)
Theorem C03_rcb_bisect_tree : forall fuel sched D k tol pts ws p0 p,
  coords_ok pts ->
  rcb_impl fuel sched D k tol pts ws p0 = Ok p ->
  length p = length pts
  /\ (exists t, Permutation t (combine (to32i pts) p) /\ BisectTree spec_float flt D k 0%nat t)
  /\ (pts <> [] -> Forall (fun i => (i < 2 ^ N.of_nat k)%N) p).
Proof. exact (rcb_bisect_tree rcb_variant). Qed.
Print Assumptions C03_rcb_bisect_tree.

(* the same for EVERY variant of the cut search (old stop rules, pivot by
   rounded distance, unsafe midpoint): C03 never depended on the repairs *)
Theorem C03_rcb_bisect_tree_any_search : forall v fuel sched D k tol pts ws p0 p,
  coords_ok pts ->
  rcb v fuel sched D k tol pts ws p0 = Ok p ->
  length p = length pts
  /\ (exists t, Permutation t (combine (to32c (v_clamp v) pts) p) /\ BisectTree spec_float flt D k 0%nat t)
  /\ (pts <> [] -> Forall (fun i => (i < 2 ^ N.of_nat k)%N) p).
Proof. exact rcb_bisect_tree. Qed.
Print Assumptions C03_rcb_bisect_tree_any_search.

(* generic form: any coordinate type with a strict weak order, ANY behaviour
   of mid / dist / addc / within_tol *)
Theorem C03_generic : forall (C : Type) (ltb leb : C -> C -> bool) (mid dist addc : C -> C -> C)
    (zero inf : C) (within_tol : Z -> Z -> bool) (old by_coord probe_max : bool) (valid : C -> bool),
  (forall x, valid x = true -> ltb x x = false) ->
  (forall x y z, valid x = true -> valid y = true -> valid z = true ->
     ltb x y = true -> ltb x z = true \/ ltb z y = true) ->
  (forall x y, valid x = true -> valid y = true -> leb x y = negb (ltb y x)) ->
  forall fuel sched D k (its : list (item C)) sum bb p0 p,
  Forall (vitem C valid) its -> map ix its = seq 0 (length p0) -> its <> [] ->
  rcb_core C ltb leb mid dist addc zero inf within_tol old by_coord probe_max fuel sched D k its sum bb p0 = Ok p ->
  length p = length p0
  /\ (exists t, Permutation t (combine (map co its) p) /\ BisectTree C ltb D k 0%nat t)
  /\ Forall (fun i => (i < 2 ^ N.of_nat k)%N) p.
Proof. exact rcb_core_bisect_tree. Qed.
Print Assumptions C03_generic.

(* every point is in exactly one part: one id per point *)
Theorem C03_one_part_per_point : forall fuel sched D k tol pts ws p0 p,
  coords_ok pts -> rcb_impl fuel sched D k tol pts ws p0 = Ok p ->
  length p = length pts /\ (pts <> [] -> Forall (fun i => (i < 2 ^ N.of_nat k)%N) p).
Proof. exact (rcb_one_part_per_point rcb_variant). Qed.
Print Assumptions C03_one_part_per_point.

(* points with identical single-precision coordinates share a part *)
Theorem C03_equal_points_share_part : forall fuel sched D k tol pts ws p0 p i j c a b,
  coords_ok pts -> rcb_impl fuel sched D k tol pts ws p0 = Ok p ->
  nth_error (to32 pts) i = Some c -> nth_error (to32 pts) j = Some c ->
  nth_error p i = Some a -> nth_error p j = Some b -> a = b.
Proof. exact (rcb_equal_points_share_part rcb_variant). Qed.
Print Assumptions C03_equal_points_share_part.

(* the in-place two-pointer reordering computes the set split on the pivot's
   coordinate and never fails for an in-range pivot *)
Theorem C03_reorder_split_scalar_spec : forall (xs : list (keyed spec_float)) i,
  Forall (vkey spec_float f32v) xs -> (i < length xs)%nat ->
  exists p l r, nth_opt xs i = Some p /\ reorder_split spec_float flt fle xs i = Ok (l, r)
    /\ Permutation (l ++ r) xs
    /\ Forall (fun y => flt (fst y) (fst p) = true) l
    /\ Forall (fun y => flt (fst y) (fst p) = false) r.
Proof. exact (reorder_split_scalar_spec spec_float flt fle f32v flt_irrefl fle_flt). Qed.
Print Assumptions C03_reorder_split_scalar_spec.

(* the checker that judges the implementation's outputs accepts only
   bisection trees (true -> property) *)
Theorem C03_checker_sound : forall D k pts ids,
  check_bisect32 D k pts ids = true ->
  length pts = length ids /\ Forall (fun i => (i < 2 ^ N.of_nat k)%N) ids
  /\ exists t, Permutation t (combine (to32c true pts) ids) /\ BisectTree spec_float flt D k 0%nat t.
Proof. exact check_bisect32_sound. Qed.
Print Assumptions C03_checker_sound.

(* Feeds C01: termination of the cut search and totality of rcb for the stop
   rules at HEAD, for every schedule.  Generic form: from a bounded order
   embedding [rank] of the representable values [good] (closed under the
   midpoint) into Z.  Binary32 instance below: rank = sign-magnitude reading of
   (exponent, mantissa) (Proofs/F32Rank.v, pure), closure under the midpoint
   `min/2 + max/2` by Flocq (Proofs/F32Flocq.v: these two theorems use the
   real-number axioms of the standard library).  The bound (2^33 iterations) is
   a termination bound, not a tight one: real searches need < 300 iterations,
   the runs use fuel 2000 and an OutOfFuel would be a mismatch. *)
Theorem C03_search_terminates_generic :
  forall (C : Type) (ltb leb : C -> C -> bool) (mid dist addc : C -> C -> C) (zero inf : C)
    (within_tol : Z -> Z -> bool) (by_coord probe_max : bool) (good : C -> bool) (rank : C -> Z),
  (forall a b, good a = true -> good b = true -> good (mid a b) = true) ->
  (forall x y, good x = true -> good y = true -> ltb x y = true -> rank x < rank y) ->
  forall (xs : list (keyed C)) (sum : Z) (fuel : nat) (sch : nat -> stree) (it : nat) (mn mx : C) (prev : option Z),
  good mn = true -> good mx = true -> (1 <= fuel)%nat -> Z.of_nat fuel > rank mx - rank mn ->
  exists sr, search C ltb leb mid dist addc zero inf within_tol false by_coord probe_max fuel sch it xs sum mn mx prev = Ok sr
    /\ match sr with SplitAt i _ _ _ => (i < length xs)%nat | AllLeft _ => True end.
Proof. exact search_total. Qed.
Print Assumptions C03_search_terminates_generic.

Theorem C03_rcb_total_generic :
  forall (C : Type) (ltb leb : C -> C -> bool) (mid dist addc : C -> C -> C) (zero inf : C)
    (within_tol : Z -> Z -> bool) (by_coord probe_max : bool) (valid : C -> bool),
  (forall x, valid x = true -> ltb x x = false) ->
  (forall x y z, valid x = true -> valid y = true -> valid z = true -> ltb x y = true -> ltb x z = true \/ ltb z y = true) ->
  (forall x y, valid x = true -> valid y = true -> leb x y = negb (ltb y x)) ->
  forall (good : C -> bool) (rank : C -> Z) (rlo rhi : Z),
  (forall a b, good a = true -> good b = true -> good (mid a b) = true) ->
  (forall x y, good x = true -> good y = true -> ltb x y = true -> rank x < rank y) ->
  (forall x, good x = true -> rlo <= rank x <= rhi) ->
  forall fuel sched D k (its : list (item C)) sum (bb : list (C * C)) p0,
  (0 < D)%nat -> length bb = D -> Forall (wf_item C valid D) its ->
  Forall (fun b => good (fst b) = true /\ good (snd b) = true) bb ->
  map ix its = seq 0 (length p0) -> its <> [] ->
  (1 <= fuel)%nat -> Z.of_nat fuel > rhi - rlo ->
  exists p, rcb_core C ltb leb mid dist addc zero inf within_tol false by_coord probe_max fuel sched D k its sum bb p0 = Ok p.
Proof. exact rcb_core_total. Qed.
Print Assumptions C03_rcb_total_generic.

Theorem C03_search_terminates : forall by_coord probe_max tol (xs : list (keyed spec_float)) sum fuel sch it mn mx prev,
  f32_fin mn = true -> f32_fin mx = true -> (1 <= fuel)%nat -> Z.of_nat fuel > rank32 mx - rank32 mn ->
  exists sr, search spec_float flt fle (f32_mid true) f32_sub f32_add f32_zero f32_inf (tol_test tol)
               false by_coord probe_max fuel sch it xs sum mn mx prev = Ok sr
    /\ match sr with SplitAt i _ _ _ => (i < length xs)%nat | AllLeft _ => True end.
Proof. exact search_terminates32. Qed.
Print Assumptions C03_search_terminates.

(* no panic, no OutOfFuel, Ok with every element written (C03_rcb_bisect_tree
   then gives ids < 2^iter_count): matching lengths, D coordinates per point,
   each a finite f64 value (canonical binary64) whose binary32 image is finite
   ([coords_in_f32_range], the narrow contract of the run glue).  The former
   decidable premise box_ok32 is now proved from the contract
   (C03_box_ok32_holds: the f64 -> f32 cast is monotone, Flocq); the run glue
   still evaluates it on every case as a cross-check. *)
Theorem C03_rcb_total : forall fuel sched D k tol pts ws p0,
  (0 < D)%nat -> length ws = length p0 -> length pts = length p0 ->
  Forall (fun p => length p = D) pts -> coords_in_f32_range pts ->
  Z.of_nat fuel > 2 ^ 33 ->
  exists p, rcb_impl fuel sched D k tol pts ws p0 = Ok p.
Proof. exact (fun fuel sched D k tol pts ws p0 => rcb_total32_contract rcb_variant fuel sched D k tol pts ws p0 eq_refl eq_refl). Qed.
Print Assumptions C03_rcb_total.

(* The whole usage contract "finite coordinates": EVERY finite f64 coordinate
   set, including values beyond the binary32 range.  No panic, no OutOfFuel,
   Ok with one id per point and every id below 2^iter_count, for every
   schedule and tolerance, WHICHEVER cast the source uses:
   - clamped cast (the current source): every image is a finite canonical
     binary32 value (cast_true_real), so the argument of C03_rcb_total applies;
   - plain `as f32` (before the clamp fix; images may be +-inf, never NaN):
     `min/2 + max/2` is +-inf or NaN when a bound is infinite; then
     `min < middle < max` fails, the interval counts as exhausted and the search
     returns after its last probe at max; the loop continues only with a
     canonical non-NaN midpoint strictly between the bounds, and the rank
     distance (rank32i: rank32 with +-(2^32+1) for the infinities) decreases;
     the cut positions handed to the children are max or such a midpoint,
     never NaN; `split_pos as f64` is exact for +-inf too.
   Uses the Flocq links (real-number axioms of the standard library). *)
Theorem C03_rcb_total_finite_f64 : forall fuel sched D k tol pts ws p0,
  (0 < D)%nat -> length ws = length p0 -> length pts = length p0 ->
  Forall (fun p => length p = D) pts -> coords_finite_f64 pts ->
  Z.of_nat fuel > 2 ^ 34 ->
  exists p, rcb_impl fuel sched D k tol pts ws p0 = Ok p
            /\ length p = length pts /\ Forall (fun i => (i < 2 ^ N.of_nat k)%N) p.
Proof. exact (fun fuel sched D k tol pts ws p0 => rcb_total_finite_f64_ids rcb_variant fuel sched D k tol pts ws p0 eq_refl eq_refl eq_refl). Qed.
Print Assumptions C03_rcb_total_finite_f64.

(* the tree structure on the same contract.  Strictness with infinite images:
   the two sides of a node are {x < pivot} / {not x < pivot} (or everything /
   nothing), so every point whose image is +inf lies on the high side of every
   node that separates on that axis and two +inf images are never separated:
   `every low point strictly below every high point` holds as stated (flt is a
   strict weak order on all non-NaN values, infinities included). *)
Theorem C03_rcb_bisect_tree_finite_f64 : forall fuel sched D k tol pts ws p0 p,
  coords_finite_f64 pts ->
  rcb_impl fuel sched D k tol pts ws p0 = Ok p ->
  length p = length pts
  /\ (exists t, Permutation t (combine (to32i pts) p) /\ BisectTree spec_float flt D k 0%nat t)
  /\ (pts <> [] -> Forall (fun i => (i < 2 ^ N.of_nat k)%N) p).
Proof. exact (fun fuel sched D k tol pts ws p0 p Hf => rcb_bisect_tree rcb_variant fuel sched D k tol pts ws p0 p (finite_coords_ok pts Hf)). Qed.
Print Assumptions C03_rcb_bisect_tree_finite_f64.

(* non-vacuity: coordinates beyond the binary32 range on both sides of the same
   axis; the model returns Ok and the checker accepts the tree *)
Example C03_finite_f64_nonvacuous :
  let pts := map (fun x => [f64_of_Z x; f64_of_Z 0]) [- 10 ^ 39; 0; 1; 2; 3; 10 ^ 39; 10 ^ 39] in
  coords_finite_f64 pts
  /\ exists p, rcb_impl 400 seq_sched 2 2 (f64_of_bits 4587366580439587226%N) pts [1;1;1;1;1;1;1] [9;9;9;9;9;9;9]%N = Ok p
               /\ check_bisect32 2 2 pts p = true.
Proof. split; [repeat constructor|eexists; split; vm_compute; reflexivity]. Qed.

(* on the narrow contract the root box of the model (per axis the f64 min / max
   found with `<` from (f64::MAX, f64::MIN), then cast `as f32`) has finite
   canonical binary32 bounds that enclose every binary32 coordinate *)
Theorem C03_box_ok32_holds : forall D pts ws, pts <> [] -> length pts = length ws ->
  Forall (fun p => length p = D) pts -> coords_in_f32_range pts -> box_ok32 D pts ws = true.
Proof. exact box_ok32_holds. Qed.
Print Assumptions C03_box_ok32_holds.

(* with the clamped cast: for every finite f64 coordinate set (canonical
   binary64 values); the clamped cast is monotone and its images are finite *)
Theorem C03_box_ok32_clamped_holds : forall D pts ws, length pts = length ws ->
  Forall (fun p => length p = D) pts -> coords_finite_valid64 pts -> box_ok32c true D pts ws = true.
Proof. exact box_ok32c_true_holds. Qed.
Print Assumptions C03_box_ok32_clamped_holds.

(* the rank hypotheses are satisfiable: integers in [0, 1000] with the integer midpoint *)
Example C03_rank_hypotheses_satisfiable :
  let good := fun x => (0 <=? x) && (x <=? 1000) in
  let mid := fun a b => (a + b) / 2 in
  (forall a b, good a = true -> good b = true -> good (mid a b) = true)
  /\ (forall x y, good x = true -> good y = true -> Z.ltb x y = true -> x < y)
  /\ (forall x, good x = true -> 0 <= x <= 1000).
Proof.
  cbv zeta. repeat split.
  - intros a b Ha Hb. apply andb_true_iff in Ha, Hb. destruct Ha as [A1 A2], Hb as [B1 B2].
    apply Z.leb_le in A1, A2, B1, B2. apply andb_true_iff. split; apply Z.leb_le.
    + apply Z.div_pos; lia.
    + apply Z.div_le_upper_bound; lia.
  - intros x y _ _ H. apply Z.ltb_lt, H.
  - apply andb_true_iff in H. destruct H as [A _]. apply Z.leb_le, A.
  - apply andb_true_iff in H. destruct H as [_ A]. apply Z.leb_le, A.
Qed.

(* Schedule independence (the Rcb part of C06; imported by the C06 collector):
   for the current search variant, exact integer weights and ANY two schedules
   (one rayon split tree per fold, indexed by node and loop iteration) the two
   runs return the same result: the same id for every point (or the same
   error / OutOfFuel).  Proof: rcb_rec is invariant under permutation of its
   item list and under the choice of trees (rcb_rec_perm); the stores go to
   pairwise distinct cells.  Rib = the same function on the rotated points. *)
Theorem C03_rcb_sched_indep : forall fuel s1 s2 D k tol pts ws p0,
  coords_ok pts ->
  rcb_impl fuel s1 D k tol pts ws p0 = rcb_impl fuel s2 D k tol pts ws p0.
Proof. exact (fun fuel s1 s2 D k tol pts ws p0 => rcb_sched_indep rcb_variant fuel s1 s2 D k tol pts ws p0 eq_refl eq_refl). Qed.
Print Assumptions C03_rcb_sched_indep.

(* generic form: any coordinate type whose `<` is a strict weak order on the
   valid values and whose `<=` respects the induced equivalence *)
Theorem C03_rcb_sched_indep_generic :
  forall (C : Type) (ltb leb : C -> C -> bool) (mid dist addc : C -> C -> C) (zero inf : C)
    (within_tol : Z -> Z -> bool) (probe_max : bool) (valid : C -> bool),
  (forall x, valid x = true -> ltb x x = false) ->
  (forall x y z, valid x = true -> valid y = true -> valid z = true -> ltb x y = true -> ltb x z = true \/ ltb z y = true) ->
  (forall x y z, valid x = true -> valid y = true -> valid z = true -> ltb x y = true -> ltb y z = true -> ltb x z = true) ->
  (forall x y, valid x = true -> valid y = true -> leb x y = negb (ltb y x)) ->
  valid inf = true ->
  (forall m a b, valid a = true -> valid b = true -> ltb a b = false -> ltb b a = false -> leb m a = leb m b) ->
  forall fuel s1 s2 D k (its : list (item C)) sum bb p0,
  Forall (vitem C valid) its -> NoDup (map ix its) ->
  rcb_core C ltb leb mid dist addc zero inf within_tol false true probe_max fuel s1 D k its sum bb p0
  = rcb_core C ltb leb mid dist addc zero inf within_tol false true probe_max fuel s2 D k its sum bb p0.
Proof. exact rcb_core_sched_indep. Qed.
Print Assumptions C03_rcb_sched_indep_generic.

(* two different schedules on the doc example *)
Example C03_sched_indep_nonvacuous :
  rcb_impl 400 (fun _ _ => SNode 2 (SNode 1 SLeaf SLeaf) SLeaf) 2 2 (f64_of_bits 4587366580439587226%N)
           (map (map f64_of_Z) [[1; 1]; [-1; 1]; [1; -1]; [-1; -1]]) [1; 1; 1; 1] [9; 9; 9; 9]%N
  = rcb_impl 400 seq_sched 2 2 (f64_of_bits 4587366580439587226%N)
           (map (map f64_of_Z) [[1; 1]; [-1; 1]; [1; -1]; [-1; -1]]) [1; 1; 1; 1] [9; 9; 9; 9]%N.
Proof. vm_compute. reflexivity. Qed.

(* non-vacuity: the doc example of Rcb (4 points, 2 iterations) runs to Ok in
   the model with 4 distinct parts, and the checker accepts it *)
Definition ex_pts : list (list spec_float) :=
  map (map f64_of_Z) [[1; 1]; [-1; 1]; [1; -1]; [-1; -1]].
Example C03_nonvacuous :
  rcb_impl 400 seq_sched 2 2 (f64_of_bits 4587366580439587226%N) ex_pts [1; 1; 1; 1] [9; 9; 9; 9]%N
  = Ok [3; 1; 2; 0]%N
  /\ check_bisect32 2 2 ex_pts [3; 1; 2; 0]%N = true.
Proof. split; vm_compute; reflexivity. Qed.
Example C03_nonvacuous_coords : coords_ok ex_pts.
Proof. repeat constructor. Qed.

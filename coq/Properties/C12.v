From Coupe Require Import Lib.Prelude Model.NumPart Model.Greedy Model.Kk.
Open Scope Z_scope.
Example C12_placeholder : greedy [3;1;2] 2 [9;9;9]%N = Ok [1;0;0]%N.
Proof. vm_compute. reflexivity. Qed.

(* C12 — Greedy is LPT scheduling; KarmarkarKarp is the differencing method.
   This file contains only the property theorems, each closed by [exact] of a
   lemma of Proofs/GreedyProofs.v or Proofs/KkProofs.v, with
   [Print Assumptions] beneath, and non-vacuity examples. *)
From Coupe Require Import Lib.Prelude Model.NumPart Model.Greedy Model.Kk
  Proofs.NumPartLemmas Proofs.GreedyProofs Proofs.KkProofs Gen.GreedyKkGen
  Lib.SFloat Model.ArithW Model.GreedyW Proofs.ArithWLemmas Proofs.GreedyWProofs Proofs.F64RoundFacts.
From Coq Require Import Floats.SpecFloat.
From Coq Require Import Permutation.
Open Scope Z_scope.

(* The literals of greedy.rs / kk.rs that the models hard-code, as the
   translator reads them from the current source (Gen/GreedyKkGen.v): the
   trivial-partition thresholds, the descending scan, the never-Equal min_by,
   the differencing push, the `1 - partition[a]` flip, the two reversed
   pairings, the descending sort of the merged row, the subtraction of its
   last entry, the back-tracking copy; and src/real.rs: `Ord for coupe::Real` is exactly the order of the
   inner f64 (partial_cmp, panic on NaN), PartialOrd delegates to it, PartialEq is derived -- no tolerance. *)
Theorem C12_source_literals :
  (greedy_trivial_below, kk_trivial_parts_below, kk_trivial_len_below, kk_bipart_when, kk_pairs_reversed)
  = (2, 2, 2, 2, 2)%nat
  /\ [greedy_scan_descending; greedy_min_by_partial_cmp; kk2_difference; kk2_flip;
      kk_sort_descending; kk_subtract_last; kk_copy_part; real_order_exact]
     = [true; true; true; true; true; true; true; true].
Proof. split; exact eq_refl. Qed.
Print Assumptions C12_source_literals.

(* ---------------- Greedy ---------------- *)

(* Greedy's loads are the result of an LPT run on the weights in non-increasing
   order, and equal (as a multiset) the result of EVERY such run; every id is
   below the part count, the array keeps its length. *)
Theorem C12_greedy_is_lpt : forall ws k p0 p, (2 <= k)%nat -> greedy ws k p0 = Ok p ->
  length p = length ws /\ length p = length p0
  /\ Forall (fun x => (x < N.of_nat k)%N) p
  /\ lpt_run (sortZ_desc ws) (repeat 0 k) (loads ws p k)
  /\ forall L, lpt_run (sortZ_desc ws) (repeat 0 k) L -> Permutation (loads ws p k) L.
Proof. exact greedy_is_lpt. Qed.
Print Assumptions C12_greedy_is_lpt.

(* LPT: the multiset of final loads does not depend on which lightest part is chosen *)
Theorem C12_lpt_choice_independent : forall ws L1 L1' L2 L2',
  lpt_run ws L1 L1' -> lpt_run ws L2 L2' -> Permutation L1 L2 -> Permutation L1' L2'.
Proof. exact lpt_run_choice_independent. Qed.
Print Assumptions C12_lpt_choice_independent.

(* what "sorted non-increasingly" means: sortZ_desc is the non-increasing permutation *)
Theorem C12_sortZ_desc_spec : forall ws, Permutation (sortZ_desc ws) ws /\ descZ (sortZ_desc ws).
Proof. exact (fun ws => conj (sortZ_perm ws) (sortZ_descZ ws)). Qed.
Print Assumptions C12_sortZ_desc_spec.

(* Greedy is total: no panic, no loop; the only error is the length mismatch *)
Theorem C12_greedy_total : forall ws k p0,
  (length ws = length p0 -> exists p, greedy ws k p0 = Ok p /\ length p = length p0
        /\ ((1 <= k)%nat -> Forall (fun x => (x < N.of_nat k)%N) p))
  /\ (length ws <> length p0 -> greedy ws k p0 = Err (InputLenMismatch (length p0) (length ws))).
Proof. exact greedy_total. Qed.
Print Assumptions C12_greedy_total.

(* ---------------- KarmarkarKarp ---------------- *)

(* The entry point, for EVERY weight-descending sort of the merged rows (tie
   order of sort_unstable): under the contract it returns Ok (no panic, enough
   fuel), every id is below the part count, the gap between the heaviest and
   the lightest part is at most the largest weight, and for two parts the
   load difference is the differencing residue. *)
Theorem C12_kk : forall srt, (forall l, Permutation (srt l) l) -> (forall l, descZ (wts (srt l))) ->
  forall ws k p0, Forall (fun w => 0 <= w) ws -> (1 <= k)%nat -> length ws = length p0 ->
  exists p, kk_partition srt ws k p0 = Ok p /\ length p = length p0
    /\ Forall (fun x => (x < N.of_nat k)%N) p
    /\ ((2 <= k)%nat -> gap (loads ws p k) <= maxl ws)
    /\ (k = 2%nat -> Z.abs (load ws p 0 - load ws p 1) = residue ws).
Proof. exact kk_partition_spec. Qed.
Print Assumptions C12_kk.

(* kk_bipart alone, any integer weights: the signed difference is the residue *)
Theorem C12_kk2_residue : forall ws p0, length ws = length p0 -> (1 <= length ws)%nat ->
  exists p, kk_bipart ws p0 = Ok p /\ length p = length p0 /\ two_way p
    /\ load ws p 0 - load ws p 1 = residue ws.
Proof. exact kk_bipart_spec. Qed.
Print Assumptions C12_kk2_residue.

Theorem C12_residue_bounds : forall ws, Forall (fun w => 0 <= w) ws -> 0 <= residue ws <= maxl ws.
Proof. exact residue_bound. Qed.
Print Assumptions C12_residue_bounds.

(* the sort used when the model is executed satisfies the contract of C12_kk *)
Theorem C12_stable_sort_ok :
  (forall l, Permutation (sort_stable_desc l) l) /\ (forall l, descZ (wts (sort_stable_desc l))).
Proof. exact (conj sort_stable_perm sort_stable_desc_ok). Qed.
Print Assumptions C12_stable_sort_ok.

Theorem C12_kk_mismatch : forall srt ws k p0, length ws <> length p0 ->
  kk_partition srt ws k p0 = Err (InputLenMismatch (length p0) (length ws)).
Proof. exact kk_partition_mismatch. Qed.
Print Assumptions C12_kk_mismatch.

(* ---------------- the checkers decide the property ---------------- *)

Theorem C12_check_greedy_ok : forall ws k p,
  check_greedy ws k p = true <->
  (length p = length ws /\ Forall (fun x => (x < N.of_nat k)%N) p /\ Permutation (loads ws p k) (lpt ws k)).
Proof. exact check_greedy_ok. Qed.
(* [lpt ws k] is the multiset of every LPT run *)
Theorem C12_lpt_is_any_run : forall ws k L, (1 <= k)%nat ->
  lpt_run (sortZ_desc ws) (repeat 0 k) L -> Permutation L (lpt ws k).
Proof. exact lpt_is_any_run. Qed.
Print Assumptions C12_lpt_is_any_run.
Theorem C12_check_kk_ok : forall ws k p,
  check_kk ws k p = true <->
  (length p = length ws /\ Forall (fun x => (x < N.of_nat k)%N) p
   /\ (k = 2%nat -> Z.abs (load ws p 0 - load ws p 1) = residue ws)
   /\ gap (loads ws p k) <= maxl ws).
Proof. exact check_kk_ok. Qed.
Print Assumptions C12_check_greedy_ok.
Print Assumptions C12_check_kk_ok.

(* ---------------- Greedy over an arbitrary weight arithmetic (integers, binary64) ---------------- *)

(* [greedyW A] is greedy.rs with every `+`, `<`, `==` going through the arithmetic [A]; the loads are
   accumulated by the SAME sequence of (rounded) additions as in the code.  Under the order laws and
   closure of [ok] under `+` (no associativity, no exactness): the scan visits the weights in
   non-increasing order, the array assigns each weight to a part no other part is lighter than
   (loads accumulated in that arithmetic), and the resulting multiset of loads is that of EVERY LPT
   run in that arithmetic (ties between equally light parts only permute the loads). *)
Theorem C12_greedy_is_lpt_generic : forall (A : arith) (ok : W A -> Prop),
  order_laws A ok -> add_closed A ok ->
  forall ws k p0 p, Forall ok ws -> (2 <= k)%nat -> greedyW A ws k p0 = Ok p ->
  let its := sort_items_descW A (items_ofW A ws) in
  length p = length ws /\ length p = length p0
  /\ Forall (fun x => (x < N.of_nat k)%N) p
  /\ Permutation (wtsW A its) ws /\ descW A (wtsW A its)
  /\ is_lpt_assign A its p (repeat (w_zero A) k)
  /\ exists L, lpt_runW A (wtsW A its) (repeat (w_zero A) k) L
       /\ forall L2, lpt_runW A (wtsW A its) (repeat (w_zero A) k) L2 -> Permutation L L2.
Proof. exact greedyW_is_lpt. Qed.
Print Assumptions C12_greedy_is_lpt_generic.

(* the laws hold for the integers ... *)
Theorem C12_Z_laws : order_laws Zarith okZ /\ add_closed Zarith okZ.
Proof. exact (conj Z_order_laws Z_add_closed). Qed.
(* ... and the order laws hold for binary64 on +0, the positive finite numbers and +infinity
   ([<] of SpecFloat is a strict weak order there, and incomparable values are equal) *)
Theorem C12_f64_order_laws : order_laws F64arith okF.
Proof. exact F64_order_laws. Qed.
Print Assumptions C12_f64_order_laws.

(* ... on the canonical representations ([okFv] = valid_binary + okF), the closure law holds as well: the
   rounded sum of two non-negative binary64 numbers is a non-negative number -- never NaN, never -0.0,
   possibly +infinity -- proved for SpecFloat's SFadd through Flocq (Bplus_correct).  This theorem and
   C12_greedy_is_lpt_f64 depend on the axioms of Coq's classical real numbers. *)
Theorem C12_f64_add_closed : order_laws F64arith okFv /\ add_closed F64arith okFv.
Proof. exact (conj F64_order_laws_v F64_add_closed). Qed.
Print Assumptions C12_f64_add_closed.

(* binary64: Greedy is LPT in rounded arithmetic, for all non-negative weights (finite or +infinity, in
   canonical representation, no -0.0); no premise about the arithmetic. *)
Theorem C12_greedy_is_lpt_f64 :
  forall ws k p0 p, Forall okFv ws -> (2 <= k)%nat -> greedyW F64arith ws k p0 = Ok p ->
  let its := sort_items_descW F64arith (items_ofW F64arith ws) in
  length p = length ws /\ length p = length p0
  /\ Forall (fun x => (x < N.of_nat k)%N) p
  /\ Permutation (wtsW F64arith its) ws /\ descW F64arith (wtsW F64arith its)
  /\ is_lpt_assign F64arith its p (repeat (S754_zero false) k)
  /\ exists L, lpt_runW F64arith (wtsW F64arith its) (repeat (S754_zero false) k) L
       /\ forall L2, lpt_runW F64arith (wtsW F64arith its) (repeat (S754_zero false) k) L2 -> Permutation L L2.
Proof. exact (greedyW_is_lpt F64arith okFv F64_order_laws_v F64_add_closed). Qed.
Print Assumptions C12_greedy_is_lpt_f64.

(* Greedy on such weights is total: Ok, or the length mismatch *)
Theorem C12_greedy_total_f64 : forall ws k p0, Forall okFv ws ->
  (length ws = length p0 -> exists p, greedyW F64arith ws k p0 = Ok p)
  /\ (length ws <> length p0 -> greedyW F64arith ws k p0 = Err (InputLenMismatch (length p0) (length ws))).
Proof. exact (greedyW_total F64arith okFv F64_order_laws_v F64_add_closed). Qed.

Theorem C12_greedy_total_generic : forall (A : arith) (ok : W A -> Prop), order_laws A ok -> add_closed A ok ->
  forall ws k p0, Forall ok ws ->
  (length ws = length p0 -> exists p, greedyW A ws k p0 = Ok p)
  /\ (length ws <> length p0 -> greedyW A ws k p0 = Err (InputLenMismatch (length p0) (length ws))).
Proof. exact greedyW_total. Qed.
Print Assumptions C12_greedy_total_generic.

(* the checker used on f64 outputs decides "is an LPT assignment in that arithmetic" (no law needed) *)
Theorem C12_check_greedyW_ok : forall (A : arith) ws k p,
  check_greedyW A ws k p = true <->
  (length p = length ws /\ Forall (fun x => (x < N.of_nat k)%N) p
   /\ is_lpt_assign A (sort_items_descW A (items_ofW A ws)) p (repeat (w_zero A) k)).
Proof. exact check_greedyW_ok. Qed.
Print Assumptions C12_check_greedyW_ok.

(* ---------------- non-vacuity ---------------- *)
Example C12_nonvacuous_greedy :
  greedy [3;1;4;1;5;9;2;6] 3 [9;9;9;9;9;9;9;9]%N = Ok [1;0;0;1;0;2;2;1]%N
  /\ loads [3;1;4;1;5;9;2;6] [1;0;0;1;0;2;2;1]%N 3 = [10;10;11]
  /\ lpt [3;1;4;1;5;9;2;6] 3 = [11;10;10].
Proof. vm_compute. auto. Qed.
Example C12_nonvacuous_kk2 :
  kk_partition sort_stable_desc [4;5;6;7;8] 2 [9;9;9;9;9]%N = Ok [0;0;1;0;1]%N /\ residue [4;5;6;7;8] = 2.
Proof. vm_compute. auto. Qed.
Example C12_nonvacuous_kk3 :
  kk_partition sort_stable_desc [3;5;3;9;7;7] 3 [9;9;9;9;9;9]%N = Ok [0;1;2;0;1;2]%N
  /\ loads [3;5;3;9;7;7] [0;1;2;0;1;2]%N 3 = [12;12;10].
Proof. vm_compute. auto. Qed.
(* binary64: 0.1 0.2 0.3 0.7 1.1 0.30000000000000004 on 2 parts; loads 1.3 | 1.4000000000000001 (rounded sums) *)
Example C12_nonvacuous_greedy_f64 :
  let ws := map (fun b => f64_of_bits b)
              [4591870180066957722; 4596373779694328218; 4599075939470750515; 4604480259023595110;
               4607632778762754458; 4599075939470750516]%N in
  Forall okFv ws /\ exists p, greedyW F64arith ws 2 [9;9;9;9;9;9]%N = Ok p /\ check_greedyW F64arith ws 2 p = true.
Proof.
  cbv zeta. split.
  - repeat constructor; vm_compute; reflexivity.
  - eexists. split; vm_compute; reflexivity.
Qed.

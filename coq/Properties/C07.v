(* C07 — FiducciaMattheyses never increases the cut nor breaks its weight cap. *)
From Coupe Require Import Lib.Prelude Lib.SFloat Lib.Graph Model.Fm Proofs.FmProofs.
Open Scope Z_scope.
Example C07_placeholder : True. Proof. exact I. Qed.

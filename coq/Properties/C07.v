(* C07 — FiducciaMattheyses never increases the cut nor breaks its weight cap; metadata consistent.
   This file contains only the property theorems, each closed by [exact] of a
   lemma of Proofs/FmProofs.v, with [Print Assumptions] beneath.  Every theorem
   quantifies over ALL oracles (the per-process random iteration order of the
   gain buckets): an oracle is any list of recorded passes; the model accepts
   exactly the choices the code may make. *)
From Coupe Require Import Lib.Prelude Lib.SFloat Lib.Graph Model.Fm Proofs.FmProofs Proofs.FmNoPanic Gen.FmGen.
From Coq Require Import Floats.SpecFloat.
Open Scope Z_scope.

(* Usage contract: square CSR matrix with in-range sorted columns, symmetric, no self-loop,
   non-negative integer edge weights (the property says positive), vertex weights >= 0.
   (fm_contract = wf_graph /\ rows_sorted /\ symmetric /\ no_self_loop /\ nonneg_edges /\ weights >= 0;
    the two-way input and the equal lengths are checked by the entry point itself.) *)

(* the twelve code fragments the model transcribes (cap test, min target weight, top-down bucket
   scan, bad-move rule, cut update, gain update, rewind point, pass exit, cap formula; the cap is
   bound once, in the weight type W, never rebound or converted, and compared in W with a target
   part weight computed in W from part weights of type W) are still what the translator finds in
   fiduccia_mattheyses.rs *)
Theorem C07_source_shape : fm_source_shape = true.
Proof. exact eq_refl. Qed.

(* cut not worse, cap, metadata: for every graph, weights, two-way input, parameters and oracle *)
Theorem C07_sound : forall cfg fuel g ws p0 orc cap p mpp rpp,
  fm_contract g ws p0 ->
  fm_cap (fm_max_imb cfg) (load ws p0 0, load ws p0 1) = Some cap ->
  fm cfg fuel g ws p0 orc = Ok (FmOk p mpp rpp) ->
  length p = length p0 /\ two_way p
  /\ edge_cut g p <= edge_cut g p0
  /\ (forall q, (q <= 1)%N -> load ws p q <= Z.max (load ws p0 q) cap)
  /\ metadata_ok (fm_max_passes cfg) (fm_max_moves cfg) p0 p mpp rpp.
Proof. exact fm_sound. Qed.
Print Assumptions C07_sound.

(* fm_cut_tracked: `debug_assert_eq!(current_edge_cut, adjacency.edge_cut(partition))` holds after
   every move of every execution (the model run with debug assertions never reaches panic site 6) *)
Theorem C07_cut_tracked : forall cfg fuel g ws p0 orc,
  fm_contract g ws p0 -> fm cfg fuel g ws p0 orc <> Panic 6.
Proof. exact fm_cut_tracked. Qed.
Print Assumptions C07_cut_tracked.

(* no panic site is reached inside the contract when the cap converts to i64 (slice and
   gain-table indices in range, no usize underflow, the debug assertion holds), for every oracle *)
Theorem C07_no_panic : forall cfg fuel g ws p0 orc cap s,
  fm_contract g ws p0 ->
  fm_cap (fm_max_imb cfg) (load ws p0 0, load ws p0 1) = Some cap ->
  fm cfg fuel g ws p0 orc <> Panic s.
Proof. exact fm_no_panic. Qed.
Print Assumptions C07_no_panic.

(* the theorems above are not vacuous for any input of the contract: whenever the code makes a
   move some choice passes the oracle test, and some oracle is accepted to the end *)
Theorem C07_execution_exists : forall cfg g ws p0 cap,
  fm_contract g ws p0 -> length ws = length p0 -> two_way p0 ->
  fm_cap (fm_max_imb cfg) (load ws p0 0, load ws p0 1) = Some cap ->
  exists orc p mpp rpp, fm cfg (fm_fuel g p0) g ws p0 orc = Ok (FmOk p mpp rpp).
Proof. exact fm_execution_exists. Qed.
Print Assumptions C07_execution_exists.

(* termination: a pass moves each vertex at most once (fuel n+1 is built in), and a pass that
   does not lower the non-negative integer cut is the last: fm_fuel = initial cut + 2 passes *)
Theorem C07_terminates : forall cfg fuel g ws p0 orc,
  fm_contract g ws p0 -> (fm_fuel g p0 <= fuel)%nat -> fm cfg fuel g ws p0 orc <> OutOfFuel.
Proof. exact fm_terminates. Qed.
Print Assumptions C07_terminates.

(* Invariants of every state an execution of a pass goes through ([pass_reach]: the states
   reachable from the pass start by choices the code may make; [fm_moves_reach]: the states
   the move loop visits are of this kind). *)
Theorem C07_moves_reach : forall cfg g ws mpg cap st0 fuel mn st orc st',
  pass_reach (fm_dbg cfg) g ws mpg cap st0 st -> length (s_hist st) = mn ->
  fm_moves cfg g ws mpg cap fuel mn st orc = Ok (MvOk st') ->
  pass_reach (fm_dbg cfg) g ws mpg cap st0 st'.
Proof. exact fm_moves_reach. Qed.

(* fm_gain_invariant: the stored gain of a free vertex is its true gain (sum over its row of
   +-w), it indexes the gain table in range ([tbl_idx] = the bounds check of the slice of
   2*mpg+1 buckets), and a vertex sits only in the bucket of its gain *)
Theorem C07_gain_invariant : forall dbg g ws mpg cap p_in p v2g t st,
  pass_setting g ws mpg cap p_in p v2g t ->
  pass_reach dbg g ws mpg cap (pass_state0 ws p v2g t (edge_cut g p)) st ->
  (forall v gv, nth_opt (s_v2g st) v = Some (Some gv) ->
     gv = row_gain (pfun (s_p st)) v (rowof g v)
     /\ tbl_idx mpg gv = Some gv)
  /\ (forall k v, In v (tget (s_g2v st) k) -> nth_opt (s_v2g st) v = Some (Some k)).
Proof. exact fm_gain_invariant. Qed.
Print Assumptions C07_gain_invariant.

(* fm_cut_tracked, as a state invariant: current_edge_cut = cut of the current partition
   (and part_weights = its loads) after every move *)
Theorem C07_cut_tracked_state : forall dbg g ws mpg cap p_in p v2g t st,
  pass_setting g ws mpg cap p_in p v2g t ->
  pass_reach dbg g ws mpg cap (pass_state0 ws p v2g t (edge_cut g p)) st ->
  s_cur st = edge_cut g (s_p st) /\ s_pw st = (load ws (s_p st) 0, load ws (s_p st) 1).
Proof. exact fm_cut_tracked_state. Qed.
Print Assumptions C07_cut_tracked_state.

(* fm_cap at every history point (the rewound result is covered by C07_sound) *)
Theorem C07_cap_every_point : forall dbg g ws mpg cap p_in p v2g t st,
  pass_setting g ws mpg cap p_in p v2g t ->
  pass_reach dbg g ws mpg cap (pass_state0 ws p v2g t (edge_cut g p)) st ->
  forall q, (q <= 1)%N -> load ws (s_p st) q <= Z.max (load ws p_in q) cap.
Proof. exact fm_cap_every_point. Qed.
Print Assumptions C07_cap_every_point.

(* the checker run on the implementation's outputs decides the property clauses *)
Theorem C07_checker_ok : forall g ws cap mp mm p0 p mpp rpp,
  check_C07 g ws cap mp mm p0 p mpp rpp = true <->
  (length p = length p0 /\ two_way p /\ edge_cut g p <= edge_cut g p0
   /\ load ws p 0 <= Z.max (load ws p0 0) cap /\ load ws p 1 <= Z.max (load ws p0 1) cap
   /\ metadata_ok mp mm p0 p mpp rpp).
Proof. exact check_C07_ok. Qed.
Print Assumptions C07_checker_ok.

(* ---- non-vacuity and what the oracle test rejects (a recorded run of the implementation:
   path 0-1-2, edge weights 6 and 5, unit vertex weights, parts 0|1|0, max_imbalance 1.0) ---- *)
Definition ex_g : graph := [[(1%nat, 6)]; [(0%nat, 6); (2%nat, 5)]; [(1%nat, 5)]].
Definition ex_cfg : fm_cfg :=
  {| fm_max_passes := Some 4%N; fm_max_moves := None; fm_max_imb := Some (f64_of_Z 1); fm_max_bad := 2%N; fm_dbg := true |}.
Definition ex_orc : list pass_rec :=
  [(11, [(1%nat, 11); (2%nat, -5); (0%nat, -6)]); (0, [(2%nat, -5); (1%nat, -1); (0%nat, 6)])].

Example C07_nonvacuous :
  wf_graphb ex_g 3 = true /\ rows_sortedb ex_g = true /\ symmetricb ex_g = true /\ no_self_loopb ex_g = true
  /\ pos_edgesb ex_g = true
  /\ fm_cap (fm_max_imb ex_cfg) (load [1;1;1] [0;1;0]%N 0, load [1;1;1] [0;1;0]%N 1) = Some 3
  /\ fm ex_cfg (fm_fuel ex_g [0;1;0]%N) ex_g [1;1;1] [0;1;0]%N ex_orc = Ok (FmOk [0;0;0]%N [3;3]%N [2;3]%N)
  /\ edge_cut ex_g [0;1;0]%N = 11 /\ edge_cut ex_g [0;0;0]%N = 0.
Proof. repeat split; vm_compute; reflexivity. Qed.

(* a choice the code cannot make (vertex 0 has gain 6, not the top gain 11), a missing choice,
   a superfluous choice, a wrong recorded cut, a missing pass: all refused *)
Example C07_oracle_rejections :
  fm ex_cfg 20 ex_g [1;1;1] [0;1;0]%N [(11, [(0%nat, 6)])] = Ok (FmBad 2)
  /\ fm ex_cfg 20 ex_g [1;1;1] [0;1;0]%N [(11, [(0%nat, 11)])] = Ok (FmBad 2)
  /\ fm ex_cfg 20 ex_g [1;1;1] [0;1;0]%N [(11, [(1%nat, 11)])] = Ok (FmBad 1)
  /\ fm ex_cfg 20 ex_g [1;1;1] [0;1;0]%N [(11, [(1%nat, 11); (2%nat, -5); (0%nat, -6); (0%nat, 0)])] = Ok (FmBad 3)
  /\ fm ex_cfg 20 ex_g [1;1;1] [0;1;0]%N [(12, [(1%nat, 11); (2%nat, -5); (0%nat, -6)])] = Ok (FmBad 4)
  /\ fm ex_cfg 20 ex_g [1;1;1] [0;1;0]%N [(11, [(1%nat, 11); (2%nat, -5); (0%nat, -6)])] = Ok (FmBad 5).
Proof. repeat split; vm_compute; reflexivity. Qed.

(* outside the contract: a self-loop makes the gain count an edge the cut does not, and the
   debug assertion fires (vertex 0 with a loop of weight 2, parts 0|1) *)
Example C07_self_loop_breaks_tracking :
  fm ex_cfg 20 [[(0%nat, 2); (1%nat, 1)]; [(0%nat, 1)]] [1;1] [0;1]%N [(1, [(1%nat, 1); (0%nat, -3)])] = Panic 6.
Proof. vm_compute. reflexivity. Qed.

(* C04 — each Rcb/Rib bisection is within tolerance or adjacent to the
   weighted median.  Only the property theorems, each closed by [exact] of a
   lemma of Proofs/RcbBal*.v / Proofs/RcbRegress.v, with [Print Assumptions]
   beneath.  BalTree = the C03 bisection tree whose every internal node
   satisfies balanced_or_bracket (Model/Rcb.v): low-side weight within
   tolerance of half, or exactly half, or below half and reaching it by moving
   the cut past one more coordinate value of the high side, or above half and
   dropping to at most half by moving it back past the last value of the low
   side (groups of equal binary32 coordinate; zero-weight groups count). *)
From Coupe Require Import Lib.Prelude Lib.SFloat Model.Rcb Gen.RcbGen
  Proofs.SFOrder Proofs.RcbProofs Proofs.RcbInst Proofs.RcbBalance Proofs.F32Flocq Proofs.RcbBox Proofs.RcbBalInst Proofs.RcbRegress.
From Coq Require Import Floats.SpecFloat Permutation.
Open Scope Z_scope.

Definition rcb_variant : variant := mkvariant rcb_old_rules rcb_by_coord rcb_probe_max rcb_safe_mid rcb_clamp_cast.
Definition rcb_impl := rcb rcb_variant.

(* the source implements the variant the balance proof is about (repaired stop
   rules, pivot by coordinate, last probe at max, midpoint without overflow):
   re-read from recursive_bisection.rs on every run *)
Theorem C04_variant_is_head : rcb_variant = head_variant.
Proof. exact eq_refl. Qed.

(* For every tolerance, schedule and fuel: D coordinates per point, each a
   finite f64 value (canonical binary64) whose binary32 image is finite
   ([coords_in_f32_range]), non-negative weights -- if the call returns Ok the
   ids with the binary32 coordinates and the weights form a BalTree.  The two
   facts about the midpoint `min/2 + max/2` (C04_mid_spec) and the enclosing
   root box (box_ok32_holds: monotone f64 -> f32 cast) are proved for SpecFloat
   with Flocq (real-number axioms of the standard library); the run glue still
   evaluates box_ok32 on every case as a cross-check. *)
Theorem C04_rcb_split_balanced : forall fuel sched D k tol pts ws p0 p,
  Forall (fun pt => length pt = D) pts -> contract_range pts ws ->
  rcb_impl fuel sched D k tol pts ws p0 = Ok p ->
  exists t, Permutation t (combine (combine (to32 pts) ws) p)
            /\ BalTree spec_float flt (tol_test tol) D k 0%nat t.
Proof. exact rcb_split_balanced_contract. Qed.
Print Assumptions C04_rcb_split_balanced.

(* The whole contract "finite coordinates": every finite f64 value (canonical
   binary64), also beyond the binary32 range.  With the clamped cast of the
   current source (C04_variant_is_head) such a coordinate counts as +-f32::MAX;
   the points that share that image form one group of equal binary32
   coordinate, like any other group.  No premise beyond the contract. *)
Theorem C04_rcb_split_balanced_finite_f64 : forall fuel sched D k tol pts ws p0 p,
  Forall (fun pt => length pt = D) pts -> coords_finite_valid64 pts -> Forall (fun w => 0 <= w) ws ->
  rcb_impl fuel sched D k tol pts ws p0 = Ok p ->
  exists t, Permutation t (combine (combine (to32c true pts) ws) p)
            /\ BalTree spec_float flt (tol_test tol) D k 0%nat t.
Proof. exact rcb_split_balanced_finite_f64. Qed.
Print Assumptions C04_rcb_split_balanced_finite_f64.

(* the midpoint of two finite binary32 values is finite, and when it is not
   strictly between them no finite value is *)
Theorem C04_mid_spec :
  (forall a b, f32_fin a = true -> f32_fin b = true -> f32_fin (f32_mid true a b) = true)
  /\ (forall a b x, f32_fin a = true -> f32_fin b = true -> f32_fin x = true ->
        negb (flt a (f32_mid true a b) && flt (f32_mid true a b) b) = true ->
        flt a x = true -> flt x b = true -> False).
Proof. exact mid_spec32. Qed.
Print Assumptions C04_mid_spec.

(* generic form (any coordinate type; the hypotheses on the order and on
   [mid] are exactly what the proof uses) *)
Theorem C04_generic : forall (C : Type) (ltb leb : C -> C -> bool) (mid dist addc : C -> C -> C) (zero inf : C)
    (within_tol : Z -> Z -> bool) (valid fin : C -> bool),
  (forall x, valid x = true -> ltb x x = false) ->
  (forall x y z, valid x = true -> valid y = true -> valid z = true -> ltb x y = true -> ltb x z = true \/ ltb z y = true) ->
  (forall x y z, valid x = true -> valid y = true -> valid z = true -> ltb x y = true -> ltb y z = true -> ltb x z = true) ->
  (forall x y, valid x = true -> valid y = true -> leb x y = negb (ltb y x)) ->
  valid inf = true -> (forall x, fin x = true -> valid x = true) -> (forall x, fin x = true -> ltb x inf = true) ->
  (forall a b, fin a = true -> fin b = true -> fin (mid a b) = true) ->
  (forall a b x, fin a = true -> fin b = true -> fin x = true ->
     negb (ltb a (mid a b) && ltb (mid a b) b) = true -> ltb a x = true -> ltb x b = true -> False) ->
  forall fuel sched D k (its : list (item C)) sum bb p0 p,
  Forall (fitem C fin) its -> BoxOK C ltb fin bb its -> sum = tw C its ->
  map ix its = seq 0 (length p0) -> its <> [] ->
  rcb_core C ltb leb mid dist addc zero inf within_tol false true true fuel sched D k its sum bb p0 = Ok p ->
  exists t, Permutation t (combine (combine (map co its) (map wt its)) p) /\ BalTree C ltb within_tol D k 0%nat t.
Proof. exact rcb_core_balanced. Qed.
Print Assumptions C04_generic.

(* the checker that judges every implementation output accepts only balanced
   bisection trees (true -> property); the node test decides the predicate *)
Theorem C04_checker_sound : forall D k tol pts ws ids,
  check_balance32 D k tol pts ws ids = true ->
  length pts = length ids /\ length ws = length ids
  /\ exists t, Permutation t (combine (combine (to32c true pts) ws) ids)
               /\ BalTree spec_float flt (tol_test tol) D k 0%nat t.
Proof. exact check_balance32_sound. Qed.
Print Assumptions C04_checker_sound.

Theorem C04_check_split_iff : forall tol lo hi,
  vaw spec_float f32v lo -> vaw spec_float f32v hi ->
  (check_split spec_float flt (tol_test tol) lo hi = true
   <-> balanced_or_bracket spec_float flt (tol_test tol) lo hi).
Proof. exact check_split32_iff. Qed.
Print Assumptions C04_check_split_iff.

(* the statement is FALSE of the earlier variants of the search (faithful
   models, witnesses evaluated by vm_compute) *)
Theorem C04_refuted_old_same_count : refuted v_pinned.
Proof. exact rcb_c04_refuted_1. Qed.
Theorem C04_refuted_old_nothing_right : refuted v_pinned.
Proof. exact rcb_c04_refuted_2. Qed.
Theorem C04_refuted_old_all_left_twice : refuted v_pinned.
Proof. exact rcb_c04_refuted_3. Qed.
Theorem C04_refuted_pivot_by_rounded_distance : refuted v_dist.
Proof. exact rcb_c04_refuted_dist_tie. Qed.
Theorem C04_refuted_probe_at_rounded_midpoint : refuted v_noprobe.
Proof. exact rcb_c04_refuted_adjacent. Qed.
Theorem C04_refuted_midpoint_overflow : refuted v_unsafe_mid.
Proof. exact rcb_c04_refuted_overflow. Qed.
Print Assumptions C04_refuted_midpoint_overflow.

(* FALSE with the PLAIN cast `as f32` beyond the binary32 range (the code before
   the clamp fix; flag rcb_clamp_cast = false).  A finite f64 above f32::MAX
   became +inf: an infinite box bound makes the midpoint infinite or NaN, the
   interval is exhausted at once, the only probe is made at max, and a point at
   +inf can never be the pivot.  Search-level witnesses on coordinates holding
   an infinity (which only the plain cast produces), and the whole algorithm
   with the plain cast on x = 0,1,2,3,1e39 (one part) and x = -1e39,0,1,2,3
   (4 | 1); with the clamped cast both are cut 3 | 2 and the certified checker,
   which judges the clamped images, rejects the former outputs. *)
Theorem C04_refuted_beyond_f32_plus : refuted_nonnan head_variant.
Proof. exact rcb_c04_refuted_beyond_f32_plus. Qed.
Theorem C04_refuted_beyond_f32_minus : refuted_nonnan head_variant.
Proof. exact rcb_c04_refuted_beyond_f32_minus. Qed.
Print Assumptions C04_refuted_beyond_f32_minus.
Theorem C04_refuted_plain_cast_outputs :
  rcb (head_variant_c false) 400 seq_sched 2 1 tol005 (pts_x [0; 1; 2; 3; 10 ^ 39]) [1;1;1;1;1] [9;9;9;9;9]%N = Ok [0;0;0;0;0]%N
  /\ rcb (head_variant_c false) 400 seq_sched 2 1 tol005 (pts_x [- 10 ^ 39; 0; 1; 2; 3]) [1;1;1;1;1] [9;9;9;9;9]%N = Ok [0;0;0;0;1]%N
  /\ check_balance32 2 1 tol005 (pts_x [0; 1; 2; 3; 10 ^ 39]) [1;1;1;1;1] [0;0;0;0;0]%N = false
  /\ check_balance32 2 1 tol005 (pts_x [- 10 ^ 39; 0; 1; 2; 3]) [1;1;1;1;1] [0;0;0;0;1]%N = false.
Proof. exact (conj rcb_beyond_f32_one_part (conj rcb_beyond_f32_lopsided (conj (proj1 checker_beyond_f32) (proj1 (proj2 checker_beyond_f32))))). Qed.
Theorem C04_clamped_cast_repairs :
  rcb head_variant 400 seq_sched 2 1 tol005 (pts_x [0; 1; 2; 3; 10 ^ 39]) [1;1;1;1;1] [9;9;9;9;9]%N = Ok [0;0;0;1;1]%N
  /\ rcb head_variant 400 seq_sched 2 1 tol005 (pts_x [- 10 ^ 39; 0; 1; 2; 3]) [1;1;1;1;1] [9;9;9;9;9]%N = Ok [0;0;0;1;1]%N
  /\ rcb head_variant 400 seq_sched 2 1 tol005 (pts_x [- 10 ^ 39; 0; 1; 2; 3; 10 ^ 39]) [1;1;1;1;1;1] [9;9;9;9;9;9]%N
     = Ok [0;0;0;1;1;1]%N.
Proof. exact rcb_beyond_f32_clamped. Qed.

(* non-vacuity: an outlier input satisfies the premises that can be computed,
   the model returns the balanced 3 | 3 and the checker accepts it *)
Definition ex_pts4 : list (list spec_float) :=
  map (map f64_of_Z) [[0; 0]; [1; 0]; [2; 0]; [3; 0]; [4; 0]; [20; 0]].
Example C04_nonvacuous :
  rcb_impl 400 seq_sched 2 1 tol005 ex_pts4 [1; 1; 1; 1; 1; 1] [9; 9; 9; 9; 9; 9]%N = Ok [0; 0; 0; 1; 1; 1]%N
  /\ box_ok32c true 2 ex_pts4 [1; 1; 1; 1; 1; 1] = true
  /\ check_balance32 2 1 tol005 ex_pts4 [1; 1; 1; 1; 1; 1] [0; 0; 0; 1; 1; 1]%N = true.
Proof. repeat split; vm_compute; reflexivity. Qed.
Example C04_nonvacuous_contract : contract_range ex_pts4 [1; 1; 1; 1; 1; 1].
Proof. split; repeat constructor; lia. Qed.

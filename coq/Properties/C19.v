(* C19 — partition, weight and MEDIT files round-trip losslessly.
   Only the property theorems, each closed by [exact] of a lemma of
   Proofs/FormatsProofs.v, Proofs/MeditBinProofs.v, Proofs/MeditAsciiProofs.v,
   with [Print Assumptions] beneath.  The models read their literals and
   element-type tables from Gen/FormatsGen.v, Gen/MeditGen.v (regenerated from
   the Rust source on every run). *)
From Coupe Require Import Lib.Prelude Gen.FormatsGen Model.Formats Model.MeditTypes Gen.MeditGen Model.Medit
  Proofs.FormatsProofs Proofs.MeditBinProofs Proofs.MeditAsciiProofs Proofs.C19Examples.
Open Scope N_scope.

(* ---------------------------------------------------------------- partition file *)

(* any id array (ids are usize: any 64-bit value; the length bound is what every
   in-memory Vec<usize> satisfies) reads back identically *)
Theorem partition_roundtrip : forall ids,
  Forall u64_ok ids ->
  8 * N.of_nat (length ids) <= isize_max ->
  read_partition (write_partition ids) = FOk ids.
Proof. exact partition_roundtrip_proof. Qed.
Print Assumptions partition_roundtrip.

Theorem partition_read_terminates : forall s, read_partition s <> FOutOfFuel.
Proof. exact read_partition_terminates. Qed.
Print Assumptions partition_read_terminates.

(* ---------------------------------------------------------------- weight file *)

(* [rw_weights a] = write the array, then read the bytes.
   wf_rows: rectangular, 1 <= criteria < 2^16, values in range (ANY 64-bit
   pattern for floats), row count bounded as any in-memory Vec<Vec<_>> is *)
Theorem weight_roundtrip_int : forall rows,
  rows <> [] -> wf_rows i64_ok rows -> rw_weights (WInts rows) = FOk (WInts rows).
Proof. exact weight_roundtrip_int_proof. Qed.
Print Assumptions weight_roundtrip_int.

Theorem weight_roundtrip_float : forall rows,
  rows <> [] -> wf_rows u64_ok rows -> rw_weights (WFloats rows) = FOk (WFloats rows).
Proof. exact weight_roundtrip_float_proof. Qed.
Print Assumptions weight_roundtrip_float.

(* the arrays without rows: Integers([]) round-trips; Floats([]) is read back
   as Integers([]) (the reader returns at criterion_count = 0 before it looks
   at the integer flag) *)
Theorem weight_roundtrip_empty_int : rw_weights (WInts []) = FOk (WInts []).
Proof. exact weight_empty_int. Qed.
Theorem weight_empty_float_read_as_int : rw_weights (WFloats []) = FOk (WInts []).
Proof. exact weight_empty_float_reads_as_int. Qed.

Theorem weight_read_terminates : forall s, read_weights s <> FOutOfFuel.
Proof. exact read_weights_terminates. Qed.
Print Assumptions weight_read_terminates.

(* ---------------------------------------------------------------- width of the header arithmetic *)

(* The models compute sizes on unbounded integers (`criterion_count * 8`, counts as full u64).
   The translator fingerprints the corresponding source lines on every run: the u16 criterion
   count is widened to usize where it is decoded, the row buffer is `vec![0; criterion_count * 8]`,
   and read / read_inner / write_inner (resp. partition::read / write) contain no shift, no
   narrowing cast other than `u16::to_le_bytes(criterion_count as u16)`, no wrapping arithmetic. *)
Theorem weight_rowsize_tie : Gen.FormatsGen.weight_rowsize_fingerprint = true.
Proof. exact eq_refl. Qed.
Theorem partition_width_tie : Gen.FormatsGen.part_width_fingerprint = true.
Proof. exact eq_refl. Qed.

(* ---------------------------------------------------------------- MEDIT binary *)

(* [rw_medit_bin m] = serialize_medit_binary, then parse_binary.  wf_mesh: the
   invariants of Mesh::from_raw_parts, 1 <= dimension < 2^31, node numbers
   < 2^63 - 1, in-memory sizes.  norm_bin: Vertex blocks are not written,
   a Quadrangle block is read back as Quadrilateral; nothing else changes. *)
Theorem medit_bin_roundtrip : forall m, wf_mesh m -> rw_medit_bin m = FOk (norm_bin m).
Proof. exact medit_bin_roundtrip_proof. Qed.
Print Assumptions medit_bin_roundtrip.

(* meshes of the property's quantifier: exactly the data *)
Theorem medit_bin_roundtrip_exact : forall m,
  wf_mesh m -> Forall (fun b => listed_ty (b_ty b)) (m_topo m) -> rw_medit_bin m = FOk m.
Proof. exact medit_bin_roundtrip_listed. Qed.
Print Assumptions medit_bin_roundtrip_exact.

(* ---------------------------------------------------------------- format detection *)

(* whatever prefix (>= 4 bytes) of a binary file Mesh::from_reader looks at, it decides "binary" *)
Theorem sniff_binary_written : forall m bytes n,
  serialize_binary m = FOk bytes -> (4 <= n)%nat -> sniff (firstn n bytes) = FOk FmtBinary.
Proof. exact sniff_binary_written_proof. Qed.
Print Assumptions sniff_binary_written.

(* ---------------------------------------------------------------- MEDIT ASCII *)

(* [print_f64] / [parse_f64] stand for Rust std's `impl Display for f64` / `impl FromStr for f64`
   on bit patterns.  What is assumed of them, for the coordinates of the mesh only:
     float_ok x := parse_f64 (print_f64 x) = Some x /\ word_ok (print_f64 x)
   (the text parses back to the same bits; it is non-empty ASCII without white space).
   [rw_medit_ascii] = display_medit_ascii, then parse_ascii.  wf_mesh_ascii: the invariants of
   Mesh::from_raw_parts, dimension >= 1, node numbers < 2^64 - 1, in-memory sizes.
   norm_ascii: Vertex blocks are not written; nothing else changes (Quadrangle stays Quadrangle). *)
Theorem medit_ascii_roundtrip : forall print_f64 parse_f64 m,
  wf_mesh_ascii m -> Forall (float_ok print_f64 parse_f64) (m_coords m) ->
  rw_medit_ascii print_f64 parse_f64 m = FOk (norm_ascii m).
Proof. exact medit_ascii_roundtrip_proof. Qed.
Print Assumptions medit_ascii_roundtrip.

Theorem medit_ascii_roundtrip_exact : forall print_f64 parse_f64 m,
  wf_mesh_ascii m -> Forall (float_ok print_f64 parse_f64) (m_coords m) ->
  Forall (fun b => b_ty b <> Vertex) (m_topo m) ->
  rw_medit_ascii print_f64 parse_f64 m = FOk m.
Proof. exact medit_ascii_roundtrip_novertex. Qed.
Print Assumptions medit_ascii_roundtrip_exact.

(* whatever prefix (>= 20 bytes) of an ASCII file Mesh::from_reader looks at, it decides "ASCII" *)
Theorem sniff_ascii_written : forall print_f64 m bytes n,
  serialize_ascii print_f64 m = FOk bytes ->
  Forall (fun x => word_ok (print_f64 x)) (m_coords m) ->
  (20 <= n)%nat -> sniff (firstn n bytes) = FOk FmtAscii.
Proof. exact sniff_ascii_written_proof. Qed.
Print Assumptions sniff_ascii_written.

(* hence Mesh::from_reader = the parser of the format the file was written in *)
Theorem from_reader_written_binary : forall parse_f64 m bytes,
  serialize_binary m = FOk bytes -> from_reader parse_f64 bytes = parse_binary bytes.
Proof. exact from_reader_binary_written. Qed.
Theorem from_reader_written_ascii : forall print_f64 parse_f64 m bytes,
  serialize_ascii print_f64 m = FOk bytes ->
  Forall (fun x => word_ok (print_f64 x)) (m_coords m) ->
  from_reader parse_f64 bytes = parse_ascii parse_f64 bytes.
Proof. exact from_reader_ascii_written. Qed.
Print Assumptions from_reader_written_binary.
Print Assumptions from_reader_written_ascii.

(* ---------------------------------------------------------------- the property, end to end *)

(* write in either format, read with Mesh::from_reader (format detected automatically) *)
Theorem medit_roundtrip_auto_binary : forall parse_f64 m,
  wf_mesh m -> fbind (serialize_binary m) (from_reader parse_f64) = FOk (norm_bin m).
Proof. exact medit_auto_binary_proof. Qed.
Theorem medit_roundtrip_auto_ascii : forall print_f64 parse_f64 m,
  wf_mesh_ascii m -> Forall (float_ok print_f64 parse_f64) (m_coords m) ->
  fbind (serialize_ascii print_f64 m) (from_reader parse_f64) = FOk (norm_ascii m).
Proof. exact medit_auto_ascii_proof. Qed.
Print Assumptions medit_roundtrip_auto_binary.
Print Assumptions medit_roundtrip_auto_ascii.

(* ---------------------------------------------------------------- termination of the MEDIT parsers *)

(* every loop of the parsers runs on fuel = 1 + remaining bytes; it never runs out, on any input *)
Theorem medit_parse_binary_terminates : forall s, parse_binary s <> FOutOfFuel.
Proof. exact parse_binary_terminates. Qed.
Theorem medit_parse_ascii_terminates : forall parse_f64 s, parse_ascii parse_f64 s <> FOutOfFuel.
Proof. exact parse_ascii_terminates. Qed.
Print Assumptions medit_parse_binary_terminates.
Print Assumptions medit_parse_ascii_terminates.

(* ---------------------------------------------------------------- the run-time checker *)

(* Run/RunC19.v compares what the implementation read back with what it wrote through these
   boolean equalities: `false` means the values differ *)
Theorem checker_ids : forall a b : list N, leqb N.eqb a b = true <-> a = b.
Proof. exact (leqb_eq N.eqb N.eqb_eq). Qed.
Theorem checker_weights : forall a b, warray_eqb a b = true <-> a = b.
Proof. exact warray_eqb_eq. Qed.
Theorem checker_mesh : forall a b, mesh_eqb a b = true <-> a = b.
Proof. exact mesh_eqb_eq. Qed.
Print Assumptions checker_mesh.

(* ---------------------------------------------------------------- non-vacuity *)

Example partition_nonvacuous :
  read_partition (write_partition [0; 18446744073709551615; 3]) = FOk [0; 18446744073709551615; 3].
Proof. vm_compute. reflexivity. Qed.

(* NaN with payload, -0.0, +inf, subnormal, two criteria; i64::MIN / MAX *)
Example weight_float_nonvacuous :
  example_float_rows <> [] /\ wf_rows u64_ok example_float_rows
  /\ rw_weights (WFloats example_float_rows) = FOk (WFloats example_float_rows).
Proof. exact example_float_rows_ok. Qed.
Example weight_int_nonvacuous :
  example_int_rows <> [] /\ wf_rows i64_ok example_int_rows
  /\ rw_weights (WInts example_int_rows) = FOk (WInts example_int_rows).
Proof. exact example_int_rows_ok. Qed.

(* a 2-D mesh with an edge block and a triangle block satisfies wf_mesh and is in the
   property's quantifier; a mesh with a Vertex and a Quadrangle block shows the normalisation *)
Example medit_bin_nonvacuous :
  wf_mesh example_mesh /\ Forall (fun b => listed_ty (b_ty b)) (m_topo example_mesh).
Proof. exact (conj example_mesh_wf example_mesh_listed). Qed.
Example medit_bin_normalises :
  wf_mesh example_mesh_exotic /\
  rw_medit_bin example_mesh_exotic
  = FOk (mkmesh 3 (m_coords example_mesh_exotic) [1; 2; 3; 4]%Z [mkblock Quadrilateral [0; 1; 2; 3] [-4]%Z]).
Proof. exact example_mesh_exotic_bin. Qed.

(* the float hypotheses are satisfiable: an instance on the coordinates 0, 1, 2, -1 of
   [example_mesh], and the round trip through the text computed by the model *)
Example medit_ascii_nonvacuous :
  wf_mesh_ascii example_mesh /\ Forall (float_ok ex_print ex_parse) (m_coords example_mesh)
  /\ Forall (fun b => b_ty b <> Vertex) (m_topo example_mesh)
  /\ rw_medit_ascii ex_print ex_parse example_mesh = FOk example_mesh.
Proof. exact example_mesh_ascii. Qed.

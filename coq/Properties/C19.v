(* C19 — partition, weight and MEDIT files round-trip losslessly.
   Only the property theorems, each closed by [exact] of a lemma of
   Proofs/FormatsProofs.v, with [Print Assumptions] beneath. *)
From Coupe Require Import Lib.Prelude Model.Formats Proofs.FormatsProofs.
Open Scope N_scope.

(* partition file: any id array (ids are usize = any 64-bit value; the length
   bound is what every in-memory Vec<usize> satisfies) reads back identically *)
Theorem partition_roundtrip : forall ids,
  Forall u64_ok ids ->
  8 * N.of_nat (length ids) <= isize_max ->
  read_partition (write_partition ids) = FOk ids.
Proof. exact partition_roundtrip_proof. Qed.
Print Assumptions partition_roundtrip.

Theorem partition_read_terminates : forall s, read_partition s <> FOutOfFuel.
Proof. exact read_partition_terminates. Qed.
Print Assumptions partition_read_terminates.

Example partition_nonvacuous :
  read_partition (write_partition [0; 18446744073709551615; 3]) = FOk [0; 18446744073709551615; 3].
Proof. vm_compute. reflexivity. Qed.

(* C13 — CompleteKarmarkarKarp is sound and complete for its tolerance.
   This file contains only the property theorems, each closed by [exact] of a
   lemma of Proofs/CkkProofs.v, with [Print Assumptions] beneath.  The model
   is instantiated with the literals the translator read from ckk.rs. *)
From Coupe Require Import Lib.Prelude Lib.SFloat Model.Ckk Proofs.CkkProofs Gen.CkkGen.
From Coq Require Import Floats.SpecFloat.
Open Scope Z_scope.

(* the implementation's entry point: the model at the constants of the current source *)
Definition ckk_impl := ckk ckk_sum_branch_separate.

Theorem C13_diff_branch_literal : ckk_diff_branch_separate = true.
Proof. exact eq_refl. Qed.

(* Ok only after writing a two-way partition within the tolerance *)
Theorem C13_sound : forall ws tol p0 p,
  Forall (fun w => 0 <= w) ws -> ws <> [] ->
  ckk_impl ws tol p0 = Ok p ->
  exists t, tol_int (sumZ ws) tol = Some t /\
    length p = length p0 /\ length p = length ws /\ two_way p /\ diff ws p <= t.
Proof. exact ckk_sound. Qed.
Print Assumptions C13_sound.

(* NotFound only if no two-way partition meets the bound *)
Theorem C13_complete : forall ws tol p0,
  Forall (fun w => 0 <= w) ws -> ws <> [] ->
  ckk_impl ws tol p0 = Err NotFound ->
  exists t, tol_int (sumZ ws) tol = Some t /\
    forall p, length p = length ws -> two_way p -> diff ws p > t.
Proof. exact (ckk_complete ckk_sum_branch_separate). Qed.
Print Assumptions C13_complete.

(* the search always terminates (recursion depth <= number of weights) *)
Theorem C13_terminates : forall ws tol p0, ckk_impl ws tol p0 <> OutOfFuel.
Proof. exact (ckk_terminates ckk_sum_branch_separate). Qed.
Print Assumptions C13_terminates.

(* no panic for non-negative weights and a tolerance that converts to the weight type *)
Theorem C13_no_panic : forall ws tol p0 s,
  Forall (fun w => 0 <= w) ws -> tol_int (sumZ ws) tol <> None ->
  ckk_impl ws tol p0 <> Panic s.
Proof. exact ckk_no_panic. Qed.
Print Assumptions C13_no_panic.

(* the checker used on the implementation's outputs decides the property *)
Theorem C13_checker_ok : forall ws t p,
  check_C13 ws t (OOk p) = true <-> (length p = length ws /\ two_way p /\ diff ws p <= t).
Proof. exact check_C13_ok. Qed.
Theorem C13_checker_notfound : forall ws t,
  check_C13 ws t ONotFound = true <-> (forall p, length p = length ws -> two_way p -> diff ws p > t).
Proof. exact check_C13_notfound. Qed.
Print Assumptions C13_checker_ok.
Print Assumptions C13_checker_notfound.

(* non-vacuity: a concrete input on which the hypotheses hold and the search succeeds / fails *)
Example C13_nonvacuous_ok :
  exists p, ckk_impl [4;5;6;7;8] (f64_of_Z 0) [9;9;9;9;9]%N = Ok p /\ diff [4;5;6;7;8] p = 0.
Proof. eexists. split; vm_compute; reflexivity. Qed.
Example C13_nonvacuous_notfound :
  ckk_impl [3;5;9] (f64_of_Z 0) [0;0;0]%N = Err NotFound.
Proof. vm_compute. reflexivity. Qed.

(* C02 — partition-improving algorithms keep a valid partition valid.
   Collected per-algorithm theorems (VnBest/VnFirst: C14, FM: C07, KL: C15,
   ArcSwap: C05 — added here as those developments land) + the abstract
   k-means model + the exact validity checker. *)
From Coupe Require Import Lib.Prelude Lib.Report Model.KMeansAbs Run.RunC02 Proofs.C02Proofs.

Theorem C02_checker : forall bound n p,
  check_valid bound n p = true <-> (length p = n /\ Forall (fun x => (x <= bound)%N) p).
Proof. exact check_valid_spec. Qed.
Print Assumptions C02_checker.

(* KMeans, PARTIAL: about the abstract model (numeric core = arbitrary oracle) *)
Theorem C02_kmeans_abs_partial : forall o mi mb p p',
  kmeans_abs o mi mb p = Ok p' ->
  length p' = length p /\ Forall (fun x => In x p) p' /\ Forall (fun x => (x <= list_maxN p)%N) p'.
Proof. exact kmeans_abs_ids. Qed.
Print Assumptions C02_kmeans_abs_partial.

Example C02_nonvacuous :
  kmeans_abs (fun _ _ i => if Nat.eqb i 0 then Some 1%nat else None) 1 1 [0;1;1;0]%N = Ok [1;1;1;0]%N.
Proof. vm_compute. reflexivity. Qed.

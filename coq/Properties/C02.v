(* C02 — partition-improving algorithms keep a valid partition valid.

   One theorem per improving algorithm, ABOUT THE MODEL OF THAT ALGORITHM (the
   model the check of the algorithm's own property ties to the code: C14
   VnBest/VnFirst, C07 FiducciaMattheyses, C15 KernighanLin, C05 ArcSwap), of
   the shape

     usage contract -> the model returns Ok p' /\ length p' = length p
                       /\ no id of p' above the largest id of p
                          (two-way algorithms: within {0,1})

   (Ok excludes Panic and OutOfFuel), plus the abstract k-means model and the
   exact validity checker.  This file only collects: every theorem is closed
   by [exact] of a lemma of Proofs/C02Collect.v -- which derives it from the
   PROPERTY THEOREMS of the algorithm's own Properties/Cxx.v, by name -- or of
   Proofs/C02Proofs.v.  Partial results
   are named [..._partial] and say what is missing.  [list_maxN p] = the
   largest id of [p] (0 for the empty array). *)
From Coupe Require Import Lib.Prelude Lib.SFloat Lib.Report Model.KMeansAbs Run.RunC02 Proofs.C02Proofs.
From Coupe Require Proofs.C02Collect.
From Coupe Require Import Lib.Rayon Model.KMeans Gen.KMeansGen Proofs.KMeansProofs Proofs.KMeansNoPanic Proofs.KMeansCollect.
From Coupe Require Proofs.KMeansVec Proofs.KMeansTrace.
From Coq Require Import Floats.SpecFloat.
From Coupe Require Properties.C07 Properties.C15.
From Coupe Require Lib.Graph Model.Vn Model.Fm Proofs.FmProofs Model.Kl Model.ArcSwap Proofs.ArcSwapTerm.
Import C02Collect.

Theorem C02_checker : forall bound n p,
  check_valid bound n p = true <-> (length p = n /\ Forall (fun x => (x <= bound)%N) p).
Proof. exact check_valid_spec. Qed.
Print Assumptions C02_checker.

(* ------------------------------------------------------------------ VnBest *)

(* (C14 also has generic-arithmetic / genuine-f64 versions of the VnBest
   theorems; they are not restated here.)
   matching lengths, non-negative weights (flt: the weights are f64 holding
   integers): Ok -- no error, no panic, the loop ends within its fuel (1 + the
   sum of the squared part loads, built into the model) -- same length, no id
   above the input's maximum *)
Theorem C02_vnbest : forall flt ws p, length ws = length p -> Forall (fun w => (0 <= w)%Z) ws ->
  exists p' n, Vn.vn_best flt ws p = Ok (p', n)
    /\ length p' = length p /\ Forall (fun x => (x <= list_maxN p)%N) p'.
Proof. exact VnC.vnbest_collect. Qed.
Print Assumptions C02_vnbest.

(* whatever the input (mismatched lengths and negative weights included): never
   a panic, never out of fuel, and an Ok result is valid *)
Theorem C02_vnbest_any_input : forall flt ws p,
  (forall s, Vn.vn_best flt ws p <> Panic s) /\ Vn.vn_best flt ws p <> OutOfFuel
  /\ (forall p' n, Vn.vn_best flt ws p = Ok (p', n) ->
        length p' = length p /\ Forall (fun x => (x <= list_maxN p)%N) p').
Proof. exact VnC.vnbest_any_input. Qed.
Print Assumptions C02_vnbest_any_input.

(* ----------------------------------------------------------------- VnFirst *)

(* non-negative weights, matching lengths: Ok (the scan ends within len + 1
   turns), same length, no id above the input's maximum *)
Theorem C02_vnfirst : forall ws p, Forall (fun w => (0 <= w)%Z) ws -> length ws = length p ->
  exists p' n, Vn.vn_first ws p = Ok (p', n)
    /\ length p' = length p /\ Forall (fun x => (x <= list_maxN p)%N) p'.
Proof. exact VnC.vnfirst_collect. Qed.
Print Assumptions C02_vnfirst.

(* ------------------------------------------------------ FiducciaMattheyses *)

(* Contract (FmProofs.fm_contract): square CSR matrix with in-range sorted
   columns, symmetric, no self-loop, non-negative integer edge weights, vertex
   weights >= 0; the weight cap converts to i64.  For EVERY oracle [orc] (the
   per-process random iteration order of the gain buckets; the model accepts
   exactly the choices the code may make), every parameter setting and every
   fuel >= fm_fuel (initial cut + 2 passes): no panic, no fuel exhaustion, and
   a completed run returns an array of the same length within {0,1}.
   (The entry point itself answers a non-two-way input with an error.) *)
Theorem C02_fm : forall cfg fuel g ws p0 orc cap,
  FmProofs.fm_contract g ws p0 ->
  Fm.fm_cap (Fm.fm_max_imb cfg) (Fm.load ws p0 0, Fm.load ws p0 1) = Some cap ->
  (Fm.fm_fuel g p0 <= fuel)%nat ->
  (forall s, Fm.fm cfg fuel g ws p0 orc <> Panic s)
  /\ Fm.fm cfg fuel g ws p0 orc <> OutOfFuel
  /\ (forall p mpp rpp, Fm.fm cfg fuel g ws p0 orc = Ok (Fm.FmOk p mpp rpp) ->
        length p = length p0 /\ Forall (fun x => (x <= 1)%N) p).
Proof. exact FmC.fm_collect. Qed.
Print Assumptions C02_fm.

(* ... and the statement is not vacuous for any input of the contract: some
   oracle is accepted to the end *)
Theorem C02_fm_execution_exists : forall cfg g ws p0 cap,
  FmProofs.fm_contract g ws p0 -> length ws = length p0 -> Fm.two_way p0 ->
  Fm.fm_cap (Fm.fm_max_imb cfg) (Fm.load ws p0 0, Fm.load ws p0 1) = Some cap ->
  exists orc p mpp rpp, Fm.fm cfg (Fm.fm_fuel g p0) g ws p0 orc = Ok (Fm.FmOk p mpp rpp).
Proof. exact C07.C07_execution_exists. Qed.
Print Assumptions C02_fm_execution_exists.

(* ------------------------------------------------------------ KernighanLin *)

(* [C15.kl_impl sp] = Kl.kl at the three flags read from kernighan_lin.rs;
   [sp] says which edge_cut the topology type has (true: CsMatView's override,
   which needs rows sorted by column; false: the trait's own method -- Grid,
   adjacency lists in any order).

   PARTIAL with respect to the property's quantifier ("all valid initial
   partitions"): proved for inputs with AT MOST TWO part ids in use (two
   non-empty parts, one part, or the empty input).  Then, for a square matrix
   with in-range columns and non-negative edge weights, one weight per vertex
   and every value of the three limits: at the fuel kl_fuel (initial cut + 2
   passes) the model returns Ok; for every larger fuel it neither panics nor
   runs out of fuel; and every Ok result has the same length, every id
   labelling as many vertices as before -- hence only ids of the input occur,
   none above its maximum; for a valid two-part input the result stays within
   {0,1}.
   What is missing: with three or more ids in use the code reaches
   `unimplemented!()` (open known finding kl-not-two-parts; the model panics
   there too), so C02 does NOT hold of KernighanLin on those inputs. *)
Theorem C02_kl_two_parts_partial : forall sp mp mf mb g wlen p,
  Graph.wf_graph g (length p) -> (sp = true -> Graph.rows_sorted g) -> Graph.nonneg_edges g ->
  (length p <= wlen)%nat -> (length (Kl.uniq [] p) <= 2)%nat ->
  (exists q, C15.kl_impl sp mp mf mb (Kl.kl_fuel sp g p) g wlen p = Ok q
     /\ length q = length p /\ Kl.same_sizes p q
     /\ Forall (fun x => In x p) q /\ Forall (fun x => (x <= list_maxN p)%N) q)
  /\ forall fuel, (Kl.kl_fuel sp g p <= fuel)%nat ->
       (forall s, C15.kl_impl sp mp mf mb fuel g wlen p <> Panic s)
       /\ C15.kl_impl sp mp mf mb fuel g wlen p <> OutOfFuel
       /\ (forall q, C15.kl_impl sp mp mf mb fuel g wlen p = Ok q ->
             length q = length p /\ Kl.same_sizes p q
             /\ Forall (fun x => In x p) q /\ Forall (fun x => (x <= list_maxN p)%N) q).
Proof. exact KlC.kl_collect. Qed.
Print Assumptions C02_kl_two_parts_partial.

(* ----------------------------------------------------------------- ArcSwap *)

(* The machine of Model/ArcSwap.v executes one shared-memory access of one
   worker per step; a schedule is any list of worker ids.  [config_of hr g vw
   p0 T cap] = the configuration arc_swap derives from its arguments and the
   pool size T (part_count = max(2, 1 + largest input id)).

   In EVERY state reachable under EVERY schedule, for any per-thread share
   function [hr], symmetric integer-weighted graph: the array keeps its length
   and every id is below part_count; so for an input with at least two parts no
   id exceeds the input's maximum.  (For a one-part input the bound proved is
   1, not 0: that no move happens there is not proved.) *)
Theorem C02_arcswap_ids : forall hr g vw p0 T cap st0 sch st,
  ArcSwap.graph_ok g -> length p0 = length g ->
  let cf := ArcSwap.config_of hr g vw p0 T cap in
  ArcSwap.init_state cf p0 = Some st0 -> ArcSwap.run cf st0 sch = Some st ->
  length (ArcSwap.g_part st) = length p0
  /\ Forall (fun x => (x < ArcSwap.part_count p0)%nat) (ArcSwap.g_part st)
  /\ ((1 <= ArcSwap.list_max_nat p0)%nat ->
      Forall (fun x => (x <= ArcSwap.list_max_nat p0)%nat) (ArcSwap.g_part st)).
Proof. exact AsC.arcswap_ids. Qed.
Print Assumptions C02_arcswap_ids.

(* No panic, no deadlock, no hang, for arc_swap's configuration WITH THE SHARE
   THE CODE COMPUTES (headroom_f64: `W::from_f64((max - pw).to_f64() /
   thread_count as f64)`): the prologue does not panic; from every reachable
   state in which the outer loop has not exited every worker that is not done
   can perform its next access (no index out of bounds, no `unwrap` on None)
   and some worker can move; there is no infinite schedule (the
   one-more-access relation is well founded); every reachable state can be run
   to completion; ids and length as above.  Derived from the exact-share
   statement below and C05_f64_share_irrelevant (the f64 share IS the exact
   quotient below 2^53: Flocq, classical-reals axioms).
   Still named PARTIAL, for one premise that is narrower than the usage
   contract ("sums that do not overflow"): |cap| + total vertex weight < 2^53
   (and at most 2^53 vertices); for i64 totals in [2^53, 2^63) the f64 share
   can differ from the exact quotient and only the exact-share theorem below
   applies.  Sequential consistency of the atomics is the interleaving
   semantics the property itself quantifies over ("every thread interleaving"),
   not an extra premise; weights are integers (i64) -- unsigned weight types are
   the open known finding of C05. *)
Theorem C02_arcswap_partial : forall g vw p0 T cap,
  ArcSwap.graph_ok g -> length vw = length g -> length p0 = length g -> (1 <= length g)%nat -> (1 <= T)%nat ->
  Forall (fun x => (0 <= x)%Z) vw -> (Z.of_nat (length g) <= 2 ^ 53)%Z -> (Z.abs cap + sumZ vw < 2 ^ 53)%Z ->
  let cf := ArcSwap.config_of ArcSwap.headroom_f64 g vw p0 T cap in
  ArcSwap.init_state cf p0 <> None /\
  forall st0 sch st, ArcSwap.init_state cf p0 = Some st0 -> ArcSwap.run cf st0 sch = Some st ->
    (ArcSwap.g_fin st = false ->
       (forall t w, nth_opt (ArcSwap.g_ws st) t = Some w -> ArcSwap.w_pc w <> ArcSwap.PDone ->
                    ArcSwap.step cf st t <> None)
       /\ exists t st', ArcSwap.step cf st t = Some st')
    /\ Acc (ArcSwapTerm.step_rel cf) st
    /\ (forall f : nat -> nat, exists m, ArcSwap.run cf st (map f (seq 0 m)) = None)
    /\ (exists sch' st', ArcSwap.run cf st sch' = Some st' /\ ArcSwap.g_fin st' = true)
    /\ length (ArcSwap.g_part st) = length p0
    /\ Forall (fun x => (x < ArcSwap.part_count p0)%nat) (ArcSwap.g_part st).
Proof. exact AsC.arcswap_runs_f64. Qed.
Print Assumptions C02_arcswap_partial.

(* The same for the EXACT per-thread share (headroom_quot), with no bound on the
   weights and no axiom.  Until 71662c8 this was an idealisation of the code's
   f64 round trip (hence the name); since that fix it IS the share of the code
   for i64 weights: C02_arcswap_i64 below states it for the generated flag. *)
Theorem C02_arcswap_exact_share_partial : forall g vw p0 T cap,
  ArcSwap.graph_ok g -> length vw = length g -> length p0 = length g -> (1 <= length g)%nat -> (1 <= T)%nat ->
  let cf := ArcSwap.config_of ArcSwap.headroom_quot g vw p0 T cap in
  ArcSwap.init_state cf p0 <> None /\
  forall st0 sch st, ArcSwap.init_state cf p0 = Some st0 -> ArcSwap.run cf st0 sch = Some st ->
    (ArcSwap.g_fin st = false ->
       (forall t w, nth_opt (ArcSwap.g_ws st) t = Some w -> ArcSwap.w_pc w <> ArcSwap.PDone ->
                    ArcSwap.step cf st t <> None)
       /\ exists t st', ArcSwap.step cf st t = Some st')
    /\ Acc (ArcSwapTerm.step_rel cf) st
    /\ (forall f : nat -> nat, exists m, ArcSwap.run cf st (map f (seq 0 m)) = None)
    /\ (exists sch' st', ArcSwap.run cf st sch' = Some st' /\ ArcSwap.g_fin st' = true)
    /\ length (ArcSwap.g_part st) = length p0
    /\ Forall (fun x => (x < ArcSwap.part_count p0)%nat) (ArcSwap.g_part st).
Proof. exact AsC.arcswap_runs. Qed.
Print Assumptions C02_arcswap_exact_share_partial.

(* FULL for i64 weights since 71662c8 (the per-thread share is divided in the
   weight type): the configuration below is the one the translator generates
   from the source ([ArcSwapGen.arcswap_share_in_W]; the statement type-checks
   only while the source divides in W), no bound on the weights, axiom-free. *)
Theorem C02_arcswap_i64 : forall g vw p0 T cap,
  ArcSwap.graph_ok g -> length vw = length g -> length p0 = length g -> (1 <= length g)%nat -> (1 <= T)%nat ->
  let cf := ArcSwap.config_of (ArcSwap.share_i64 Coupe.Gen.ArcSwapGen.arcswap_share_in_W) g vw p0 T cap in
  ArcSwap.init_state cf p0 <> None /\
  forall st0 sch st, ArcSwap.init_state cf p0 = Some st0 -> ArcSwap.run cf st0 sch = Some st ->
    (ArcSwap.g_fin st = false ->
       (forall t w, nth_opt (ArcSwap.g_ws st) t = Some w -> ArcSwap.w_pc w <> ArcSwap.PDone ->
                    ArcSwap.step cf st t <> None)
       /\ exists t st', ArcSwap.step cf st t = Some st')
    /\ Acc (ArcSwapTerm.step_rel cf) st
    /\ (forall f : nat -> nat, exists m, ArcSwap.run cf st (map f (seq 0 m)) = None)
    /\ (exists sch' st', ArcSwap.run cf st sch' = Some st' /\ ArcSwap.g_fin st' = true)
    /\ length (ArcSwap.g_part st) = length p0
    /\ Forall (fun x => (x < ArcSwap.part_count p0)%nat) (ArcSwap.g_part st).
Proof. exact AsC.arcswap_runs. Qed.
Print Assumptions C02_arcswap_i64.

(* ------------------------------------------------------------------ KMeans *)

(* (kept from the first round; superseded by C02_kmeans above)
   PARTIAL: about the abstract model (numeric core = arbitrary oracle): for
   EVERY oracle the output keeps its length and uses only ids of the input.
   What is missing: the arithmetic of k-means (distances, influences, bounds)
   is not modelled; panic-freedom and termination are only what the abstract
   model shows (structural recursion on the iteration limits; `Panic 1` =
   the centre of an empty cluster, excluded for valid inputs by the model's
   precondition). *)
Theorem C02_kmeans_abs_partial : forall o mi mb p p',
  kmeans_abs o mi mb p = Ok p' ->
  length p' = length p /\ Forall (fun x => In x p) p' /\ Forall (fun x => (x <= list_maxN p)%N) p'.
Proof. exact kmeans_abs_ids. Qed.
Print Assumptions C02_kmeans_abs_partial.

(* ------------------------------------------- KMeans, the CONCRETE model *)

(* Model/KMeans.v mirrors k_means.rs and its geometry.rs helpers line by line,
   generic over the arithmetic; `reds_tree T P` = every rayon reduction over the
   split tree `T key`, the HashMap of `erode` in the order `P key`; `Some M` =
   the rotation `obb_to_aabb` (an input: nalgebra's eigen-decomposition is not
   modelled).  `F64g lg ex` = binary64 with the literals the translator reads from
   the source, `lg` / `ex` = any functions for f64::log / exp (erode).

   C02 for KMeans, binary64, FULL: for every family of split trees and HashMap
   order, every rotation matrix with at least one row, D >= 1, EVERY setting
   (limits, tolerances, erode / hilbert / early-break flags), every weight
   vector (any length, any values) and every coordinate values: a valid input
   partition with as many points as ids gives `Ok part'` -- no panic, no raw
   write outside the array, no fuel exhaustion (the loops are structural on
   max_iter / max_balance_iter) -- of the same length, with ids of the input only. *)
Theorem C02_kmeans : forall lg ex T P M D cfg points weights part,
  (1 <= D)%nat -> (1 <= length M)%nat ->
  length points = length part ->
  valid_partition part ->
  exists part', kmeans (F64g lg ex) (reds_tree (F64g lg ex) T P) (Some M) D cfg points weights part = Ok part'
    /\ length part' = length part
    /\ (forall x, In x part' -> In x part)
    /\ Forall (fun x => (x <= list_maxN part)%N) part'.
Proof. exact kmeans_c02_f64. Qed.
Print Assumptions C02_kmeans.

(* the same for every arithmetic in which the distances computed for a point
   INSIDE the bounding box are comparable (the one `partial_cmp(..).unwrap()`) *)
Theorem C02_kmeans_any_arithmetic : forall A T P M D cfg,
  (1 <= D)%nat -> (1 <= length M)%nat ->
  (forall v w, inside_val A v -> inside_val A w -> k_cmp A v w <> None) ->
  forall points weights part,
  length points = length part ->
  valid_partition part ->
  exists part', kmeans A (reds_tree A T P) (Some M) D cfg points weights part = Ok part'
    /\ length part' = length part
    /\ (forall x, In x part' -> In x part)
    /\ Forall (fun x => (x <= list_maxN part)%N) part'.
Proof. exact kmeans_c02_generic. Qed.
Print Assumptions C02_kmeans_any_arithmetic.

(* every input, every arithmetic, every reduction family (even arbitrary
   functions), every rotation: an Ok result keeps the length and uses only ids
   of the input; OutOfFuel is impossible *)
Theorem C02_kmeans_ids_any_input : forall A R rot D cfg points weights part part',
  kmeans A R rot D cfg points weights part = Ok part' ->
  length part' = length part /\ (forall x, In x part' -> In x part).
Proof. exact kmeans_ids_length. Qed.
Print Assumptions C02_kmeans_ids_any_input.

Theorem C02_kmeans_terminates : forall A R rot D cfg, reds_total R -> forall points weights part,
  kmeans A R rot D cfg points weights part <> OutOfFuel.
Proof. exact kmeans_never_out_of_fuel. Qed.
Print Assumptions C02_kmeans_terminates.

(* "valid" as the property says it = the count the code checks *)
Theorem C02_kmeans_valid_partition_count : forall part, valid_partition part ->
  N.of_nat (length (center_ids part)) = (1 + list_maxN part)%N.
Proof. exact valid_partition_count. Qed.
Print Assumptions C02_kmeans_valid_partition_count.

(* the premises are needed: outside them the faithful model panics *)
Theorem C02_kmeans_unsound_partition_refuted :
  exists part, ~ valid_partition part /\
    kmeans Fw (reds_tree Fw T_seq P_id) (Some ex_id) 2 ex_cfg ex_pts ex_ws part = Panic 2.
Proof. exact kmeans_unsound_partition_refuted. Qed.
Print Assumptions C02_kmeans_unsound_partition_refuted.

(* more points than ids (outside the contract): the raw write lands outside the
   array -- undefined behaviour of a safe function; harness/src/bin/km_replay.rs
   shows the stray write on the real code *)
Theorem C02_kmeans_more_points_than_ids_refuted :
  exists points part, valid_partition part /\ (length part < length points)%nat /\
    kmeans Fw (reds_tree Fw T_seq P_id) (Some ex_id) 2 ex_cfg points ex_ws part = Panic 10.
Proof. exact kmeans_more_points_than_ids_refuted. Qed.
Print Assumptions C02_kmeans_more_points_than_ids_refuted.

(* faithfulness of the model's coordinate-wise reductions: for every arithmetic
   and every split tree, when all vectors have D coordinates, the model's
   `.sum::<PointND<D>>()` is the tree of VECTOR additions rayon + nalgebra
   perform (fold from zero(), `[l, r].into_iter().sum()` at the nodes), and
   its BoundingBox::from_points is the fold_with / reduce_with on pairs of
   vectors (KMeansVec.tree_vsum_vec, KMeansVec.tree_bbox_vec: the literal forms) *)
Theorem C02_kmeans_vector_sum_faithful : forall A t D xs, Forall (fun v => length v = D) xs ->
  tree_vsum A t D xs = KMeansVec.tree_vsum_vec A t D xs.
Proof. exact KMeansVec.tree_vsum_is_vector_sum. Qed.
Print Assumptions C02_kmeans_vector_sum_faithful.

Theorem C02_kmeans_bbox_faithful : forall A t D xs, Forall (fun v => length v = D) xs ->
  tree_bbox A t D xs = KMeansVec.tree_bbox_vec A t D xs.
Proof. exact KMeansVec.tree_bbox_is_vector_fold. Qed.
Print Assumptions C02_kmeans_bbox_faithful.

(* the traced run the correspondence evaluates (assignments after every outer
   iteration, compared with implementation runs of smaller max_iter) ends with
   the result of the model proper *)
Theorem C02_kmeans_trace_final : forall A R rot D cfg points weights part,
  final_of_trace part (kmeans_trace A R rot D cfg points weights part) = kmeans A R rot D cfg points weights part.
Proof. exact KMeansTrace.kmeans_trace_final. Qed.
Print Assumptions C02_kmeans_trace_final.

(* the event-recording run the correspondence compares with the `coupe_verif`
   records of k_means.rs (assignments, bounds, influences of every assignment
   step) has the result of the model proper *)
Theorem C02_kmeans_events_final : forall A R rot D cfg points weights part,
  KMeansTrace.res_fst (kmeans_events A R rot D cfg points weights part) = kmeans A R rot D cfg points weights part.
Proof. exact KMeansTrace.kmeans_events_final. Qed.
Print Assumptions C02_kmeans_events_final.

(* the source still has the shape the model mirrors (26 fragments / operators) *)
Theorem C02_kmeans_source_shape : forallb (fun b => b) km_source_shape = true.
Proof. exact km_source_shape_ok. Qed.
Print Assumptions C02_kmeans_source_shape.

(* non-vacuity: the doc example of k_means.rs (rotation = identity, 4 outer
   iterations of 2 balance iterations), sequential schedule and a split schedule *)
Example C02_kmeans_nonvacuous :
  kmeans Fw (reds_tree Fw T_seq P_id) (Some ex_id) 2 ex_cfg ex_pts ex_ws [0;2;2;2;2;2;2;2;1]%N
    = Ok [0;0;0;2;2;2;1;1;1]%N
  /\ kmeans Fw (reds_tree Fw ex_tree P_id) (Some ex_id) 2 ex_cfg ex_pts ex_ws [0;2;2;2;2;2;2;2;1]%N
    = Ok [0;0;0;2;2;2;1;1;1]%N
  /\ kmeans Fw (reds_chk Fw sum_ok_f64 val_ok_f64 cmp_ok_f64 T_seq P_id) (Some ex_id) 2 ex_cfg ex_pts ex_ws [0;2;2;2;2;2;2;2;1]%N
    = Ok [0;0;0;2;2;2;1;1;1]%N.
Proof. exact kmeans_example. Qed.

(* ------------------------------------------------------------ non-vacuity *)
Example C02_nonvacuous :
  kmeans_abs (fun _ _ i => if Nat.eqb i 0 then Some 1%nat else None) 1 1 [0;1;1;0]%N = Ok [1;1;1;0]%N.
Proof. vm_compute. reflexivity. Qed.

(* runs of the combinatorial models inside their contracts *)
Example C02_nonvacuous_vn :
  Vn.vn_best false [4;7;1;8;3;3;9]%Z [0;0;0;1;1;2;0]%N = Ok ([0;0;0;1;1;2;2]%N, 1%N)
  /\ Vn.vn_first [9;1;8;0;0]%Z [0;0;2;3;1]%N = Ok ([0;3;2;3;1]%N, 1%N).
Proof. vm_compute. auto. Qed.

Definition ex_path4 : Graph.graph :=
  [[(1%nat, 1)]; [(0%nat, 1); (2%nat, 1)]; [(1%nat, 1); (3%nat, 1)]; [(2%nat, 1)]]%Z.
Example C02_nonvacuous_kl :
  Graph.wf_graphb ex_path4 4 = true /\ Kl.uniq [] [0;1;0;1]%N = [0;1]%N
  /\ C15.kl_impl true None None 1%N (Kl.kl_fuel true ex_path4 [0;1;0;1]%N) ex_path4 4 [0;1;0;1]%N = Ok [0;0;1;1]%N.
Proof. vm_compute. auto. Qed.

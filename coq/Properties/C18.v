(* C18 — the tools' dual graph matches its definition; element counts agree.
   Only the property theorems, each closed by [exact] of a lemma of
   Proofs/DualProofs.v, with [Print Assumptions] beneath.  The model
   (Model/Dual.v) is instantiated with the element tables and filter clauses
   the translator read from mesh-io and tools/src/lib.rs (Gen/MeshTables.v).

   Quantifier: every mesh [m] with [wf_mesh m = true], i.e. highest element
   dimension 2 or 3, every block a whole number of elements (asserted by
   Mesh::from_raw_parts), node ids below the node count, and pairwise-distinct
   nodes inside each element of the highest dimension.  Blocks in any order,
   any number of blocks per type, lower-dimensional and empty blocks allowed.
   [spec_elements dim topo] lists the node arrays of the elements of dimension
   [dim] in block order; element numbers are positions in that list;
   [shared a b] = number of nodes of [a] that are nodes of [b];
   [csr_row g e] = indices[indptr[e] .. indptr[e+1]]. *)
From Coupe Require Import Lib.Prelude Gen.MeshTables Model.Dual Proofs.DualProofs.
From Coq Require Import Sorting.Sorted Permutation.

(* the tables the proofs rest on, as read from the source now *)
Theorem C18_node_count_pos : forall t, 1 <= et_node_count t.
Proof. exact node_count_pos. Qed.
Theorem C18_edge_dimension : et_dimension Edge = 1.
Proof. exact edge_dimension. Qed.
Theorem C18_threshold_is_le : forall dim c, threshold dim c = (dim <=? c).
Proof. exact threshold_le. Qed.
(* the per-element neighbour pipeline as the source writes it now (candidates = all elements under
   all nodes of e1, nothing bounded -- recognised by the translator; then these steps) is one
   for which the theorems below hold: a filter happens, and a sort precedes the last dedup *)
Theorem C18_row_pipeline_ok : steps_ok dual_row_steps false false false = true.
Proof. exact pipeline_ok. Qed.
Print Assumptions C18_row_pipeline_ok.
Print Assumptions C18_node_count_pos.
Print Assumptions C18_edge_dimension.
Print Assumptions C18_threshold_is_le.

(* inside the contract `dual` returns a matrix: no panic at any of the eight sites (20-27) *)
Theorem C18_dual_total : forall m, wf_mesh m = true -> exists g, dual m = Ok g.
Proof. exact dual_total. Qed.
Print Assumptions C18_dual_total.

(* e2 is in the row of e1 exactly when they are distinct elements sharing at least dim nodes *)
Theorem C18_dual_spec : forall m dim g, wf_mesh m = true ->
  max_dimension (m_topology m) = Some dim -> dual m = Ok g ->
  let els := spec_elements dim (m_topology m) in
  forall e1 e2, e1 < length els ->
    (In e2 (csr_row g e1) <-> e2 < length els /\ e1 <> e2 /\ dim <= shared (nth e1 els []) (nth e2 els [])).
Proof. exact S_dual_spec. Qed.
Print Assumptions C18_dual_spec.

Theorem C18_dual_symmetric : forall m dim g, wf_mesh m = true ->
  max_dimension (m_topology m) = Some dim -> dual m = Ok g ->
  let els := spec_elements dim (m_topology m) in
  forall e1 e2, e1 < length els -> e2 < length els ->
    (In e2 (csr_row g e1) <-> In e1 (csr_row g e2)).
Proof. exact S_dual_symmetric. Qed.
Print Assumptions C18_dual_symmetric.

Theorem C18_dual_irreflexive : forall m dim g, wf_mesh m = true ->
  max_dimension (m_topology m) = Some dim -> dual m = Ok g ->
  forall e, e < length (spec_elements dim (m_topology m)) -> ~ In e (csr_row g e).
Proof. exact S_dual_irreflexive. Qed.
Print Assumptions C18_dual_irreflexive.

Theorem C18_dual_rows_sorted_nodup : forall m dim g, wf_mesh m = true ->
  max_dimension (m_topology m) = Some dim -> dual m = Ok g ->
  forall e, e < length (spec_elements dim (m_topology m)) ->
    StronglySorted lt (csr_row g e) /\ NoDup (csr_row g e).
Proof. exact S_dual_rows_sorted_nodup. Qed.
Print Assumptions C18_dual_rows_sorted_nodup.

(* one vertex per element of the highest dimension (edges never have it: 2-D/3-D) *)
Theorem C18_dual_vertex_count : forall m dim g, wf_mesh m = true ->
  max_dimension (m_topology m) = Some dim -> dual m = Ok g ->
  let els := spec_elements dim (m_topology m) in
  g_rows g = length els /\ g_cols g = length els /\ length (g_indptr g) = S (length els)
  /\ length els = fold_right Nat.add 0
       (map (fun b : block => if et_dimension (fst b) =? dim
                              then length (snd b) / et_node_count (fst b) else 0) (m_topology m)).
Proof. exact S_dual_vertex_count. Qed.
Print Assumptions C18_dual_vertex_count.

(* number of cell centres = number of graph vertices = used_element_count *)
Theorem C18_counts_agree : forall m g, wf_mesh m = true -> dual m = Ok g ->
  barycentre_count m = Ok (g_rows g) /\ used_element_count m = Ok (g_rows g).
Proof. exact counts_agree. Qed.
Print Assumptions C18_counts_agree.

(* the subtraction in the chunk lookup never underflows, for any element number at all;
   and every element number below the count is found *)
Theorem C18_element_to_nodes_no_underflow : forall dim topo cs, blocks_ok topo = true ->
  topology_chunks dim 0 topo = Ok cs -> forall e, element_to_nodes cs e <> Panic P_UNDERFLOW.
Proof. exact element_to_nodes_no_underflow. Qed.
Print Assumptions C18_element_to_nodes_no_underflow.
Theorem C18_element_to_nodes_total : forall dim topo cs, blocks_ok topo = true ->
  topology_chunks dim 0 topo = Ok cs ->
  forall e, e < length (kept_elements dual_drops_edges dim topo) ->
    element_to_nodes cs e = Ok (nth e (kept_elements dual_drops_edges dim topo) []).
Proof. exact element_to_nodes_total. Qed.
Print Assumptions C18_element_to_nodes_total.

(* all pool sizes / schedules: the row writes into `indice_locks` and the copies into
   `indices` may each be performed in any order *)
Theorem C18_dual_sched_indep : forall sched sched2 m,
  (forall ws, Permutation ws (sched ws)) -> (forall ts, Permutation ts (sched2 ts)) ->
  wf_mesh m = true -> dual_sched sched sched2 m = dual m.
Proof. exact dual_sched_indep. Qed.
Print Assumptions C18_dual_sched_indep.

(* the vectors handed to binary_search are strictly sorted (justifies [ins]) *)
Theorem C18_node_index_sorted : forall nc els n2e,
  node_to_elements nc els = Ok n2e -> Forall (StronglySorted lt) n2e.
Proof. exact n2e_rows_sorted. Qed.
Print Assumptions C18_node_index_sorted.

(* the checker used on the implementation's outputs decides the property *)
Theorem C18_checker_ok : forall m g nb nu,
  check_C18 m g nb nu = true <->
  exists dim, max_dimension (m_topology m) = Some dim
              /\ C18_holds dim (spec_elements dim (m_topology m)) g nb nu.
Proof. exact check_C18_ok. Qed.
Print Assumptions C18_checker_ok.
Theorem C18_model_passes_checker : forall m g nb nu, wf_mesh m = true ->
  dual m = Ok g -> barycentre_count m = Ok nb -> used_element_count m = Ok nu ->
  check_C18 m g nb nu = true.
Proof. exact model_passes_checker. Qed.
Print Assumptions C18_model_passes_checker.

(* conversely: inside the contract, outputs the checker accepts are exactly the model's outputs
   (the property determines the matrix), so for large meshes the run glue may take the checker's
   verdict as the correspondence instead of re-running the model *)
Theorem C18_checker_implies_model : forall m g nb nu, wf_mesh m = true -> check_C18 m g nb nu = true ->
  dual m = Ok g /\ barycentre_count m = Ok nb /\ used_element_count m = Ok nu.
Proof. exact checker_implies_model. Qed.
Print Assumptions C18_checker_implies_model.

(* non-vacuity: a mixed 3-D mesh (tetrahedra block, boundary triangles, a hexahedron block,
   edges, a second tetrahedra block) inside the contract; the hexahedron shares a face (3 nodes
   of the tetrahedron 0) and the last tetrahedron shares only an edge with tetrahedron 1 *)
Definition ex_mesh : mesh :=
  mkMesh 14 [ (Tetrahedron, [0;1;2;3; 1;2;3;4]); (Triangle, [0;1;2]);
              (Hexahedron, [0;1;2;8;9;10;11;12]); (Edge, [0;1; 1;2]);
              (Tetrahedron, [3;4;12;13]) ].
Example C18_nonvacuous :
  wf_mesh ex_mesh = true
  /\ dual ex_mesh = Ok (mkCsr 4 4 [0;2;3;4;4] [1;2;0;0] (repeat ONE_BITS 4))
  /\ barycentre_count ex_mesh = Ok 4 /\ used_element_count ex_mesh = Ok 4.
Proof. repeat split; vm_compute; reflexivity. Qed.

(* recorded, outside the quantifier: when the highest dimension is 1 each function counts the
   edges or not according to its own filter clause (read from the source: Gen/MeshTables.v).
   At the pinned source dual and barycentres drop them, used_element_count counts them, so
   the three numbers disagree (0, 0, 2 here); the statement follows the source, so repairing
   the code does not break it. *)
Example C18_dimension_1_counts_follow_the_clauses :
  let m := mkMesh 3 [ (Edge, [0;1; 1;2]); (Vertex, [0]) ] in
  max_dimension (m_topology m) = Some 1 /\ wf_mesh m = false
  /\ (exists g, dual m = Ok g /\ g_rows g = if dual_drops_edges then 0 else 2)
  /\ barycentre_count m = Ok (if barycentres_drops_edges then 0 else 2)
  /\ used_element_count m = Ok (if used_count_drops_edges then 0 else 2).
Proof.
  repeat split; try (vm_compute; reflexivity).
  eexists. split; vm_compute; reflexivity.
Qed.

(* the distinct-node hypothesis is needed for symmetry: with a repeated node inside an element
   the shared-node count is not symmetric, and neither is the matrix `dual` returns
   (triangle 0 = [0;0;1] has two of its nodes in triangle 1 = [0;2;3], which has one in it) *)
Example C18_repeated_node_breaks_symmetry :
  let m := mkMesh 4 [ (Triangle, [0;0;1; 0;2;3]) ] in
  wf_mesh m = false
  /\ exists g, dual m = Ok g /\ csr_row g 0 = [1] /\ csr_row g 1 = [].
Proof. split; [vm_compute; reflexivity|]. eexists. repeat split; vm_compute; reflexivity. Qed.

(* C18 — the tools' dual graph matches its definition; element counts agree.
   Only the property theorems, each closed by [exact] of a lemma of
   Proofs/DualProofs.v, with [Print Assumptions] beneath. *)
From Coupe Require Import Lib.Prelude Gen.MeshTables Model.Dual Proofs.DualProofs.

Theorem C18_node_count_pos : forall t, 1 <= et_node_count t.
Proof. exact node_count_pos. Qed.
Print Assumptions C18_node_count_pos.

(* C06 — deterministic partitioners give the same partition for every thread
   count.  What is PROVED here is schedule independence of the parallel
   skeletons the algorithms are built from, for EVERY split tree (Lib/Rayon.v),
   and the exactness of the all-equal checker applied to the implementation's
   outputs under pools 1..16.  Algorithm-level corollaries are added as the
   algorithm models land.  What real work stealing does is only sampled. *)
From Coupe Require Import Lib.Prelude Lib.Report Lib.Rayon Run.RunC06 Proofs.C06Proofs.
From Coq Require Import Permutation.

Theorem C06_checker : forall outs,
  all_same outs = true <-> (forall o1 o2, In o1 outs -> In o2 outs -> o1 = o2).
Proof. exact all_same_spec. Qed.
Print Assumptions C06_checker.

(* fold + reduce: any two schedules agree whenever the piece-wise fold is a homomorphism *)
Theorem C06_fold_reduce_sched_indep :
  forall (A B : Type) (fold : list A -> B) (reduce : B -> B -> B),
  (forall xs ys, fold (xs ++ ys) = reduce (fold xs) (fold ys)) ->
  forall t1 t2 xs, par_fold fold reduce t1 xs = par_fold fold reduce t2 xs.
Proof. exact @par_fold_sched_indep. Qed.
Print Assumptions C06_fold_reduce_sched_indep.

(* exact integer sums: weights, counts, loads *)
Theorem C06_sum_sched_indep : forall t xs, par_fold sumZ Z.add t xs = sumZ xs.
Proof. exact par_sumZ_indep. Qed.
Print Assumptions C06_sum_sched_indep.

(* per-part weight histograms (HilbertCurve's weighted_quantiles, compute_parts_load) *)
Theorem C06_histogram_sched_indep : forall (A : Type) (contrib : A -> list Z) t1 t2 xs,
  par_fold (mfold [] contrib vadd) vadd t1 xs = par_fold (mfold [] contrib vadd) vadd t2 xs.
Proof. exact @par_histogram_indep. Qed.
Print Assumptions C06_histogram_sched_indep.

(* minimum / bounding box of exactly comparable keys *)
Theorem C06_min_sched_indep : forall t1 t2 (xs : list Z),
  par_fold (mfold None Some omin) omin t1 xs = par_fold (mfold None Some omin) omin t2 xs.
Proof. exact par_min_indep. Qed.
Print Assumptions C06_min_sched_indep.

(* raw-pointer writes of part ids at pairwise distinct indices, in any order *)
Theorem C06_writes_sched_indep : forall (V : Type) (ws1 ws2 : list (nat * V)) a,
  Permutation ws1 ws2 -> NoDup (map fst ws1) -> apply_writes ws1 a = apply_writes ws2 a.
Proof. exact @writes_perm_indep. Qed.
Print Assumptions C06_writes_sched_indep.

Example C06_nonvacuous :
  par_fold sumZ Z.add (Node 2 (Node 1 Leaf Leaf) Leaf) [1;2;3;4;5]%Z
  = par_fold sumZ Z.add (Node 4 Leaf (Node 0 Leaf Leaf)) [1;2;3;4;5]%Z.
Proof. reflexivity. Qed.

(* "equal up to a renaming of parts" (MultiJagged): equal canonical forms mean
   the two outputs induce the same partition of the index set *)
Theorem C06_canon_same_kernel : forall p q, canon p = canon q ->
  length p = length q /\
  forall i j x y x' y', nth_opt p i = Some x -> nth_opt p j = Some y ->
                        nth_opt q i = Some x' -> nth_opt q j = Some y' ->
                        (x = y <-> x' = y').
Proof. exact canon_same_kernel. Qed.
Print Assumptions C06_canon_same_kernel.

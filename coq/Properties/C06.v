(* C06 — deterministic partitioners give the same partition for every thread
   count.

   What is PROVED here, for EVERY split tree / order of writes (the model of a
   rayon schedule, Lib/Rayon.v):
   (1) schedule independence of the parallel skeletons the algorithms are built
       from, and the exactness of the all-equal checker applied to the
       implementation's outputs under pools 1..16 (first half of the file);
   (2) the algorithm-level statements that the per-algorithm developments
       contain or that follow from them with a few lines of glue
       (Proofs/C06Collect.v): the tools' dual graph (C18), compute_parts_load /
       imbalance / sums (C16), MultiJagged up to a renaming of parts (C11),
       Rcb's split fold (the lemma behind C04), ZCurve for every sort oracle
       and HilbertCurve for every split vector (C09).
   Whole-algorithm statements [forall s1 s2, alg s1 x = alg s2 x] are proved
   for the dual graph, the load / imbalance functions, Rcb and Rib (given the
   rotated points), HilbertCurve (given the curve indices, exact integer sums,
   one named float assumption), MultiJagged at exact arithmetic (up to
   renaming) and KMeans (binary64, given the rotation matrix, under the exactness
   flag of the checked run).  NOT proved: ZCurve beyond "every sort oracle gives runs of the
   same codes", MultiJagged in binary64 beyond the leaf order, and the
   OBB step (rotation / curve indices / quadrants) of Rib, HilbertCurve,
   ZCurve; the theorems named [..._partial] say which part they cover.  What real work stealing does is only
   sampled by the check. *)
From Coupe Require Import Lib.Prelude Lib.SFloat Lib.Report Lib.Rayon Run.RunC06 Proofs.C06Proofs.
From Coupe Require Proofs.C06Collect.
From Coupe Require Properties.C11 Properties.C03 Properties.C09.
From Coupe Require Model.SfcSched Proofs.SfcSchedProofs.
From Coupe Require Model.Dual Model.Metrics Model.MultiJagged Proofs.MultiJaggedProofs
  Model.Rcb Proofs.SFOrder Proofs.RcbBalance Model.SfcPart Proofs.SfcProofs Proofs.ZCurveProofs Proofs.ZCheckProofs.
From Coupe Require Model.KMeans Proofs.KMeansSched Proofs.KMeansOrder Proofs.KMeansF64Sum Proofs.KMeansCollect.
From Coq Require Import Permutation QArith.QArith Sorting.Sorted Floats.SpecFloat.
Import C06Collect.
Close Scope Q_scope.

Theorem C06_checker : forall outs,
  all_same outs = true <-> (forall o1 o2, In o1 outs -> In o2 outs -> o1 = o2).
Proof. exact all_same_spec. Qed.
Print Assumptions C06_checker.

(* fold + reduce: any two schedules agree whenever the piece-wise fold is a homomorphism *)
Theorem C06_fold_reduce_sched_indep :
  forall (A B : Type) (fold : list A -> B) (reduce : B -> B -> B),
  (forall xs ys, fold (xs ++ ys) = reduce (fold xs) (fold ys)) ->
  forall t1 t2 xs, par_fold fold reduce t1 xs = par_fold fold reduce t2 xs.
Proof. exact @par_fold_sched_indep. Qed.
Print Assumptions C06_fold_reduce_sched_indep.

(* exact integer sums: weights, counts, loads *)
Theorem C06_sum_sched_indep : forall t xs, par_fold sumZ Z.add t xs = sumZ xs.
Proof. exact par_sumZ_indep. Qed.
Print Assumptions C06_sum_sched_indep.

(* per-part weight histograms (HilbertCurve's weighted_quantiles, compute_parts_load) *)
Theorem C06_histogram_sched_indep : forall (A : Type) (contrib : A -> list Z) t1 t2 xs,
  par_fold (mfold [] contrib vadd) vadd t1 xs = par_fold (mfold [] contrib vadd) vadd t2 xs.
Proof. exact @par_histogram_indep. Qed.
Print Assumptions C06_histogram_sched_indep.

(* minimum / bounding box of exactly comparable keys *)
Theorem C06_min_sched_indep : forall t1 t2 (xs : list Z),
  par_fold (mfold None Some omin) omin t1 xs = par_fold (mfold None Some omin) omin t2 xs.
Proof. exact par_min_indep. Qed.
Print Assumptions C06_min_sched_indep.

(* raw-pointer writes of part ids at pairwise distinct indices, in any order *)
Theorem C06_writes_sched_indep : forall (V : Type) (ws1 ws2 : list (nat * V)) a,
  Permutation ws1 ws2 -> NoDup (map fst ws1) -> apply_writes ws1 a = apply_writes ws2 a.
Proof. exact @writes_perm_indep. Qed.
Print Assumptions C06_writes_sched_indep.

Example C06_nonvacuous :
  par_fold sumZ Z.add (Node 2 (Node 1 Leaf Leaf) Leaf) [1;2;3;4;5]%Z
  = par_fold sumZ Z.add (Node 4 Leaf (Node 0 Leaf Leaf)) [1;2;3;4;5]%Z.
Proof. reflexivity. Qed.

(* "equal up to a renaming of parts" (MultiJagged): equal canonical forms mean
   the two outputs induce the same partition of the index set *)
Theorem C06_canon_same_kernel : forall p q, canon p = canon q ->
  length p = length q /\
  forall i j x y x' y', nth_opt p i = Some x -> nth_opt p j = Some y ->
                        nth_opt q i = Some x' -> nth_opt q j = Some y' ->
                        (x = y <-> x' = y').
Proof. exact canon_same_kernel. Qed.
Print Assumptions C06_canon_same_kernel.

(* ===================== algorithm-level statements (collected) ===================== *)

(* ---- the tools' dual graph (C18): the row writes into `indice_locks` and the
   copies into `indices` may each be performed in ANY order: the CSR matrix is
   the same for any two schedules, on every well-formed mesh *)
Theorem C06_dual_sched_indep : forall s1 t1 s2 t2 m,
  (forall ws, Permutation ws (s1 ws)) -> (forall ts, Permutation ts (t1 ts)) ->
  (forall ws, Permutation ws (s2 ws)) -> (forall ts, Permutation ts (t2 ts)) ->
  Dual.wf_mesh m = true -> Dual.dual_sched s1 t1 m = Dual.dual_sched s2 t2 m.
Proof. exact DualC.dual_two_schedules. Qed.
Print Assumptions C06_dual_sched_indep.

(* ---- compute_parts_load, imbalance, max_imbalance, sum() (C16; used by the
   improving algorithms and the metrics): same value for any two split trees
   of rayon's fold / reduce_with (integer weights) *)
Theorem C06_parts_load_sched_indep : forall t1 t2 k p ws, (0 < k)%nat ->
  Metrics.compute_parts_load t1 k p ws = Metrics.compute_parts_load t2 k p ws.
Proof. exact MetricsC.parts_load_two_trees. Qed.
Print Assumptions C06_parts_load_sched_indep.

Theorem C06_imbalance_sched_indep : forall t1 t2 k p ws,
  (0 < k)%nat -> Forall (fun q => (q < k)%nat) p -> length p = length ws ->
  Metrics.imbalance t1 k p ws = Metrics.imbalance t2 k p ws
  /\ Metrics.max_imbalance t1 k p ws = Metrics.max_imbalance t2 k p ws.
Proof. exact MetricsC.imbalance_two_trees. Qed.
Print Assumptions C06_imbalance_sched_indep.

Theorem C06_par_sum_sched_indep : forall t1 t2 xs, Metrics.par_sum t1 xs = Metrics.par_sum t2 xs.
Proof. exact MetricsC.par_sum_two_trees. Qed.
Print Assumptions C06_par_sum_sched_indep.

(* ---- MultiJagged (C11), "up to a renaming of parts".
   The schedule-dependent DATA of the model are the order in which the leaves
   draw their number from the atomic counter ([ord]) and the block
   decomposition of rayon's scan in each call of compute_split_positions
   ([blk]).  The sort oracle is NOT a schedule (rayon's unstable sort is a
   deterministic function of the slice) but an unspecified choice; it is
   treated separately below.

   WHOLE ALGORITHM at exact arithmetic (the model [QA]: what the code computes
   "when all arithmetic is exact", the hypothesis of the property read
   literally), non-negative weights: any two block decompositions and any two
   leaf orders give the same partition of the elements up to the names of the
   parts.  Not covered: binary64 on integer-valued inputs, where the
   thresholds `total * parts_i / parts` and their accumulation round -- for
   binary64 only the leaf-order statement below is proved. *)
Theorem C06_multijagged_sched_indep_exact :
  forall D npts (wq : list Q) sorter cxlt root blk1 blk2 ord1 ord2 (k : N) (m : nat) p0 p1 p2,
  MultiJaggedProofs.root_ok root -> MultiJaggedProofs.sorter_ok sorter cxlt ->
  MultiJaggedProofs.ord_ok ord1 (N.to_nat k) -> MultiJaggedProofs.ord_ok ord2 (N.to_nat k) ->
  (1 <= k)%N -> (k < 2 ^ 60)%N -> (1 <= m)%nat ->
  Forall (Qle 0) wq -> length p0 = npts ->
  MultiJagged.multi_jagged MultiJagged.QA D npts wq sorter blk1 root ord1 k m p0 = Ok p1 ->
  MultiJagged.multi_jagged MultiJagged.QA D npts wq sorter blk2 root ord2 k m p0 = Ok p2 ->
  length p1 = npts /\ length p2 = npts /\
  forall x y, (x < npts)%nat -> (y < npts)%nat ->
    (nth_opt p1 x = nth_opt p1 y <-> nth_opt p2 x = nth_opt p2 y).
Proof. exact C11.C11_sched_indep_exact. Qed.
Print Assumptions C06_multijagged_sched_indep_exact.

(* ... and with the same leaf order the block decompositions change nothing at
   all: the very same array (exact arithmetic, whole algorithm) *)
Theorem C06_multijagged_blocks_irrelevant_exact :
  forall D npts (wq : list Q) sorter blk1 blk2, Forall (Qle 0) wq ->
  forall root ord k m p0, MultiJaggedProofs.root_ok root -> (1 <= k)%N -> (k < 2 ^ 60)%N -> (1 <= m)%nat ->
  MultiJagged.multi_jagged MultiJagged.QA D npts wq sorter blk1 root ord k m p0
  = MultiJagged.multi_jagged MultiJagged.QA D npts wq sorter blk2 root ord k m p0.
Proof. exact C11.C11_blocks_irrelevant_whole. Qed.
Print Assumptions C06_multijagged_blocks_irrelevant_exact.

(* PARTIAL (binary64 and every other arithmetic): any two leaf orders give the
   same partition of the index set (same kernel).  What is missing for
   binary64: independence of the block decomposition (a different association
   of the block sums can round differently). *)
Theorem C06_multijagged_leaf_order_partial :
  forall (A : MultiJagged.arith) D npts (wts : list (MultiJagged.num A)) sorter blk cxlt,
  MultiJaggedProofs.sorter_ok sorter cxlt ->
  forall sch parts d ord1 ord2 p0 p1 p2,
  MultiJaggedProofs.WfScheme A sch parts d ->
  MultiJaggedProofs.ord_ok ord1 (N.to_nat parts) -> MultiJaggedProofs.ord_ok ord2 (N.to_nat parts) ->
  length p0 = npts ->
  MultiJagged.mj_with_scheme A D npts wts sorter blk ord1 sch p0 = Ok p1 ->
  MultiJagged.mj_with_scheme A D npts wts sorter blk ord2 sch p0 = Ok p2 ->
  forall x y, (x < npts)%nat -> (y < npts)%nat ->
    (nth_opt p1 x = nth_opt p1 y <-> nth_opt p2 x = nth_opt p2 y).
Proof. exact C11.C11_leaf_order_irrelevant. Qed.
Print Assumptions C06_multijagged_leaf_order_partial.

(* the sort oracle (order of elements with EQUAL coordinates along an axis):
   for every arithmetic, when no two points share a coordinate along an axis
   any two admissible oracles give the same result; with ties the partition
   itself can change (C11.C11_sort_ties_can_change_the_partition: three
   coincident points, weights 1 2 1, two parts: {0}|{1,2} or {2}|{1,0}) -- so
   "same partition for every run" for MultiJagged on inputs with coincident
   coordinates rests on rayon's sort being a function of the slice (trusted
   base), not on a theorem *)
Theorem C06_multijagged_sort_oracle_without_ties :
  forall (A : MultiJagged.arith) D npts (wts : list (MultiJagged.num A)) blk (key : nat -> nat -> Z) sorter1 sorter2,
  MultiJaggedProofs.sorter_ok sorter1 (MultiJaggedProofs.key_lt key) ->
  MultiJaggedProofs.sorter_ok sorter2 (MultiJaggedProofs.key_lt key) ->
  (forall a x y, (x < npts)%nat -> (y < npts)%nat -> key a x = key a y -> x = y) ->
  forall root ord k m p0,
  MultiJagged.multi_jagged A D npts wts sorter1 blk root ord k m p0
  = MultiJagged.multi_jagged A D npts wts sorter2 blk root ord k m p0.
Proof. exact C11.C11_sort_oracle_irrelevant_without_ties. Qed.
Print Assumptions C06_multijagged_sort_oracle_without_ties.

(* ---- Rcb / Rib: the fold + reduce of par_rcb_split (the lemma behind C04).
   INGREDIENT, kept for what it says about ONE fold (the whole-algorithm
   statement is C06_rcb_sched_indep below).  For ANY two split trees of the same fold over the same slice
   (coordinates not NaN), the two results (count, weight_left, pivot index,
   pivot coordinate) agree on: the weight left of the target (both are the
   exact sum [Wl]); whether a point lies on the right at all; the pivot
   COORDINATE up to "neither is below the other" (both are minimal among the
   points on the right: equal numbers; the INDEX may differ between trees when
   several points share that coordinate); hence the set that reorder_split
   puts on the low side ([filter (< pivot coordinate)]) is the same.
   Named _partial because by itself it is a statement about one fold only: the
   two runs may hold the same sets in different ORDERS after the in-place
   reordering; that the later folds are invariant under that reordering is what
   C03's rcb_rec_perm adds to obtain C06_rcb_sched_indep.  Weights are modelled
   as exact integers. *)
Theorem C06_rcb_fold_sched_indep_partial : forall t s1 s2 (xs : list (Rcb.keyed spec_float)),
  SFOrder.f32v t = true -> Forall (fun x : Rcb.keyed spec_float => SFOrder.f32v (fst x) = true) xs ->
  let '(_, w1, n1, d1) := Rcb.par_fold spec_float flt f32_sub Rcb.f32_zero Rcb.f32_inf true t s1 0%nat xs in
  let '(_, w2, n2, d2) := Rcb.par_fold spec_float flt f32_sub Rcb.f32_zero Rcb.f32_inf true t s2 0%nat xs in
  w1 = RcbBalance.Wl spec_float flt t xs /\ w2 = RcbBalance.Wl spec_float flt t xs
  /\ (n1 = None <-> n2 = None)
  /\ flt d1 d2 = false /\ flt d2 d1 = false
  /\ filter (fun y : Rcb.keyed spec_float => flt (fst y) d1) xs
     = filter (fun y : Rcb.keyed spec_float => flt (fst y) d2) xs
  /\ (forall i, n1 = Some i -> exists e, nth_opt xs i = Some e /\ fst e = d1 /\ flt d1 t = false
                               /\ forall y, In y xs -> flt (fst y) t = false -> flt (fst y) d1 = false)
  /\ (forall i, n2 = Some i -> exists e, nth_opt xs i = Some e /\ fst e = d2 /\ flt d2 t = false
                               /\ forall y, In y xs -> flt (fst y) t = false -> flt (fst y) d2 = false).
Proof. exact RcbF.fold_two_schedules32. Qed.
Print Assumptions C06_rcb_fold_sched_indep_partial.

(* the same for any coordinate type with a strict weak order on its valid values *)
Theorem C06_rcb_fold_generic_partial :
  forall (C : Type) (ltb : C -> C -> bool) (dist : C -> C -> C) (zero inf : C) (valid : C -> bool),
  (forall x, valid x = true -> ltb x x = false) ->
  (forall x y z, valid x = true -> valid y = true -> valid z = true -> ltb x y = true -> ltb x z = true \/ ltb z y = true) ->
  (forall x y z, valid x = true -> valid y = true -> valid z = true -> ltb x y = true -> ltb y z = true -> ltb x z = true) ->
  valid inf = true ->
  forall t s1 s2 (xs : list (Rcb.keyed C)),
  valid t = true -> Forall (fun x : Rcb.keyed C => valid (fst x) = true) xs ->
  RcbF.fold_agree C ltb t xs (Rcb.par_fold C ltb dist zero inf true t s1 0%nat xs)
                             (Rcb.par_fold C ltb dist zero inf true t s2 0%nat xs).
Proof. exact RcbF.fold_two_schedules. Qed.
Print Assumptions C06_rcb_fold_generic_partial.

(* ---- Rcb / Rib, WHOLE ALGORITHM: for every two schedules (one split tree per
   fold, per node and per loop iteration) the model of Rcb at the current
   source variant returns the SAME result -- the same id for every point, or
   the same error -- for exact (integer) weights and coordinates whose f32
   images are not NaN.  Rib is the same function on the rotated points.
   (Properties.C03.C03_rcb_sched_indep; proof by invariance of the recursion
   under permutation of the item list, Proofs/RcbSched.v.) *)
Theorem C06_rcb_sched_indep : forall fuel s1 s2 D k tol pts ws p0,
  Coupe.Proofs.RcbInst.coords_ok pts ->
  Coupe.Properties.C03.rcb_impl fuel s1 D k tol pts ws p0
  = Coupe.Properties.C03.rcb_impl fuel s2 D k tol pts ws p0.
Proof. exact Coupe.Properties.C03.C03_rcb_sched_indep. Qed.
Print Assumptions C06_rcb_sched_indep.

(* ---- ZCurve (C09).  PARTIAL.  The model's only unspecified choice is the
   tie order of par_sort_unstable_by_key (a sort oracle); the id writes go to
   pairwise distinct indices (C06_writes_sched_indep).  For ANY two sort
   oracles both runs return and both outputs are consecutive runs, of the
   prescribed sizes, of the points sorted by the SAME cell codes.
   What is missing: equality of the two outputs -- points with EQUAL cell codes
   that straddle a chunk boundary may be attributed differently; that rayon's
   sort takes no timing-dependent decision on ties is an assumption of the
   trusted base, not a theorem.  The quadrant function is data (its own
   dependence on the pool size through the inexact OBB sums is the open known
   finding obb-inexact-sums). *)
Theorem C06_zcurve_every_sort_oracle_partial : forall nq maxo q s1 s2 order k n p0,
  (1 <= nq)%nat -> ZCurveProofs.sort_contract s1 -> ZCurveProofs.sort_contract s2 ->
  (forall path x, (q path x < N.of_nat nq)%N) ->
  length p0 = n -> (order <= maxo)%nat -> (1 <= k)%nat ->
  exists p1 p2, SfcPart.zcurve true nq maxo q s1 order k n p0 = Ok p1
             /\ SfcPart.zcurve true nq maxo q s2 order k n p0 = Ok p2
             /\ ZCheckProofs.zcurve_property (map (SfcPart.zcode q order []) (seq 0 n)) p1 k
             /\ ZCheckProofs.zcurve_property (map (SfcPart.zcode q order []) (seq 0 n)) p2 k.
Proof. exact ZC.zcurve_two_sorters. Qed.
Print Assumptions C06_zcurve_every_sort_oracle_partial.

(* ---- HilbertCurve (C09).  PARTIAL.  The schedule enters HilbertCurve only
   through the f64 sums of the per-part weight histogram inside
   weighted_quantiles (exact integer sums: C06_histogram_sched_indep above), i.e.
   through the split vector.  For EVERY split vector -- whatever a schedule made
   of those sums -- the ids are the library binary search of the curve indices:
   total, monotone along the curve, equal indices get equal ids.
   That the split vector itself is the same for every schedule is
   C06_hilbert_sched_indep below (exact integer sums); for weights whose sums
   round nothing is proved.  The curve indices are data. *)
Theorem C06_hilbert_every_split_vector_partial : forall (splits idx : list N),
  exists ids, SfcPart.assign_parts splits idx = Ok ids
    /\ length ids = length idx
    /\ SfcProofs.mono_pairs (combine idx ids)
    /\ Forall (fun p => (p <= N.of_nat (length splits))%N) ids.
Proof. exact HilC.hilbert_assign_any_splits. Qed.
Print Assumptions C06_hilbert_every_split_vector_partial.

(* ---- HilbertCurve, WHOLE ALGORITHM given the per-point curve indices (C09).
   [SfcSched.hilbert_partition_s ts] takes one rayon split tree per round of
   the quantile search for the only schedule-dependent construct, the
   fold/reduce of the per-part weight histogram.  For integer-valued
   non-negative weights with total <= 2^53 ([exact_sums]) any two families of
   trees give the same result (ids, error or fuel exhaustion alike) -- and it
   is the sequential model C09 compares with the code
   (C09.C09_hilbert_sched_is_sequential).
   Premise [f64_add_exact_on_integers]: f64 `+` is exact on non-negative
   integers with sum <= 2^53 -- DESIGN §6's named assumption, NOT proved from
   SpecFloat here (instances: C09.C09_f64_add_exact_instances); it is listed
   in the trusted base of this check.  The curve indices (the encoders and the
   rotation that precedes them) are data: their own dependence on the pool
   size is the open known finding obb-inexact-sums. *)
Theorem C06_hilbert_sched_indep : SfcSchedProofs.f64_add_exact_on_integers ->
  forall ws, SfcSched.exact_sums ws ->
  forall ts1 ts2 tol maxo order fuel idx k p0,
  SfcSched.hilbert_partition_s ts1 tol maxo order fuel idx ws k p0
  = SfcSched.hilbert_partition_s ts2 tol maxo order fuel idx ws k p0.
Proof. exact C09.C09_hilbert_sched_indep. Qed.
Print Assumptions C06_hilbert_sched_indep.

(* the same WITHOUT the float-addition premise: C09 now proves it from SpecFloat
   through Flocq (f64 `+` is exact on integers within 2^53: classical-reals
   axioms).  The statement with the premise above is kept (axiom-free). *)
Theorem C06_hilbert_sched_indep_proved : forall ws, SfcSched.exact_sums ws ->
  forall ts1 ts2 tol maxo order fuel idx k p0,
  SfcSched.hilbert_partition_s ts1 tol maxo order fuel idx ws k p0
  = SfcSched.hilbert_partition_s ts2 tol maxo order fuel idx ws k p0.
Proof. exact Coupe.Properties.C09.C09_hilbert_sched_indep_proved. Qed.
Print Assumptions C06_hilbert_sched_indep_proved.


(* ----------------------------------------------------------------- KMeans *)

(* WHOLE KMeans::partition (concrete model Model/KMeans.v: every rayon sum /
   min_by / max_by / fold_with+reduce_with of k_means.rs and of the geometry.rs
   helpers goes over the split tree `T key` of its call site, outer iteration,
   balance iteration and cluster), binary64 with the literals of the source.
   `reds_chk` is the same run with a flag (`Panic 99`) raised as soon as a
   reduction is applied to values outside the exactness premises:
     sums        -- integers whose absolute values add up to at most 2^53
                    (KMeans.sum_ok_f64; per coordinate for points);
     comparisons -- max_by / min_by: no NaN and not both 0.0 and -0.0 in the list
                    (KMeans.cmp_ok_f64); bounding box: neither NaN nor -0.0
                    (KMeans.val_ok_f64).
   Theorem: if the checked run under SOME family of trees raises no flag, then
   ANY TWO families of split trees give the same result (same partition, or the
   same panic).  The flag is evaluated on every correspondence case (class 2 of
   the k-means cases = no flag).  Same rotation matrix on both sides (it is an
   input of the model: the open finding `obb-inexact-sums` is about it); the
   HashMap order of `erode` is the same on both sides.  Classical-reals axioms
   (Flocq: f64 `+` is exact on integers below 2^53). *)
Theorem C06_kmeans_sched_indep : forall lg ex T0 T1 T2 P rot D cfg points weights part,
  KMeans.kmeans (KMeansCollect.F64g lg ex)
    (KMeans.reds_chk (KMeansCollect.F64g lg ex) KMeans.sum_ok_f64 KMeans.val_ok_f64 KMeans.cmp_ok_f64 T0 P) rot D cfg points weights part
    <> Panic 99 ->
  KMeans.kmeans (KMeansCollect.F64g lg ex) (KMeans.reds_tree (KMeansCollect.F64g lg ex) T1 P) rot D cfg points weights part =
  KMeans.kmeans (KMeansCollect.F64g lg ex) (KMeans.reds_tree (KMeansCollect.F64g lg ex) T2 P) rot D cfg points weights part.
Proof. exact KMeansCollect.kmeans_c06_f64. Qed.
Print Assumptions C06_kmeans_sched_indep.

(* integer-valued inputs with bounded totals -- a STATIC premise: the weights
   are integers whose absolute values add up to at most 2^53, every point has
   D coordinates and so does every coordinate column (`vsum_ok`); erode off.
   Then no sum of the run can be inexact (they are all sums of sub-families of
   the input), and only the comparisons need the dynamic flag: the checked run
   here checks max_by / min_by / the box only (sum check = `true`). *)
Theorem C06_kmeans_sched_indep_int_inputs : forall lg ex T0 T1 T2 P rot D cfg points weights part,
  KMeans.s_erode cfg = false ->
  KMeans.sum_ok_f64 weights = true ->
  KMeans.vsum_ok (KMeansCollect.F64g lg ex) KMeans.sum_ok_f64 D points = true ->
  KMeans.kmeans (KMeansCollect.F64g lg ex)
    (KMeans.reds_chk (KMeansCollect.F64g lg ex) (fun _ => true) KMeans.val_ok_f64 KMeans.cmp_ok_f64 T0 P)
    rot D cfg points weights part <> Panic 99 ->
  KMeans.kmeans (KMeansCollect.F64g lg ex) (KMeans.reds_tree (KMeansCollect.F64g lg ex) T1 P) rot D cfg points weights part =
  KMeans.kmeans (KMeansCollect.F64g lg ex) (KMeans.reds_tree (KMeansCollect.F64g lg ex) T2 P) rot D cfg points weights part.
Proof. exact KMeansCollect.kmeans_c06_f64_int_inputs. Qed.
Print Assumptions C06_kmeans_sched_indep_int_inputs.

(* the form used by the run: the value of a checked run without flag IS the
   value of every schedule *)
Theorem C06_kmeans_checked_run : forall lg ex T1 T2 P rot D cfg points weights part r,
  KMeans.kmeans (KMeansCollect.F64g lg ex)
    (KMeans.reds_chk (KMeansCollect.F64g lg ex) KMeans.sum_ok_f64 KMeans.val_ok_f64 KMeans.cmp_ok_f64 T1 P) rot D cfg points weights part = r ->
  r <> Panic 99 ->
  KMeans.kmeans (KMeansCollect.F64g lg ex) (KMeans.reds_tree (KMeansCollect.F64g lg ex) T2 P) rot D cfg points weights part = r.
Proof. exact KMeansCollect.kmeans_c06_f64_chk. Qed.
Print Assumptions C06_kmeans_checked_run.

(* every arithmetic: the same statement from five premises on the arithmetic
   (sums of accepted lists and max / min / box of accepted values do not depend
   on the tree); axiom-free *)
Theorem C06_kmeans_sched_indep_any_arithmetic : forall A sum_ok val_ok cmp_ok,
  KMeansSched.sums_exact A sum_ok -> KMeansSched.vsums_exact A sum_ok ->
  KMeansSched.max_decided A cmp_ok -> KMeansSched.min_decided A cmp_ok -> KMeansSched.bbox_decided A val_ok ->
  forall T0 T1 T2 P rot D cfg points weights part,
  KMeans.kmeans A (KMeans.reds_chk A sum_ok val_ok cmp_ok T0 P) rot D cfg points weights part <> Panic 99 ->
  KMeans.kmeans A (KMeans.reds_tree A T1 P) rot D cfg points weights part =
  KMeans.kmeans A (KMeans.reds_tree A T2 P) rot D cfg points weights part.
Proof. exact KMeansSched.kmeans_sched_indep. Qed.
Print Assumptions C06_kmeans_sched_indep_any_arithmetic.

(* the binary64 instances of the premises *)
Theorem C06_kmeans_f64_sums_exact : forall lg ex,
  KMeansSched.sums_exact (KMeansCollect.F64g lg ex) KMeans.sum_ok_f64 /\
  KMeansSched.vsums_exact (KMeansCollect.F64g lg ex) KMeans.sum_ok_f64.
Proof. exact (fun lg ex => conj (KMeansF64Sum.sums_exact_f64 lg ex _ _ _ _) (KMeansF64Sum.vsums_exact_f64 lg ex _ _ _ _)). Qed.
Print Assumptions C06_kmeans_f64_sums_exact.

Theorem C06_kmeans_f64_comparisons_decided : forall lg ex,
  KMeansSched.max_decided (KMeansCollect.F64g lg ex) KMeans.cmp_ok_f64 /\
  KMeansSched.min_decided (KMeansCollect.F64g lg ex) KMeans.cmp_ok_f64.
Proof. exact (fun lg ex => conj (KMeansOrder.max_decided_f64 lg ex _ _ _ _) (KMeansOrder.min_decided_f64 lg ex _ _ _ _)). Qed.
Print Assumptions C06_kmeans_f64_comparisons_decided.

(* non-vacuity: the doc example of k_means.rs raises no flag; a split schedule
   and the sequential one give the partition the documentation promises *)
Example C06_kmeans_nonvacuous :
  KMeans.kmeans KMeansCollect.Fw (KMeans.reds_tree KMeansCollect.Fw KMeans.T_seq KMeans.P_id) (Some KMeansCollect.ex_id) 2
      KMeansCollect.ex_cfg KMeansCollect.ex_pts KMeansCollect.ex_ws [0;2;2;2;2;2;2;2;1]%N
    = Ok [0;0;0;2;2;2;1;1;1]%N
  /\ KMeans.kmeans KMeansCollect.Fw (KMeans.reds_tree KMeansCollect.Fw KMeansCollect.ex_tree KMeans.P_id) (Some KMeansCollect.ex_id) 2
      KMeansCollect.ex_cfg KMeansCollect.ex_pts KMeansCollect.ex_ws [0;2;2;2;2;2;2;2;1]%N
    = Ok [0;0;0;2;2;2;1;1;1]%N
  /\ KMeans.kmeans KMeansCollect.Fw (KMeans.reds_chk KMeansCollect.Fw KMeans.sum_ok_f64 KMeans.val_ok_f64 KMeans.cmp_ok_f64 KMeans.T_seq KMeans.P_id)
      (Some KMeansCollect.ex_id) 2 KMeansCollect.ex_cfg KMeansCollect.ex_pts KMeansCollect.ex_ws [0;2;2;2;2;2;2;2;1]%N
    = Ok [0;0;0;2;2;2;1;1;1]%N.
Proof. exact KMeansCollect.kmeans_example. Qed.

(* non-vacuity of the collected statements: two different split trees of the
   Rcb fold on a slice with a tie on the right (two points at coordinate 2):
   different pivot INDEX, same weight, same pivot coordinate *)
Definition ex_keyed : list (Rcb.keyed spec_float) :=
  map (fun '(i, c) => (f64_to_f32 (f64_of_Z c), Rcb.mkitem i [f64_to_f32 (f64_of_Z c)] 1%Z))
      [(0%N, 0%Z); (1%N, 2%Z); (2%N, 1%Z); (3%N, 2%Z)].
Example C06_nonvacuous_rcb_fold :
  let t := f64_to_f32 (f64_of_Z 2) in
  let f s := Rcb.par_fold spec_float flt f32_sub Rcb.f32_zero Rcb.f32_inf true t s 0%nat ex_keyed in
  let a1 := f Rcb.SLeaf in
  let a2 := f (Rcb.SNode 2 Rcb.SLeaf Rcb.SLeaf) in
  snd (fst a1) = Some 1%nat /\ snd (fst a2) = Some 3%nat
  /\ snd (fst (fst a1)) = 2%Z /\ snd (fst (fst a2)) = 2%Z /\ snd a1 = snd a2.
Proof. vm_compute. repeat split; reflexivity. Qed.

Example C06_nonvacuous_parts_load :
  Metrics.compute_parts_load (Metrics.Node 2 Metrics.Leaf (Metrics.Node 1 Metrics.Leaf Metrics.Leaf)) 3
     [2; 0; 2; 1; 0]%nat [5; 6; 7; 8; 9]%Z
  = Metrics.compute_parts_load Metrics.Leaf 3 [2; 0; 2; 1; 0]%nat [5; 6; 7; 8; 9]%Z.
Proof. vm_compute. reflexivity. Qed.

(* C10 — Grid::rcb yields balanced boxes and terminates for any thread count. *)
From Coupe Require Import Lib.Prelude Lib.SFloat Model.GridRcb Gen.GridRcbGen Run.RunC10.
Open Scope Z_scope.

Theorem C10_tolerance_literal : gridrcb_tolerance_bits = 4576918229304087675%N.
Proof. exact eq_refl. Qed.

(* C10 — Grid::rcb yields balanced boxes and terminates for any thread count.
   This file contains only the property theorems, each closed by [exact] of a
   lemma of Proofs/GridRcb*.v, with [Print Assumptions] beneath.  The model is
   instantiated with the literals the translator read from rcb.rs / mod.rs
   (Gen/GridRcbGen.v): TOLERANCE, the least chunk count, the least chunk size,
   the starting axes. *)
From Coupe Require Import Lib.Prelude Lib.SFloat Model.GridRcb Gen.GridRcbGen Run.RunC10
  Proofs.GridRcbMedian Proofs.GridRcbTree Proofs.GridRcbChecker Proofs.GridRcbWitness Proofs.GridRcbFloat Proofs.GridRcbBoxes Proofs.GridRcbComplete
  Proofs.GridRcbMain.
Open Scope Z_scope.

(* the implementation: the model at the constants of the current source (Run.RunC10.cfg_impl) *)
Definition median_impl := weighted_median cfg_impl.
Definition gridrcb_impl := grid_rcb cfg_impl.
Definition tol := tol_bits cfg_impl.

(* the literals the proofs rest on: TOLERANCE = 0.01; at least TWO chunks
   whatever the pool size; chunks of at least one element; recursion and id
   lookup start on the same axis *)
Theorem C10_tolerance_literal : tol = 4576918229304087675%N.
Proof. exact eq_refl. Qed.
Theorem C10_literals : cfg_ok cfg_impl.
Proof. exact (conj (le_n 2) (conj eq_refl (conj eq_refl (conj eq_refl (conj (le_n 2) (le_S _ _ (le_n 2))))))). Qed.

(* ---- termination of the median search, for EVERY pool size T (T = 1 included) ----
   no panic, no fuel exhaustion, with an explicit fuel bound *)
Theorem C10_median_terminates : forall (T fuel : nat) fw ws tot,
  ws <> [] -> thr_ok_b fw tol tot = true -> (Nat.log2 (length ws) + 1 <= fuel)%nat ->
  exists p w, median_impl fuel T fw ws tot = Ok (p, w).
Proof. exact (median_terminates_log2 cfg_impl C10_literals). Qed.
Print Assumptions C10_median_terminates.

(* ---- regression witness: the OLD chunk count (= pool size alone) hangs with one worker ---- *)
Theorem C10_median_T1_refuted : forall fw ws tot,
  (2 <= length ws)%nat -> 0 < fst (thresholds fw (tol_bits cfg_old) tot) ->
  forall fuel, weighted_median cfg_old fuel 1 fw ws tot = OutOfFuel.
Proof. exact (median_T1_refuted cfg_old (le_n 1) (le_n 1)). Qed.
Print Assumptions C10_median_T1_refuted.

(* ... and so does Grid::rcb on the 4x4 grid of unit weights, 2 iterations *)
Theorem C10_gridrcb_T1_refuted : forall fuel,
  grid_rcb cfg_old fuel 1 I64 [4; 4]%nat (repeat 1 16) 2 16 = OutOfFuel.
Proof. exact gridrcb_T1_stuck_4x4. Qed.
Print Assumptions C10_gridrcb_T1_refuted.

(* ---- what a returned cut satisfies ---- *)
(* in terms of the code's own thresholds: the left weight is the prefix sum at
   the returned position; it is inside [min_part_weight, max_part_weight], or
   it is below and the next prefix sum is above (or there is no next slab) *)
Theorem C10_median_spec : forall fuel T fw ws tot mn mx p w,
  thresholds fw tol tot = (mn, mx) -> 0 <= mx -> mn <= mx + 1 -> ws <> [] ->
  median_impl fuel T fw ws tot = Ok (p, w) ->
  (p < length ws)%nat /\ w = pre ws p
  /\ (mn <= w <= mx \/ (w < mn /\ (S p = length ws \/ mx < pre ws (S p)))).
Proof. exact (median_spec cfg_impl). Qed.
Print Assumptions C10_median_spec.

(* in the property's terms, when the total passed is the sum of the slab weights:
   the low side is within 1% of half -- i64: plus one unit; f64 (weights z * 2^-k,
   all quantities in units of 2^-k): NO unit, only the relative 2^-40 that covers the
   rounding of the code's own two thresholds -- or slab [p] strictly contains the
   half-weight mark.  band_of I64 = band_unit, band_of (F64 k) = band_rel 40 *)
Theorem C10_median_balanced : forall fuel T fw ws tot p w,
  ws <> [] -> tot = sumZ ws -> 0 <= tot -> thr_ok_b fw tol tot = true ->
  median_impl fuel T fw ws tot = Ok (p, w) ->
  w = pre ws p /\ exists s, nth_opt ws p = Some s /\
  (band_of fw tot w \/ 2 * w < tot <= 2 * (w + s)).
Proof. exact (median_balanced cfg_impl). Qed.
Print Assumptions C10_median_balanced.

(* band_of I64 = band_i64: the literal clause below 2^46, a relative 2^-40 more from 2^46 on *)
Theorem C10_band_i64 : forall tot wl,
  band_i64 tot wl <->
  (if tot <? 2 ^ 46 then 100 * Z.abs (2 * wl - tot) <= tot + 200
   else 2 ^ 40 * (100 * Z.abs (2 * wl - tot)) <= (2 ^ 40 + 1) * tot + 2 ^ 40 * 200).
Proof. exact (fun tot wl => conj (fun H => H) (fun H => H)). Qed.
Theorem C10_band_unit : forall tot wl, band_unit tot wl <-> 100 * Z.abs (2 * wl - tot) <= tot + 200.
Proof. exact (fun tot wl => conj (fun H => H) (fun H => H)). Qed.
Theorem C10_band_rel : forall tot wl,
  band_rel 40 tot wl <-> 2 ^ 40 * (100 * Z.abs (2 * wl - tot)) <= (2 ^ 40 + 1) * tot.
Proof. exact (fun tot wl => conj (fun H => H) (fun H => H)). Qed.

(* ---- Grid::rcb: no panic, no hang, boxes, path codes, balance at every cut ----
   for all 2-D / 3-D grids with sides >= 1, all non-negative weights, all
   iter_count, all pool sizes; the hypothesis on [thr_ok_b] = the float facts
   about the two thresholds (C10_thresholds below) *)
Theorem C10_gridrcb_boxes : forall fuel T fw ds ws k,
  wf_grid ds ws -> Forall (fun s => (1 <= s)%nat) ds -> Forall (fun w => 0 <= w) ws ->
  (forall t, 0 <= t <= sumZ ws -> thr_ok_b fw tol t = true) ->
  Forall (fun s => (s < 2 ^ fuel)%nat) ds ->
  exists ids, gridrcb_impl fuel T fw ds ws k (glen ds) = Ok ids
              /\ C10_spec (bal_strong fw) (start_of cfg_impl ds) ds ws k ids
              /\ C10_spec (bal_prop fw) (start_of cfg_impl ds) ds ws k ids.
Proof. exact (gridrcb_boxes cfg_impl C10_literals). Qed.
Print Assumptions C10_gridrcb_boxes.

(* the threshold facts, proved with Flocq from the IEEE-754 meaning of the
   operations (classical-reals axioms): i64 weights, every total below 2^63
   (band facts: "1% + 1 unit" below 2^46, "1% * (1 + 2^-40) + 1 unit" from 2^46 on);
   f64 weights z * 2^-k (k <= 1000), every total z below 2^53 *)
Theorem C10_thresholds_i64 : forall t, 0 <= t < 2 ^ 63 -> thr_ok_b I64 tol t = true.
Proof. exact thr_ok_flocq_i64. Qed.
Print Assumptions C10_thresholds_i64.
Theorem C10_thresholds_f64 : forall k t, (k <= 1000)%nat -> 0 <= t < 2 ^ 53 -> thr_ok_b (F64 k) tol t = true.
Proof. exact thr_ok_flocq_f64. Qed.
Print Assumptions C10_thresholds_f64.

(* total_ok I64 tot = tot < 2^63 ; total_ok (F64 k) tot = k <= 1000 /\ tot < 2^53.
   Hence, unconditionally: termination for every pool size, *)
Theorem C10_median_terminates_all : forall (T fuel : nat) fw ws tot,
  ws <> [] -> 0 <= tot -> total_ok fw tot -> (Nat.log2 (length ws) + 1 <= fuel)%nat ->
  exists p w, median_impl fuel T fw ws tot = Ok (p, w).
Proof. exact (median_terminates_all cfg_impl C10_literals eq_refl). Qed.
Print Assumptions C10_median_terminates_all.

(* the balance of every returned cut (f64: exact dyadic weights, no unit slack), *)
Theorem C10_median_balanced_all : forall fuel T fw ws tot p w,
  ws <> [] -> tot = sumZ ws -> 0 <= tot -> total_ok fw tot ->
  median_impl fuel T fw ws tot = Ok (p, w) ->
  w = pre ws p /\ exists s, nth_opt ws p = Some s /\
  (band_of fw tot w \/ 2 * w < tot <= 2 * (w + s)).
Proof. exact (median_balanced_all cfg_impl eq_refl). Qed.
Print Assumptions C10_median_balanced_all.

(* ... and the whole of Grid::rcb: *)
Theorem C10_gridrcb_boxes_all : forall fuel T fw ds ws k,
  wf_grid ds ws -> Forall (fun s => (1 <= s)%nat) ds -> Forall (fun w => 0 <= w) ws ->
  total_ok fw (sumZ ws) ->
  Forall (fun s => (s < 2 ^ fuel)%nat) ds ->
  exists ids, gridrcb_impl fuel T fw ds ws k (glen ds) = Ok ids
              /\ C10_spec (bal_strong fw) (start_of cfg_impl ds) ds ws k ids
              /\ C10_spec (bal_prop fw) (start_of cfg_impl ds) ds ws k ids.
Proof. exact (gridrcb_boxes_all cfg_impl C10_literals eq_refl). Qed.
Print Assumptions C10_gridrcb_boxes_all.

(* ---- the LITERAL clause "within 1% of half plus one unit" is false of the code for giant totals ----
   1 x 3 grid, weights 1480445131096389888, 1, 1510353113542781918 (total ~2^61.4), iter_count 1,
   any of the pools 1,2,3,4,8,16: the ids are [0,1,1]; the low side is 155 units below
   0.495*total - 1 and no slab next to the cut holds the half-weight mark; no tree makes the
   output satisfy the statement with bal_unit, while it satisfies it with bal_i64
   (cfg_fixed = the literals of the current source; the real code gives the same ids:
   harness family i64_band_edge, outcome class 6) *)
Theorem C10_strict_band_refuted :
  (forall T, In T [1; 2; 3; 4; 8; 16]%nat ->
     grid_rcb cfg_fixed 41 T I64 [1; 3]%nat giant_ws 1 3 = Ok [0; 1; 1]%N)
  /\ ~ C10_spec bal_unit 1 [1; 3]%nat giant_ws 1 [0; 1; 1]%N
  /\ C10_spec bal_i64 1 [1; 3]%nat giant_ws 1 [0; 1; 1]%N.
Proof. exact (conj giant_run giant_spec_refuted). Qed.
Print Assumptions C10_strict_band_refuted.

(* ---- the parts are axis-aligned boxes ----
   for a tree as in C10_spec and any id q, the cells of the box that part_of
   sends to q are exactly the cells of one sub-box (possibly an empty one) *)
Theorem C10_parts_are_boxes : forall D f bal k c sub t,
  TreeOK D f bal k c sub t -> sub <> [] ->
  forall id q, exists box,
    (forall pos, in_box box pos -> in_box sub pos) /\
    (forall pos, in_box sub pos -> (part_of D t pos c id = Ok q <-> in_box box pos)).
Proof. exact parts_are_boxes. Qed.
Print Assumptions C10_parts_are_boxes.

(* ---- the checker run on the implementation's outputs decides the statement ----
   (with the clause of the weight type: bal_unit for i64, bal_rel 40 for f64) *)
Theorem C10_checker_sound : forall fw s ds ws k ids,
  check_C10 (bal_prop_b fw) s ds ws k ids = true -> C10_spec (bal_prop fw) s ds ws k ids.
Proof. exact checker_sound. Qed.
Print Assumptions C10_checker_sound.

Theorem C10_checker_complete : forall fw s ds ws k ids,
  (length ds = 2 \/ length ds = 3)%nat -> Forall (fun x => (1 <= x)%nat) ds -> length ws = glen ds ->
  (s < length ds)%nat ->
  C10_spec (bal_prop fw) s ds ws k ids -> check_C10 (bal_prop_b fw) s ds ws k ids = true.
Proof. exact checker_complete. Qed.
Print Assumptions C10_checker_complete.

(* the checker of the arbitrary-fraction stream (relative allowance 2^-e, no unit) *)
Theorem C10_checker_rel_sound : forall e s ds ws k ids,
  check_C10 (bal_rel_b e) s ds ws k ids = true -> C10_spec (bal_rel e) s ds ws k ids.
Proof. exact checker_rel_sound. Qed.
Print Assumptions C10_checker_rel_sound.

(* ---- non-vacuity ---- *)
Example C10_nonvacuous_run :
  gridrcb_impl 41 1 I64 [4; 4]%nat (repeat 1 16) 2 16
  = Ok [0; 0; 1; 1; 0; 0; 1; 1; 2; 2; 3; 3; 2; 2; 3; 3]%N.
Proof. vm_compute. reflexivity. Qed.
Example C10_nonvacuous_hyps :
  wf_grid [4; 4]%nat (repeat 1 16) /\ Forall (fun s => (1 <= s)%nat) [4; 4]%nat
  /\ Forall (fun w => 0 <= w) (repeat 1 16) /\ total_ok I64 (sumZ (repeat 1 16))
  /\ Forall (fun s => (s < 2 ^ 3)%nat) [4; 4]%nat.
Proof.
  split; [split; [left; reflexivity|reflexivity]|]. split; [repeat constructor|].
  split; [repeat constructor; discriminate|]. split; [reflexivity|]. repeat constructor.
Qed.
Example C10_checker_accepts :
  check_C10 (bal_prop_b I64) 1 [4; 4]%nat (repeat 1 16) 2 [0; 0; 1; 1; 0; 0; 1; 1; 2; 2; 3; 3; 2; 2; 3; 3]%N = true.
Proof. vm_compute. reflexivity. Qed.
(* a part that is not a box / an unbalanced cut that is not next to the half-weight slab *)
Example C10_checker_rejects_nonbox :
  check_C10 (bal_prop_b I64) 1 [4; 4]%nat (repeat 1 16) 2 [0; 0; 1; 1; 0; 1; 0; 1; 2; 2; 3; 3; 2; 2; 3; 3]%N = false.
Proof. vm_compute. reflexivity. Qed.
Example C10_checker_rejects_unbalanced :
  check_C10 (bal_prop_b I64) 1 [1; 8]%nat (repeat 1 8) 1 [0; 1; 1; 1; 1; 1; 1; 1]%N = false.
Proof. vm_compute. reflexivity. Qed.
Example C10_checker_accepts_bracket :   (* one heavy slab: the cut is next to it *)
  check_C10 (bal_prop_b I64) 1 [1; 4]%nat [1; 100; 1; 1] 1 [0; 1; 1; 1]%N = true.
Proof. vm_compute. reflexivity. Qed.
(* f64 weights 1/4, 1/4, 1/4, 1/4 (z = 1, k = 2; total 1.0) on a 1 x 4 grid: the model cuts in the
   middle.  Below: a cut 33% off balance and not next to the half-weight slab is inside the unit
   slack of the i64 clause but is rejected by the f64 clause (no unit) *)
Example C10_nonvacuous_f64 :
  gridrcb_impl 41 3 (F64 2) [1; 4]%nat [1; 1; 1; 1] 1 4 = Ok [0; 0; 1; 1]%N
  /\ total_ok (F64 2) (sumZ [1; 1; 1; 1]).
Proof. split; [vm_compute; reflexivity|split; [repeat constructor|reflexivity]]. Qed.
Example C10_checker_f64_no_unit_slack :
  check_C10 (bal_prop_b (F64 10)) 1 [1; 7]%nat [1; 1; 0; 1; 1; 1; 1] 1 [0; 0; 1; 1; 1; 1; 1]%N = false
  /\ check_C10 (bal_prop_b I64) 1 [1; 7]%nat [1; 1; 0; 1; 1; 1; 1] 1 [0; 0; 1; 1; 1; 1; 1]%N = true.
Proof. split; vm_compute; reflexivity. Qed.

(* C16 — edge cut, lambda cut and imbalance agree with their definitions.
   This file contains only the property theorems, each closed by [exact] of a
   lemma of Proofs/Metrics*Proofs.v, with [Print Assumptions] beneath. *)
From Coq Require Import QArith.
From Coupe Require Import Lib.Prelude Lib.SFloat Lib.Csr Model.Metrics Proofs.MetricsCutProofs
  Proofs.MetricsLambdaProofs Proofs.MetricsLoadProofs Proofs.MetricsGridProofs Proofs.MetricsGridGenericProofs Proofs.GridModelsAgree Gen.MetricsGen.
Open Scope Z_scope.

(* The operators and expression shapes that Model/Metrics.v transcribes, as the translator
   reads them from the CURRENT source (Gen/MetricsGen.v): the generic filter is
   `part != part' && neighbor < vertex`, the specialisation is `take_while(neighbor < vertex)`
   followed by `filter(part != part')`, the Grid iterator / index arithmetic and the
   imbalance expressions have the transcribed shape. *)
Theorem C16_source_operators :
  generic_cut_part_cmp = CNe /\ generic_cut_index_cmp = CLt /\ generic_cut_uses_take_while = false
  /\ sprs_take_while_cmp = CLt /\ sprs_filter_part_cmp = CNe /\ sprs_take_while_before_filter = true.
Proof. exact (conj eq_refl (conj eq_refl (conj eq_refl (conj eq_refl (conj eq_refl eq_refl))))). Qed.
Print Assumptions C16_source_operators.
Theorem C16_source_shapes :
  forallb (fun b => b) (grid_iterator_shape ++ grid_index_shape ++ imbalance_shape) = true.
Proof. exact eq_refl. Qed.
Print Assumptions C16_source_shapes.

(* Structure fingerprints of the eleven modelled functions ([if; else; match; return; for;
   while|loop; method calls; semicolons; containers; unsafe; macros], comments stripped), in the
   order topology/mod.rs edge_cut, lambda_cut; topology/sprs.rs edge_cut, lambda_cut;
   cartesian/mod.rs position_of, index_of, GridNeighbors::next; imbalance.rs compute_parts_load,
   imbalance, imbalance_target, max_imbalance.  ANY second code path in one of them (a branch on
   num_parts, an early return, a HashMap, another fold/reduce/extend) changes its row: this
   theorem then no longer checks and the model has to be re-read against the source. *)
Theorem C16_source_fingerprints :
  source_fingerprints = [
  [0; 0; 0; 0; 0; 0; 8; 1; 0; 0; 0]%nat;
  [0; 0; 0; 0; 0; 0; 12; 3; 1; 0; 0]%nat;
  [0; 0; 0; 0; 0; 0; 15; 6; 0; 0; 0]%nat;
  [0; 0; 0; 0; 0; 0; 16; 6; 1; 0; 0]%nat;
  [0; 0; 1; 0; 1; 0; 2; 12; 0; 0; 0]%nat;
  [0; 0; 1; 0; 0; 0; 4; 10; 0; 0; 0]%nat;
  [3; 1; 1; 2; 0; 1; 1; 8; 0; 0; 0]%nat;
  [0; 0; 0; 0; 1; 0; 10; 5; 2; 0; 3]%nat;
  [2; 0; 0; 2; 0; 0; 17; 8; 0; 0; 1]%nat;
  [0; 0; 0; 0; 0; 0; 7; 1; 0; 0; 0]%nat;
  [0; 0; 0; 0; 0; 0; 4; 0; 0; 0; 0]%nat].
Proof. exact eq_refl. Qed.
Print Assumptions C16_source_fingerprints.

(* the sparse-matrix specialisation (take_while on sorted rows) returns what the
   trait's default method returns, for every partition array (too short: both panic) *)
Theorem C16_csr_cut_eq_generic : forall g p,
  wf_graph g -> rows_sorted g -> sprs_edge_cut g p = edge_cut g p.
Proof. exact csr_cut_eq_generic. Qed.
Print Assumptions C16_csr_cut_eq_generic.

Theorem C16_csr_lambda_eq_generic : forall g p ws, sprs_lambda_cut g p ws = lambda_cut g p ws.
Proof. exact csr_lambda_eq_generic. Qed.
Print Assumptions C16_csr_lambda_eq_generic.

(* every graph: the value is the sum over the strictly lower triangle *)
Theorem C16_cut_lower_def : forall g p,
  wf_graph g -> (length g <= length p)%nat -> edge_cut g p = Ok (cut_lower g p).
Proof. exact cut_lower_def. Qed.
Print Assumptions C16_cut_lower_def.

(* symmetric graph: the sum, over the unordered pairs u < v in different parts, of the weight of (u,v) *)
Theorem C16_cut_def : forall g p,
  wf_graph g -> (length g <= length p)%nat -> symmetric g -> edge_cut g p = Ok (cut_pairs g p).
Proof. exact cut_def. Qed.
Print Assumptions C16_cut_def.

Theorem C16_sprs_cut_def : forall g p,
  wf_graph g -> (length g <= length p)%nat -> rows_sorted g -> symmetric g ->
  sprs_edge_cut g p = Ok (cut_pairs g p).
Proof. exact sprs_cut_def. Qed.
Print Assumptions C16_sprs_cut_def.

(* rayon's tree-shaped sum() = the sequential sum the model uses *)
Theorem C16_par_sum_indep : forall t xs, par_sum t xs = sumZ xs.
Proof. exact par_sum_indep. Qed.
Print Assumptions C16_par_sum_indep.

(* lambda cut: sum over the vertices of weight x number of foreign parts in the
   neighbourhood (k: any bound on the part ids), for both implementations *)
Theorem C16_lambda_cut_def : forall g p ws k,
  wf_graph g -> (length g <= length p)%nat -> length ws = length g ->
  Forall (fun q => (q < k)%nat) p ->
  lambda_cut g p ws = Ok (lambda_def k g p ws).
Proof. exact lambda_cut_def. Qed.
Print Assumptions C16_lambda_cut_def.

Theorem C16_sprs_lambda_cut_def : forall g p ws k,
  wf_graph g -> (length g <= length p)%nat -> length ws = length g ->
  Forall (fun q => (q < k)%nat) p ->
  sprs_lambda_cut g p ws = Ok (lambda_def k g p ws).
Proof. exact sprs_lambda_cut_def. Qed.
Print Assumptions C16_sprs_lambda_cut_def.

(* ---- Grid (2D and 3D: the only grids coupe constructs) ---- *)

(* index_of and position_of are inverse bijections between [0, len) and the box *)
Theorem C16_grid_index_bij_2d : forall w h, (0 < w)%nat -> (0 < h)%nat ->
  (forall i, (i < grid_len [w; h])%nat ->
     index_of [w; h] (position_of [w; h] i) = i
     /\ exists x y, position_of [w; h] i = [x; y] /\ (x < w)%nat /\ (y < h)%nat)
  /\ (forall x y, (x < w)%nat -> (y < h)%nat ->
     (index_of [w; h] [x; y] < grid_len [w; h])%nat
     /\ position_of [w; h] (index_of [w; h] [x; y]) = [x; y]).
Proof. exact grid_index_bij_2d. Qed.
Print Assumptions C16_grid_index_bij_2d.

Theorem C16_grid_index_bij_3d : forall w h d, (0 < w)%nat -> (0 < h)%nat -> (0 < d)%nat ->
  (forall i, (i < grid_len [w; h; d])%nat ->
     index_of [w; h; d] (position_of [w; h; d] i) = i
     /\ exists x y z, position_of [w; h; d] i = [x; y; z] /\ (x < w)%nat /\ (y < h)%nat /\ (z < d)%nat)
  /\ (forall x y z, (x < w)%nat -> (y < h)%nat -> (z < d)%nat ->
     (index_of [w; h; d] [x; y; z] < grid_len [w; h; d])%nat
     /\ position_of [w; h; d] (index_of [w; h; d] [x; y; z]) = [x; y; z]).
Proof. exact grid_index_bij_3d. Qed.
Print Assumptions C16_grid_index_bij_3d.

(* Every dimension D, any positive sides: Grid<D>::index_of and Grid<D>::position_of (the 2D / 3D
   fast paths and the generic mixed-radix loops alike) are inverse bijections between [0, len)
   and the box [Forall2 lt pos dims]; distinct cells have distinct positions. *)
Theorem C16_grid_index_bij_generic : forall dims, Forall (fun s => 0 < s)%nat dims ->
  (forall i, (i < grid_len dims)%nat ->
     index_of dims (position_of dims i) = i /\ Forall2 lt (position_of dims i) dims)
  /\ (forall pos, Forall2 lt pos dims ->
     (index_of dims pos < grid_len dims)%nat /\ position_of dims (index_of dims pos) = pos).
Proof. exact grid_index_bij_generic. Qed.
Print Assumptions C16_grid_index_bij_generic.

(* the hand-specialised 2D / 3D branches compute what the generic loops compute *)
Theorem C16_grid_fast_paths_are_generic : forall dims, Forall (fun s => 0 < s)%nat dims ->
  (forall i, (i < grid_len dims)%nat -> position_of dims i = position_loop dims i)
  /\ (forall pos, length pos = length dims -> index_of dims pos = index_loop 1 dims pos).
Proof. exact (fun dims H => conj (fun i Hi => position_of_is_loop dims i H Hi) (index_of_is_loop dims)). Qed.
Print Assumptions C16_grid_fast_paths_are_generic.

Theorem C16_grid_position_injective : forall dims i j, Forall (fun s => 0 < s)%nat dims ->
  (i < grid_len dims)%nat -> (j < grid_len dims)%nat -> position_of dims i = position_of dims j -> i = j.
Proof. exact grid_position_injective. Qed.
Print Assumptions C16_grid_position_injective.

(* GridNeighbors for EVERY dimension D: u is yielded for the cell v iff u is the index of v's position
   moved by exactly one along exactly one axis, staying inside the grid ([axis_step]: the coordinate c
   on axis a becomes c - 1 (when 0 < c) or c + 1 (when below the side)) *)
Theorem C16_grid_neighbors_spec_generic : forall dims v u,
  Forall (fun s => 0 < s)%nat dims -> (v < grid_len dims)%nat ->
  (In u (grid_neighbors dims v)
   <-> exists a c',
         (exists c s, nth_opt (position_of dims v) a = Some c /\ nth_opt dims a = Some s
                      /\ ((0 < c /\ c' = c - 1 /\ c' < s) \/ (c' = c + 1 /\ c' < s)))%nat
         /\ u = index_of dims (set_nth (position_of dims v) a c')).
Proof. exact grid_neighbors_spec_generic. Qed.
Print Assumptions C16_grid_neighbors_spec_generic.

(* every neighbour is a cell whose position is v's with one coordinate changed by one; conversely every
   such cell is yielded; no cell is its own neighbour *)
Theorem C16_grid_neighbors_adjacent_generic : forall dims v,
  Forall (fun s => 0 < s)%nat dims -> (v < grid_len dims)%nat ->
  (forall u, In u (grid_neighbors dims v) ->
     (u < grid_len dims)%nat
     /\ exists a c', axis_step dims (position_of dims v) a c'
                     /\ position_of dims u = set_nth (position_of dims v) a c')
  /\ (forall u a c', (u < grid_len dims)%nat -> axis_step dims (position_of dims v) a c' ->
       position_of dims u = set_nth (position_of dims v) a c' -> In u (grid_neighbors dims v))
  /\ ~ In v (grid_neighbors dims v).
Proof.
  exact (fun dims v H Hv =>
    conj (fun u => grid_neighbors_are_adjacent_cells dims v u H Hv)
      (conj (fun u a c' Hu => grid_adjacent_cells_are_neighbors dims v u a c' H Hv Hu)
            (grid_neighbors_irreflexive dims v H Hv))).
Qed.
Print Assumptions C16_grid_neighbors_adjacent_generic.

(* the Grid topology is an undirected graph in every dimension *)
Theorem C16_grid_neighbors_sym_generic : forall dims v u,
  Forall (fun s => 0 < s)%nat dims -> (v < grid_len dims)%nat -> In u (grid_neighbors dims v) ->
  (u < grid_len dims)%nat /\ In v (grid_neighbors dims u).
Proof. exact grid_neighbors_sym_generic. Qed.
Print Assumptions C16_grid_neighbors_sym_generic.

Theorem C16_grid_neighbors_nodup_generic : forall dims v,
  Forall (fun s => 0 < s)%nat dims -> (v < grid_len dims)%nat -> NoDup (grid_neighbors dims v).
Proof. exact grid_neighbors_nodup_generic. Qed.
Print Assumptions C16_grid_neighbors_nodup_generic.

Theorem C16_grid_degree_bound : forall dims v, (length (grid_neighbors dims v) <= 2 * length dims)%nat.
Proof. exact grid_degree_bound. Qed.
Print Assumptions C16_grid_degree_bound.

(* the statement of C16_grid_neighbors_spec_2d/3d for every D, and with it the two cut theorems:
   the Grid's edge cut is the number of lattice edges joining different parts, its lambda cut is
   the definition over the lattice graph -- in every dimension *)
Theorem C16_grid_neighbors_adjacent_pos_generic : forall dims v u,
  Forall (fun s => 0 < s)%nat dims -> (v < grid_len dims)%nat ->
  (In u (grid_neighbors dims v)
   <-> (u < grid_len dims)%nat /\ adjacent_pos (position_of dims v) (position_of dims u) = true).
Proof. exact grid_neighbors_adjacent_pos_generic. Qed.
Print Assumptions C16_grid_neighbors_adjacent_pos_generic.

Theorem C16_adjacent_pos_generic : forall p q,
  adjacent_pos p q = true
  <-> exists a c c', nth_opt p a = Some c /\ (c + 1 = c' \/ c' + 1 = c)%nat /\ q = set_nth p a c'.
Proof. exact adjacent_pos_iff. Qed.
Print Assumptions C16_adjacent_pos_generic.

Theorem C16_grid_cut_is_lattice_cut_generic : forall dims p,
  Forall (fun s => 0 < s)%nat dims -> (grid_len dims <= length p)%nat ->
  grid_edge_cut dims p = Ok (lattice_cut dims p).
Proof. exact grid_cut_is_lattice_cut_generic. Qed.
Print Assumptions C16_grid_cut_is_lattice_cut_generic.

Theorem C16_grid_lambda_def_generic : forall dims p ws k,
  Forall (fun s => 0 < s)%nat dims -> (grid_len dims <= length p)%nat -> length ws = grid_len dims ->
  Forall (fun q => (q < k)%nat) p ->
  grid_lambda_cut dims p ws = Ok (lambda_def k (grid_rows dims) p ws).
Proof. exact grid_lambda_def_generic. Qed.
Print Assumptions C16_grid_lambda_def_generic.

(* C10's hand-written model of the same Rust functions (Model/GridRcb.v: Grid::len, index_of,
   position_of with result type [res], D = 2, 3) is this model wherever it answers: the index
   theorems above are about the arithmetic Grid::rcb's model uses *)
Theorem C16_grid_models_agree : forall ds,
  GridRcb.glen ds = grid_len ds
  /\ (forall pos i, GridRcb.index_of ds pos = Ok i -> index_of ds pos = i)
  /\ (forall i pos, GridRcb.position_of ds i = Ok pos -> position_of ds i = pos).
Proof. exact grid_models_agree. Qed.
Print Assumptions C16_grid_models_agree.

(* u is yielded by neighbors(v) iff u is a cell whose position differs from v's by exactly
   one on exactly one axis ([adjacent_pos]) *)
Theorem C16_grid_neighbors_spec_2d : forall w h v u,
  (0 < w)%nat -> (0 < h)%nat -> (v < grid_len [w; h])%nat ->
  (In u (grid_neighbors [w; h] v)
   <-> (u < grid_len [w; h])%nat /\ adjacent_pos (position_of [w; h] v) (position_of [w; h] u) = true).
Proof. exact grid_neighbors_spec_2d. Qed.
Print Assumptions C16_grid_neighbors_spec_2d.

Theorem C16_grid_neighbors_spec_3d : forall w h d v u,
  (0 < w)%nat -> (0 < h)%nat -> (0 < d)%nat -> (v < grid_len [w; h; d])%nat ->
  (In u (grid_neighbors [w; h; d] v)
   <-> (u < grid_len [w; h; d])%nat
       /\ adjacent_pos (position_of [w; h; d] v) (position_of [w; h; d] u) = true).
Proof. exact grid_neighbors_spec_3d. Qed.
Print Assumptions C16_grid_neighbors_spec_3d.

(* what [adjacent_pos] means, spelled out *)
Theorem C16_adjacent_2d : forall x y x' y',
  adjacent_pos [x; y] [x'; y'] = true
  <-> (x = x' /\ (y + 1 = y' \/ y' + 1 = y))%nat \/ ((x + 1 = x' \/ x' + 1 = x) /\ y = y')%nat.
Proof. exact adjacent_2d. Qed.
Print Assumptions C16_adjacent_2d.
Theorem C16_adjacent_3d : forall x y z x' y' z',
  adjacent_pos [x; y; z] [x'; y'; z'] = true
  <-> (x = x' /\ y = y' /\ (z + 1 = z' \/ z' + 1 = z))%nat
   \/ (x = x' /\ (y + 1 = y' \/ y' + 1 = y) /\ z = z')%nat
   \/ ((x + 1 = x' \/ x' + 1 = x) /\ y = y' /\ z = z')%nat.
Proof. exact adjacent_3d. Qed.
Print Assumptions C16_adjacent_3d.

(* symmetric, duplicate-free *)
Theorem C16_grid_neighbors_sym_2d : forall w h u v,
  (0 < w)%nat -> (0 < h)%nat -> (u < grid_len [w; h])%nat -> (v < grid_len [w; h])%nat ->
  (In u (grid_neighbors [w; h] v) <-> In v (grid_neighbors [w; h] u)).
Proof. exact grid_neighbors_sym_2d. Qed.
Print Assumptions C16_grid_neighbors_sym_2d.
Theorem C16_grid_neighbors_sym_3d : forall w h d u v,
  (0 < w)%nat -> (0 < h)%nat -> (0 < d)%nat ->
  (u < grid_len [w; h; d])%nat -> (v < grid_len [w; h; d])%nat ->
  (In u (grid_neighbors [w; h; d] v) <-> In v (grid_neighbors [w; h; d] u)).
Proof. exact grid_neighbors_sym_3d. Qed.
Print Assumptions C16_grid_neighbors_sym_3d.
Theorem C16_grid_neighbors_nodup_2d : forall w h v,
  (0 < w)%nat -> (0 < h)%nat -> (v < grid_len [w; h])%nat -> NoDup (grid_neighbors [w; h] v).
Proof. exact grid_neighbors_nodup_2d. Qed.
Print Assumptions C16_grid_neighbors_nodup_2d.
Theorem C16_grid_neighbors_nodup_3d : forall w h d v,
  (0 < w)%nat -> (0 < h)%nat -> (0 < d)%nat -> (v < grid_len [w; h; d])%nat ->
  NoDup (grid_neighbors [w; h; d] v).
Proof. exact grid_neighbors_nodup_3d. Qed.
Print Assumptions C16_grid_neighbors_nodup_3d.

(* hence: the Grid's edge cut (default method on the neighbour iterator) is the number of
   lattice edges whose ends lie in different parts *)
Theorem C16_grid_cut_is_lattice_cut_2d : forall w h p,
  (0 < w)%nat -> (0 < h)%nat -> (grid_len [w; h] <= length p)%nat ->
  grid_edge_cut [w; h] p = Ok (lattice_cut [w; h] p).
Proof. exact grid_cut_is_lattice_cut_2d. Qed.
Print Assumptions C16_grid_cut_is_lattice_cut_2d.

Theorem C16_grid_cut_is_lattice_cut_3d : forall w h d p,
  (0 < w)%nat -> (0 < h)%nat -> (0 < d)%nat -> (grid_len [w; h; d] <= length p)%nat ->
  grid_edge_cut [w; h; d] p = Ok (lattice_cut [w; h; d] p).
Proof. exact grid_cut_is_lattice_cut_3d. Qed.
Print Assumptions C16_grid_cut_is_lattice_cut_3d.

Theorem C16_grid_lambda_def_2d : forall w h p ws k,
  (0 < w)%nat -> (0 < h)%nat -> (grid_len [w; h] <= length p)%nat -> length ws = grid_len [w; h] ->
  Forall (fun q => (q < k)%nat) p ->
  grid_lambda_cut [w; h] p ws = Ok (lambda_def k (grid_rows [w; h]) p ws).
Proof. exact grid_lambda_def_2d. Qed.
Print Assumptions C16_grid_lambda_def_2d.
Theorem C16_grid_lambda_def_3d : forall w h d p ws k,
  (0 < w)%nat -> (0 < h)%nat -> (0 < d)%nat ->
  (grid_len [w; h; d] <= length p)%nat -> length ws = grid_len [w; h; d] ->
  Forall (fun q => (q < k)%nat) p ->
  grid_lambda_cut [w; h; d] p ws = Ok (lambda_def k (grid_rows [w; h; d]) p ws).
Proof. exact grid_lambda_def_3d. Qed.
Print Assumptions C16_grid_lambda_def_3d.

(* compute_parts_load = the per-part sums, for EVERY split tree of rayon's fold/reduce_with *)
Theorem C16_loads_def : forall t k p ws,
  (0 < k)%nat -> Forall (fun q => (q < k)%nat) p ->
  compute_parts_load t k p ws = Ok (loads_def k p ws).
Proof. exact loads_def_any_tree. Qed.
Print Assumptions C16_loads_def.

(* a part id >= num_parts is reported by a panic (debug assertion), never absorbed *)
Theorem C16_loads_out_of_range : forall t k p ws q,
  In q p -> (k <= q)%nat -> compute_parts_load t k p ws = Panic 2.
Proof. exact loads_out_of_range. Qed.
Print Assumptions C16_loads_out_of_range.

(* itertools' pairwise minmax loop on integers returns (smallest, largest) *)
Theorem C16_minmax_Z : forall l,
  minmax Z.ltb l = match l with [] => None | x :: r => Some (list_min_Z x r, list_max_Z x r) end.
Proof. exact minmax_Z. Qed.
Print Assumptions C16_minmax_Z.

Theorem C16_max_imbalance_def : forall t k p ws,
  (0 < k)%nat -> Forall (fun q => (q < k)%nat) p ->
  max_imbalance t k p ws = Ok (spread (loads_def k p ws)).
Proof. exact max_imbalance_def. Qed.
Print Assumptions C16_max_imbalance_def.

Theorem C16_imbalance_target_def : forall t targets p ws,
  (0 < length targets)%nat -> Forall (fun q => (q < length targets)%nat) p ->
  imbalance_target t targets p ws = Ok (max_excess (loads_def (length targets) p ws) targets).
Proof. exact imbalance_target_def. Qed.
Print Assumptions C16_imbalance_target_def.

(* imbalance = the f64 evaluation (SpecFloat) of ONE expression applied to the per-part sums ... *)
Theorem C16_imbalance_def : forall t k p ws,
  (0 < k)%nat -> Forall (fun q => (q < k)%nat) p -> length p = length ws ->
  imbalance t k p ws = Ok (imbalance_f64 k (loads_def k p ws)).
Proof. exact imbalance_def. Qed.
Print Assumptions C16_imbalance_def.

(* ... and the same expression read over the rationals (stated over Q, not R: every
   operation of the expression is rational) is load_max * k / total - 1, which is
   max_p (load_p * k / total - 1): attained by the heaviest part, and an upper bound *)
Theorem C16_imbalance_real : forall (k : nat) (x : Z) (r : list Z),
  (0 < k)%nat -> 0 < sumZ (x :: r) ->
  (imbalance_Q k (x :: r)
   == inject_Z (list_max_Z x r) * inject_Z (Z.of_nat k) / inject_Z (sumZ (x :: r)) - 1)%Q.
Proof. exact imbalance_real. Qed.
Print Assumptions C16_imbalance_real.

Theorem C16_imbalance_real_is_max : forall (k : nat) (x : Z) (r : list Z) (l : Z),
  (0 < k)%nat -> 0 < sumZ (x :: r) -> In l (x :: r) ->
  (inject_Z l * inject_Z (Z.of_nat k) / inject_Z (sumZ (x :: r)) - 1 <= imbalance_Q k (x :: r))%Q.
Proof. exact imbalance_real_is_max. Qed.
Print Assumptions C16_imbalance_real_is_max.

Theorem C16_heaviest_part_exists : forall x r, In (list_max_Z x r) (x :: r).
Proof. exact list_max_Z_in. Qed.
Print Assumptions C16_heaviest_part_exists.

Theorem C16_imbalance_zero_total : forall (k : nat) loads, sumZ loads = 0 -> (imbalance_Q k loads == 0)%Q.
Proof. exact imbalance_Q_zero_total. Qed.
Print Assumptions C16_imbalance_zero_total.

(* the rational and the f64 value are instances of the same expression *)
Theorem C16_imbalance_same_expression :
  imbalance_f64 = imbalance_expr SpecFloat.spec_float f64_of_Z f64_sub f64_div f64_is_zero flt f64_zero
  /\ imbalance_Q = imbalance_expr Q inject_Z Qminus Qdiv (fun q => Qeq_bool q 0) Qltb 0%Q.
Proof. split; reflexivity. Qed.
Print Assumptions C16_imbalance_same_expression.

(* non-vacuity: a symmetric weighted triangle with a pendant vertex, 3 parts *)
Example C16_nonvacuous_cut :
  let g := [[(1%nat, 5); (2%nat, 7)]; [(0%nat, 5); (2%nat, 1); (3%nat, 2)]; [(0%nat, 7); (1%nat, 1)]; [(1%nat, 2)]] in
  let p := [0; 1; 1; 2]%nat in
  wf_graphb g = true /\ rows_sortedb true g = true /\ symmetricb g = true /\
  sprs_edge_cut g p = Ok 14 /\ edge_cut g p = Ok 14 /\ cut_pairs g p = 14.
Proof. vm_compute. repeat split; reflexivity. Qed.

Example C16_nonvacuous_lambda :
  let g := [[(1%nat, 5); (2%nat, 7)]; [(0%nat, 5); (2%nat, 1); (3%nat, 2)]; [(0%nat, 7); (1%nat, 1)]; [(1%nat, 2)]] in
  let p := [0; 1; 1; 2]%nat in
  lambda_cut g p [1; 10; 100; 1000] = Ok 1121 /\ lambda_def 3 g p [1; 10; 100; 1000] = 1121.
Proof. vm_compute. split; reflexivity. Qed.

Example C16_nonvacuous_loads :
  compute_parts_load (Node 2 Leaf (Node 1 Leaf Leaf)) 3 [2; 0; 2; 1; 0]%nat [5; 6; 7; 8; 9] = Ok [15; 8; 12]
  /\ max_imbalance Leaf 3 [2; 0; 2; 1; 0]%nat [5; 6; 7; 8; 9] = Ok 7
  /\ (imbalance_Q 3 [15; 8; 12]%Z == 2 # 7)%Q.
Proof. vm_compute. repeat split; reflexivity. Qed.

(* the 3x3 grid of coupe's own test, and a 2x2x2 grid *)
Example C16_nonvacuous_grid :
  map (grid_neighbors [3; 3]%nat) (seq 0 9)
  = [[1; 3]; [0; 2; 4]; [1; 5]; [4; 0; 6]; [3; 5; 1; 7]; [4; 2; 8]; [7; 3]; [6; 8; 4]; [7; 5]]%nat
  /\ grid_edge_cut [3; 3]%nat [0; 0; 1; 0; 1; 1; 2; 2; 1]%nat = Ok 6
  /\ lattice_cut [3; 3]%nat [0; 0; 1; 0; 1; 1; 2; 2; 1]%nat = 6
  /\ grid_edge_cut [2; 2; 2]%nat [0; 1; 0; 1; 1; 1; 0; 0]%nat = Ok 6
  /\ lattice_cut [2; 2; 2]%nat [0; 1; 0; 1; 1; 1; 0; 0]%nat = 6.
Proof. vm_compute. repeat split; reflexivity. Qed.

(* a 4-dimensional 2x3x4x5 grid: a shape only the generic-D theorem reaches *)
Example C16_nonvacuous_grid_generic :
  Forall (fun s => 0 < s)%nat [2; 3; 4; 5]%nat /\ grid_len [2; 3; 4; 5]%nat = 120%nat
  /\ position_of [2; 3; 4; 5]%nat 77 = [1; 2; 0; 3]%nat /\ index_of [2; 3; 4; 5]%nat [1; 2; 0; 3]%nat = 77%nat.
Proof. repeat split; try reflexivity. repeat constructor. Qed.

Example C16_nonvacuous_grid_neighbors_generic :
  grid_neighbors [2; 3; 4; 5]%nat 77 = [76; 75; 83; 53; 101]%nat
  /\ map (position_of [2; 3; 4; 5]%nat) [76; 75; 83; 53; 101]%nat
     = [[0; 2; 0; 3]; [1; 1; 0; 3]; [1; 2; 1; 3]; [1; 2; 0; 2]; [1; 2; 0; 4]]%nat.
Proof. vm_compute. split; reflexivity. Qed.

(* a 2x2x2x2 grid (hypercube): 32 lattice edges, the parity partition cuts all of them *)
Example C16_nonvacuous_grid_cut_generic :
  let par := map (fun v => ((v + v / 2 + v / 4 + v / 8) mod 2)%nat) (seq 0 16) in
  grid_edge_cut [2; 2; 2; 2]%nat par = Ok 32 /\ lattice_cut [2; 2; 2; 2]%nat par = 32
  /\ grid_edge_cut [2; 2; 2; 2]%nat (map (fun v => (v / 8)%nat) (seq 0 16)) = Ok 8.
Proof. vm_compute. repeat split; reflexivity. Qed.

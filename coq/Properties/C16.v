(* C16 — edge cut, lambda cut and imbalance agree with their definitions.
   This file contains only the property theorems, each closed by [exact] of a
   lemma of Proofs/Metrics*Proofs.v, with [Print Assumptions] beneath. *)
From Coupe Require Import Lib.Prelude Lib.SFloat Lib.Csr Model.Metrics Proofs.MetricsCutProofs.
Open Scope Z_scope.

(* the sparse-matrix specialisation (take_while on sorted rows) returns what the
   trait's default method returns, for every partition array (too short: both panic) *)
Theorem C16_csr_cut_eq_generic : forall g p,
  wf_graph g -> rows_sorted g -> sprs_edge_cut g p = edge_cut g p.
Proof. exact csr_cut_eq_generic. Qed.
Print Assumptions C16_csr_cut_eq_generic.

Theorem C16_csr_lambda_eq_generic : forall g p ws, sprs_lambda_cut g p ws = lambda_cut g p ws.
Proof. exact csr_lambda_eq_generic. Qed.
Print Assumptions C16_csr_lambda_eq_generic.

(* every graph: the value is the sum over the strictly lower triangle *)
Theorem C16_cut_lower_def : forall g p,
  wf_graph g -> (length g <= length p)%nat -> edge_cut g p = Ok (cut_lower g p).
Proof. exact cut_lower_def. Qed.
Print Assumptions C16_cut_lower_def.

(* symmetric graph: the sum, over the unordered pairs u < v in different parts, of the weight of (u,v) *)
Theorem C16_cut_def : forall g p,
  wf_graph g -> (length g <= length p)%nat -> symmetric g -> edge_cut g p = Ok (cut_pairs g p).
Proof. exact cut_def. Qed.
Print Assumptions C16_cut_def.

Theorem C16_sprs_cut_def : forall g p,
  wf_graph g -> (length g <= length p)%nat -> rows_sorted g -> symmetric g ->
  sprs_edge_cut g p = Ok (cut_pairs g p).
Proof. exact sprs_cut_def. Qed.
Print Assumptions C16_sprs_cut_def.

(* rayon's tree-shaped sum() = the sequential sum the model uses *)
Theorem C16_par_sum_indep : forall t xs, par_sum t xs = sumZ xs.
Proof. exact par_sum_indep. Qed.
Print Assumptions C16_par_sum_indep.

(* non-vacuity: a symmetric weighted triangle with a pendant vertex, 3 parts *)
Example C16_nonvacuous_cut :
  let g := [[(1%nat, 5); (2%nat, 7)]; [(0%nat, 5); (2%nat, 1); (3%nat, 2)]; [(0%nat, 7); (1%nat, 1)]; [(1%nat, 2)]] in
  let p := [0; 1; 1; 2]%nat in
  wf_graphb g = true /\ rows_sortedb true g = true /\ symmetricb g = true /\
  sprs_edge_cut g p = Ok 14 /\ edge_cut g p = Ok 14 /\ cut_pairs g p = 14.
Proof. vm_compute. repeat split; reflexivity. Qed.

(* C05 — ArcSwap's accounting and caps hold under every thread interleaving.
   Only the property theorems, each closed by [exact] of a lemma of
   Proofs/ArcSwap*.v, with [Print Assumptions] beneath. *)
From Coupe Require Import Lib.Prelude Model.ArcSwap Proofs.ArcSwapCut.
Open Scope Z_scope.

(* moving one vertex of a symmetric weighted graph changes the edge cut by minus its gain *)
Theorem C05_cut_move : forall (wt : nat -> nat -> Z), (forall u v, wt u v = wt v u) ->
  forall n p x b, (x < n)%nat -> p x <> b ->
  cut_fn wt n (upd p x b) = cut_fn wt n p - gain_fn wt n p x b.
Proof. exact cut_move. Qed.
Print Assumptions C05_cut_move.

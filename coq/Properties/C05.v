(* C05 — ArcSwap's accounting and caps hold under every thread interleaving.
   Only the property theorems, each closed by [exact] of a lemma of
   Proofs/ArcSwap*.v, with [Print Assumptions] beneath.

   The machine of Model/ArcSwap.v executes one shared-memory access of one
   worker per [step]; [run cf st0 sch] follows the schedule [sch] (a list of
   worker ids of ANY length, spanning any number of passes) and is [None] when
   a chosen worker has nothing left to do or the modelled code would panic.
   Every theorem below holds for every graph with symmetric adjacency and
   integer edge weights, every number of chunks, every initial partition and
   every schedule: they are inductive invariants of [step].
   Assumed, not proved: sequential consistency (the interleaving semantics
   itself), integer (i64, non-overflowing) weights. *)
From Coupe Require Import Lib.Prelude Lib.SFloat Model.ArcSwap Proofs.ArcSwapCut Proofs.ArcSwapProto
  Proofs.ArcSwapAcct Proofs.ArcSwapCaps Proofs.ArcSwapSafe.
Open Scope Z_scope.

(* the lemma behind the accounting: moving one vertex of a symmetric weighted graph changes the
   edge cut (Topology::edge_cut) by minus the gain read from the vertex's adjacency row *)
Theorem C05_cut_store : forall g, (forall a b, wt g a b = wt g b a) ->
  (forall a u, In u (nbrs g a) -> (u < length g)%nat) ->
  forall p v tg, (v < length p)%nat -> (v < length g)%nat -> ~ In v (nbrs g v) -> pid p v <> tg ->
  cut g (set_nth p v tg) = cut g p - row_gain p (pid p v) tg (row g v).
Proof. exact cut_store. Qed.
Print Assumptions C05_cut_store.

(* stage 1 — two workers are never both past their neighbour-lock check (evaluating, storing, or
   about to release after a store) on equal or adjacent vertices: adjacent vertices are never
   moved concurrently *)
Theorem C05_arcswap_mutex : forall cf p0,
  graph_ok (cf_g cf) -> length p0 = length (cf_g cf) -> Forall (fun x => (x < cf_k cf)%nat) p0 ->
  forall st0 sch st, init_state cf p0 = Some st0 -> run cf st0 sch = Some st ->
  no_adjacent_critical (cf_g cf) st.
Proof. exact arcswap_mutex. Qed.
Print Assumptions C05_arcswap_mutex.

(* stage 1 — whenever a worker is about to store part [tg] at [v] with the gain [gn] it summed
   from reads spread over many steps, [gn] is exactly the cut delta of that store IN THE CURRENT
   shared state (no neighbour changed part in between), and it is positive *)
Theorem C05_arcswap_gain_exact : forall cf p0,
  graph_ok (cf_g cf) -> length p0 = length (cf_g cf) -> Forall (fun x => (x < cf_k cf)%nat) p0 ->
  forall st0 sch st t w v ip tg gn, init_state cf p0 = Some st0 -> run cf st0 sch = Some st ->
  nth_opt (g_ws st) t = Some w -> w_pc w = PStore v ip tg gn ->
  cut (cf_g cf) (set_nth (g_part st) v tg) = cut (cf_g cf) (g_part st) - gn /\ 0 < gn
  /\ pid (g_part st) v = ip /\ tg <> ip.
Proof. exact arcswap_gain_exact. Qed.
Print Assumptions C05_arcswap_gain_exact.

(* stage 2 — at every reachable state: input cut - current cut = sum of the gains recorded so
   far, which is >= 0; the partition is valid; move_count >= number of relabelled vertices *)
Theorem C05_arcswap_accounting : forall cf p0,
  graph_ok (cf_g cf) -> length p0 = length (cf_g cf) -> Forall (fun x => (x < cf_k cf)%nat) p0 ->
  forall st0 sch st, init_state cf p0 = Some st0 -> run cf st0 sch = Some st ->
  cut (cf_g cf) p0 - cut (cf_g cf) (g_part st) = total_gain st /\ 0 <= total_gain st
  /\ length (g_part st) = length p0 /\ Forall (fun x => (x < cf_k cf)%nat) (g_part st)
  /\ relabelled p0 (g_part st) <= total_moves st.
Proof. exact arcswap_accounting. Qed.
Print Assumptions C05_arcswap_accounting.

(* stage 3 — integer weights: at every reachable state (in particular after any number of
   passes) every part weighs at most max(its input weight, cap), for ANY cap and any per-thread
   share function that never hands out more than 1/thread_count of a headroom *)
Theorem C05_arcswap_caps : forall cf p0,
  graph_ok (cf_g cf) -> length p0 = length (cf_g cf) -> Forall (fun x => (x < cf_k cf)%nat) p0 ->
  Forall (fun x => 0 <= x) (cf_vw cf) -> hr_ok cf ->
  forall st0 sch st, init_state cf p0 = Some st0 -> run cf st0 sch = Some st ->
  forall q, (q < cf_k cf)%nat ->
    load (cf_vw cf) (g_part st) q <= Z.max (load (cf_vw cf) p0 q) (cf_cap cf).
Proof. exact arcswap_caps. Qed.
Print Assumptions C05_arcswap_caps.

(* the property, for the configuration arc_swap derives from its arguments and the pool size T
   (chunking by work_share, part_count = max(2, 1 + max id), f64 share accepted where exact) *)
Theorem C05_arcswap_safe : forall g vw p0 T cap st0 sch st,
  graph_ok g -> length p0 = length g -> Forall (fun x => 0 <= x) vw ->
  let cf := config_of headroom_checked g vw p0 T cap in
  init_state cf p0 = Some st0 -> run cf st0 sch = Some st ->
  no_adjacent_critical g st
  /\ cut g p0 - cut g (g_part st) = total_gain st /\ 0 <= total_gain st
  /\ (forall q, (q < part_count p0)%nat -> load vw (g_part st) q <= Z.max (load vw p0 q) cap)
  /\ length (g_part st) = length p0 /\ Forall (fun x => (x < part_count p0)%nat) (g_part st)
  /\ relabelled p0 (g_part st) <= total_moves st
  /\ (g_fin st = true -> total_gain st = md_gain (g_md st) /\ total_moves st = md_moves (g_md st)).
Proof. exact arcswap_safe_impl. Qed.
Print Assumptions C05_arcswap_safe.

(* a recorded run of the implementation that the machine accepts event by event, and that ends
   with the outer loop left, satisfies the property's clauses on outputs with the machine's
   final Metadata (the run glue checks that these equal the implementation's) *)
Theorem C05_replayed_run_safe : forall g vw p0 T cap st0 tr st,
  graph_ok g -> length p0 = length g -> Forall (fun x => 0 <= x) vw ->
  let cf := config_of headroom_checked g vw p0 T cap in
  init_state cf p0 = Some st0 -> replay cf st0 tr = Some st -> g_fin st = true ->
  cut g p0 - cut g (g_part st) = md_gain (g_md st) /\ 0 <= md_gain (g_md st)
  /\ (forall q, (q < part_count p0)%nat -> load vw (g_part st) q <= Z.max (load vw p0 q) cap)
  /\ length (g_part st) = length p0 /\ Forall (fun x => (x < part_count p0)%nat) (g_part st)
  /\ relabelled p0 (g_part st) <= md_moves (g_md st).
Proof. exact arcswap_replayed_safe. Qed.
Print Assumptions C05_replayed_run_safe.

(* the share the theorems need is what exact integer division gives *)
Theorem C05_headroom_checked_ok : forall cf, cf_hr cf = headroom_checked -> hr_ok cf.
Proof. exact headroom_checked_ok. Qed.
Print Assumptions C05_headroom_checked_ok.

(* the contract the run glue evaluates is the hypothesis of the theorems *)
Theorem C05_graph_okb_ok : forall g, graph_okb g = true -> graph_ok g.
Proof. exact graph_okb_ok. Qed.
Print Assumptions C05_graph_okb_ok.

(* the checker applied to the implementation's outputs decides the property's clauses on outputs *)
Theorem C05_checker_ok : forall g vw p0 cap tasks tr o,
  check_C05 g vw p0 cap tasks tr o = true <->
  (length (o_part o) = length p0 /\ Forall (fun x => (x < part_count p0)%nat) (o_part o))
  /\ (cut g p0 - cut g (o_part o) = o_gain o /\ 0 <= o_gain o)
  /\ (forall q, (q < part_count p0)%nat -> load vw (o_part o) q <= Z.max (load vw p0 q) cap)
  /\ relabelled p0 (o_part o) <= o_moves o
  /\ trace_mutex g (repeat TIdle tasks) tr = true.
Proof. exact check_C05_ok. Qed.
Print Assumptions C05_checker_ok.

(* ---- non-vacuity: a 6-cycle with alternating parts, 3 workers, a cap that allows moves ---- *)
Definition ex_g : graph :=
  [[(1%nat,1);(5%nat,1)]; [(0%nat,1);(2%nat,1)]; [(1%nat,1);(3%nat,1)];
   [(2%nat,1);(4%nat,1)]; [(3%nat,1);(5%nat,1)]; [(0%nat,1);(4%nat,1)]].
Definition ex_p0 : list nat := [0;1;0;1;0;1]%nat.
Definition ex_cf := config_of headroom_checked ex_g [1;1;1;1;1;1] ex_p0 3 6.

Example C05_nonvacuous_contract : graph_ok ex_g /\ length ex_p0 = length ex_g.
Proof. split; [apply graph_okb_ok; vm_compute; reflexivity|reflexivity]. Qed.

(* a complete interleaved run (round-robin over the three workers, one access each): the outer
   loop exits, vertices were moved, the cut went from 6 to 0 *)
Example C05_nonvacuous_run :
  exists st0 sch st, init_state ex_cf ex_p0 = Some st0 /\ run ex_cf st0 sch = Some st
    /\ g_fin st = true /\ Nat.ltb 60 (length sch) = true /\ cut ex_g ex_p0 = 6 /\ 0 < md_gain (g_md st)
    /\ cut ex_g ex_p0 - cut ex_g (g_part st) = md_gain (g_md st).
Proof.
  destruct (init_state ex_cf ex_p0) as [st0|] eqn:E0; [|vm_compute in E0; discriminate].
  exists st0, (fst (drive ex_cf 2000 0 st0 [])), (snd (drive ex_cf 2000 0 st0 [])).
  vm_compute in E0. injection E0 as <-. vm_compute. repeat split; reflexivity.
Qed.

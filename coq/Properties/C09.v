(* C09 — space-filling-curve parts are contiguous runs of the curve.
   This file contains only the property theorems, each closed by [exact] of a
   lemma of Proofs/{SortingProofs,SfcProofs,ZCurveProofs}.v, with
   [Print Assumptions] beneath.  The models are instantiated with the literals
   the translator read from hilbert_curve.rs / z_curve.rs (Gen/SfcGen.v). *)
From Coupe Require Import Lib.Prelude Lib.SFloat Lib.Sorting Model.SfcPart Model.ZGeom Proofs.ZGeomProofs
  Proofs.SortingProofs Proofs.SfcProofs Proofs.ZCurveProofs Proofs.ZCheckProofs Proofs.ZOracleProofs Proofs.WqTermProofs Gen.SfcGen
  Lib.Rayon Model.SfcSched Proofs.SfcSchedProofs Proofs.F64AddExact Proofs.SfcSchedExact Proofs.WqNonTermination Proofs.WqExactRound.
From Coq Require Import Floats.SpecFloat Sorting.Permutation Sorting.Sorted.
Open Scope nat_scope.

(* ---- what the model relies on in the source, re-read on every run ---- *)

(* weighted_quantiles keeps one split per part boundary (no `dedup`) and
   searches with coupe's never-Equal comparator; the part id of a point is
   `(Ok(i) | Err(i)) = split_positions.binary_search(&index)`; `P::avg` for
   u64 is `(a & b) + (a ^ b) / 2`; ZCurve's second `par_chunks` is guarded *)
Theorem C09_source_shape :
  hilbert_splits_dedup = false /\ hilbert_part_is_binary_search_of_index = true
  /\ quantiles_search_by_partial_cmp = true /\ partial_cmp_is_less_or_greater = true
  /\ average_u64_is_and_plus_half_xor = true /\ zcurve_chunk_guard = true
  (* the requested order reaches the recursion / the index function unchanged (no clamp) *)
  /\ zcurve_depth_is_order = true /\ hilbert_order_passed_unchanged = true.
Proof. repeat split; exact eq_refl. Qed.

(* the implementation's entry points: the models at the constants of the current source *)
Definition hilbert_impl_2d := hilbert_partition (f64_of_bits hilbert_split_tolerance_bits) hilbert_max_order_2d.
Definition hilbert_impl_3d := hilbert_partition (f64_of_bits hilbert_split_tolerance_bits) hilbert_max_order_3d.

(* ---- the library's binary search, on ANY array (sorted or not) ---- *)

Theorem C09_bsearch_mono : forall (a : list N) (k1 k2 : N), (k1 <= k2)%N ->
  exists i1 i2, bsearch_idx a k1 = Ok i1 /\ bsearch_idx a k2 = Ok i2 /\ i1 <= i2.
Proof. exact bsearch_mono. Qed.
Print Assumptions C09_bsearch_mono.

(* no out-of-range read, no fuel exhaustion, result <= len *)
Theorem C09_bsearch_le_len : forall (a : list N) (k : N),
  exists i, bsearch_idx a k = Ok i /\ i <= length a.
Proof. exact bsearch_le_len. Qed.
Print Assumptions C09_bsearch_le_len.

(* ---- HilbertCurve ---- *)

(* for EVERY vector of split positions: idx p < idx q -> part p <= part q,
   idx p = idx q -> part p = part q, ids <= number of splits *)
Theorem C09_hilbert_monotone : forall (splits idx ids : list N),
  assign_parts splits idx = Ok ids ->
  length ids = length idx
  /\ mono_pairs (combine idx ids)
  /\ Forall (fun p => (p <= N.of_nat (length splits))%N) ids.
Proof. exact hilbert_monotone. Qed.
Print Assumptions C09_hilbert_monotone.

(* ... so each part is one interval of the curve *)
Theorem C09_hilbert_parts_are_intervals : forall (l : list (N * N)), mono_pairs l ->
  forall a b c, In a l -> In b l -> In c l ->
    (fst a <= fst c)%N -> (fst c <= fst b)%N -> snd a = snd b -> snd c = snd a.
Proof. exact mono_pairs_intervals. Qed.
Print Assumptions C09_hilbert_parts_are_intervals.

Theorem C09_hilbert_assign_total : forall splits idx, exists ids, assign_parts splits idx = Ok ids.
Proof. exact assign_parts_total. Qed.
Print Assumptions C09_hilbert_assign_total.

(* weighted_quantiles returns part_count - 1 positions whenever it returns *)
Theorem C09_quantiles_length : forall tol fuel pts ws n splits,
  weighted_quantiles tol fuel pts ws n = Ok splits -> n >= 1 /\ length splits = n - 1.
Proof. exact weighted_quantiles_length. Qed.
Print Assumptions C09_quantiles_length.

(* the whole call, 2-D and 3-D, every run that returns Ok *)
Theorem C09_hilbert_2d : forall order fuel idx ws k p0 p,
  p0 <> [] -> length idx = length p0 ->
  hilbert_impl_2d order fuel idx ws k p0 = Ok p ->
  (order <= hilbert_max_order_2d)%N /\ k >= 1 /\ length p = length p0
  /\ mono_pairs (combine idx p) /\ Forall (fun x => (x < N.of_nat k)%N) p.
Proof. exact (hilbert_partition_monotone _ _). Qed.
Theorem C09_hilbert_3d : forall order fuel idx ws k p0 p,
  p0 <> [] -> length idx = length p0 ->
  hilbert_impl_3d order fuel idx ws k p0 = Ok p ->
  (order <= hilbert_max_order_3d)%N /\ k >= 1 /\ length p = length p0
  /\ mono_pairs (combine idx p) /\ Forall (fun x => (x < N.of_nat k)%N) p.
Proof. exact (hilbert_partition_monotone _ _). Qed.
Print Assumptions C09_hilbert_2d.
Print Assumptions C09_hilbert_3d.

(* inside the contract no index of the quantile search is out of range: the
   model returns, runs out of fuel (termination is NOT proved), or rejects the order *)
Theorem C09_hilbert_no_panic : forall tol maxo order fuel idx ws k p0,
  length idx = length p0 -> 1 <= k ->
  no_panic (hilbert_partition tol maxo order fuel idx ws k p0)
  \/ hilbert_partition tol maxo order fuel idx ws k p0 = Err (InvalidOrder maxo order).
Proof. exact hilbert_partition_no_panic. Qed.
Print Assumptions C09_hilbert_no_panic.

(* REFUTED for the comparison with the default absolute epsilon (flag [false] of
   the flag-parametric model [..._g]; /repo before the repair): the quantile
   search does NOT terminate for every input in the contract.  Witness: curve indices 0, 4, 8, every weight 1e-16 (finite,
   positive), 5 parts: the model is out of fuel for EVERY amount of fuel (the
   loop state alternates between two states from the third round on).  Cause:
   `approx::abs_diff_eq!` compares partial sums with the ABSOLUTE tolerance
   f64::EPSILON, so with a total weight of that magnitude every sum "equals"
   every target.  Confirmed on the real code (docs/C09.md); this is a finding
   for C01's "no hang" clause, known-finding class hilbert-tiny-weights-hang. *)
Theorem C09_quantiles_terminate_refuted :
  exists (pts : list N) (ws : list spec_float) (n : nat),
    pts <> [] /\ 3 <= n /\ Forall (fun w => is_finite w = true /\ flt fzero w = true) ws
    /\ length ws = length pts
    /\ forall fuel, weighted_quantiles_g false (f64_of_bits hilbert_split_tolerance_bits) fuel pts ws n = OutOfFuel.
Proof.
  exists wit_idx, wit_ws, wit_n.
  split; [discriminate|]. split; [repeat constructor|].
  split; [repeat constructor; vm_compute; reflexivity|]. split; [reflexivity|].
  exact weighted_quantiles_nontermination.
Qed.
Print Assumptions C09_quantiles_terminate_refuted.
Theorem C09_hilbert_partition_hangs : forall order fuel p0,
  (order <= hilbert_max_order_2d)%N -> p0 <> [] ->
  hilbert_partition_g false (f64_of_bits hilbert_split_tolerance_bits) hilbert_max_order_2d order fuel
    [0; 4; 8]%N (repeat (f64_of_bits 4367597403136100796%N) 3) 5 p0 = OutOfFuel.
Proof. exact (hilbert_partition_nontermination hilbert_max_order_2d). Qed.
Print Assumptions C09_hilbert_partition_hangs.

(* with the repaired comparison (epsilon = f64::EPSILON * min(1, total weight), flag [true])
   the same input returns (the repaired real function returns the same positions) *)
Example C09_witness_returns_with_scaled_epsilon :
  weighted_quantiles_g true (f64_of_bits hilbert_split_tolerance_bits) 100 [0; 4; 8]%N
    (repeat (f64_of_bits 4367597403136100796%N) 3) 5 = Ok [0; 3; 3; 7]%N.
Proof. vm_compute. reflexivity. Qed.

(* the model of the current source = the flag-parametric model at the flag the translator read *)
Theorem C09_hilbert_partition_is_g : forall tol maxo order fuel idx ws k p0,
  hilbert_partition tol maxo order fuel idx ws k p0
  = hilbert_partition_g hilbert_eps_scaled tol maxo order fuel idx ws k p0.
Proof. exact hilbert_partition_is_g. Qed.
Print Assumptions C09_hilbert_partition_is_g.

(* PARTIAL: termination of the quantile search is proved for part_count <= 2
   only (a single split is a plain bisection; 66 rounds suffice for u64
   indices).  For part_count >= 3 termination is FALSE for the old comparison
   (C09_quantiles_terminate_refuted above); for the repaired comparison it is
   unproved and unrefuted. *)
Theorem C09_quantiles_terminate_partial : forall tol fuel pts ws n,
  pts <> [] -> Forall (fun x => (x < 2 ^ 64)%N) pts -> 1 <= n <= 2 -> 66 <= fuel ->
  exists splits, weighted_quantiles tol fuel pts ws n = Ok splits.
Proof. exact weighted_quantiles_terminates_partial. Qed.
Theorem C09_hilbert_returns_partial : forall tol maxo order fuel idx ws k p0,
  length idx = length p0 -> Forall (fun x => (x < 2 ^ 64)%N) idx -> 1 <= k <= 2 -> 66 <= fuel ->
  (exists p, hilbert_partition tol maxo order fuel idx ws k p0 = Ok p)
  \/ hilbert_partition tol maxo order fuel idx ws k p0 = Err (InvalidOrder maxo order).
Proof. exact hilbert_partition_terminates_partial. Qed.
Print Assumptions C09_quantiles_terminate_partial.
Print Assumptions C09_hilbert_returns_partial.

(* ---- schedule independence of HilbertCurve (for the C06 collector) ----
   [hilbert_partition_s ts] takes one rayon split tree per round of the
   quantile search ([ts]) for the only schedule-dependent construct, the
   fold/reduce of the per-part weight histogram (Model/SfcSched.v; min/max of
   the indices are the true minimum/maximum whatever the schedule).
   For integer-valued non-negative weights with total <= 2^53 ([exact_sums])
   the result does not depend on the trees, given the per-point curve indices.
   The premise [f64_add_exact_on_integers] is PROVED below
   (C09_f64_add_exact_on_integers); the statements with the premise are kept
   (axiom-free, and for Properties/C06.v), the premise-free ones are the
   [..._proved] theorems. *)
Theorem C09_hilbert_sched_indep : f64_add_exact_on_integers ->
  forall ws, exact_sums ws ->
  forall ts1 ts2 tol maxo order fuel idx k p0,
  hilbert_partition_s ts1 tol maxo order fuel idx ws k p0
  = hilbert_partition_s ts2 tol maxo order fuel idx ws k p0.
Proof. exact hilbert_sched_indep. Qed.
Print Assumptions C09_hilbert_sched_indep.

(* The premise is a theorem: binary64 addition (SpecFloat.SFadd 53 1024, what
   the model executes) is exact on integers of magnitude <= 2^53 whose sum has
   magnitude <= 2^53 -- proved through Flocq (Bplus_correct, integers below
   2^53 are in the format), hence with the axioms of Coq's classical reals. *)
Theorem C09_f64_add_exact : forall a b : Z,
  (Z.abs a <= 2 ^ 53)%Z -> (Z.abs b <= 2 ^ 53)%Z -> (Z.abs (a + b) <= 2 ^ 53)%Z ->
  f64_add (f64_of_Z a) (f64_of_Z b) = f64_of_Z (a + b).
Proof. exact f64_add_exact. Qed.
Print Assumptions C09_f64_add_exact.
Theorem C09_f64_add_exact_on_integers : f64_add_exact_on_integers.
Proof. exact f64_add_exact_on_integers_holds. Qed.

(* schedule independence WITHOUT the premise *)
Theorem C09_hilbert_sched_indep_proved : forall ws, exact_sums ws ->
  forall ts1 ts2 tol maxo order fuel idx k p0,
  hilbert_partition_s ts1 tol maxo order fuel idx ws k p0
  = hilbert_partition_s ts2 tol maxo order fuel idx ws k p0.
Proof. exact hilbert_sched_indep_proved. Qed.
Print Assumptions C09_hilbert_sched_indep_proved.
Theorem C09_hilbert_sched_is_sequential_proved : forall ts tol maxo order fuel idx zs k p0,
  Forall (fun z => (0 <= z)%Z) zs -> (sumZ zs <= 2 ^ 53)%Z ->
  hilbert_partition_s ts tol maxo order fuel idx (map oz zs) k p0
  = hilbert_partition tol maxo order fuel idx (map oz zs) k p0.
Proof. exact hilbert_partition_s_seq_proved. Qed.
Theorem C09_histogram_sched_indep_proved : forall t positions n pts zs,
  Forall (fun z => (0 <= z)%Z) zs -> (sumZ zs <= 2 ^ 53)%Z ->
  part_weights_sched t positions n pts (map oz zs)
  = part_weights_of positions pts (map oz zs) (repeat fzero n).
Proof. exact part_weights_sched_seq_proved. Qed.
Print Assumptions C09_hilbert_sched_is_sequential_proved.
Print Assumptions C09_histogram_sched_indep_proved.

(* ... and equals the sequential model the correspondence run executes *)
Theorem C09_hilbert_sched_is_sequential : f64_add_exact_on_integers ->
  forall ts tol maxo order fuel idx zs k p0,
  Forall (fun z => (0 <= z)%Z) zs -> (sumZ zs <= 2 ^ 53)%Z ->
  hilbert_partition_s ts tol maxo order fuel idx (map oz zs) k p0
  = hilbert_partition tol maxo order fuel idx (map oz zs) k p0.
Proof. exact hilbert_partition_s_seq. Qed.
Print Assumptions C09_hilbert_sched_is_sequential.

(* one round: the histogram for any split tree = the sequential fold *)
Theorem C09_histogram_sched_indep : f64_add_exact_on_integers ->
  forall t positions n pts zs,
  Forall (fun z => (0 <= z)%Z) zs -> (sumZ zs <= 2 ^ 53)%Z ->
  part_weights_sched t positions n pts (map oz zs)
  = part_weights_of positions pts (map oz zs) (repeat fzero n).
Proof. exact part_weights_sched_seq. Qed.
Print Assumptions C09_histogram_sched_indep.

(* instances of the assumed float fact, and a run with two different schedules *)
Example C09_f64_add_exact_instances :
  f64_add (f64_of_Z 3) (f64_of_Z 5) = f64_of_Z 8
  /\ f64_add (f64_of_Z (2 ^ 52)) (f64_of_Z (2 ^ 52)) = f64_of_Z (2 ^ 53)
  /\ f64_add (f64_of_Z 0) (f64_of_Z 7) = f64_of_Z 7
  /\ f64_add (f64_of_Z 123456789012) (f64_of_Z 987654321) = f64_of_Z 124444443333.
Proof. vm_compute. repeat split; reflexivity. Qed.
Example C09_nonvacuous_sched :
  let ws := map oz [1; 2; 3; 1; 1; 2; 1; 1]%Z in
  let idx := [0; 9; 18; 27; 36; 45; 54; 63]%N in
  hilbert_partition_s (fun _ => Node 3 (Node 1 Leaf Leaf) (Node 2 Leaf Leaf)) (f64_of_bits hilbert_split_tolerance_bits) 32 3 100 idx ws 4 (repeat 9%N 8)
  = hilbert_partition_s (fun _ => Leaf) (f64_of_bits hilbert_split_tolerance_bits) 32 3 100 idx ws 4 (repeat 9%N 8).
Proof. vm_compute. reflexivity. Qed.

(* GROUNDWORK for termination in the exact-sums regime (integer-valued
   non-negative weights, total <= 2^53; NOT a termination theorem): f64 `-` and
   `<` on integers of magnitude <= 2^53 are the integer operations, and in every
   round of the quantile search the per-part weights, their prefix sums and the
   total are the exact integers, for ANY position vector (sorted or not).
   What is still missing for `C09_quantiles_terminate_exact_sums` is the bracket
   invariant (docs/C09.md). *)
Theorem C09_f64_sub_exact : forall a b : Z,
  (Z.abs a <= 2 ^ 53)%Z -> (Z.abs b <= 2 ^ 53)%Z -> (Z.abs (a - b) <= 2 ^ 53)%Z ->
  f64_sub (f64_of_Z a) (f64_of_Z b) = f64_of_Z (a - b).
Proof. exact f64_sub_exact. Qed.
Theorem C09_flt_on_integers : forall a b : Z, (Z.abs a <= 2 ^ 53)%Z -> (Z.abs b <= 2 ^ 53)%Z ->
  flt (f64_of_Z a) (f64_of_Z b) = (a <? b)%Z.
Proof. exact flt_oz. Qed.
Theorem C09_round_sums_exact : forall positions n pts zs,
  1 <= n -> Forall (fun z => (0 <= z)%Z) zs -> (sumZ zs <= 2 ^ 53)%Z ->
  match pwZ positions pts zs (repeat 0%Z n) with
  | Ok h =>
      part_weights_of positions pts (map oz zs) (repeat fzero n) = Ok (map oz h)
      /\ prefix_sums fzero (map oz h) = map oz (prefixZ 0 h)
      /\ fold_left f64_add (map oz h) fnegzero = oz (sumZ h)
      /\ Forall (fun z => (0 <= z)%Z) h /\ (sumZ h <= sumZ zs)%Z /\ length h = n
  | Err e => part_weights_of positions pts (map oz zs) (repeat fzero n) = Err e
  | Panic s => part_weights_of positions pts (map oz zs) (repeat fzero n) = Panic s
  | OutOfFuel => part_weights_of positions pts (map oz zs) (repeat fzero n) = OutOfFuel
  end.
Proof. exact round_sums_exact. Qed.
Print Assumptions C09_f64_sub_exact.
Print Assumptions C09_flt_on_integers.
Print Assumptions C09_round_sums_exact.

(* fuel is only a bound: a result obtained with some fuel is the result with any
   larger fuel -- so "the model returns Ok with fuel F on this case" (checked on
   every exact correspondence case with F = 2000) means that the unbounded
   `while` loop of the model terminates on that case with that result *)
Theorem C09_quantiles_fuel_mono : forall tol fuel fuel' pts ws n r,
  weighted_quantiles tol fuel pts ws n = Ok r -> fuel <= fuel' -> weighted_quantiles tol fuel' pts ws n = Ok r.
Proof. exact weighted_quantiles_fuel_mono. Qed.
Theorem C09_hilbert_fuel_mono : forall tol maxo order fuel fuel' idx ws k p0 r,
  hilbert_partition tol maxo order fuel idx ws k p0 = Ok r -> fuel <= fuel' ->
  hilbert_partition tol maxo order fuel' idx ws k p0 = Ok r.
Proof. exact hilbert_partition_fuel_mono. Qed.
Print Assumptions C09_quantiles_fuel_mono.
Print Assumptions C09_hilbert_fuel_mono.

(* the checker used on the implementation's outputs decides the property *)
Theorem C09_check_monotone_ok : forall idx parts,
  check_monotone idx parts = true <-> (length idx = length parts /\ mono_pairs (combine idx parts)).
Proof. exact check_monotone_ok. Qed.
Print Assumptions C09_check_monotone_ok.

(* ---- ZCurve ---- *)

(* z_curve_partition at the constants of the current source (chunk guard, order limit) *)
Definition zcurve_impl_2d := zcurve zcurve_chunk_guard 4 zcurve_max_order_2d.
Definition zcurve_impl_3d := zcurve zcurve_chunk_guard 8 zcurve_max_order_3d.

(* on an array sorted by the quadrant, the library search with coupe's
   never-Equal comparator returns the partition point #{quadrant < n} *)
Theorem C09_split_positions : forall key L, StronglySorted (key_le key) L -> forall ns,
  split_positions key L ns = Ok (map (fun n => cut key n L) ns).
Proof. exact split_positions_spec. Qed.
Print Assumptions C09_split_positions.

(* the quadrant recursion: for every quadrant function with values < 2^D and
   every sort oracle, no panic, and the result is a permutation of its input
   sorted by the depth-[order] cell (early stops on slices of length <= 1 included) *)
Theorem C09_zcurve_recursion_sorts : forall nq q sorter,
  1 <= nq -> sort_contract sorter -> (forall path x, (q path x < N.of_nat nq)%N) ->
  forall order path permu,
  exists r, zrec nq q sorter order path permu = Ok r /\ Permutation r permu
            /\ StronglySorted (Rc q order path) r.
Proof. exact zrec_spec. Qed.
Print Assumptions C09_zcurve_recursion_sorts.

(* sizes differ by at most one and sum to n; with more parts than points the
   first n parts hold one point each and the others none *)
Theorem C09_chunk_sizes : forall n k, 1 <= k ->
  list_sum (block_sizes n k) = n
  /\ (forall j j', j < k -> j' < k -> chunk_size n k j <= chunk_size n k j' + 1)
  /\ (forall j, k <= j -> chunk_size n k j = 0)
  /\ (k <= n -> forall j, j < k -> 1 <= chunk_size n k j)
  /\ (n < k -> forall j, chunk_size n k j = if Nat.ltb j n then 1 else 0).
Proof. exact chunk_sizes. Qed.
Print Assumptions C09_chunk_sizes.

(* the whole call inside the contract (lengths agree, order accepted,
   part_count >= 1): it returns, and some permutation of the points sorted by
   cell is cut into consecutive blocks of sizes [block_sizes n k], block j
   being part j *)
Theorem C09_zcurve_runs_2d : forall q sorter order k n p0,
  sort_contract sorter -> (forall path x, (q path x < 4)%N) ->
  length p0 = n -> order <= zcurve_max_order_2d -> 1 <= k ->
  exists p, zcurve_impl_2d q sorter order k n p0 = Ok p /\ length p = n
    /\ exists perm, Permutation perm (seq 0 n)
         /\ StronglySorted (Rc q order []) perm
         /\ runs_ok p perm (block_sizes n k) 0%N.
Proof. exact (fun q sorter order k n p0 Hs Hq => zcurve_runs 4 zcurve_max_order_2d q sorter order k n p0 (le_S _ _ (le_S _ _ (le_S _ _ (le_n 1)))) Hs Hq). Qed.
Theorem C09_zcurve_runs_3d : forall q sorter order k n p0,
  sort_contract sorter -> (forall path x, (q path x < 8)%N) ->
  length p0 = n -> order <= zcurve_max_order_3d -> 1 <= k ->
  exists p, zcurve_impl_3d q sorter order k n p0 = Ok p /\ length p = n
    /\ exists perm, Permutation perm (seq 0 n)
         /\ StronglySorted (Rc q order []) perm
         /\ runs_ok p perm (block_sizes n k) 0%N.
Proof. exact (fun q sorter order k n p0 Hs Hq => zcurve_runs 8 zcurve_max_order_3d q sorter order k n p0 (Nat.lt_le_incl _ _ (Nat.lt_le_incl _ _ (Nat.lt_le_incl _ _ (Nat.lt_le_incl _ _ (Nat.lt_le_incl _ _ (Nat.lt_le_incl _ _ (Nat.lt_le_incl _ _ (le_n 8)))))))) Hs Hq). Qed.
Print Assumptions C09_zcurve_runs_2d.
Print Assumptions C09_zcurve_runs_3d.

(* ids are below min(part_count, n) *)
Theorem C09_zcurve_ids_lt : forall nq maxo q sorter order k n p0 p,
  1 <= nq -> sort_contract sorter -> (forall path x, (q path x < N.of_nat nq)%N) ->
  length p0 = n -> order <= maxo -> 1 <= k ->
  zcurve true nq maxo q sorter order k n p0 = Ok p ->
  Forall (fun x => (x < N.of_nat (Nat.min k n))%N) p.
Proof. exact zcurve_ids_lt. Qed.
Print Assumptions C09_zcurve_ids_lt.

(* the model's outputs have the property the checkers test *)
Theorem C09_zcurve_has_property : forall nq maxo q sorter order k n p0,
  1 <= nq -> sort_contract sorter -> (forall path x, (q path x < N.of_nat nq)%N) ->
  length p0 = n -> order <= maxo -> 1 <= k ->
  exists p, zcurve true nq maxo q sorter order k n p0 = Ok p
    /\ zcurve_property (map (zcode q order []) (seq 0 n)) p k.
Proof. exact zcurve_has_property. Qed.
Print Assumptions C09_zcurve_has_property.

(* the checkers: [check_runs] (the run's own permutation as witness) decides
   [runs_witness]; the witness-free [check_zparts] accepts every output that
   has the property, so its [false] is a genuine failure *)
Theorem C09_check_runs_ok : forall codes perm parts k,
  check_runs codes perm parts k = true <-> runs_witness codes perm parts k.
Proof. exact check_runs_ok. Qed.
Theorem C09_check_zparts_false : forall codes parts k,
  check_zparts codes parts k = false -> ~ zcurve_property codes parts k.
Proof. exact check_zparts_false. Qed.
Print Assumptions C09_check_runs_ok.
Print Assumptions C09_check_zparts_false.

(* the sort oracle's contract is satisfiable (the instance used to execute the model) *)
Theorem C09_sort_contract_inhabited : sort_contract sort_by_key.
Proof. exact sort_by_key_contract. Qed.
Print Assumptions C09_sort_contract_inhabited.

(* the model asks the quadrant oracle about a point only along that point's own
   path and above depth [order]: running it with the oracle rebuilt from the codes
   the hook records = running it with the quadrant function that produced them *)
Theorem C09_zcurve_codes_oracle : forall guard nq maxo q sorter order k n p0,
  1 <= nq -> sort_contract sorter -> sorter_ext sorter ->
  (forall path x, (q path x < N.of_nat nq)%N) ->
  zcurve guard nq maxo q sorter order k n p0
  = zcurve guard nq maxo (oracle_of_codes (map (zcode q order []) (seq 0 n))) sorter order k n p0.
Proof. exact zcurve_codes_oracle. Qed.
Theorem C09_sorter_ext_inhabited : sorter_ext sort_by_key.
Proof. exact sort_by_key_ext. Qed.
Print Assumptions C09_zcurve_codes_oracle.
Print Assumptions C09_sorter_ext_inhabited.

(* ---- the geometric clause: "sorted by their Z-order cell at the requested
   depth" -- the cell a point is sorted by must be a cell that CONTAINS the
   point (box arithmetic of src/geometry.rs on f64: center, contains with its
   10*EPSILON tolerance, region, sub_aabb) ---- *)

(* `region(p) = Some q -> sub_aabb(q).contains(p)` for the code's midpoint
   (min+max)/2, wherever the tolerance of `contains` is effective at the
   midlines of the box (c - eps < c < c + eps in f64: true for |c| < 32) *)
Theorem C09_region_sub_contains : forall b p q,
  forallb eps_effective (center b) = true ->
  region b p = Some q -> contains (sub_aabb b q) p = true.
Proof. exact region_sub_contains. Qed.
Print Assumptions C09_region_sub_contains.

(* hence the quadrants the model computes for a point that the top-level box
   contains always pass the cell checker *)
Theorem C09_model_codes_in_cells : forall order b p,
  contains b p = true -> cells_contain (2 ^ N.of_nat (length b)) (geo_codes order b p) b p = true.
Proof. exact geo_codes_in_cells. Qed.
Print Assumptions C09_model_codes_in_cells.

(* the cell checker decides its specification (two-way) *)
Theorem C09_check_cells_ok : forall nq b pts codes,
  check_cells nq b pts codes = true <-> cells_property nq b pts codes.
Proof. exact check_cells_ok. Qed.
Print Assumptions C09_check_cells_ok.

(* f64 `<` (SpecFloat) is transitive; used for the lemma above *)
Theorem C09_flt_trans : forall a b c, flt a b = true -> flt b c = true -> flt a c = true.
Proof. exact flt_trans. Qed.
Print Assumptions C09_flt_trans.

(* non-vacuity: a point ON the midline x = 20 of the box [-30,70]x[0,10] goes to the lower
   half, whose tolerance keeps it inside; at |c| >= 32 the tolerance is void *)
Example C09_nonvacuous_midline :
  let b := [(f64_of_Z (-30), f64_of_Z 70); (f64_of_Z 0, f64_of_Z 10)] in
  let p := [f64_of_Z 20; f64_of_Z 3] in
  geo_codes 3 b p = [0; 3; 1]%N /\ cells_contain 4 [0; 3; 1]%N b p = true
  /\ eps_effective (f64_of_Z 20) = true /\ eps_effective (f64_of_Z 40) = false.
Proof. vm_compute. repeat split; reflexivity. Qed.

(* non-vacuity: six points in the 2-D quadrants 3,0,2,0,1,3 at depth 1, three
   parts: the run returns and each part is a run of the sorted order *)
Example C09_nonvacuous_zcurve :
  let q := fun (path : list N) (i : nat) => nth i [3;0;2;0;1;3]%N 0%N in
  zcurve_impl_2d q sort_by_key 1 3 6 [9;9;9;9;9;9]%N = Ok [2;0;1;0;1;2]%N
  /\ check_zparts (map (zcode q 1 []) (seq 0 6)) [2;0;1;0;1;2]%N 3 = true
  /\ check_runs (map (zcode q 1 []) (seq 0 6)) [1;3;4;2;0;5] [2;0;1;0;1;2]%N 3 = true.
Proof. vm_compute. repeat split; reflexivity. Qed.

(* more parts than points: ids 0..n-1, the remaining parts are empty *)
Example C09_nonvacuous_more_parts_than_points :
  let q := fun (path : list N) (i : nat) => nth i [1;0]%N 0%N in
  zcurve_impl_2d q sort_by_key 2 5 2 [9;9]%N = Ok [1;0]%N
  /\ block_sizes 2 5 = [1;1;0;0;0].
Proof. vm_compute. repeat split; reflexivity. Qed.

(* non-vacuity: an UNSORTED split vector, ids still monotone along the curve *)
Example C09_nonvacuous_unsorted_splits :
  assign_parts [10; 30; 20; 40]%N [5; 10; 15; 25; 35; 45; 20; 30]%N = Ok [0; 0; 1; 3; 3; 4; 2; 3]%N.
Proof. vm_compute. reflexivity. Qed.

(* the quantile search on a small input: 8 points on the curve, unit weights, 4 parts *)
Example C09_nonvacuous_quantiles :
  hilbert_impl_2d 3 100 [0;9;18;27;36;45;54;63]%N (repeat (f64_of_Z 1) 8) 4 (repeat 9%N 8)
  = Ok [0;0;1;1;2;2;3;3]%N.
Proof. vm_compute. reflexivity. Qed.

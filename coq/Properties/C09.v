(* C09 — space-filling-curve parts are contiguous runs of the curve.
   This file contains only the property theorems, each closed by [exact] of a
   lemma of Proofs/{SortingProofs,SfcProofs,ZCurveProofs}.v, with
   [Print Assumptions] beneath.  The models are instantiated with the literals
   the translator read from hilbert_curve.rs / z_curve.rs (Gen/SfcGen.v). *)
From Coupe Require Import Lib.Prelude Lib.SFloat Lib.Sorting Model.SfcPart
  Proofs.SortingProofs Proofs.SfcProofs Gen.SfcGen.
From Coq Require Import Floats.SpecFloat.
Open Scope nat_scope.

(* ---- what the model relies on in the source, re-read on every run ---- *)

(* weighted_quantiles keeps one split per part boundary (no `dedup`), and the
   part id of a point is `(Ok(i) | Err(i)) = split_positions.binary_search(&index)` *)
Theorem C09_source_shape :
  hilbert_splits_dedup = false /\ hilbert_part_is_binary_search_of_index = true
  /\ zcurve_chunk_guard = true.
Proof. repeat split; exact eq_refl. Qed.

(* the implementation's entry points: the models at the constants of the current source *)
Definition hilbert_impl_2d := hilbert_partition (f64_of_bits hilbert_split_tolerance_bits) hilbert_max_order_2d.
Definition hilbert_impl_3d := hilbert_partition (f64_of_bits hilbert_split_tolerance_bits) hilbert_max_order_3d.

(* ---- the library's binary search, on ANY array (sorted or not) ---- *)

Theorem C09_bsearch_mono : forall (a : list N) (k1 k2 : N), (k1 <= k2)%N ->
  exists i1 i2, bsearch_idx a k1 = Ok i1 /\ bsearch_idx a k2 = Ok i2 /\ i1 <= i2.
Proof. exact bsearch_mono. Qed.
Print Assumptions C09_bsearch_mono.

(* no out-of-range read, no fuel exhaustion, result <= len *)
Theorem C09_bsearch_le_len : forall (a : list N) (k : N),
  exists i, bsearch_idx a k = Ok i /\ i <= length a.
Proof. exact bsearch_le_len. Qed.
Print Assumptions C09_bsearch_le_len.

(* ---- HilbertCurve ---- *)

(* for EVERY vector of split positions: idx p < idx q -> part p <= part q,
   idx p = idx q -> part p = part q, ids <= number of splits *)
Theorem C09_hilbert_monotone : forall (splits idx ids : list N),
  assign_parts splits idx = Ok ids ->
  length ids = length idx
  /\ mono_pairs (combine idx ids)
  /\ Forall (fun p => (p <= N.of_nat (length splits))%N) ids.
Proof. exact hilbert_monotone. Qed.
Print Assumptions C09_hilbert_monotone.

Theorem C09_hilbert_assign_total : forall splits idx, exists ids, assign_parts splits idx = Ok ids.
Proof. exact assign_parts_total. Qed.
Print Assumptions C09_hilbert_assign_total.

(* weighted_quantiles returns part_count - 1 positions whenever it returns *)
Theorem C09_quantiles_length : forall tol fuel pts ws n splits,
  weighted_quantiles tol fuel pts ws n = Ok splits -> n >= 1 /\ length splits = n - 1.
Proof. exact weighted_quantiles_length. Qed.
Print Assumptions C09_quantiles_length.

(* the whole call, 2-D and 3-D, every run that returns Ok *)
Theorem C09_hilbert_2d : forall order fuel idx ws k p0 p,
  p0 <> [] -> length idx = length p0 ->
  hilbert_impl_2d order fuel idx ws k p0 = Ok p ->
  (order <= hilbert_max_order_2d)%N /\ k >= 1 /\ length p = length p0
  /\ mono_pairs (combine idx p) /\ Forall (fun x => (x < N.of_nat k)%N) p.
Proof. exact (hilbert_partition_monotone _ _). Qed.
Theorem C09_hilbert_3d : forall order fuel idx ws k p0 p,
  p0 <> [] -> length idx = length p0 ->
  hilbert_impl_3d order fuel idx ws k p0 = Ok p ->
  (order <= hilbert_max_order_3d)%N /\ k >= 1 /\ length p = length p0
  /\ mono_pairs (combine idx p) /\ Forall (fun x => (x < N.of_nat k)%N) p.
Proof. exact (hilbert_partition_monotone _ _). Qed.
Print Assumptions C09_hilbert_2d.
Print Assumptions C09_hilbert_3d.

(* the checker used on the implementation's outputs decides the property *)
Theorem C09_check_monotone_ok : forall idx parts,
  check_monotone idx parts = true <-> (length idx = length parts /\ mono_pairs (combine idx parts)).
Proof. exact check_monotone_ok. Qed.
Print Assumptions C09_check_monotone_ok.

(* non-vacuity: an UNSORTED split vector, ids still monotone along the curve *)
Example C09_nonvacuous_unsorted_splits :
  assign_parts [10; 30; 20; 40]%N [5; 10; 15; 25; 35; 45; 20; 30]%N = Ok [0; 0; 1; 3; 3; 4; 2; 3]%N.
Proof. vm_compute. reflexivity. Qed.

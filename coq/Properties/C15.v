(* C15 — KernighanLin never increases the cut and preserves part sizes. *)
From Coupe Require Import Lib.Prelude Lib.Graph Model.Kl Proofs.KlProofs Gen.KlGen.
Open Scope Z_scope.

Example C15_nonvacuous :
  kl {| max_passes := None; max_flips := None; max_bad := 1; old_scan := kl_first_scan_unwraps; old_rewind := kl_rewind_keeps_first_swap |}
     10 [[(1%nat,1)];[(0%nat,1);(2%nat,1)];[(1%nat,1);(3%nat,1)];[(2%nat,1)]] 4 [0;1;0;1]%N = Ok [0;0;1;1]%N.
Proof. vm_compute. reflexivity. Qed.

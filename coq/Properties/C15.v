(* C15 — KernighanLin never increases the cut and preserves part sizes.
   This file contains only the property theorems, each closed by [exact] of a
   lemma of Proofs/KlProofs.v, with [Print Assumptions] beneath.  The model is
   instantiated with the three flags the translator read from kernighan_lin.rs
   (Gen/KlGen.v): were the source to fall back to the pinned tree's candidate
   scan or rewind rule, [eq_refl] below would no longer type-check. *)
From Coupe Require Import Lib.Prelude Lib.Graph Model.Kl Proofs.KlProofs Gen.KlGen.
Open Scope Z_scope.

(* the implementation's entry point: the model at the flags of the current source; [sp] says
   which edge_cut the topology type has (true: CsMatView's override; false: the provided
   method of the Topology trait -- Grid, &T, any user type) *)
Definition kl_cfg_impl (sp : bool) (mp mf : option N) (mb : N) : kl_cfg :=
  {| max_passes := mp; max_flips := mf; max_bad := mb;
     old_scan := kl_first_scan_unwraps; old_rewind := kl_rewind_keeps_first_swap;
     few_ids_return := kl_few_ids_return; sprs_cut := sp |}.
Definition kl_impl sp mp mf mb := kl (kl_cfg_impl sp mp mf mb).

(* part sizes: same length, every part id labels as many vertices as before
   (every graph, every partition, every limit, either cut function) *)
Theorem C15_sizes : forall sp mp mf mb fuel g wlen p q,
  kl_impl sp mp mf mb fuel g wlen p = Ok q -> length q = length p /\ same_sizes p q.
Proof. exact (fun sp mp mf mb => kl_sizes (kl_cfg_impl sp mp mf mb)). Qed.
Print Assumptions C15_sizes.

(* the cut as the code computes it never increases: every graph, symmetric or not, rows in any
   order, every partition, every value of the three limits *)
Theorem C15_cut_not_worse_own : forall sp mp mf mb fuel g wlen p q,
  kl_impl sp mp mf mb fuel g wlen p = Ok q -> cut_of sp g q <= cut_of sp g p.
Proof. exact (fun sp mp mf mb fuel g wlen p q => kl_cut_not_worse_own (kl_cfg_impl sp mp mf mb) fuel g wlen p q eq_refl). Qed.
Print Assumptions C15_cut_not_worse_own.

(* Topology::edge_cut never increases on a topology that uses the trait's own edge_cut
   (coupe::Grid, adjacency lists in any neighbour order) ... *)
Theorem C15_cut_not_worse_generic : forall mp mf mb fuel g wlen p q,
  kl_impl false mp mf mb fuel g wlen p = Ok q -> edge_cut g q <= edge_cut g p.
Proof. exact (fun mp mf mb fuel g wlen p q => kl_cut_not_worse_generic (kl_cfg_impl false mp mf mb) fuel g wlen p q eq_refl eq_refl). Qed.
Print Assumptions C15_cut_not_worse_generic.

(* ... and on a CSR matrix (rows sorted by column), where the override computes the same value *)
Theorem C15_cut_not_worse : forall sp mp mf mb fuel g wlen p q, (sp = true -> rows_sorted g) ->
  kl_impl sp mp mf mb fuel g wlen p = Ok q -> edge_cut g q <= edge_cut g p.
Proof. exact (fun sp mp mf mb fuel g wlen p q => kl_cut_not_worse (kl_cfg_impl sp mp mf mb) fuel g wlen p q eq_refl). Qed.
Print Assumptions C15_cut_not_worse.

(* no panic inside the contract: square matrix with in-range columns, one weight per
   vertex, at most two part ids in use (two non-empty parts, one part, or an empty input) *)
Theorem C15_no_panic : forall sp mp mf mb fuel g wlen p s,
  wf_graph g (length p) -> (length p <= wlen)%nat -> (length (uniq [] p) <= 2)%nat ->
  kl_impl sp mp mf mb fuel g wlen p <> Panic s.
Proof. exact (fun sp mp mf mb fuel g wlen p s => kl_no_panic (kl_cfg_impl sp mp mf mb) fuel g wlen p s eq_refl eq_refl eq_refl). Qed.
Print Assumptions C15_no_panic.

(* termination: with non-negative edge weights (initial cut + 2) passes are enough,
   whatever max_passes is (None included) *)
Theorem C15_terminates : forall sp mp mf mb fuel g wlen p,
  nonneg_edges g -> (kl_fuel sp g p <= fuel)%nat -> kl_impl sp mp mf mb fuel g wlen p <> OutOfFuel.
Proof. exact (fun sp mp mf mb => kl_terminates (kl_cfg_impl sp mp mf mb)). Qed.
Print Assumptions C15_terminates.

(* the property in one statement *)
Theorem C15_holds : forall sp mp mf mb g wlen p,
  wf_graph g (length p) -> (sp = true -> rows_sorted g) -> nonneg_edges g ->
  (length p <= wlen)%nat -> (length (uniq [] p) <= 2)%nat ->
  exists q, kl_impl sp mp mf mb (kl_fuel sp g p) g wlen p = Ok q /\
            length q = length p /\ same_sizes p q /\ edge_cut g q <= edge_cut g p.
Proof. exact (fun sp mp mf mb g wlen p => kl_total (kl_cfg_impl sp mp mf mb) g wlen p eq_refl eq_refl eq_refl). Qed.
Print Assumptions C15_holds.

(* the checker run on the implementation's outputs decides the property *)
Theorem C15_checker_ok : forall g p p',
  check_C15 g p p' = true <-> (length p' = length p /\ same_sizes p p' /\ edge_cut g p' <= edge_cut g p).
Proof. exact check_C15_ok. Qed.
Print Assumptions C15_checker_ok.

(* why the cut function is a parameter: on rows that are not sorted the CsMatView override
   (take_while) and Topology::edge_cut disagree *)
Theorem C15_cut_sprs_differs_unsorted :
  edge_cut grid22_unsorted [0;1;1;0]%N = 4 /\ edge_cut_sprs grid22_unsorted [0;1;1;0]%N = 3.
Proof. exact cut_sprs_differs_unsorted. Qed.

(* regression: what the three repaired defects did (model with the old flags) *)
Theorem C15_old_rewind_refuted :
  exists q, kl (kl_cfg_of None (Some 1%N) 1%N false true) 10 path4 4 [0;0;1;1]%N = Ok q
            /\ edge_cut path4 [0;0;1;1]%N = 1 /\ edge_cut path4 q = 2.
Proof. exact kl_old_rewind_refuted. Qed.
Theorem C15_old_empty_saves_panics :
  kl (kl_cfg_of None None 0%N false true) 10 path4 4 [0;0;1;1]%N = Panic 4.
Proof. exact kl_old_empty_saves_panics. Qed.
Theorem C15_old_scan_panics :
  kl (kl_cfg_of None None 3%N true true) 10 path4 4 [0;1;1;1]%N = Panic 5
  /\ kl (kl_cfg_of None None 3%N true true) 10 path4 4 [0;0;0;1]%N = Panic 3.
Proof. exact kl_old_scan_panics. Qed.

Theorem C15_old_one_part_panics :
  kl {| max_passes := None; max_flips := None; max_bad := 1%N; old_scan := false; old_rewind := false;
        few_ids_return := false; sprs_cut := true |} 10 path4 4 [0;0;0;0]%N = Panic 1
  /\ kl (kl_cfg_of None None 1%N false false) 10 path4 4 [0;0;0;0]%N = Ok [0;0;0;0]%N
  /\ kl (kl_cfg_of None None 1%N false false) 10 [] 0 [] = Ok [].
Proof. exact kl_old_one_part_panics. Qed.

(* non-vacuity: the 2x4 grid of the doc example, in the contract, improved from cut 6 to cut 2;
   an unbalanced 3|1 input on which a side runs out of free vertices *)
Definition grid24 : graph :=
  [[(1%nat,1);(4%nat,1)]; [(0%nat,1);(2%nat,1);(5%nat,1)]; [(1%nat,1);(3%nat,1);(6%nat,1)]; [(2%nat,1);(7%nat,1)];
   [(0%nat,1);(5%nat,1)]; [(1%nat,1);(4%nat,1);(6%nat,1)]; [(2%nat,1);(5%nat,1);(7%nat,1)]; [(3%nat,1);(6%nat,1)]].
Example C15_nonvacuous :
  wf_graphb grid24 8 = true /\ rows_sortedb grid24 = true /\ symmetricb grid24 = true /\ pos_edgesb grid24 = true
  /\ uniq [] [0;0;1;1;0;1;0;1]%N = [0;1]%N
  /\ kl_impl true None None 1%N (kl_fuel true grid24 [0;0;1;1;0;1;0;1]%N) grid24 8 [0;0;1;1;0;1;0;1]%N = Ok [0;0;1;1;0;0;1;1]%N
  /\ edge_cut grid24 [0;0;1;1;0;1;0;1]%N = 6 /\ edge_cut grid24 [0;0;1;1;0;0;1;1]%N = 2.
Proof. repeat split; vm_compute; reflexivity. Qed.
Example C15_nonvacuous_unbalanced :
  kl_impl true None None 3%N (kl_fuel true path4 [0;1;1;1]%N) path4 4 [0;1;1;1]%N = Ok [0;1;1;1]%N
  /\ kl_impl false None None 1%N (kl_fuel false grid22_unsorted [0;1;1;0]%N) grid22_unsorted 4 [0;1;1;0]%N = Ok [0;1;0;1]%N.
Proof. split; vm_compute; reflexivity. Qed.

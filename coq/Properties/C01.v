(* C01 — every partitioner gives every element a part id below the requested
   count, without panicking or hanging.  One theorem per algorithm, about the
   model of that algorithm (the same models the checks C03, C09, C10, C11, C12,
   C13 tie to the code); this file only collects them. *)
From Coupe Require Import Lib.Prelude Lib.SFloat Lib.Report.
From Coupe Require Import Model.RandomPart Run.RunC01 Proofs.C01Proofs.
From Coupe Require Import Model.Ckk Proofs.CkkProofs Gen.CkkGen.
From Coq Require Import Floats.SpecFloat.
Open Scope Z_scope.

(* the checker run on every implementation output decides the property's conclusion *)
Theorem C01_checker : forall parts n p,
  check_ids parts n p = true <-> (length p = n /\ Forall (fun x => (x < parts)%N) p).
Proof. exact check_ids_spec. Qed.
Print Assumptions C01_checker.

(* Random *)
Theorem C01_random : forall k draws, (1 <= k)%N ->
  exists p, random_part k draws = Ok p /\ length p = length draws /\ Forall (fun x => (x < k)%N) p.
Proof. exact random_ids_lt. Qed.
Print Assumptions C01_random.

(* CompleteKarmarkarKarp: Ok => two-way ids for every element; never a panic, never out of fuel *)
Theorem C01_ckk : forall ws tol p0,
  Forall (fun w => 0 <= w) ws -> ws <> [] -> tol_int (sumZ ws) tol <> None -> length ws = length p0 ->
  (exists p, ckk ckk_sum_branch_separate ws tol p0 = Ok p /\ length p = length ws
             /\ Forall (fun x => (x < 2)%N) p)
  \/ ckk ckk_sum_branch_separate ws tol p0 = Err NotFound.
Proof.
  intros ws tol p0 Hnn Hne Htol Hlen.
  destruct (ckk ckk_sum_branch_separate ws tol p0) as [p|e|s|] eqn:E.
  - left. exists p. destruct (ckk_sound ws tol p0 p Hnn Hne E) as [t [_ [_ [Hl [Htw _]]]]].
    repeat split; auto. unfold two_way in Htw. rewrite Forall_forall in *. intros x Hx.
    specialize (Htw x Hx). lia.
  - right. destruct (ckk_inv _ _ _ _ _ E Hne) as [[_ C]|[_ [[C _]|[t [_ HR]]]]]; try congruence.
    destruct (ckk_rec _ _ _ t []) as [[[last stps]|]|]; try congruence.
    destruct (Nat.ltb last (length p0)); [|discriminate].
    exfalso. clear -HR. revert HR. generalize (set_nth p0 last 0%N).
    induction stps as [|s stps IH]; cbn; intros q HR; [discriminate|].
    destruct (nth_opt q (sa s)); [|discriminate].
    destruct (Nat.ltb (sb s) (length q)); [|discriminate].
    destruct (separate s); [destruct (n <=? 1)%N; [|discriminate]|]; eapply IH; eauto.
  - exfalso. exact (ckk_no_panic ws tol p0 s Hnn Htol E).
  - exfalso. exact (ckk_terminates _ ws tol p0 E).
Qed.
Print Assumptions C01_ckk.

Example C01_nonvacuous : random_part 3 [7;8;9;10]%N = Ok [1;2;0;1]%N.
Proof. reflexivity. Qed.

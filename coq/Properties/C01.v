(* C01 — every partitioner gives every element a part id below the requested
   count, without panicking or hanging.

   One theorem per algorithm of the property's list, each ABOUT THE MODEL OF
   THAT ALGORITHM (the same model, at the same generated constants, that the
   check of the algorithm's own property ties to the code: C03 Rcb/Rib, C09
   HilbertCurve/ZCurve, C10 Grid::rcb, C11 MultiJagged, C12 Greedy/KarmarkarKarp,
   C13 CompleteKarmarkarKarp), each of the shape

     usage contract -> the model returns Ok ids /\ length ids = n /\ every id < parts

   (Ok excludes Panic and OutOfFuel).  This file only collects: every theorem
   is closed by [exact] of a lemma of Proofs/C01Collect.v, which derives it from
   the PROPERTY THEOREMS of the algorithm's own Properties/Cxx.v (by name, so a
   refactoring inside a development does not reach this file).  The models are
   the instantiated ones of those files ([C03.rcb_impl], [C09.zcurve_impl_2d],
   [C10.gridrcb_impl], [C13.ckk_impl], ...).  Where that development proves
   only part of the statement the theorem is named [..._partial] and the
   comment says what is missing.  Names are qualified (Rcb.box_ok32,
   SfcPart.zcurve, ...) because the developments reuse short names. *)
From Coupe Require Import Lib.Prelude Lib.SFloat Lib.Report.
From Coupe Require Import Model.RandomPart Run.RunC01 Proofs.C01Proofs.
From Coupe Require Proofs.C01Collect.
From Coupe Require Properties.C03 Properties.C09 Properties.C10 Properties.C13.
From Coupe Require Proofs.RcbBox Proofs.MultiJaggedTotal Proofs.RcbTotalInfInst.
From Coupe Require Model.Rcb Proofs.RcbInst Model.SfcPart Proofs.ZCurveProofs
  Model.MultiJagged Proofs.MultiJaggedProofs Model.NumPart Model.Greedy Model.Kk Proofs.NumPartLemmas Lib.Sorting
  Model.Ckk Model.GridRcb Proofs.GridRcbTree Proofs.GridRcbMedian Proofs.GridRcbFloat Run.RunC11.
From Coq Require Import Floats.SpecFloat Permutation QArith.QArith.
Import C01Collect.
Open Scope Z_scope.

(* the checker run on every implementation output decides the property's conclusion *)
Theorem C01_checker : forall parts n p,
  check_ids parts n p = true <-> (length p = n /\ Forall (fun x => (x < parts)%N) p).
Proof. exact check_ids_spec. Qed.
Print Assumptions C01_checker.

(* ---------------------------------------------------------------- Rcb, Rib *)

(* [C03.rcb_impl] = Rcb.rcb at the four flags the translator read from
   recursive_bisection.rs (Gen/RcbGen.v). *)

(* For every fuel, schedule and tolerance: IF the model returns Ok, one id has
   been written per point and every id is below 2^iter_count. *)
Theorem C01_rcb_range : forall fuel sched D k tol pts ws p0 p,
  RcbInst.coords_ok pts -> C03.rcb_impl fuel sched D k tol pts ws p0 = Ok p ->
  length p = length pts /\ (pts <> [] -> Forall (fun i => (i < 2 ^ N.of_nat k)%N) p).
Proof. exact RcbC.rcb_range. Qed.
Print Assumptions C01_rcb_range.

(* Matching lengths, D >= 1 coordinates per point, every coordinate a finite
   f64 value whose binary32 image is finite ([RcbBox.coords_in_f32_range], the
   contract of C03/C04): the model returns Ok for EVERY schedule -- no panic, no
   OutOfFuel -- with one id below 2^iter_count per point.  The float hypotheses
   of the cut search and the former premise box_ok32 are both DISCHARGED in C03
   with Flocq (classical-reals axioms); the fuel bound 2^33 is a termination
   bound, not a tight one (real searches need < 300 iterations).
   Still named PARTIAL, for one gap with respect to the property's contract
   ("finite coordinates"): finite f64 coordinates BEYOND the binary32 range
   (|x| > f32::MAX, image +-inf) are outside the premise; there termination
   and panic-freedom are observed by the runs of C03, not proved.  Weights
   are i64 (Z); f64 weights are run integer-valued only. *)
Theorem C01_rcb_partial : forall fuel (sched : N -> nat -> Rcb.stree) D k tol pts ws p0,
  (0 < D)%nat -> length ws = length p0 -> length pts = length p0 ->
  Forall (fun pt => length pt = D) pts -> RcbBox.coords_in_f32_range pts ->
  Z.of_nat fuel > 2 ^ 33 ->
  exists p, C03.rcb_impl fuel sched D k tol pts ws p0 = Ok p
            /\ length p = length pts /\ Forall (fun i => (i < 2 ^ N.of_nat k)%N) p.
Proof. exact RcbC.rcb_collect. Qed.
Print Assumptions C01_rcb_partial.

(* FULL for the coordinates of the usage contract (since dcc53e7 the three
   `as f32` casts clamp, so every finite f64 has a finite image): every
   coordinate a finite f64 -- no condition on its magnitude.  Weights i64 (Z). *)
Theorem C01_rcb_finite_f64 : forall fuel (sched : N -> nat -> Rcb.stree) D k tol pts ws p0,
  (0 < D)%nat -> length ws = length p0 -> length pts = length p0 ->
  Forall (fun pt => length pt = D) pts -> RcbTotalInfInst.coords_finite_f64 pts ->
  Z.of_nat fuel > 2 ^ 34 ->
  exists p, C03.rcb_impl fuel sched D k tol pts ws p0 = Ok p
            /\ length p = length pts /\ Forall (fun i => (i < 2 ^ N.of_nat k)%N) p.
Proof. exact Coupe.Properties.C03.C03_rcb_total_finite_f64. Qed.
Print Assumptions C01_rcb_finite_f64.

(* Rib = the same function applied to the points rotated into the inertia
   frame.  PARTIAL for the same reason as Rcb (rotated coordinates within the
   binary32 range), and additionally: the rotation (nalgebra's
   eigen-decomposition and Householder reflection) is not modelled; [rotated]
   is the array recorded by the `rib_points` hook, so the statement is about
   Rib given ANY rotated point set.  In particular it says nothing about the
   rotation step itself, which panics on finite coordinates of magnitude >=
   ~1e154 (inertia matrix overflows f64: open known finding
   obb-coordinate-overflow of this check; the same step precedes HilbertCurve
   and ZCurve, whose theorems below take its outputs -- curve indices, quadrant
   function -- as data). *)
Theorem C01_rib_partial : forall fuel (sched : N -> nat -> Rcb.stree) D k tol rotated ws p0,
  (0 < D)%nat -> length ws = length p0 -> length rotated = length p0 ->
  Forall (fun pt => length pt = D) rotated -> RcbBox.coords_in_f32_range rotated ->
  Z.of_nat fuel > 2 ^ 33 ->
  exists p, C03.rcb_impl fuel sched D k tol rotated ws p0 = Ok p
            /\ length p = length rotated /\ Forall (fun i => (i < 2 ^ N.of_nat k)%N) p.
Proof. exact RcbC.rcb_collect. Qed.
Print Assumptions C01_rib_partial.

(* ------------------------------------------------------------ HilbertCurve *)

(* [C09.hilbert_impl_2d/3d] = SfcPart.hilbert_partition at SPLIT_TOLERANCE and
   MAX_ORDER of the source (Gen/SfcGen.v).  [idx] =
   the curve index of every point (the encoders are C08's subject).

   PARTIAL.  Inside the contract (one index per element, part_count >= 1,
   accepted order): (a) for EVERY part count the model never panics and never
   answers with an error: it returns Ok with one id < part_count per element,
   or runs out of fuel; (b) for part_count <= 2, u64 indices and fuel >= 66 it
   returns Ok.  What is missing: termination of `weighted_quantiles` for
   part_count >= 3 (no decreasing measure is known, docs/C09.md); the "no
   hang" clause for those part counts is NOT proved. *)
Theorem C01_hilbert_2d_partial : forall order fuel idx ws k p0,
  length idx = length p0 -> (1 <= k)%nat -> (order <= SfcGen.hilbert_max_order_2d)%N ->
  ((exists p, C09.hilbert_impl_2d order fuel idx ws k p0 = Ok p
              /\ length p = length p0 /\ Forall (fun x => (x < N.of_nat k)%N) p)
   \/ C09.hilbert_impl_2d order fuel idx ws k p0 = OutOfFuel)
  /\ (Forall (fun x => (x < 2 ^ 64)%N) idx -> (k <= 2)%nat -> (66 <= fuel)%nat ->
      exists p, C09.hilbert_impl_2d order fuel idx ws k p0 = Ok p
                /\ length p = length p0 /\ Forall (fun x => (x < N.of_nat k)%N) p).
Proof. exact SfcC.hilbert_collect_2d. Qed.
Print Assumptions C01_hilbert_2d_partial.

Theorem C01_hilbert_3d_partial : forall order fuel idx ws k p0,
  length idx = length p0 -> (1 <= k)%nat -> (order <= SfcGen.hilbert_max_order_3d)%N ->
  ((exists p, C09.hilbert_impl_3d order fuel idx ws k p0 = Ok p
              /\ length p = length p0 /\ Forall (fun x => (x < N.of_nat k)%N) p)
   \/ C09.hilbert_impl_3d order fuel idx ws k p0 = OutOfFuel)
  /\ (Forall (fun x => (x < 2 ^ 64)%N) idx -> (k <= 2)%nat -> (66 <= fuel)%nat ->
      exists p, C09.hilbert_impl_3d order fuel idx ws k p0 = Ok p
                /\ length p = length p0 /\ Forall (fun x => (x < N.of_nat k)%N) p).
Proof. exact SfcC.hilbert_collect_3d. Qed.
Print Assumptions C01_hilbert_3d_partial.

(* ------------------------------------------------------------------ ZCurve *)

(* [C09.zcurve_impl_2d/3d] = SfcPart.zcurve at the chunk guard and the order
   limit of the source.  For EVERY quadrant function with values < 2^D (the
   box arithmetic is data: `mbr.region(p)` recorded by the hook) and EVERY sort
   oracle (any permutation sorted by the key; ties free): inside the contract
   the model returns Ok (it has no loop on fuel), one id < part_count per
   point -- more parts than points included. *)
Theorem C01_zcurve_2d : forall q sorter order k n p0,
  ZCurveProofs.sort_contract sorter -> (forall path x, (q path x < 4)%N) ->
  length p0 = n -> (order <= SfcGen.zcurve_max_order_2d)%nat -> (1 <= k)%nat ->
  exists p, C09.zcurve_impl_2d q sorter order k n p0 = Ok p
            /\ length p = n /\ Forall (fun x => (x < N.of_nat k)%N) p.
Proof. exact SfcC.zcurve_collect_2d. Qed.
Print Assumptions C01_zcurve_2d.

Theorem C01_zcurve_3d : forall q sorter order k n p0,
  ZCurveProofs.sort_contract sorter -> (forall path x, (q path x < 8)%N) ->
  length p0 = n -> (order <= SfcGen.zcurve_max_order_3d)%nat -> (1 <= k)%nat ->
  exists p, C09.zcurve_impl_3d q sorter order k n p0 = Ok p
            /\ length p = n /\ Forall (fun x => (x < N.of_nat k)%N) p.
Proof. exact SfcC.zcurve_collect_3d. Qed.
Print Assumptions C01_zcurve_3d.

(* ------------------------------------------------------------- MultiJagged *)

(* For every dimension, root oracle (root_ok; libm powf is not modelled), sort
   oracle, block decomposition of rayon's scan and order in which the leaves
   draw their number from the atomic counter (ord_ok).

   PARTIAL (1): for EVERY arithmetic -- binary64 with either setting of the
   Ulps epsilon included, in particular [RunC11.F64impl], the arithmetic the
   runs of C11 select from the source (C01_multijagged_range_f64impl below) --:
   IF the model returns Ok, one id < part_count has been written per element.  What is missing:
   that the binary64 model does return: see C01_multijagged_f64_partial (Ok
   given monotone cuts) and C01_multijagged_panic_sites_partial below. *)
Theorem C01_multijagged_range_partial :
  forall (A : MultiJagged.arith) (D npts : nat) (wts : list (MultiJagged.num A)) sorter blk cxlt root ord (k : N) (m : nat) p0 p,
  MultiJaggedProofs.root_ok root -> MultiJaggedProofs.sorter_ok sorter cxlt ->
  MultiJaggedProofs.ord_ok ord (N.to_nat k) ->
  (1 <= k)%N -> (k < 2 ^ 60)%N -> (1 <= m)%nat -> length p0 = npts ->
  MultiJagged.multi_jagged A D npts wts sorter blk root ord k m p0 = Ok p ->
  length p = npts /\ Forall (fun x => (x < k)%N) p.
Proof. exact MjC.mj_range. Qed.
Print Assumptions C01_multijagged_range_partial.

(* the instance at the arithmetic the correspondence runs of C11 use *)
Theorem C01_multijagged_range_f64impl_partial :
  forall (D npts : nat) (wts : list spec_float) sorter blk cxlt root ord (k : N) (m : nat) p0 p,
  MultiJaggedProofs.root_ok root -> MultiJaggedProofs.sorter_ok sorter cxlt ->
  MultiJaggedProofs.ord_ok ord (N.to_nat k) ->
  (1 <= k)%N -> (k < 2 ^ 60)%N -> (1 <= m)%nat -> length p0 = npts ->
  MultiJagged.multi_jagged RunC11.F64impl D npts wts sorter blk root ord k m p0 = Ok p ->
  length p = npts /\ Forall (fun x => (x < k)%N) p.
Proof. exact (MjC.mj_range RunC11.F64impl). Qed.
Print Assumptions C01_multijagged_range_f64impl_partial.

(* For EVERY arithmetic, inside the contract (weights and array of the right
   length, D >= 1): the model returns Ok or stops at panic site 4 (`ret[ret.len()-1]`
   on an empty ret: a first threshold compares below zero) or 5 (`*pos -
   drained_count` underflows: decreasing split positions); every other panic
   site, every error value and fuel exhaustion are unreachable. *)
Theorem C01_multijagged_panic_sites_partial :
  forall (A : MultiJagged.arith) D npts (wts : list (MultiJagged.num A)) sorter blk cxlt root ord (k : N) (m : nat) p0,
  MultiJaggedProofs.root_ok root -> MultiJaggedProofs.sorter_ok sorter cxlt ->
  (1 <= k)%N -> (k < 2 ^ 60)%N -> (1 <= m)%nat -> (1 <= D)%nat -> length wts = npts -> length p0 = npts ->
  (forall e, MultiJagged.multi_jagged A D npts wts sorter blk root ord k m p0 <> Err e)
  /\ MultiJagged.multi_jagged A D npts wts sorter blk root ord k m p0 <> OutOfFuel
  /\ (forall s, MultiJagged.multi_jagged A D npts wts sorter blk root ord k m p0 = Panic s -> (s = 4 \/ s = 5)%N).
Proof. exact MjC.mj_panic_sites. Qed.
Print Assumptions C01_multijagged_panic_sites_partial.

(* binary64 with either Ulps epsilon (F64eps eps; F64 = F64eps 0, hence
   RunC11.F64impl), weights that are not negative: site 4 is excluded by C11
   (sign bookkeeping of SpecFloat), so the model returns Ok with one id <
   part_count per element GIVEN the single named premise
   [MultiJaggedTotal.mono_cuts]: the split positions of every call of
   compute_split_positions are non-decreasing.
   PARTIAL: [mono_cuts] is not proved for binary64 (it depends on float facts
   listed in docs/C11.md: the refinements of consecutive thresholds sum
   different associations of the same prefix). *)
Theorem C01_multijagged_f64_partial :
  forall eps D npts wts sorter blk cxlt root ord (k : N) (m : nat) p0,
  MultiJaggedProofs.root_ok root -> MultiJaggedProofs.sorter_ok sorter cxlt ->
  MultiJaggedProofs.ord_ok ord (N.to_nat k) ->
  (1 <= k)%N -> (k < 2 ^ 60)%N -> (1 <= m)%nat -> (1 <= D)%nat ->
  length wts = npts -> length p0 = npts -> Forall MultiJaggedTotal.notneg wts ->
  MultiJaggedTotal.mono_cuts (MultiJagged.F64eps eps) npts wts blk ->
  exists p, MultiJagged.multi_jagged (MultiJagged.F64eps eps) D npts wts sorter blk root ord k m p0 = Ok p
            /\ length p = npts /\ Forall (fun x => (x < k)%N) p.
Proof. exact MjC.mj_collect_f64. Qed.
Print Assumptions C01_multijagged_f64_partial.

(* FULL for integer-valued weights (what the CLI's i64 weight files and unit
   weights become): binary64 exactly as the code computes it, total <= 2^53,
   every admissible root / sort / block / leaf-order oracle: the model returns
   Ok, one id per element, every id < part_count.  No premise about the
   arithmetic (mono_cuts is proved for such weights in C11, Flocq axioms). *)
Theorem C01_multijagged_f64_integer_weights :
  forall D (zs : list Z) sorter blk cxlt root ord (k : N) (m : nat) p0,
  MultiJaggedProofs.root_ok root -> MultiJaggedProofs.sorter_ok sorter cxlt ->
  MultiJaggedProofs.ord_ok ord (N.to_nat k) ->
  (1 <= k)%N -> (k < 2 ^ 60)%N -> (1 <= m)%nat -> (1 <= D)%nat ->
  Forall (fun z => (0 <= z)%Z) zs -> (sumZ zs <= 2 ^ 53)%Z -> length p0 = length zs ->
  exists p, MultiJagged.multi_jagged MultiJagged.F64 D (length zs) (map (fun z => f64_of_Z z) zs) sorter blk root ord k m p0 = Ok p
            /\ length p = length zs /\ Forall (fun x => (x < k)%N) p.
Proof. exact MjC.mj_collect_f64_integer. Qed.
Print Assumptions C01_multijagged_f64_integer_weights.

(* PARTIAL (2): at exact arithmetic (what the code computes when no f64
   operation rounds; weights >= 0) the model returns Ok -- no panic site is
   reachable, and the model has no loop on fuel -- with every id < part_count. *)
Theorem C01_multijagged_exact_partial :
  forall D npts (wq : list Q) sorter blk cxlt root ord (k : N) (m : nat) p0,
  MultiJaggedProofs.root_ok root -> MultiJaggedProofs.sorter_ok sorter cxlt ->
  MultiJaggedProofs.ord_ok ord (N.to_nat k) ->
  (1 <= k)%N -> (k < 2 ^ 60)%N -> (1 <= m)%nat -> (1 <= D)%nat ->
  Forall (Qle 0) wq -> length wq = npts -> length p0 = npts ->
  exists p, MultiJagged.multi_jagged MultiJagged.QA D npts wq sorter blk root ord k m p0 = Ok p
            /\ length p = npts /\ Forall (fun x => (x < k)%N) p.
Proof. exact MjC.mj_collect_exact. Qed.
Print Assumptions C01_multijagged_exact_partial.

(* ------------------------------------------------------------------ Greedy *)

(* matching lengths, part_count >= 1, ANY integer weights: Ok (the model has no
   loop on fuel and no reachable panic site), one id < part_count per element.
   (C12 also has a generic-arithmetic model, C12_greedy_is_lpt_generic, with an
   f64 instance under a named premise; it is not restated here.) *)
Theorem C01_greedy : forall ws k p0, length ws = length p0 -> (1 <= k)%nat ->
  exists p, Greedy.greedy ws k p0 = Ok p /\ length p = length p0
            /\ Forall (fun x => (x < N.of_nat k)%N) p.
Proof. exact NumC.greedy_collect. Qed.
Print Assumptions C01_greedy.

(* ----------------------------------------------------------- KarmarkarKarp *)

(* for EVERY weight-descending sort of the merged rows (tie order of
   sort_unstable), non-negative weights, part_count >= 1, matching lengths *)
Theorem C01_kk : forall srt, (forall l, Permutation (srt l) l) -> (forall l, NumPartLemmas.descZ (NumPartLemmas.wts (srt l))) ->
  forall ws k p0, Forall (fun w => 0 <= w) ws -> (1 <= k)%nat -> length ws = length p0 ->
  exists p, Kk.kk_partition srt ws k p0 = Ok p /\ length p = length p0
            /\ Forall (fun x => (x < N.of_nat k)%N) p.
Proof. exact NumC.kk_collect. Qed.
Print Assumptions C01_kk.

(* --------------------------------------------------- CompleteKarmarkarKarp *)

(* [C13.ckk_impl] = Ckk.ckk at the literal read from ckk.rs.  Ok => two-way ids for every element; the only other
   answer is NotFound; never a panic, never out of fuel *)
Theorem C01_ckk : forall ws tol p0,
  Forall (fun w => 0 <= w) ws -> ws <> [] -> Ckk.tol_int (sumZ ws) tol <> None -> length ws = length p0 ->
  (exists p, C13.ckk_impl ws tol p0 = Ok p /\ length p = length ws
             /\ Forall (fun x => (x < 2)%N) p)
  \/ C13.ckk_impl ws tol p0 = Err NotFound.
Proof. exact CkkC.ckk_collect. Qed.
Print Assumptions C01_ckk.

(* --------------------------------------------------------------- Grid::rcb *)

(* [C10.gridrcb_impl] = GridRcb.grid_rcb at the literals of the source
   (Run.RunC10.cfg_impl).  For EVERY pool size T (1 included), both weight
   types ([fw] = I64, or F64 k: exact dyadic f64 weights z*2^-k, the model
   working on the integers z), every iter_count.

   PARTIAL (1), axiom-free: 2-D and 3-D grids with sides >= 1, non-negative
   integer weights, fuel with side < 2^fuel; premise: the float facts about the
   two thresholds (thr_ok_b, decidable) for every total 0..sum.  Then Ok, one
   id < 2^iter_count per cell. *)
Theorem C01_grid_rcb_partial : forall fuel T fw ds ws k,
  GridRcbTree.wf_grid ds ws -> Forall (fun s => (1 <= s)%nat) ds -> Forall (fun w => 0 <= w) ws ->
  (forall t, 0 <= t <= sumZ ws -> GridRcbMedian.thr_ok_b fw C10.tol t = true) ->
  Forall (fun s => (s < 2 ^ fuel)%nat) ds ->
  exists ids, C10.gridrcb_impl fuel T fw ds ws k (GridRcb.glen ds) = Ok ids
              /\ length ids = GridRcb.glen ds /\ Forall (fun q => (q < 2 ^ N.of_nat k)%N) ids.
Proof. exact GridC.grid_collect. Qed.
Print Assumptions C01_grid_rcb_partial.

(* PARTIAL (2): the premise on the thresholds is a theorem (Flocq; classical-reals
   axioms) for the totals [total_ok] covers: EVERY i64 total below 2^63 (the
   whole of "sums that do not overflow"), and exact dyadic f64 weights z*2^-k
   (k <= 1000) with z-total below 2^53.  The i64 instances are stated
   separately below (C01_grid_rcb_2d_i64 / _3d_i64: nothing missing).  What is
   missing here, for f64 weights: sums that are not exact (arbitrary f64
   weights are not modelled). *)
Theorem C01_grid_rcb_2d_partial : forall fuel T fw w h ws k,
  (1 <= w)%nat -> (1 <= h)%nat -> length ws = (w * h)%nat -> Forall (fun x => 0 <= x) ws -> GridRcbFloat.total_ok fw (sumZ ws) ->
  (w < 2 ^ fuel)%nat -> (h < 2 ^ fuel)%nat ->
  exists ids, C10.gridrcb_impl fuel T fw [w; h] ws k (w * h) = Ok ids
              /\ length ids = (w * h)%nat /\ Forall (fun q => (q < 2 ^ N.of_nat k)%N) ids.
Proof. exact GridC.grid_collect_2d. Qed.
Print Assumptions C01_grid_rcb_2d_partial.

Theorem C01_grid_rcb_3d_partial : forall fuel T fw w h d ws k,
  (1 <= w)%nat -> (1 <= h)%nat -> (1 <= d)%nat -> length ws = (w * h * d)%nat ->
  Forall (fun x => 0 <= x) ws -> GridRcbFloat.total_ok fw (sumZ ws) ->
  (w < 2 ^ fuel)%nat -> (h < 2 ^ fuel)%nat -> (d < 2 ^ fuel)%nat ->
  exists ids, C10.gridrcb_impl fuel T fw [w; h; d] ws k (w * h * d) = Ok ids
              /\ length ids = (w * h * d)%nat /\ Forall (fun q => (q < 2 ^ N.of_nat k)%N) ids.
Proof. exact GridC.grid_collect_3d. Qed.
Print Assumptions C01_grid_rcb_3d_partial.

(* i64 weights: the whole contract -- sides >= 1, weights >= 0, total below 2^63
   -- for every pool size and iter_count; nothing missing (classical-reals
   axioms through C10's threshold theorem; the range and termination part does
   not depend on which balance band the thresholds satisfy). *)
Theorem C01_grid_rcb_2d_i64 : forall fuel T w h ws k,
  (1 <= w)%nat -> (1 <= h)%nat -> length ws = (w * h)%nat -> Forall (fun x => 0 <= x) ws -> sumZ ws < 2 ^ 63 ->
  (w < 2 ^ fuel)%nat -> (h < 2 ^ fuel)%nat ->
  exists ids, C10.gridrcb_impl fuel T GridRcb.I64 [w; h] ws k (w * h) = Ok ids
              /\ length ids = (w * h)%nat /\ Forall (fun q => (q < 2 ^ N.of_nat k)%N) ids.
Proof. exact (fun fuel T => GridC.grid_collect_2d fuel T GridRcb.I64). Qed.
Print Assumptions C01_grid_rcb_2d_i64.

Theorem C01_grid_rcb_3d_i64 : forall fuel T w h d ws k,
  (1 <= w)%nat -> (1 <= h)%nat -> (1 <= d)%nat -> length ws = (w * h * d)%nat ->
  Forall (fun x => 0 <= x) ws -> sumZ ws < 2 ^ 63 ->
  (w < 2 ^ fuel)%nat -> (h < 2 ^ fuel)%nat -> (d < 2 ^ fuel)%nat ->
  exists ids, C10.gridrcb_impl fuel T GridRcb.I64 [w; h; d] ws k (w * h * d) = Ok ids
              /\ length ids = (w * h * d)%nat /\ Forall (fun q => (q < 2 ^ N.of_nat k)%N) ids.
Proof. exact (fun fuel T => GridC.grid_collect_3d fuel T GridRcb.I64). Qed.
Print Assumptions C01_grid_rcb_3d_i64.

(* ------------------------------------------------------------------ Random *)
Theorem C01_random : forall k draws, (1 <= k)%N ->
  exists p, random_part k draws = Ok p /\ length p = length draws /\ Forall (fun x => (x < k)%N) p.
Proof. exact random_ids_lt. Qed.
Print Assumptions C01_random.

(* ------------------------------------------------------------ non-vacuity *)
Example C01_nonvacuous : random_part 3 [7;8;9;10]%N = Ok [1;2;0;1]%N.
Proof. reflexivity. Qed.

(* the hypotheses of C01_rcb_partial are satisfiable by a non-trivial input:
   the doc example of Rcb (4 points, 2 iterations) *)
Definition ex_pts : list (list spec_float) := map (map f64_of_Z) [[1; 1]; [-1; 1]; [1; -1]; [-1; -1]]%Z.
Example C01_nonvacuous_rcb_hyps :
  RcbBox.coords_in_f32_range ex_pts /\ Forall (fun pt => length pt = 2%nat) ex_pts
  /\ C03.rcb_impl 400 Rcb.seq_sched 2 2 (f64_of_bits 4587366580439587226%N) ex_pts [1; 1; 1; 1] [9; 9; 9; 9]%N
     = Ok [3; 1; 2; 0]%N.
Proof.
  split; [repeat constructor|]. split; [repeat constructor|]. vm_compute; reflexivity.
Qed.

(* runs of the other models inside their contracts: more parts than points
   (ZCurve), one heavy element (Greedy, KarmarkarKarp), a quantile search *)
Example C01_nonvacuous_runs :
  C09.hilbert_impl_2d 3 100 [0;9;18;27;36;45;54;63]%N (repeat (f64_of_Z 1) 8) 4 (repeat 9%N 8)
    = Ok [0;0;1;1;2;2;3;3]%N
  /\ C09.zcurve_impl_2d (fun _ i => nth i [1;0]%N 0%N) Sorting.sort_by_key 2 5 2 [9;9]%N = Ok [1;0]%N
  /\ Greedy.greedy [100;1;1;1] 3 [9;9;9;9]%N = Ok [2;1;0;1]%N
  /\ Kk.kk_partition Kk.sort_stable_desc [100;1;1;1] 3 [9;9;9;9]%N = Ok [0;1;1;2]%N
  /\ C10.gridrcb_impl 41 1 GridRcb.I64 [4; 4]%nat (repeat 1 16) 2 16
     = Ok [0; 0; 1; 1; 0; 0; 1; 1; 2; 2; 3; 3; 2; 2; 3; 3]%N.
Proof. vm_compute. repeat split; reflexivity. Qed.

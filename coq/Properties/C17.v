(* C17 — the C API computes what the Rust API computes and contains panics.
   Only the property theorems, each closed by [exact] of a lemma of Proofs/FfiProofs.v, with
   [Print Assumptions] beneath.  The model (Model/Ffi.v) is instantiated in Model/FfiInst.v with the
   tables the translator read from ffi/src/lib.rs, ffi/src/data.rs and ffi/include/coupe.h
   (Gen/FfiTables.v); [rust] is universally quantified: it stands for the Rust algorithm.

   Partial (see docs/C17.md): undefined behaviour (reading memory at another type than it holds, or
   beyond what the caller provided) is the outcome [UB] of the model and the theorems are stated
   outside it; that a panic that is not caught really aborts/unwinds is a fact of the toolchain;
   allocation failure is not modelled. *)
From Coupe Require Import Lib.Prelude Lib.SFloat Gen.FfiTables Model.Ffi Model.FfiInst Proofs.FfiProofs.
From Coq Require Import String.
Open Scope nat_scope.

(* ---- tables ---- *)

(* Rust #[repr(C)] declaration order = coupe.h declaration order (error codes and type tags) *)
Theorem ffi_header_enum_agrees :
  map (header_name "COUPE_ERR_") ffi_rust_error_enum = ffi_header_error_enum
  /\ map (header_name "COUPE_") ffi_rust_type_enum = ffi_header_type_enum.
Proof. exact header_enum_agrees. Qed.
Print Assumptions ffi_header_enum_agrees.

(* the model's codes, tags and error variants are the source's, with the same discriminants *)
Theorem ffi_model_codes_agree :
  map code_name all_codes = ffi_rust_error_enum
  /\ (forall c, index_of (code_name c) ffi_rust_error_enum = Some (code_disc c))
  /\ map ty_name [TInt; TInt64; TDouble] = ffi_rust_type_enum
  /\ map error_name coupe_errors = ffi_coupe_error_enum
  /\ map error_name hilbert_errors = ffi_hilbert_error_enum.
Proof. exact model_codes_agree. Qed.
Print Assumptions ffi_model_codes_agree.

(* exported (#[no_mangle]) names = names declared in coupe.h *)
Theorem ffi_names_agree : forall s, In s ffi_exported <-> In s ffi_declared.
Proof. exact names_agree_In. Qed.
Print Assumptions ffi_names_agree.

(* the algorithm entry points found in lib.rs are exactly the seven of the property *)
Theorem ffi_seven_entries :
  same_names (map fe_name ffi_entries)
    ["coupe_rcb"; "coupe_rib"; "coupe_hilbert"; "coupe_greedy"; "coupe_karmarkar_karp";
     "coupe_karmarkar_karp_complete"; "coupe_fiduccia_mattheyses"]%string = true
  /\ nodup_str (map fe_name ffi_entries) = true.
Proof. exact seven_entries. Qed.
Print Assumptions ffi_seven_entries.

(* every variant of coupe::Error has an arm, the arm is the code coupe.h documents for it, distinct
   errors get distinct codes, and no error is reported as OK or CRASH *)
Theorem ffi_error_map_total_injective :
  (forall e, In (error_name e) ffi_coupe_error_enum ->
     exists c, conv_error ffi_arms e = Some c /\ documented_code e = Some c)
  /\ (forall e1 e2 c, conv_error ffi_arms e1 = Some c -> conv_error ffi_arms e2 = Some c -> error_name e1 = error_name e2)
  /\ (forall e c, conv_error ffi_arms e = Some c -> c <> COk /\ c <> CCrash).
Proof. exact error_map_total_injective. Qed.
Print Assumptions ffi_error_map_total_injective.

(* the one coincidence: coupe_hilbert reports HilbertCurve's InvalidOrder with the code of NotFound
   (coupe.h documents no code for it) *)
Theorem ffi_hilbert_error_coincides :
  ce_err ffi_hilbert = Some CNotFound /\ conv_error ffi_arms NotFound = Some CNotFound
  /\ (forall a b, documented_code (InvalidOrder a b) = None).
Proof. exact hilbert_error_coincides. Qed.
Print Assumptions ffi_hilbert_error_coincides.

(* ---- panics ---- *)

(* every algorithm call of the generated table sits inside the catch_unwind closure, whose panic code is CRASH *)
Theorem ffi_all_guarded : forallb fe_guarded ffi_entries = true /\ ffi_crash = CCrash.
Proof. exact (conj all_guarded guard_code_is_crash). Qed.
Print Assumptions ffi_all_guarded.

(* no entry point lets a panic out, whatever the algorithm does and whatever the input *)
Theorem ffi_never_unwinds :
  (forall rust p0 ws k, coupe_greedy rust p0 ws k <> Unwinds)
  /\ (forall rust p0 ws k, coupe_karmarkar_karp rust p0 ws k <> Unwinds)
  /\ (forall rust p0 ws k, coupe_karmarkar_karp_complete rust p0 ws k <> Unwinds)
  /\ (forall rust p0 dim pts ws params, coupe_rcb rust p0 dim pts ws params <> Unwinds)
  /\ (forall rust p0 dim pts ws params, coupe_rib rust p0 dim pts ws params <> Unwinds)
  /\ (forall rust p0 dim pts ws params, coupe_hilbert rust p0 dim pts ws params <> Unwinds)
  /\ (forall rust p0 adj ws a b c d, coupe_fiduccia_mattheyses rust p0 adj ws a b c d <> Unwinds).
Proof. exact never_unwinds. Qed.
Print Assumptions ffi_never_unwinds.

(* and the guard is what does it: the same entry point without it would unwind *)
Theorem ffi_guard_needed : forall arms crash e rust p0 ws k s rest W site,
  ce_guarded e = false -> ce_pre e = [] ->
  take_slice (dlen ws) p0 = Some (s, rest) ->
  denote_scalars (numty_for (ce_w e) (dtype ws)) ws = Some W ->
  rust (numty_for (ce_w e) (dtype ws)) W k s = Panic site ->
  entry_num arms crash e rust p0 ws k = Unwinds.
Proof. exact entry_num_unguarded_unwinds. Qed.
Print Assumptions ffi_guard_needed.

(* ---- agreement with the Rust algorithm: entry d = code_of (rust (denote d)) ----
   [expected]: Ok p -> OK with p in the array; Err e -> the documented code of e; Panic -> CRASH.
   Hypotheses = the memory contract of coupe.h (array long enough, cells of the announced type). *)

Theorem ffi_agrees_greedy : forall rust p0 ws k s rest W,
  take_slice (dlen ws) p0 = Some (s, rest) ->
  denote_scalars (tag_numty (dtype ws)) ws = Some W ->
  coupe_greedy rust p0 ws k = expected rest (rust (tag_numty (dtype ws)) W k s).
Proof. exact agrees_greedy. Qed.
Print Assumptions ffi_agrees_greedy.

Theorem ffi_agrees_karmarkar_karp : forall rust p0 ws k s rest W,
  take_slice (dlen ws) p0 = Some (s, rest) ->
  denote_scalars (tag_numty_kk (dtype ws)) ws = Some W ->
  coupe_karmarkar_karp rust p0 ws k = expected rest (rust (tag_numty_kk (dtype ws)) W k s).
Proof. exact agrees_kk. Qed.
Print Assumptions ffi_agrees_karmarkar_karp.

Theorem ffi_agrees_karmarkar_karp_complete : forall rust p0 ws tol s rest W,
  take_slice (dlen ws) p0 = Some (s, rest) ->
  denote_scalars (tag_numty (dtype ws)) ws = Some W ->
  coupe_karmarkar_karp_complete rust p0 ws tol = expected rest (rust (tag_numty (dtype ws)) W tol s).
Proof. exact agrees_ckk. Qed.
Print Assumptions ffi_agrees_karmarkar_karp_complete.

(* rcb, rib: LEN_MISMATCH first, then dimension 2/3 -> the algorithm, any other -> BAD_DIMENSION *)
Theorem ffi_agrees_rcb : forall rust p0 dim pts ws params s rest,
  take_slice (dlen pts) p0 = Some (s, rest) ->
  coupe_rcb rust p0 dim pts ws params = geo_expected rust p0 dim pts ws params s rest.
Proof. exact agrees_rcb. Qed.
Print Assumptions ffi_agrees_rcb.

Theorem ffi_agrees_rib : forall rust p0 dim pts ws params s rest,
  take_slice (dlen pts) p0 = Some (s, rest) ->
  coupe_rib rust p0 dim pts ws params = geo_expected rust p0 dim pts ws params s rest.
Proof. exact agrees_rib. Qed.
Print Assumptions ffi_agrees_rib.

(* hilbert: LEN_MISMATCH, then BAD_TYPE unless the weights are tagged double, then 2-D points and f64
   weights; every error of the algorithm becomes NOT_FOUND *)
Theorem ffi_agrees_hilbert : forall rust p0 dim pts ws params s rest,
  take_slice (dlen pts) p0 = Some (s, rest) ->
  coupe_hilbert rust p0 dim pts ws params = hilbert_expected rust p0 pts ws params s rest.
Proof. exact agrees_hilbert. Qed.
Print Assumptions ffi_agrees_hilbert.

(* fiduccia_mattheyses: BAD_TYPE unless the adjacency is int64; 0 passes/moves = unlimited,
   max_imbalance <= 0.0 = none *)
Theorem ffi_agrees_fiduccia_mattheyses : forall rust p0 adj ws a b c d s rest,
  take_slice (dlen ws) p0 = Some (s, rest) ->
  coupe_fiduccia_mattheyses rust p0 adj ws a b c d = fm_expected rust p0 adj ws a b c d s rest.
Proof. exact agrees_fm. Qed.
Print Assumptions ffi_agrees_fiduccia_mattheyses.

(* ---- a panic inside the algorithm is reported as CRASH ---- *)
Theorem ffi_panic_contained_greedy : forall rust p0 ws k s rest W site,
  take_slice (dlen ws) p0 = Some (s, rest) ->
  denote_scalars (tag_numty (dtype ws)) ws = Some W ->
  rust (tag_numty (dtype ws)) W k s = Panic site ->
  coupe_greedy rust p0 ws k = Returns CCrash None.
Proof. intros rust p0 ws k s rest W site Hs Hd Hr. rewrite (agrees_greedy rust p0 ws k s rest W Hs Hd), Hr. exact eq_refl. Qed.
Print Assumptions ffi_panic_contained_greedy.

(* ---- non-vacuity ---- *)
Example C17_nonvacuous_greedy :
  coupe_greedy (fun nt ws k s => Ok [0; 1; 0]%N) [9; 9; 9; 7]%N (DConstant 3 TInt [VInt 5]) 2%N
  = Returns COk (Some [0; 1; 0; 7]%N)
  /\ coupe_greedy (fun nt ws k s => Panic 1%N) [9; 9; 9; 7]%N (DArray 3 TInt64 [VInt64 5; VInt64 6; VInt64 7]) 2%N
     = Returns CCrash None.
Proof. split; vm_compute; reflexivity. Qed.

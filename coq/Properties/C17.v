(* C17 — the C API computes what the Rust API computes and contains panics.
   Only the property theorems, each closed by [exact] of a lemma of Proofs/FfiProofs.v, with
   [Print Assumptions] beneath.  The model (Model/Ffi.v) is instantiated in Model/FfiInst.v with the
   tables the translator read from ffi/src/lib.rs, ffi/src/data.rs and ffi/include/coupe.h
   (Gen/FfiTables.v); [rust] is universally quantified: it stands for the Rust algorithm.

   Partial (see docs/C17.md): undefined behaviour (reading memory at another type than it holds, or
   beyond what the caller provided) is the outcome [UB] of the model and the theorems are stated
   outside it; that a panic that is not caught really aborts/unwinds is a fact of the toolchain;
   allocation failure is not modelled. *)
From Coupe Require Import Lib.Prelude Lib.SFloat Gen.FfiTables Model.Ffi Model.FfiInst Proofs.FfiProofs.
From Coq Require Import String.
Open Scope nat_scope.

(* ---- tables ---- *)

(* the translator read everything it looks at; Array / Constant / Fn each have the iter / par_iter / to_slice
   accessor shapes that [denote] mirrors (slice of len elements; value read once and repeated; i_th(context, i)
   for i in 0..len) *)
Theorem ffi_translator_clean : ffi_translator_errors = [].
Proof. exact translator_clean. Qed.
Theorem ffi_accessors_as_modelled :
  ffi_data_accessors =
  [("Array", "slice"); ("Array", "par_slice"); ("Array", "to_slice");
   ("Constant", "repeat"); ("Constant", "par_repeat"); ("Constant", "to_slice");
   ("Fn", "call"); ("Fn", "par_call"); ("Fn", "to_slice")]%string.
Proof. exact accessors_as_modelled. Qed.
Print Assumptions ffi_translator_clean.
Print Assumptions ffi_accessors_as_modelled.

(* Rust #[repr(C)] declaration order = coupe.h declaration order (error codes and type tags) *)
Theorem ffi_header_enum_agrees :
  map (header_name "COUPE_ERR_") ffi_rust_error_enum = ffi_header_error_enum
  /\ map (header_name "COUPE_") ffi_rust_type_enum = ffi_header_type_enum.
Proof. exact header_enum_agrees. Qed.
Print Assumptions ffi_header_enum_agrees.

(* the model's codes, tags and error variants are the source's, with the same discriminants *)
Theorem ffi_model_codes_agree :
  map code_name all_codes = ffi_rust_error_enum
  /\ (forall c, index_of (code_name c) ffi_rust_error_enum = Some (code_disc c))
  /\ map ty_name [TInt; TInt64; TDouble] = ffi_rust_type_enum
  /\ map error_name coupe_errors = ffi_coupe_error_enum
  /\ map error_name hilbert_errors = ffi_hilbert_error_enum.
Proof. exact model_codes_agree. Qed.
Print Assumptions ffi_model_codes_agree.

(* exported (#[no_mangle]) names = names declared in coupe.h *)
Theorem ffi_names_agree : forall s, In s ffi_exported <-> In s ffi_declared.
Proof. exact names_agree_In. Qed.
Print Assumptions ffi_names_agree.

(* ... with the same prototypes: parameter types in the same order and the same return type
   (types as ABI tokens: usize = uintptr_t, f64 = double, u32 = uint32_t, pointers, the two enums, the callback) *)
Theorem ffi_prototypes_agree : forall x, In x ffi_rust_prototypes <-> In x ffi_header_prototypes.
Proof. exact prototypes_agree. Qed.
Print Assumptions ffi_prototypes_agree.

(* the algorithm entry points found in lib.rs are exactly the seven of the property *)
Theorem ffi_seven_entries :
  same_names (map fe_name ffi_entries)
    ["coupe_rcb"; "coupe_rib"; "coupe_hilbert"; "coupe_greedy"; "coupe_karmarkar_karp";
     "coupe_karmarkar_karp_complete"; "coupe_fiduccia_mattheyses"]%string = true
  /\ nodup_str (map fe_name ffi_entries) = true.
Proof. exact seven_entries. Qed.
Print Assumptions ffi_seven_entries.

(* every variant of coupe::Error has an arm, the arm is the code coupe.h documents for it, distinct
   errors get distinct codes, and no error is reported as OK or CRASH *)
Theorem ffi_error_map_total_injective :
  (forall e, In (error_name e) ffi_coupe_error_enum ->
     exists c, conv_error ffi_arms e = Some c /\ documented_code e = Some c)
  /\ (forall e1 e2 c, conv_error ffi_arms e1 = Some c -> conv_error ffi_arms e2 = Some c -> error_name e1 = error_name e2)
  /\ (forall e c, conv_error ffi_arms e = Some c -> c <> COk /\ c <> CCrash).
Proof. exact error_map_total_injective. Qed.
Print Assumptions ffi_error_map_total_injective.

(* the one coincidence: coupe_hilbert reports HilbertCurve's InvalidOrder with the code of NotFound
   (coupe.h documents no code for it) *)
Theorem ffi_hilbert_error_coincides :
  ce_err ffi_hilbert = Some CNotFound /\ conv_error ffi_arms NotFound = Some CNotFound
  /\ (forall a b, documented_code (InvalidOrder a b) = None).
Proof. exact hilbert_error_coincides. Qed.
Print Assumptions ffi_hilbert_error_coincides.

(* ---- panics ---- *)

(* every algorithm call of the generated table sits inside the catch_unwind closure, whose panic code is CRASH *)
Theorem ffi_all_guarded : forallb fe_guarded ffi_entries = true /\ ffi_crash = CCrash.
Proof. exact (conj all_guarded guard_code_is_crash). Qed.
Print Assumptions ffi_all_guarded.

(* no entry point lets a panic out, whatever the algorithm does and whatever the input *)
Theorem ffi_never_unwinds :
  (forall rust p0 ws k, coupe_greedy rust p0 ws k <> Unwinds)
  /\ (forall rust p0 ws k, coupe_karmarkar_karp rust p0 ws k <> Unwinds)
  /\ (forall rust p0 ws k, coupe_karmarkar_karp_complete rust p0 ws k <> Unwinds)
  /\ (forall rust p0 dim pts ws iter tol, coupe_rcb rust p0 dim pts ws iter tol <> Unwinds)
  /\ (forall rust p0 dim pts ws iter tol, coupe_rib rust p0 dim pts ws iter tol <> Unwinds)
  /\ (forall rust p0 pts ws k o, coupe_hilbert rust p0 pts ws k o <> Unwinds)
  /\ (forall rust p0 adj ws a b c d, coupe_fiduccia_mattheyses rust p0 adj ws a b c d <> Unwinds).
Proof. exact never_unwinds. Qed.
Print Assumptions ffi_never_unwinds.

(* and the guard is what does it: the same entry point without it would unwind *)
Theorem ffi_guard_needed : forall arms crash e rust p0 ws args ps s rest W site,
  ce_guarded e = false -> ce_pre e = [] ->
  Nat.eqb (List.length args) (ce_arity e) = true -> build_params (ce_params e) args = Some ps ->
  take_slice (dlen ws) p0 = Some (s, rest) ->
  denote_scalars (numty_for (ce_w e) (dtype ws)) ws = Some W ->
  rust (numty_for (ce_w e) (dtype ws)) W ps s = Panic site ->
  entry_num arms crash e rust p0 ws args = Unwinds.
Proof. exact entry_num_unguarded_unwinds. Qed.
Print Assumptions ffi_guard_needed.

(* ---- agreement with the Rust algorithm: entry d = code_of (rust (denote d)) ----
   [expected]: Ok p -> OK with p in the array; Err e -> the documented code of e; Panic -> CRASH.
   Hypotheses = the memory contract of coupe.h (array long enough, cells of the announced type). *)

Theorem ffi_agrees_greedy : forall rust p0 ws k s rest W,
  take_slice (dlen ws) p0 = Some (s, rest) ->
  denote_scalars (tag_numty (dtype ws)) ws = Some W ->
  coupe_greedy rust p0 ws k = expected rest (rust (tag_numty (dtype ws)) W [Some k] s).
Proof. exact agrees_greedy. Qed.
Print Assumptions ffi_agrees_greedy.

Theorem ffi_agrees_karmarkar_karp : forall rust p0 ws k s rest W,
  take_slice (dlen ws) p0 = Some (s, rest) ->
  denote_scalars (tag_numty_kk (dtype ws)) ws = Some W ->
  coupe_karmarkar_karp rust p0 ws k = expected rest (rust (tag_numty_kk (dtype ws)) W [Some k] s).
Proof. exact agrees_kk. Qed.
Print Assumptions ffi_agrees_karmarkar_karp.

Theorem ffi_agrees_karmarkar_karp_complete : forall rust p0 ws tol s rest W,
  take_slice (dlen ws) p0 = Some (s, rest) ->
  denote_scalars (tag_numty (dtype ws)) ws = Some W ->
  coupe_karmarkar_karp_complete rust p0 ws tol = expected rest (rust (tag_numty (dtype ws)) W [Some tol] s).
Proof. exact agrees_ckk. Qed.
Print Assumptions ffi_agrees_karmarkar_karp_complete.

(* the three geometric entry points answer BAD_TYPE for points announced with another Type tag than double
   (fix eb2545c; before it the tag of the points was never read) — read off the generated table — and the
   pre-fix shape of the glue is not the current one *)
Theorem ffi_points_type_checked :
  checks_points ffi_rcb = true /\ checks_points ffi_rib = true /\ checks_points ffi_hilbert = true.
Proof. exact points_type_checked. Qed.
Print Assumptions ffi_points_type_checked.
Theorem ffi_points_tag_ignored_refuted :
  ffi_rcb <> geo_entry false "Rcb" /\ ffi_rib <> geo_entry false "Rib" /\ ffi_hilbert <> hilbert_entry false.
Proof. exact old_shape_refuted. Qed.
Print Assumptions ffi_points_tag_ignored_refuted.

(* rcb, rib ([geo_expected true]): LEN_MISMATCH first, then BAD_TYPE unless the points are announced as double,
   then dimension 2/3 -> the algorithm, any other -> BAD_DIMENSION *)
Theorem ffi_agrees_rcb : forall rust p0 dim pts ws iter tol s rest,
  take_slice (dlen pts) p0 = Some (s, rest) ->
  coupe_rcb rust p0 dim pts ws iter tol = geo_expected true rust p0 dim pts ws iter tol s rest.
Proof. exact agrees_rcb. Qed.
Print Assumptions ffi_agrees_rcb.

Theorem ffi_agrees_rib : forall rust p0 dim pts ws iter tol s rest,
  take_slice (dlen pts) p0 = Some (s, rest) ->
  coupe_rib rust p0 dim pts ws iter tol = geo_expected true rust p0 dim pts ws iter tol s rest.
Proof. exact agrees_rib. Qed.
Print Assumptions ffi_agrees_rib.

(* hilbert ([hilbert_expected true]): LEN_MISMATCH, then BAD_TYPE unless the points are announced as double, then
   BAD_TYPE unless the weights are tagged double, then 2-D points and f64
   weights; every error of the algorithm becomes NOT_FOUND *)
Theorem ffi_agrees_hilbert : forall rust p0 pts ws part_count order s rest,
  take_slice (dlen pts) p0 = Some (s, rest) ->
  coupe_hilbert rust p0 pts ws part_count order
  = hilbert_expected true rust p0 pts ws part_count order s rest.
Proof. exact agrees_hilbert. Qed.
Print Assumptions ffi_agrees_hilbert.

(* fiduccia_mattheyses: BAD_TYPE unless the adjacency is int64; 0 passes/moves = unlimited,
   max_imbalance <= 0.0 = none *)
Theorem ffi_agrees_fiduccia_mattheyses : forall rust p0 adj ws a b c d s rest,
  take_slice (dlen ws) p0 = Some (s, rest) ->
  coupe_fiduccia_mattheyses rust p0 adj ws a b c d = fm_expected rust p0 adj ws a b c d s rest.
Proof. exact agrees_fm. Qed.
Print Assumptions ffi_agrees_fiduccia_mattheyses.

(* the parameter conversions of coupe_fiduccia_mattheyses used above, on examples *)
Theorem ffi_fm_conversions :
  fm_opt 0 = None /\ (forall x, x <> 0%N -> fm_opt x = Some x)
  /\ fm_imbalance 0 = None
  /\ fm_imbalance 13830554455654793216 = None
  /\ fm_imbalance 4587366580439587226 = Some 4587366580439587226%N
  /\ fm_imbalance 9221120237041090560 = Some 9221120237041090560%N.
Proof. exact fm_conversions. Qed.
Print Assumptions ffi_fm_conversions.

(* ---- a panic inside the algorithm is reported as CRASH (every entry point, inside the contract) ---- *)
Theorem ffi_panic_contained :
  (forall rust p0 ws k s rest W site, take_slice (dlen ws) p0 = Some (s, rest) ->
     denote_scalars (tag_numty (dtype ws)) ws = Some W -> rust (tag_numty (dtype ws)) W [Some k] s = Panic site ->
     coupe_greedy rust p0 ws k = Returns CCrash None)
  /\ (forall rust p0 ws k s rest W site, take_slice (dlen ws) p0 = Some (s, rest) ->
     denote_scalars (tag_numty_kk (dtype ws)) ws = Some W -> rust (tag_numty_kk (dtype ws)) W [Some k] s = Panic site ->
     coupe_karmarkar_karp rust p0 ws k = Returns CCrash None)
  /\ (forall rust p0 ws k s rest W site, take_slice (dlen ws) p0 = Some (s, rest) ->
     denote_scalars (tag_numty (dtype ws)) ws = Some W -> rust (tag_numty (dtype ws)) W [Some k] s = Panic site ->
     coupe_karmarkar_karp_complete rust p0 ws k = Returns CCrash None)
  /\ (forall rust p0 dim pts ws iter tol s rest P W site, take_slice (dlen pts) p0 = Some (s, rest) ->
     dlen pts = dlen ws -> dtype pts = TDouble -> existsb (N.eqb dim) [2; 3]%N = true ->
     denote_points (N.to_nat dim) pts = Some P -> denote_scalars (tag_numty (dtype ws)) ws = Some W ->
     rust (N.to_nat dim) P (tag_numty (dtype ws)) W [Some iter; Some tol] s = Panic site ->
     coupe_rcb rust p0 dim pts ws iter tol = Returns CCrash None
     /\ coupe_rib rust p0 dim pts ws iter tol = Returns CCrash None)
  /\ (forall rust p0 pts ws k o s rest P W site, take_slice (dlen pts) p0 = Some (s, rest) ->
     dlen pts = dlen ws -> dtype pts = TDouble -> dtype ws = TDouble ->
     denote_points 2 pts = Some P -> denote_scalars F64 ws = Some W ->
     rust 2 P F64 W [Some k; Some o] s = Panic site ->
     coupe_hilbert rust p0 pts ws k o = Returns CCrash None)
  /\ (forall rust p0 adj ws a b c d s rest W site, take_slice (dlen ws) p0 = Some (s, rest) ->
     a_type adj = TInt64 -> denote_scalars (tag_numty (dtype ws)) ws = Some W ->
     rust adj (tag_numty (dtype ws)) W [fm_opt a; fm_opt b; fm_imbalance c; Some d] s = Panic site ->
     coupe_fiduccia_mattheyses rust p0 adj ws a b c d = Returns CCrash None).
Proof. exact panic_contained. Qed.
Print Assumptions ffi_panic_contained.

(* ---- representation independence: denote d1 = denote d2 -> entry d1 = entry d2 ----
   An entry point depends on a data set only through its length, its Type tag and the elements it denotes
   at the element type the entry point reads it at. *)
Theorem ffi_repr_indep_greedy : forall rust p0 w1 w2 k,
  dlen w1 = dlen w2 -> dtype w1 = dtype w2 ->
  denote_scalars (tag_numty (dtype w1)) w1 = denote_scalars (tag_numty (dtype w1)) w2 ->
  coupe_greedy rust p0 w1 k = coupe_greedy rust p0 w2 k.
Proof. exact repr_indep_greedy. Qed.
Theorem ffi_repr_indep_karmarkar_karp : forall rust p0 w1 w2 k,
  dlen w1 = dlen w2 -> dtype w1 = dtype w2 ->
  denote_scalars (tag_numty_kk (dtype w1)) w1 = denote_scalars (tag_numty_kk (dtype w1)) w2 ->
  coupe_karmarkar_karp rust p0 w1 k = coupe_karmarkar_karp rust p0 w2 k.
Proof. exact repr_indep_kk. Qed.
Theorem ffi_repr_indep_karmarkar_karp_complete : forall rust p0 w1 w2 k,
  dlen w1 = dlen w2 -> dtype w1 = dtype w2 ->
  denote_scalars (tag_numty (dtype w1)) w1 = denote_scalars (tag_numty (dtype w1)) w2 ->
  coupe_karmarkar_karp_complete rust p0 w1 k = coupe_karmarkar_karp_complete rust p0 w2 k.
Proof. exact repr_indep_ckk. Qed.
Theorem ffi_repr_indep_rcb : forall rust p0 dim q1 q2 w1 w2 iter tol,
  dlen q1 = dlen q2 -> dtype q1 = dtype q2 -> (forall d, denote_points d q1 = denote_points d q2) ->
  dlen w1 = dlen w2 -> dtype w1 = dtype w2 ->
  denote_scalars (tag_numty (dtype w1)) w1 = denote_scalars (tag_numty (dtype w1)) w2 ->
  coupe_rcb rust p0 dim q1 w1 iter tol = coupe_rcb rust p0 dim q2 w2 iter tol.
Proof. exact repr_indep_rcb. Qed.
Theorem ffi_repr_indep_rib : forall rust p0 dim q1 q2 w1 w2 iter tol,
  dlen q1 = dlen q2 -> dtype q1 = dtype q2 -> (forall d, denote_points d q1 = denote_points d q2) ->
  dlen w1 = dlen w2 -> dtype w1 = dtype w2 ->
  denote_scalars (tag_numty (dtype w1)) w1 = denote_scalars (tag_numty (dtype w1)) w2 ->
  coupe_rib rust p0 dim q1 w1 iter tol = coupe_rib rust p0 dim q2 w2 iter tol.
Proof. exact repr_indep_rib. Qed.
Theorem ffi_repr_indep_hilbert : forall rust p0 q1 q2 w1 w2 k o,
  dlen q1 = dlen q2 -> dtype q1 = dtype q2 -> denote_points 2 q1 = denote_points 2 q2 ->
  dlen w1 = dlen w2 -> dtype w1 = dtype w2 ->
  denote_scalars F64 w1 = denote_scalars F64 w2 ->
  coupe_hilbert rust p0 q1 w1 k o = coupe_hilbert rust p0 q2 w2 k o.
Proof. exact repr_indep_hilbert. Qed.
Theorem ffi_repr_indep_fiduccia_mattheyses : forall rust p0 adj w1 w2 a b c d,
  dlen w1 = dlen w2 -> dtype w1 = dtype w2 ->
  denote_scalars (tag_numty (dtype w1)) w1 = denote_scalars (tag_numty (dtype w1)) w2 ->
  coupe_fiduccia_mattheyses rust p0 adj w1 a b c d = coupe_fiduccia_mattheyses rust p0 adj w2 a b c d.
Proof. exact repr_indep_fm. Qed.
Print Assumptions ffi_repr_indep_greedy.
Print Assumptions ffi_repr_indep_karmarkar_karp.
Print Assumptions ffi_repr_indep_karmarkar_karp_complete.
Print Assumptions ffi_repr_indep_rcb.
Print Assumptions ffi_repr_indep_rib.
Print Assumptions ffi_repr_indep_hilbert.
Print Assumptions ffi_repr_indep_fiduccia_mattheyses.

(* the tag hypothesis cannot be dropped: empty data sets denote the same elements whatever their tag, yet
   coupe_hilbert answers BAD_TYPE on the tag alone *)
Theorem ffi_repr_indep_needs_tag :
  let w1 := DArray 0 TInt [] in let w2 := DArray 0 TDouble [] in
  (forall ct w, denote ct w w1 = denote ct w w2)
  /\ coupe_hilbert (fun _ _ _ _ _ s => Ok s) [] (DArray 0 TDouble []) w1 2%N 1%N = Returns CBadType (Some [])
  /\ coupe_hilbert (fun _ _ _ _ _ s => Ok s) [] (DArray 0 TDouble []) w2 2%N 1%N = Returns COk (Some []).
Proof. exact repr_indep_needs_tag. Qed.
Print Assumptions ffi_repr_indep_needs_tag.

(* what the three representations denote: an array whose memory holds the elements back to back denotes
   them; a constant is the array of its repetitions; a callback is the array of what it returns *)
Theorem ffi_denote_array : forall ct w t (L : list (list value)) rest,
  (forall c, In c L -> typed ct w c) ->
  denote ct w (DArray (List.length L) t (List.concat L ++ rest)) = Some L.
Proof. exact denote_array. Qed.
Theorem ffi_constant_as_array : forall ct w n t t' p c,
  read ct w p = Some c ->
  denote ct w (DConstant n t p) = denote ct w (DArray n t' (List.concat (repeat c n))).
Proof. exact constant_as_array. Qed.
Theorem ffi_fn_as_array : forall ct w n t t' f g,
  (forall i, i < n -> read ct w (f i) = Some (g i)) ->
  denote ct w (DFn n t f) = denote ct w (DArray n t' (List.concat (map g (seq 0 n)))).
Proof. exact fn_as_array. Qed.
Print Assumptions ffi_denote_array.
Print Assumptions ffi_constant_as_array.
Print Assumptions ffi_fn_as_array.

(* ---- non-vacuity ---- *)
Example C17_nonvacuous_greedy :
  coupe_greedy (fun nt ws ps s => Ok [0; 1; 0]%N) [9; 9; 9; 7]%N (DConstant 3 TInt [VInt 5]) 2%N
  = Returns COk (Some [0; 1; 0; 7]%N)
  /\ coupe_greedy (fun nt ws ps s => Panic 1%N) [9; 9; 9; 7]%N (DArray 3 TInt64 [VInt64 5; VInt64 6; VInt64 7]) 2%N
     = Returns CCrash None.
Proof. split; vm_compute; reflexivity. Qed.

(* the same three weights through the three representations and a callback that counts from the end *)
Example C17_nonvacuous_representations :
  let rust := fun (nt : numty) (ws : list value) (ps : list (option N)) (s : list N) =>
    if values_same ws [VInt 5; VInt 5; VInt 5] then Ok [0; 1; 0]%N else Panic 7%N in
  coupe_greedy rust [9; 9; 9]%N (DArray 3 TInt [VInt 5; VInt 5; VInt 5]) 2%N = Returns COk (Some [0; 1; 0]%N)
  /\ coupe_greedy rust [9; 9; 9]%N (DConstant 3 TInt [VInt 5]) 2%N = Returns COk (Some [0; 1; 0]%N)
  /\ coupe_greedy rust [9; 9; 9]%N (DFn 3 TInt (fun i => skipn (2 - i) [VInt 5; VInt 5; VInt 5])) 2%N = Returns COk (Some [0; 1; 0]%N)
  (* and reading an int array at the double type is outside the model (undefined behaviour in the real code) *)
  /\ coupe_greedy rust [9; 9; 9]%N (DArray 3 TDouble [VInt 5; VInt 5; VInt 5]) 2%N = UB.
Proof. repeat split; vm_compute; reflexivity. Qed.

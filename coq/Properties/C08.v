(* C08 — the Hilbert index is a bijective, continuous curve at every accepted
   order.  Only the property theorems, each closed by [exact] of a lemma of
   Proofs/Hilbert*.v, with [Print Assumptions] at the end of the file (per group).  The tables, masks,
   limits and code-shape flags are the ones the translator read from
   hilbert_curve.rs (Gen/HilbertTables.v). *)
From Coupe Require Import Lib.Prelude Lib.SFloat Model.Hilbert Gen.HilbertTables
  Proofs.HilbertCurve Proofs.HilbertCert Proofs.HilbertInst Proofs.HilbertEncode2D Proofs.HilbertPdep
  Proofs.HilbertInterleave Proofs.Hilbert3D Proofs.HilbertSeg Proofs.HilbertSegFactor Proofs.HilbertChecker.
From Coq Require Import Floats.SpecFloat.
Open Scope N_scope.

(* ---- the source is in the shape the theorems are about *)
Theorem C08_source_shape :
  encode_2d_final_fixed = true /\ seg_factor_capped = true /\ max_order_2d = 32 /\ max_order_3d = 21
  /\ lut2_order = 6%nat /\ lut2_chunk_bits = 12 /\ lut2_len = 16384 /\ lut2_built = 16384
  /\ max_order_2d = spec_max_order_2d /\ max_order_3d = spec_max_order_3d.
Proof. repeat split; reflexivity. Qed.

(* the public entry points refuse exactly the orders above the documented maxima *)
Theorem C08_order_guard : forall order,
  (order_guard max_order_2d order = Ok tt <-> order <= 32) /\
  (order_guard max_order_3d order = Ok tt <-> order <= 21) /\
  (32 < order -> order_guard max_order_2d order = Err (InvalidOrder 32 order)) /\
  (21 < order -> order_guard max_order_3d order = Err (InvalidOrder 21 order)).
Proof. exact order_guard_spec. Qed.

(* ---- the finite certificate holds of the tables in the current source
   (rows are permutations, consecutive quadrants adjacent, corners glue) *)
Theorem C08_tables_certificate_2d : cert 2 digit2 next2 4 = true.
Proof. exact cert2. Qed.
Theorem C08_tables_certificate_3d : cert 3 digit3 next3 12 = true.
Proof. exact cert3. Qed.

(* ---- 2-D, every order n, every start state s: bijection [0,2^n)^2 <-> [0,4^n) *)
Theorem C08_hilbert2_enc_range : forall n s x y, s < 4 -> enc2 n s x y < 4 ^ N.of_nat n.
Proof. exact enc2_lt. Qed.
Theorem C08_hilbert2_dec_range : forall n s h,
  fst (dec2 n s h) < 2 ^ N.of_nat n /\ snd (dec2 n s h) < 2 ^ N.of_nat n.
Proof. exact dec2_lt. Qed.
Theorem C08_hilbert2_dec_enc : forall n s x y, s < 4 -> x < 2 ^ N.of_nat n -> y < 2 ^ N.of_nat n ->
  dec2 n s (enc2 n s x y) = (x, y).
Proof. exact dec2_enc2. Qed.
Theorem C08_hilbert2_enc_dec : forall n s h, s < 4 -> h < 4 ^ N.of_nat n ->
  enc2 n s (fst (dec2 n s h)) (snd (dec2 n s h)) = h.
Proof. exact enc2_dec2. Qed.

(* cells with consecutive indices share a face *)
Theorem C08_hilbert2_continuous : forall n s h, s < 4 -> h + 1 < 4 ^ N.of_nat n ->
  adjacent2 (dec2 n s h) (dec2 n s (h + 1)).
Proof. exact dec2_continuous. Qed.

(* dropping the 2 low bits of the index gives the parent cell's index *)
Theorem C08_hilbert2_parent : forall n s x y, s < 4 ->
  enc2 (S n) s x y / 4 = enc2 n s (x / 2) (y / 2).
Proof. exact enc2_parent. Qed.

(* ---- 3-D: the same for the 96-entry table (12 states x 8 octants) *)
Theorem C08_hilbert3_enc_range : forall n s x y z, s < 12 -> enc3 n s x y z < 8 ^ N.of_nat n.
Proof. exact enc3_lt. Qed.
Theorem C08_hilbert3_dec_range : forall n s h,
  let '(x, y, z) := dec3 n s h in x < 2 ^ N.of_nat n /\ y < 2 ^ N.of_nat n /\ z < 2 ^ N.of_nat n.
Proof. exact dec3_lt. Qed.
Theorem C08_hilbert3_dec_enc : forall n s x y z, s < 12 ->
  x < 2 ^ N.of_nat n -> y < 2 ^ N.of_nat n -> z < 2 ^ N.of_nat n ->
  dec3 n s (enc3 n s x y z) = (x, y, z).
Proof. exact dec3_enc3. Qed.
Theorem C08_hilbert3_enc_dec : forall n s h, s < 12 -> h < 8 ^ N.of_nat n ->
  let '(x, y, z) := dec3 n s h in enc3 n s x y z = h.
Proof. exact enc3_dec3. Qed.
Theorem C08_hilbert3_continuous : forall n s h, s < 12 -> h + 1 < 8 ^ N.of_nat n ->
  adjacent3 (dec3 n s h) (dec3 n s (h + 1)).
Proof. exact dec3_continuous. Qed.
Theorem C08_hilbert3_parent : forall n s x y z, s < 12 ->
  enc3 (S n) s x y z / 8 = enc3 n s (x / 2) (y / 2) (z / 2).
Proof. exact enc3_parent. Qed.

(* ---- the property text as one record, for an arbitrary indexing g of the
   order-n grid: in range, injective, onto [0, 2^(Dn)), continuous, parent
   recurrence.  The proven curves satisfy it at every order from every state;
   and the per-cell boolean check used on the implementation's outputs returns
   true for EVERY indexing that satisfies it (so [false] refutes the property). *)
Theorem C08_hilbert2_curve_ok : forall (n : nat) s, s < 4 ->
  curve_ok2 (N.of_nat n) (fun c => enc2 n s (fst c) (snd c)) (fun c => enc2 (Nat.pred n) s (fst c) (snd c)).
Proof. exact hilbert2_curve_ok. Qed.
Theorem C08_hilbert3_curve_ok : forall (n : nat) s, s < 12 ->
  curve_ok3 (N.of_nat n) (fun c => let '(x, y, z) := c in enc3 n s x y z)
            (fun c => let '(x, y, z) := c in enc3 (Nat.pred n) s x y z).
Proof. exact hilbert3_curve_ok. Qed.
Theorem C08_check_cell2_sound : forall n g gp x y,
  curve_ok2 n g gp -> x < 2 ^ n -> y < 2 ^ n ->
  check_cell 2 n (g (x, y)) (gp (x / 2, y / 2)) (map g (nbrs2 n x y)) = true.
Proof. exact check_cell2_sound. Qed.
Theorem C08_check_cell3_sound : forall n g gp x y z,
  curve_ok3 n g gp -> x < 2 ^ n -> y < 2 ^ n -> z < 2 ^ n ->
  check_cell 3 n (g (x, y, z)) (gp (x / 2, y / 2, z / 2)) (map g (nbrs3 n x y z)) = true.
Proof. exact check_cell3_sound. Qed.
Theorem C08_check_table2_sound : forall n g gp, curve_ok2 n g gp -> check_table2 n g gp = true.
Proof. exact check_table2_sound. Qed.
Theorem C08_check_table3_sound : forall n g gp, curve_ok3 n g gp -> check_table3 n g gp = true.
Proof. exact check_table3_sound. Qed.

(* ---- pdep: the 64-iteration fallback loop deposits the low bits of src at
   the set positions of mask; bit k = mask_k && src_(number of mask bits below k) *)
Theorem C08_pdep_eq_ref : forall src mask, mask < 2 ^ 64 -> pdep src mask = pdep_ref src mask.
Proof. exact pdep_eq_ref. Qed.
Theorem C08_pdep_spec : forall src mask k, mask < 2 ^ 64 ->
  N.testbit (pdep src mask) k = N.testbit mask k && N.testbit src (rank mask k).
Proof. exact pdep_spec. Qed.
(* its two instances: the interleavings of the encoders are the Morton codes *)
Theorem C08_interleave2 : forall (n : nat) x y, (n <= 32)%nat -> x < 2 ^ N.of_nat n -> y < 2 ^ N.of_nat n ->
  interleave2 x y = il2 n x y.
Proof. exact interleave2_spec. Qed.
Theorem C08_interleave3 : forall (n : nat) x y z, (n <= 21)%nat ->
  x < 2 ^ N.of_nat n -> y < 2 ^ N.of_nat n -> z < 2 ^ N.of_nat n ->
  interleave3 x y z = il3 n x y z.
Proof. exact interleave3_spec. Qed.

(* ---- the code: encode_2d_slow, the LUT-driven encode_2d (12-bit chunks,
   zero-padded last chunk, u64 wraps) and encode_3d compute the curve index
   from the initial state at every accepted order *)
Theorem C08_encode_2d_slow : forall (n : nat) z c, (n <= 32)%nat -> c < 4 ->
  encode_2d_slow z n c = Ok (enc 2 digit2 next2 n c z, st 2 next2 n c z).
Proof. exact encode_2d_slow_spec. Qed.
Theorem C08_encode_2d : forall (n : nat) x y, (n <= 32)%nat -> x < 2 ^ N.of_nat n -> y < 2 ^ N.of_nat n ->
  encode_2d x y (N.of_nat n) = Ok (enc2 n 0 x y).
Proof. exact encode_2d_gen_spec. Qed.
Theorem C08_encode_2d_eq_slow : forall (n : nat) x y, (n <= 32)%nat -> x < 2 ^ N.of_nat n -> y < 2 ^ N.of_nat n ->
  exists c, encode_2d_slow (interleave2 x y) n 0 = Ok (enc2 n 0 x y, c)
            /\ encode_2d x y (N.of_nat n) = Ok (enc2 n 0 x y).
Proof. exact encode_2d_eq_slow_gen. Qed.
Theorem C08_encode_3d : forall (n : nat) x y z, (n <= 21)%nat ->
  x < 2 ^ N.of_nat n -> y < 2 ^ N.of_nat n -> z < 2 ^ N.of_nat n ->
  encode_3d x y z (N.of_nat n) = Ok (enc3 n 0 x y z).
Proof. exact encode_3d_spec. Qed.

(* the pinned final expression of encode_2d (before commit 72e32af) is refuted:
   at order 32 it is not the curve and not injective *)
Theorem C08_encode_2d_pinned_refuted :
  exists x y, x < 2 ^ 32 /\ y < 2 ^ 32 /\
    encode_2d_gen false x y 32 <> Ok (enc2 32 0 x y) /\
    exists x' y', x' < 2 ^ 32 /\ y' < 2 ^ 32 /\ (x, y) <> (x', y') /\
      encode_2d_gen false x y 32 = encode_2d_gen false x' y' 32.
Proof. exact encode_2d_pinned_refuted. Qed.

(* ---- segment_to_segment: the quantisation is monotone and maps the
   bounding interval into [0, 2^order - 1], for every finite interval, every
   order < 64 and every finite value (IEEE-754 facts from Flocq; these theorems
   depend on the axioms of Coq's real numbers, printed below).  [seg_factor ..
   = Ok f]: the nextafter loop returned within the fuel. *)
Theorem C08_bits_are_valid_floats : forall b, valid64 (f64_of_bits b).
Proof. exact of_bits_valid. Qed.
Theorem C08_seg_monotone : forall fuel mn mx order f v v' c c',
  seg_factor fuel mn mx order = Ok f ->
  valid64 mn -> valid64 mx -> valid64 v -> valid64 v' ->
  is_finite mn = true -> is_finite mx = true -> is_finite v = true -> is_finite v' = true ->
  fle v v' = true ->
  seg_cell f mn mx v = Ok c -> seg_cell f mn mx v' = Ok c' -> c <= c'.
Proof. exact seg_monotone_full. Qed.
Theorem C08_seg_range : forall fuel mn mx order f v c,
  seg_factor fuel mn mx order = Ok f ->
  valid64 mn -> valid64 mx -> valid64 v ->
  is_finite mn = true -> is_finite mx = true -> is_finite v = true ->
  seg_cell f mn mx v = Ok c -> c <= 2 ^ order - 1.
Proof. exact seg_range_full. Qed.
(* the factor is a valid finite non-negative float unless min = +0.0, max = -0.0 *)
Theorem C08_seg_factor_good : forall fuel mn mx order f,
  seg_factor fuel mn mx order = Ok f -> valid64 mn -> valid64 mx ->
  is_finite mn = true -> is_finite mx = true -> good f \/ corner mn mx.
Proof. exact seg_factor_good. Qed.
(* the nextafter loop returns for every finite interval (a sufficient fuel exists) *)
Theorem C08_seg_terminates : forall mn mx order,
  valid64 mn -> valid64 mx -> is_finite mn = true -> is_finite mx = true ->
  fle mn mx = true -> order < 64 ->
  exists fuel0 : nat, forall fuel, (fuel0 <= fuel)%nat -> exists f, seg_factor fuel mn mx order = Ok f.
Proof. exact seg_factor_terminates. Qed.
(* the boolean check applied to the implementation's cells *)
Theorem C08_check_seg_ok : forall order cells,
  check_seg order cells = true <->
  Sorted.Sorted N.le cells /\ Forall (fun c => c <= 2 ^ order - 1) cells.
Proof. exact check_seg_ok. Qed.

(* the pinned factor `n / width` (before commit 5f6dac8) never leaves the loop
   on a subnormal-width interval; the repaired one returns *)
Theorem C08_seg_pinned_hangs : forall fuel,
  seg_factor_gen false fuel (f64_of_bits 0) (f64_of_bits 20240225330731) 29 = OutOfFuel.
Proof. exact seg_pinned_hangs. Qed.
Theorem C08_seg_fixed_returns :
  exists f, seg_factor_gen true 1 (f64_of_bits 0) (f64_of_bits 20240225330731) 29 = Ok f.
Proof. exact seg_fixed_returns. Qed.

(* ---- non-vacuity *)
Example C08_nonvacuous_2d :
  enc2 3 0 5 6 = 39 /\ dec2 3 0 39 = (5, 6) /\ dec2 3 0 40 = (6, 6) /\ encode_2d 5 6 3 = Ok 39.
Proof. vm_compute. repeat split; reflexivity. Qed.
Example C08_nonvacuous_2d_order32 :
  encode_2d 4294967295 0 32 = Ok 18446744073709551615 /\ enc2 32 0 4294967295 0 = 18446744073709551615.
Proof. vm_compute. split; reflexivity. Qed.
Example C08_nonvacuous_3d :
  encode_3d 5 3 7 3 = Ok 407 /\ dec3 3 0 407 = (5, 3, 7) /\ enc3 3 0 5 3 7 / 8 = enc3 2 0 2 1 3.
Proof. vm_compute. repeat split; reflexivity. Qed.
Example C08_nonvacuous_pdep : pdep 0x12567 0xff00fff0 = 0x12005670.
Proof. vm_compute. reflexivity. Qed.
Example C08_nonvacuous_seg :   (* [0, 8] at order 3: the values 0..8 *)
  segment_to_segment seg_fuel (f64_of_Z 0) (f64_of_Z 8) 3 (map f64_of_Z [0;1;2;3;4;5;6;7;8]%Z)
  = Ok [0; 0; 1; 2; 3; 4; 5; 6; 7].
Proof. vm_compute. reflexivity. Qed.

(* ---- assumptions, printed once per group (one traversal each instead of one per theorem):
   every theorem of the first group is closed under the global context; the
   second group (Flocq) depends on the four real-number axioms of the standard library *)
Definition C08_axiom_free_theorems :=
  (C08_source_shape,
   C08_order_guard,
   C08_tables_certificate_2d,
   C08_tables_certificate_3d,
   C08_hilbert2_enc_range,
   C08_hilbert2_dec_range,
   C08_hilbert2_dec_enc,
   C08_hilbert2_enc_dec,
   C08_hilbert2_continuous,
   C08_hilbert2_parent,
   C08_hilbert3_enc_range,
   C08_hilbert3_dec_range,
   C08_hilbert3_dec_enc,
   C08_hilbert3_enc_dec,
   C08_hilbert3_continuous,
   C08_hilbert3_parent,
   C08_hilbert2_curve_ok,
   C08_hilbert3_curve_ok,
   C08_check_cell2_sound,
   C08_check_cell3_sound,
   C08_check_table2_sound,
   C08_check_table3_sound,
   C08_pdep_eq_ref,
   C08_pdep_spec,
   C08_interleave2,
   C08_interleave3,
   C08_encode_2d_slow,
   C08_encode_2d,
   C08_encode_2d_eq_slow,
   C08_encode_3d,
   C08_encode_2d_pinned_refuted,
   C08_check_seg_ok,
   C08_seg_pinned_hangs,
   C08_seg_fixed_returns).
Print Assumptions C08_axiom_free_theorems.
Definition C08_float_theorems :=
  (C08_bits_are_valid_floats,
   C08_seg_monotone,
   C08_seg_range,
   C08_seg_factor_good,
   C08_seg_terminates).
Print Assumptions C08_float_theorems.

(* C08 — the Hilbert index is a bijective, continuous curve at every accepted
   order.  Only the property theorems, each closed by [exact] of a lemma of
   Proofs/Hilbert*.v, with [Print Assumptions] beneath.  The tables are the
   ones the translator read from hilbert_curve.rs (Gen/HilbertTables.v). *)
From Coupe Require Import Lib.Prelude Lib.SFloat Model.Hilbert Gen.HilbertTables
  Proofs.HilbertCurve Proofs.HilbertCert Proofs.HilbertInst.
Open Scope N_scope.

(* the finite certificate holds of the tables in the current source *)
Theorem C08_tables_certificate_2d : cert 2 digit2 next2 4 = true.
Proof. exact cert2. Qed.
Theorem C08_tables_certificate_3d : cert 3 digit3 next3 12 = true.
Proof. exact cert3. Qed.

(* 2-D, every order n, every start state s: bijection [0,2^n)^2 <-> [0,4^n) *)
Theorem C08_hilbert2_bijective : forall n s, s < 4 ->
  (forall x y, x < 2 ^ N.of_nat n -> y < 2 ^ N.of_nat n ->
     enc2 n s x y < 4 ^ N.of_nat n /\ dec2 n s (enc2 n s x y) = (x, y)) /\
  (forall h, h < 4 ^ N.of_nat n ->
     fst (dec2 n s h) < 2 ^ N.of_nat n /\ snd (dec2 n s h) < 2 ^ N.of_nat n /\
     enc2 n s (fst (dec2 n s h)) (snd (dec2 n s h)) = h).
Proof.
  intros n s Hs. split.
  - intros x y Hx Hy. split; [exact (enc2_lt n s x y Hs) | exact (dec2_enc2 n s x y Hs Hx Hy)].
  - intros h Hh. destruct (dec2_lt n s h) as [A B]. repeat split; try assumption.
    exact (enc2_dec2 n s h Hs Hh).
Qed.
Print Assumptions C08_hilbert2_bijective.

(* cells with consecutive indices share a face *)
Theorem C08_hilbert2_continuous : forall n s h, s < 4 -> h + 1 < 4 ^ N.of_nat n ->
  adjacent2 (dec2 n s h) (dec2 n s (h + 1)).
Proof. exact dec2_continuous. Qed.
Print Assumptions C08_hilbert2_continuous.

(* dropping the 2 low bits of the index gives the parent cell's index *)
Theorem C08_hilbert2_parent : forall n s x y, s < 4 ->
  enc2 (S n) s x y / 4 = enc2 n s (x / 2) (y / 2).
Proof. exact enc2_parent. Qed.
Print Assumptions C08_hilbert2_parent.

(* non-vacuity *)
Example C08_nonvacuous_2d :
  enc2 3 0 5 6 = 39 /\ dec2 3 0 39 = (5, 6) /\ dec2 3 0 40 = (6, 6) /\ encode_2d 5 6 3 = Ok 39.
Proof. vm_compute. repeat split; reflexivity. Qed.

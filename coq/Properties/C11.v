(* C11 — MultiJagged yields a balanced jagged hierarchy with the requested part count.
   This file contains only the property theorems, each closed by [exact] of a
   lemma of Proofs/MultiJaggedProofs.v, with [Print Assumptions] beneath.

   Quantification: every theorem holds for EVERY arithmetic [A] (IEEE binary64
   [F64], exact rationals [QA], ...) unless it names one, every dimension D,
   every root oracle satisfying [root_ok] (libm powf is not modelled), every
   sort oracle satisfying [sorter_ok] (any permutation sorted by the
   coordinate; ties free), every block decomposition [blk] of rayon's scan and
   every order [ord] in which the leaves draw their number from the atomic
   counter (any injection of the leaves into [0, part_count)). *)
From Coq Require Import Permutation QArith.
From Coupe Require Import Lib.Prelude Lib.SFloat Model.MultiJagged Proofs.MultiJaggedProofs Gen.MjGen.
Open Scope N_scope.

(* the literals of multi_jagged.rs the model is written against, re-read from the source on every run *)
Theorem C11_source_literals :
  mj_counter_first = 0 /\ mj_counter_incr = 1 /\ mj_leaf_num_splits = 0 /\ mj_axis_step = 1%nat /\
  mj_num_splits_offset = 1 /\ mj_scheme_stops_on_rem0_iter0 = true /\
  mj_scan_test_is_gt = true /\ mj_skip_test_is_gt = true /\ mj_refine_test_is_lt = true /\
  mj_refine_uses_default_ulps = true /\ mj_refine_bounded_by_len = true.
Proof. repeat split; exact eq_refl. Qed.

(* mj_leaf_count: the scheme built for (part_count, max_iter) has exactly
   part_count leaves (and is well formed: every cutting node has
   num_splits + 1 children whose part counts add up, modifier i = parts of
   child i / parts) *)
Theorem C11_leaf_count : forall (A : arith) (root : N -> nat -> N) (k : N) (m : nat),
  root_ok root -> 1 <= k -> k < 2 ^ 60 -> (1 <= m)%nat ->
  exists sch, partition_scheme A root k m = Ok sch /\ leaves sch = N.to_nat k /\ WfScheme A sch k m.
Proof. exact mj_leaf_count. Qed.
Print Assumptions C11_leaf_count.

(* [root_ok] cannot be weakened to 1 <= root <= n: a root of 1 for 5 parts turns the node into a leaf *)
Example C11_leaf_count_needs_root_ge_2 :
  let root := fun (n : N) (m : nat) => if Nat.eqb m 1 then n else 1 in
  (forall n m, 1 <= n -> 1 <= root n m <= n) /\
  exists sch, partition_scheme QA root 5 2 = Ok sch /\ leaves sch = 1%nat.
Proof.
  split.
  - intros n m Hn. cbv beta zeta. destruct (Nat.eqb m 1); lia.
  - eexists. split; [vm_compute; reflexivity|reflexivity].
Qed.

(* ids below part_count, every element written, and the parts form a jagged
   hierarchy of the shape of the scheme (mj_jagged), whenever the model returns *)
Theorem C11_ids_in_range_and_jagged :
  forall (A : arith) (D npts : nat) (wts : list (num A)) sorter blk cxlt root ord (k : N) (m : nat) p0 p,
  root_ok root -> sorter_ok sorter cxlt -> ord_ok ord (N.to_nat k) ->
  1 <= k -> k < 2 ^ 60 -> (1 <= m)%nat -> length p0 = npts ->
  multi_jagged A D npts wts sorter blk root ord k m p0 = Ok p ->
  length p = npts /\ Forall (fun x => x < k) p /\
  exists sch els, partition_scheme A root k m = Ok sch /\ leaves sch = N.to_nat k /\
    Permutation els (seq 0 npts) /\ JaggedTree (num A) D cxlt (fun i => nth i p 0) sch 0 els.
Proof. exact mj_structure. Qed.
Print Assumptions C11_ids_in_range_and_jagged.

(* ---- checkers used on the implementation's outputs ---- *)
Theorem C11_check_range_ok : forall k n p,
  check_range k n p = true <-> (length p = n /\ Forall (fun x => x < k) p).
Proof. exact check_range_ok. Qed.
Print Assumptions C11_check_range_ok.

Theorem C11_check_balance_ok : forall ws p k m, check_balance ws p k m = true <-> balanced ws p k m.
Proof. exact check_balance_ok. Qed.
Print Assumptions C11_check_balance_ok.

Theorem C11_check_jagged_sound : forall B D cxlt idf (sch : scheme B) n lvs,
  check_jagged B D cxlt idf sch n lvs = true ->
  exists els, Permutation els (seq 0 n) /\ JaggedTree B D cxlt idf sch 0 els.
Proof. exact check_jagged_sound. Qed.
Print Assumptions C11_check_jagged_sound.

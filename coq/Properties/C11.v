(* C11 — MultiJagged yields a balanced jagged hierarchy with the requested part count. *)
From Coupe Require Import Lib.Prelude Lib.SFloat Model.MultiJagged Proofs.MultiJaggedProofs Gen.MjGen.
Open Scope N_scope.

Theorem C11_check_range_ok : forall k n p,
  check_range k n p = true <-> (length p = n /\ Forall (fun x => x < k) p).
Proof. exact check_range_ok. Qed.
Print Assumptions C11_check_range_ok.

(* C11 — MultiJagged yields a balanced jagged hierarchy with the requested part count.
   This file contains only the property theorems, each closed by [exact] of a
   lemma of Proofs/MultiJaggedProofs.v, with [Print Assumptions] beneath.

   Quantification: every theorem holds for EVERY arithmetic [A] (IEEE binary64
   [F64], exact rationals [QA], ...) unless it names one, every dimension D,
   every root oracle satisfying [root_ok] (libm powf is not modelled), every
   sort oracle satisfying [sorter_ok] (any permutation sorted by the
   coordinate; ties free), every block decomposition [blk] of rayon's scan and
   every order [ord] in which the leaves draw their number from the atomic
   counter (any injection of the leaves into [0, part_count)). *)
From Coq Require Import Permutation QArith Floats.SpecFloat.
From Coupe Require Import Lib.Prelude Lib.SFloat Model.MultiJagged Proofs.MultiJaggedProofs Proofs.MultiJaggedExact Proofs.MultiJaggedSim Proofs.MultiJaggedTotal Proofs.MultiJaggedSep Proofs.MultiJaggedMono Proofs.MultiJaggedF64Mono Proofs.MultiJaggedF64Ulps Proofs.MultiJaggedF64Scaled Gen.MjGen Gen.MjSortGen Gen.MjRecGen.
Open Scope N_scope.

(* the literals of multi_jagged.rs the model is written against, re-read from the source on every run *)
Theorem C11_source_literals :
  mj_counter_first = 0 /\ mj_counter_incr = 1 /\ mj_leaf_num_splits = 0 /\ mj_axis_step = 1%nat /\
  mj_num_splits_offset = 1 /\ mj_scheme_stops_on_rem0_iter0 = true /\
  mj_scan_test_is_gt = true /\ mj_skip_test_is_gt = true /\ mj_refine_test_is_lt = true /\
  mj_refine_ulps_epsilon_is_zero = true /\ mj_refine_bounded_by_len = true /\
  mj_scan_exhaustion_puts_cut_at_end = true /\
  approx_version = (0, 5, 1).   (* f64_ulps_eq is transcribed from this version of the approx crate *)
Proof. repeat split; exact eq_refl. Qed.

(* mj_leaf_count: the scheme built for (part_count, max_iter) has exactly
   part_count leaves (and is well formed: every cutting node has
   num_splits + 1 children whose part counts add up, modifier i = parts of
   child i / parts) *)
Theorem C11_leaf_count : forall (A : arith) (root : N -> nat -> N) (k : N) (m : nat),
  root_ok root -> 1 <= k -> k < 2 ^ 60 -> (1 <= m)%nat ->
  exists sch, partition_scheme A root k m = Ok sch /\ leaves sch = N.to_nat k /\ WfScheme A sch k m.
Proof. exact mj_leaf_count. Qed.
Print Assumptions C11_leaf_count.

(* [root_ok] cannot be weakened to 1 <= root <= n: a root of 1 for 5 parts turns the node into a leaf *)
Example C11_leaf_count_needs_root_ge_2 :
  let root := fun (n : N) (m : nat) => if Nat.eqb m 1 then n else 1 in
  (forall n m, 1 <= n -> 1 <= root n m <= n) /\
  exists sch, partition_scheme QA root 5 2 = Ok sch /\ leaves sch = 1%nat.
Proof.
  split.
  - intros n m Hn. cbv beta zeta. destruct (Nat.eqb m 1); lia.
  - eexists. split; [vm_compute; reflexivity|reflexivity].
Qed.

(* ids below part_count, every element written, and the parts form a jagged
   hierarchy of the shape of the scheme (mj_jagged), whenever the model returns *)
Theorem C11_ids_in_range_and_jagged :
  forall (A : arith) (D npts : nat) (wts : list (num A)) sorter blk cxlt root ord (k : N) (m : nat) p0 p,
  root_ok root -> sorter_ok sorter cxlt -> ord_ok ord (N.to_nat k) ->
  1 <= k -> k < 2 ^ 60 -> (1 <= m)%nat -> length p0 = npts ->
  multi_jagged A D npts wts sorter blk root ord k m p0 = Ok p ->
  length p = npts /\ Forall (fun x => x < k) p /\
  exists sch els, partition_scheme A root k m = Ok sch /\ leaves sch = N.to_nat k /\
    Permutation els (seq 0 npts) /\ JaggedTree (num A) D cxlt (fun i => nth i p 0) sch 0 els.
Proof. exact mj_structure. Qed.
Print Assumptions C11_ids_in_range_and_jagged.

(* ---- checkers used on the implementation's outputs ---- *)
Theorem C11_check_range_ok : forall k n p,
  check_range k n p = true <-> (length p = n /\ Forall (fun x => x < k) p).
Proof. exact check_range_ok. Qed.
Print Assumptions C11_check_range_ok.

Theorem C11_check_balance_ok : forall ws p k m, check_balance ws p k m = true <-> balanced ws p k m.
Proof. exact check_balance_ok. Qed.
Print Assumptions C11_check_balance_ok.

Theorem C11_check_jagged_sound : forall B D cxlt idf (sch : scheme B) n lvs,
  check_jagged B D cxlt idf sch n lvs = true ->
  exists els, Permutation els (seq 0 n) /\ JaggedTree B D cxlt idf sch 0 els.
Proof. exact check_jagged_sound. Qed.
Print Assumptions C11_check_jagged_sound.

(* ---- exact threshold arithmetic ([QA]: what the code computes when no f64 operation rounds) ---- *)

(* rayon's block decomposition of the scan is irrelevant: for non-negative
   weights and increasing non-negative thresholds the split positions are the
   same for every decomposition (each is the first position whose prefix weight
   exceeds its threshold) *)
Theorem C11_blocks_irrelevant : forall wl ths bs1 bs2,
  Forall (Qle 0) wl -> Sorted.StronglySorted Qle ths -> Forall (Qle 0) ths ->
  csp_core QA wl ths bs1 = csp_core QA wl ths bs2.
Proof. exact csp_core_blocks_irrelevant. Qed.
Print Assumptions C11_blocks_irrelevant.

Theorem C11_split_positions_are_cuts : forall wl, Forall (Qle 0) wl -> forall ths bs,
  Sorted.StronglySorted Qle ths -> Forall (Qle 0) ths ->
  exists ps, csp_core QA wl ths bs = Ok ps /\ Forall2 (is_cut wl) ths ps.
Proof. exact csp_core_spec. Qed.
Print Assumptions C11_split_positions_are_cuts.

(* no panic, no missing element at exact arithmetic, for non-negative weights *)
Theorem C11_exact_total : forall D npts (wq : list Q) sorter blk cxlt root ord (k : N) (m : nat) p0,
  root_ok root -> sorter_ok sorter cxlt ->
  1 <= k -> k < 2 ^ 60 -> (1 <= m)%nat -> (1 <= D)%nat ->
  Forall (Qle 0) wq -> length wq = npts -> length p0 = npts ->
  exists p, multi_jagged QA D npts wq sorter blk root ord k m p0 = Ok p.
Proof. exact mj_exact_total. Qed.
Print Assumptions C11_exact_total.

(* mj_balance.  PARTIAL with respect to the property text: proved for the model
   at exact arithmetic [QA] (integer weights injected into Q, thresholds
   total * parts_i / parts computed exactly, the Ulps comparison read as
   equality).  What is missing: the same bound for the model at [F64], i.e.
   that the rounding of the f64 thresholds and the 4-ulps / epsilon tolerance
   never move a cut (true on every generated case: the run evaluates both
   models and the checker C11_check_balance_ok judges the implementation's
   real output).  The hypothesis is weaker than "strictly positive": weights
   >= 0, not all zero. *)
Theorem C11_balance_partial :
  forall D npts (ws : list Z) sorter blk cxlt root ord (k : N) (m : nat) p0 p,
  root_ok root -> sorter_ok sorter cxlt -> ord_bij ord (N.to_nat k) ->
  1 <= k -> k < 2 ^ 60 -> (1 <= m)%nat ->
  Forall (fun w => (0 <= w)%Z) ws -> (0 < maxZ ws)%Z -> length ws = npts -> length p0 = npts ->
  multi_jagged QA D npts (map inject_Z ws) sorter blk root ord k m p0 = Ok p ->
  balanced ws p k m.
Proof. exact mj_balance. Qed.
Print Assumptions C11_balance_partial.

(* the bound actually proved is sharper: max_iter (not max_iter + 1) element weights *)
Theorem C11_balance_exact_sharp :
  forall D npts (ws : list Z) sorter blk cxlt root ord (k : N) (m : nat) p0 p,
  root_ok root -> sorter_ok sorter cxlt -> ord_bij ord (N.to_nat k) ->
  1 <= k -> k < 2 ^ 60 -> (1 <= m)%nat ->
  Forall (fun w => (0 <= w)%Z) ws -> (0 < maxZ ws)%Z -> length ws = npts -> length p0 = npts ->
  multi_jagged QA D npts (map inject_Z ws) sorter blk root ord k m p0 = Ok p ->
  forall b, b < k ->
    (Z.abs (Z.of_N k * loadZ ws p b - sumZ ws) <= Z.of_N k * Z.of_nat m * maxZ ws)%Z.
Proof. exact mj_balance_exact. Qed.
Print Assumptions C11_balance_exact_sharp.

(* the runs execute the exact model on normalised fractions ([QAred]: Qred after
   every operation, to keep the numerators small): it is the same function *)
Theorem C11_exact_run_is_exact_model : forall D npts (wq : list Q) sorter blk root ord k m p0,
  multi_jagged QAred D npts wq sorter blk root ord k m p0 = multi_jagged QA D npts wq sorter blk root ord k m p0.
Proof. exact multi_jagged_QAred. Qed.
Print Assumptions C11_exact_run_is_exact_model.

(* two schedules (orders in which the leaves draw their number) give the same
   partition up to the names of the parts — why the runs compare canonical forms *)
Theorem C11_leaf_order_irrelevant :
  forall (A : arith) D npts (wts : list (num A)) sorter blk cxlt, sorter_ok sorter cxlt ->
  forall sch parts d ord1 ord2 p0 p1 p2,
  WfScheme A sch parts d -> ord_ok ord1 (N.to_nat parts) -> ord_ok ord2 (N.to_nat parts) ->
  length p0 = npts ->
  mj_with_scheme A D npts wts sorter blk ord1 sch p0 = Ok p1 ->
  mj_with_scheme A D npts wts sorter blk ord2 sch p0 = Ok p2 ->
  forall x y, (x < npts)%nat -> (y < npts)%nat ->
    (nth_opt p1 x = nth_opt p1 y <-> nth_opt p2 x = nth_opt p2 y).
Proof. exact mj_ord_indep. Qed.
Print Assumptions C11_leaf_order_irrelevant.

(* the sort step: the translator checks that recursive_bisection::axis_sort — the
   only sort MultiJagged relies on — is exactly one par_sort_unstable_by over the
   permutation ordered by points[i][current_coord] (no fast path, no other key):
   what the sort oracle [sorter_ok] stands for.  Fails closed (Gen/MjSortGen.v). *)
Theorem C11_axis_sort_fingerprint : mj_axis_sort_is_one_unstable_sort_by_coordinate = true.
Proof. exact eq_refl. Qed.

(* the recursion: multi_jagged_with_scheme, multi_jagged_recurse (in particular the
   leaf: one fetch_add, then ONE store per index of the WHOLE permutation slice via
   `permutation.par_iter().for_each` — no chunking, no fixed buffers) and
   split_at_mut_many are, comments and white space aside, the text the model was
   written against.  Fails closed (Gen/MjRecGen.v). *)
Theorem C11_recursion_fingerprint :
  mj_recurse_is_fingerprinted_text = true /\ mj_split_at_mut_many_is_fingerprinted_text = true /\
  mj_with_scheme_is_fingerprinted_text = true.
Proof. repeat split; exact eq_refl. Qed.

(* A checker for the jagged clause whose `false` IS a failing input: if the ids
   form a JaggedTree of the scheme's shape — for ANY assignment of parts to
   leaves — then every two parts are separated along one of the axes of the
   scheme's cutting levels, and check_separated answers true. *)
Theorem C11_check_separated_complete : forall B D cxlt idf (sch : scheme B) els n k,
  JaggedTree B D cxlt idf sch 0 els -> (forall i, (i < n)%nat -> In i els) ->
  check_separated B D cxlt idf sch n k = true.
Proof. exact check_separated_complete. Qed.
Print Assumptions C11_check_separated_complete.

(* ---- which panic sites are reachable, for EVERY arithmetic (for C01) ---- *)

(* Inside the contract the model returns Ok or stops at site 4 (`ret[ret.len()-1]`
   on an empty ret: the first threshold of a call compares below zero) or site 5
   (`*pos - drained_count` underflows: a call returned decreasing positions),
   each time with the responsible call of compute_split_positions as witness.
   Every other site — the index accesses driven by the scan and by the split
   positions (always within [0, len], whatever the comparisons answer), the
   `unwrap`s, the raw writes — is unreachable, and so are Err / OutOfFuel. *)
Theorem C11_panic_sites_any_arithmetic :
  forall (A : arith) D npts (wts : list (num A)) sorter blk cxlt root ord (k : N) (m : nat) p0,
  root_ok root -> sorter_ok sorter cxlt -> 1 <= k -> k < 2 ^ 60 -> (1 <= m)%nat -> (1 <= D)%nat ->
  length wts = npts -> length p0 = npts ->
  outcome A npts wts blk (multi_jagged A D npts wts sorter blk root ord k m p0).
Proof. exact mj_outcome. Qed.
Print Assumptions C11_panic_sites_any_arithmetic.

Theorem C11_panic_sites_4_5_only :
  forall (A : arith) D npts (wts : list (num A)) sorter blk cxlt root ord (k : N) (m : nat) p0,
  root_ok root -> sorter_ok sorter cxlt -> 1 <= k -> k < 2 ^ 60 -> (1 <= m)%nat -> (1 <= D)%nat ->
  length wts = npts -> length p0 = npts ->
  forall s, multi_jagged A D npts wts sorter blk root ord k m p0 = Panic s -> s = 4 \/ s = 5.
Proof. exact mj_panic_sites. Qed.
Print Assumptions C11_panic_sites_4_5_only.

(* the two sites are excluded by two facts about the calls of
   compute_split_positions the recursion makes: [first_threshold_not_below_zero]
   and [mono_cuts] (the positions of one call are non-decreasing) *)
Theorem C11_total_of_float_facts :
  forall (A : arith) D npts (wts : list (num A)) sorter blk cxlt root ord (k : N) (m : nat) p0,
  root_ok root -> sorter_ok sorter cxlt -> 1 <= k -> k < 2 ^ 60 -> (1 <= m)%nat -> (1 <= D)%nat ->
  length wts = npts -> length p0 = npts ->
  first_threshold_not_below_zero A npts wts blk -> mono_cuts A npts wts blk ->
  exists p, multi_jagged A D npts wts sorter blk root ord k m p0 = Ok p.
Proof. exact mj_total_of_facts. Qed.
Print Assumptions C11_total_of_float_facts.

(* binary64, either Ulps epsilon (hence RunC11.F64impl): site 4 is unreachable
   for weights that are not negative (zeros of either sign, positive finite,
   +infinity and even NaN allowed) — sums, products of non-negative values and
   quotients of `usize as f64` values never carry a negative sign, by the sign
   bookkeeping of SpecFloat alone *)
Theorem C11_f64_first_threshold_not_below_zero : forall eps npts wts blk,
  Forall notneg wts -> first_threshold_not_below_zero (F64eps eps) npts wts blk.
Proof. exact f64_first_threshold. Qed.
Print Assumptions C11_f64_first_threshold_not_below_zero.

(* PARTIAL no-panic for binary64: the model returns as soon as the cuts of
   every call are non-decreasing.  What is missing is [mono_cuts] itself for
   binary64; it genuinely depends on float facts (docs/C11.md lists them: the
   two refinements of consecutive thresholds start from different blocks, so
   their running sums are different associations of the same prefix; they
   agree when the sums are exact, and then monotonicity follows from the order
   of the thresholds, the monotonicity of rounding and the convexity of the
   ULP comparison). *)
Theorem C11_f64_total_of_monotone_cuts_partial :
  forall eps D npts wts sorter blk cxlt root ord (k : N) (m : nat) p0,
  root_ok root -> sorter_ok sorter cxlt -> 1 <= k -> k < 2 ^ 60 -> (1 <= m)%nat -> (1 <= D)%nat ->
  length wts = npts -> length p0 = npts -> Forall notneg wts ->
  mono_cuts (F64eps eps) npts wts blk ->
  exists p, multi_jagged (F64eps eps) D npts wts sorter blk root ord k m p0 = Ok p.
Proof. exact mj_f64_total_of_monotone_cuts. Qed.
Print Assumptions C11_f64_total_of_monotone_cuts_partial.

(* ---- mono_cuts, and with it no-panic, for binary64 on integer-valued weights ---- *)

(* For ANY arithmetic: if the weights are images [inj z] of non-negative integers
   whose total stays within a bound below which addition is exact, then every
   running sum of the code — whatever its association — is [inj] of the integer
   prefix sum, and the split positions of every call are non-decreasing as soon
   as the thresholds (class T, ordered by tleS) compare like numbers with exact
   sums: F_first .. F_convex, F_thresholds. *)
Theorem C11_mono_cuts_of_exact_sums :
  forall (A : arith) (inj : Z -> num A) (Bound : Z),
  a_zero A = inj 0%Z ->
  (forall a b, (0 <= a)%Z -> (0 <= b)%Z -> (a + b <= Bound)%Z -> a_add A (inj a) (inj b) = inj (a + b)%Z) ->
  forall (T : num A -> Prop) (tleS : num A -> num A -> Prop),
  (forall t t', tleS t t' -> tle A inj Bound t t') ->
  (forall t, T t -> a_lt A t (inj 0%Z) = false) ->
  (forall t a b, T t -> inR Bound a -> inR Bound b -> (a <= b)%Z -> a_lt A t (inj a) = true -> a_lt A t (inj b) = true) ->
  (forall t a, T t -> inR Bound a -> a_lt A (inj a) t = false -> a_lt A t (inj a) = false -> a_ulps A t (inj a) = true) ->
  (forall t t' a, T t -> T t' -> tleS t t' -> inR Bound a ->
     a_lt A (inj a) t' = false -> a_ulps A t (inj a) = true -> a_ulps A t' (inj a) = true) ->
  (forall W cparts parts init z, inR Bound W ->
     Forall (fun cp => 1 <= cp) cparts -> parts = sumN cparts -> parts < 2 ^ 60 ->
     map (fun cp => a_div A (a_ofN A cp) (a_ofN A parts)) cparts = init ++ [z] ->
     Forall T (thresholds A (inj W) (inj 0%Z) init) /\ Sorted.StronglySorted tleS (thresholds A (inj W) (inj 0%Z) init)) ->
  forall zs : list Z, Forall (fun z => (0 <= z)%Z) zs -> (sumZ zs <= Bound)%Z ->
  forall blk, mono_cuts A (length zs) (map inj zs) blk.
Proof. exact mono_cuts_of_exact_sums. Qed.
Print Assumptions C11_mono_cuts_of_exact_sums.

(* binary64: the ULP comparison of the code (epsilon 0.0, 4 ULPs) is convex on
   non-negative values — bit patterns are monotone in the value, and
   |t - s| <= 0.0 forces t = s (Flocq; axioms of the classical reals) *)
Theorem C11_f64_ulps_convex : ulps_convex_f64.
Proof. exact ulps_convex_f64_holds. Qed.
Print Assumptions C11_f64_ulps_convex.

(* mono_cuts for binary64 and integer-valued non-negative weights with total <= 2^53 *)
Theorem C11_f64_mono_cuts_integer_weights : forall (zs : list Z) blk,
  Forall (fun z => (0 <= z)%Z) zs -> (sumZ zs <= 2 ^ 53)%Z ->
  mono_cuts F64 (length zs) (map (fun z => f64_of_Z z) zs) blk.
Proof. exact f64_mono_cuts_integer. Qed.
Print Assumptions C11_f64_mono_cuts_integer_weights.

(* NO PANIC at binary64 (the code as it is), no premise about the arithmetic:
   integer-valued non-negative weights whose total is at most 2^53 *)
Theorem C11_f64_total : forall D (zs : list Z) sorter blk cxlt root ord (k : N) (m : nat) p0,
  root_ok root -> sorter_ok sorter cxlt -> 1 <= k -> k < 2 ^ 60 -> (1 <= m)%nat -> (1 <= D)%nat ->
  Forall (fun z => (0 <= z)%Z) zs -> (sumZ zs <= 2 ^ 53)%Z -> length p0 = length zs ->
  exists p, multi_jagged F64 D (length zs) (map (fun z => f64_of_Z z) zs) sorter blk root ord k m p0 = Ok p.
Proof. exact mj_f64_total_integer. Qed.
Print Assumptions C11_f64_total.

(* the same for weights z_i * 2^e with a common exponent (injS e z is the value
   `binary_normalize 53 1024 z e false` the runs feed to the model: e = 0, 3,
   +-10, -30, -70, and -1074 for the subnormal family) *)
Theorem C11_f64_mono_cuts_scaled_weights : forall e, (-1074 <= e <= 970)%Z -> forall (zs : list Z) blk,
  Forall (fun z => (0 <= z)%Z) zs -> (sumZ zs < 2 ^ 53)%Z ->
  mono_cuts F64 (length zs) (map (injS e) zs) blk.
Proof. exact f64_mono_cuts_scaled. Qed.
Print Assumptions C11_f64_mono_cuts_scaled_weights.

Theorem C11_f64_total_scaled : forall e D (zs : list Z) sorter blk cxlt root ord (k : N) (m : nat) p0,
  (-1074 <= e <= 970)%Z ->
  root_ok root -> sorter_ok sorter cxlt -> 1 <= k -> k < 2 ^ 60 -> (1 <= m)%nat -> (1 <= D)%nat ->
  Forall (fun z => (0 <= z)%Z) zs -> (sumZ zs < 2 ^ 53)%Z -> length p0 = length zs ->
  exists p, multi_jagged F64 D (length zs) (map (injS e) zs) sorter blk root ord k m p0 = Ok p.
Proof. exact mj_f64_total_scaled. Qed.
Print Assumptions C11_f64_total_scaled.

(* ---- whole-algorithm schedule independence at exact arithmetic (for C06) ---- *)

(* the block decompositions of rayon's scans (one per call of
   compute_split_positions, [blk] maps the slab to its block lengths) change
   nothing at all: same leaf order => the very same result *)
Theorem C11_blocks_irrelevant_whole :
  forall D npts (wq : list Q) sorter blk1 blk2, Forall (Qle 0) wq ->
  forall root ord k m p0, root_ok root -> 1 <= k -> k < 2 ^ 60 -> (1 <= m)%nat ->
  multi_jagged QA D npts wq sorter blk1 root ord k m p0 = multi_jagged QA D npts wq sorter blk2 root ord k m p0.
Proof. exact mj_blocks_irrelevant_exact. Qed.
Print Assumptions C11_blocks_irrelevant_whole.

(* mj_sched_indep_exact: for ONE sort oracle, any two block decompositions
   (per call) and any two leaf orders, non-negative weights: the two outputs
   are the same partition of the elements, up to the names of the parts *)
Theorem C11_sched_indep_exact :
  forall D npts (wq : list Q) sorter cxlt root blk1 blk2 ord1 ord2 (k : N) (m : nat) p0 p1 p2,
  root_ok root -> sorter_ok sorter cxlt ->
  ord_ok ord1 (N.to_nat k) -> ord_ok ord2 (N.to_nat k) ->
  1 <= k -> k < 2 ^ 60 -> (1 <= m)%nat ->
  Forall (Qle 0) wq -> length p0 = npts ->
  multi_jagged QA D npts wq sorter blk1 root ord1 k m p0 = Ok p1 ->
  multi_jagged QA D npts wq sorter blk2 root ord2 k m p0 = Ok p2 ->
  length p1 = npts /\ length p2 = npts /\
  forall x y, (x < npts)%nat -> (y < npts)%nat ->
    (nth_opt p1 x = nth_opt p1 y <-> nth_opt p2 x = nth_opt p2 y).
Proof. exact mj_sched_indep_exact. Qed.
Print Assumptions C11_sched_indep_exact.

(* What the freedom of the SORT oracle (the order of elements with equal
   coordinates; rayon's unstable sort is a deterministic function of the slice,
   so this is not a schedule dependence, but it is unspecified) can change:
   (1) nothing when no two points share a coordinate along an axis — for every
       arithmetic the result is the same for any two admissible oracles; *)
Theorem C11_sort_oracle_irrelevant_without_ties :
  forall (A : arith) D npts (wts : list (num A)) blk (key : nat -> nat -> Z) sorter1 sorter2,
  sorter_ok sorter1 (key_lt key) -> sorter_ok sorter2 (key_lt key) ->
  (forall a x y, (x < npts)%nat -> (y < npts)%nat -> key a x = key a y -> x = y) ->
  forall root ord k m p0,
  multi_jagged A D npts wts sorter1 blk root ord k m p0 = multi_jagged A D npts wts sorter2 blk root ord k m p0.
Proof. exact mj_sorter_indep_no_ties. Qed.
Print Assumptions C11_sort_oracle_irrelevant_without_ties.

(* (2) with ties it can change WHICH elements share a part: C11_sort_ties_can_change_the_partition at the end of this file. *)

(* ---- non-vacuity: the oracle contracts are satisfiable, and a concrete run ---- *)

(* a sort oracle: stable insertion sort on any integer key *)
Theorem C11_sort_oracle_exists : forall key : nat -> nat -> Z,
  sorter_ok (fun a => isort (key_lt key a)) (key_lt key).
Proof. exact isort_sorter_ok. Qed.

(* a root oracle satisfying root_ok (square-root-free: 2 slabs per level, all parts at the last level) *)
Definition root2 (n : N) (m : nat) : N := if Nat.eqb m 1 then n else if n =? 1 then 1 else 2.
Example C11_root_oracle_exists : root_ok root2.
Proof.
  intros n m. unfold root2. repeat split.
  - intros ->. destruct (Nat.eqb m 1); reflexivity.
  - destruct (Nat.eqb m 1); [lia|]. destruct (N.eqb_spec n 1); lia.
  - destruct (Nat.eqb m 1); [lia|]. destruct (N.eqb_spec n 1); lia.
Qed.
Example C11_leaf_order_exists : forall L, ord_bij N.of_nat L.
Proof. intros L. split; [apply ord_ok_of_nat|]. intros b Hb. exists (N.to_nat b). split; lia. Qed.

(* 2-D, six points, weights 3 1 4 1 5 2, three parts in two iterations: the
   exact and the binary64 model agree and every hypothesis of the theorems holds *)
Definition ex_key (a x : nat) : Z := nth x (nth a [[5; 1; 4; 2; 3; 0]; [0; 2; 1; 2; 3; 1]]%Z []) 0%Z.
Definition ex_ws : list Z := [3; 1; 4; 1; 5; 2]%Z.
Example C11_nonvacuous_exact :
  multi_jagged QA 2 6 (map inject_Z ex_ws) (fun a => isort (key_lt ex_key a)) (fun l => repeat 2%nat (length l))
               root2 N.of_nat 3 2 (repeat 99 6) = Ok [2; 0; 2; 0; 1; 0]
  /\ balanced ex_ws [2; 0; 2; 0; 1; 0] 3 2.
Proof. split; [vm_compute; reflexivity|]. apply C11_check_balance_ok. vm_compute. reflexivity. Qed.
Example C11_nonvacuous_f64 :
  multi_jagged F64 2 6 (map (fun z => f64_of_Z z) ex_ws) (fun a => isort (key_lt ex_key a)) (fun l => repeat 2%nat (length l))
               root2 N.of_nat 3 2 (repeat 99 6) = Ok [2; 0; 2; 0; 1; 0].
Proof. vm_compute. reflexivity. Qed.

(* ---- regression witness for 70b7d46: with the comparison the code used before
   (`Ulps::default()`, ABSOLUTE epsilon 2^-52: arithmetic [F64_default_epsilon])
   the balance clause is false for strictly positive weights far below
   f64::EPSILON: eight points on a line, weight 2^-57 each, two parts, one
   iteration — every prefix sum is "equal" to the threshold and all eight
   elements land in one part.  With the repaired comparison ([F64], epsilon 0.0)
   and at exact arithmetic they split 4 | 4. *)
Definition tiny_key (a x : nat) : Z := if Nat.eqb a 0 then Z.of_nat x else 0%Z.
Definition tiny_w : spec_float := binary_normalize 53 1024 1 (-57) false.
Definition tiny_run (A : arith) (w : num A) : res (list N) :=
  multi_jagged A 2 8 (repeat w 8) (fun a => isort (key_lt tiny_key a)) (fun l => repeat 3%nat (length l))
               root2 N.of_nat 2 1 (repeat 99 8).
Example C11_balance_f64_refuted_tiny :
  (exists p, tiny_run F64_default_epsilon tiny_w = Ok p /\ ~ balanced (repeat 1%Z 8) p 2 1)
  /\ tiny_run F64 tiny_w = Ok [0; 0; 0; 0; 1; 1; 1; 1]
  /\ tiny_run QA (Qmake 1 (2 ^ 57)) = Ok [0; 0; 0; 0; 1; 1; 1; 1].
Proof.
  split; [|split; vm_compute; reflexivity].
  exists [0; 0; 0; 0; 0; 0; 0; 0]. split; [vm_compute; reflexivity|].
  intros H. apply C11_check_balance_ok in H. vm_compute in H. discriminate.
Qed.

(* (2) with ties, WHICH elements share a part: three coincident points of
       weights 1 2 1, two parts — ties in their original order give {0} | {1,2},
       ties in the reverse order give {2} | {1,0}.  Every other statement of
       this file (ids, JaggedTree, balance) holds for both, being proved for
       every admissible oracle. *)
Definition tie_key (a x : nat) : Z := 0%Z.
Example C11_sort_ties_can_change_the_partition :
  sorter_ok (fun a l => isort (key_lt tie_key a) l) (key_lt tie_key) /\
  sorter_ok (fun a l => isort (key_lt tie_key a) (rev l)) (key_lt tie_key) /\
  multi_jagged QA 2 3 [1#1; 2#1; 1#1]%Q (fun a l => isort (key_lt tie_key a) l) (fun l => [])
               root2 N.of_nat 2 1 (repeat 99 3) = Ok [0; 1; 1] /\
  multi_jagged QA 2 3 [1#1; 2#1; 1#1]%Q (fun a l => isort (key_lt tie_key a) (rev l)) (fun l => [])
               root2 N.of_nat 2 1 (repeat 99 3) = Ok [1; 1; 0].
Proof.
  split; [apply isort_sorter_ok|]. split; [apply rev_isort_sorter_ok|].
  split; vm_compute; reflexivity.
Qed.


(* C20 -- contract violations are reported as errors before any output is written.

   Every theorem below is about a GENERATED guard list of Gen/GuardsGen.v: the
   sequence of guard statements the translator read from the current source of
   the entry point, in source order.  [run_guards gs sh p] (Model/Errors.v) is
   what the entry point does on a call whose observable shape is [sh] and whose
   partition array holds [p]: the outcome and the array afterwards.  Moving an
   early return or a write ahead of a check regenerates the list and the
   corresponding [exact (.. eq_refl)] below no longer type-checks.

   Shape of a call: [sh_wsigns] one sign per weight (so its length is
   weights.len()), [sh_points] = points.len(), [sh_adj] = adjacency.len(),
   [sh_order] = the order field; [p] = the caller's array.

   This file contains only the property theorems, each closed by [exact] of a
   lemma of Proofs/ErrorsProofs.v, with [Print Assumptions] beneath. *)
From Coupe Require Import Lib.Prelude Model.Errors Proofs.ErrorsProofs Gen.GuardsGen.

(* ---- size mismatches => InputLenMismatch, array untouched, for the nine algorithms.
   Shorter, longer and empty are all instances of "the lengths differ"; when
   several inputs mismatch some InputLenMismatch is returned (the property does
   not say which, nor what its fields hold). *)

Theorem rcb_len_mismatch : forall sh p,
  length (sh_wsigns sh) <> length p \/ sh_points sh <> length p ->
  exists expected actual, run_guards rcb_guards sh p = (OErr (InputLenMismatch expected actual), p).
Proof. exact (len_mismatch_WP rcb_guards eq_refl). Qed.
Print Assumptions rcb_len_mismatch.

(* Rib: since fix f977178 the lengths are compared before the oriented bounding box is built
   (the list also holds rcb()'s own, now redundant, comparisons further down). *)
Theorem rib_len_mismatch : forall sh p,
  length (sh_wsigns sh) <> length p \/ sh_points sh <> length p ->
  exists expected actual, run_guards rib_guards sh p = (OErr (InputLenMismatch expected actual), p).
Proof. exact (len_mismatch_WP rib_guards eq_refl). Qed.
Print Assumptions rib_len_mismatch.

Theorem greedy_len_mismatch : forall sh p,
  length (sh_wsigns sh) <> length p ->
  exists expected actual, run_guards greedy_guards sh p = (OErr (InputLenMismatch expected actual), p).
Proof. exact (len_mismatch_W greedy_guards eq_refl). Qed.
Print Assumptions greedy_len_mismatch.

Theorem kk_len_mismatch : forall sh p,
  length (sh_wsigns sh) <> length p ->
  exists expected actual, run_guards kk_guards sh p = (OErr (InputLenMismatch expected actual), p).
Proof. exact (len_mismatch_W kk_guards eq_refl). Qed.
Print Assumptions kk_len_mismatch.

Theorem ckk_len_mismatch : forall sh p,
  length (sh_wsigns sh) <> length p ->
  exists expected actual, run_guards ckk_guards sh p = (OErr (InputLenMismatch expected actual), p).
Proof. exact (len_mismatch_W ckk_guards eq_refl). Qed.
Print Assumptions ckk_len_mismatch.

(* VnBest / VnFirst compute `1 + max(part_ids)` first, which overflows (panics in a debug
   build, wraps to 0 otherwise) when an id equals usize::MAX = 2^64-1; such an array is
   outside the usage contract (it would name 2^64 parts). *)
Theorem vnbest_len_mismatch : forall sh p,
  ~ In usize_max p -> length (sh_wsigns sh) <> length p ->
  exists expected actual, run_guards vnbest_guards sh p = (OErr (InputLenMismatch expected actual), p).
Proof. exact (len_mismatch_W_ids vnbest_guards eq_refl). Qed.
Print Assumptions vnbest_len_mismatch.

Theorem vnfirst_len_mismatch : forall sh p,
  ~ In usize_max p -> length (sh_wsigns sh) <> length p ->
  exists expected actual, run_guards vnfirst_guards sh p = (OErr (InputLenMismatch expected actual), p).
Proof. exact (len_mismatch_W_ids vnfirst_guards eq_refl). Qed.
Print Assumptions vnfirst_len_mismatch.

Theorem fm_len_mismatch : forall sh p,
  length (sh_wsigns sh) <> length p \/ sh_adj sh <> length p ->
  exists expected actual, run_guards fm_guards sh p = (OErr (InputLenMismatch expected actual), p).
Proof. exact (len_mismatch_WA fm_guards eq_refl). Qed.
Print Assumptions fm_len_mismatch.

Theorem arcswap_len_mismatch : forall sh p,
  length (sh_wsigns sh) <> length p \/ sh_adj sh <> length p ->
  exists expected actual, run_guards arcswap_guards sh p = (OErr (InputLenMismatch expected actual), p).
Proof. exact (len_mismatch_WA arcswap_guards eq_refl). Qed.
Print Assumptions arcswap_len_mismatch.

(* ---- FiducciaMattheyses: more than two parts (an id above one anywhere in the array) *)
Theorem fm_bipart_only : forall sh p i,
  length (sh_wsigns sh) = length p -> sh_adj sh = length p ->
  In i p -> (1 < i)%N ->
  run_guards fm_guards sh p = (OErr BiPartitioningOnly, p).
Proof. exact (bipart_only_reached fm_guards eq_refl). Qed.
Print Assumptions fm_bipart_only.

(* ---- VnBest: a negative weight at any position i *)
Theorem vnbest_negative : forall sh p i,
  length (sh_wsigns sh) = length p -> ~ In usize_max p ->
  nth_error (sh_wsigns sh) i = Some WNeg ->
  run_guards vnbest_guards sh p = (OErr NegativeValues, p).
Proof. exact (negative_reached vnbest_guards eq_refl). Qed.
Print Assumptions vnbest_negative.

(* ---- HilbertCurve: orders above the maximum; the maxima are those of the source *)
Theorem hilbert_max_orders : hilbert2d_max_order = 32%N /\ hilbert3d_max_order = 21%N.
Proof. exact (conj eq_refl eq_refl). Qed.

Theorem hilbert2d_invalid_order : forall sh p,
  (32 < sh_order sh)%N ->
  run_guards hilbert2d_guards sh p = (OErr (InvalidOrder 32 (sh_order sh)), p).
Proof. exact (invalid_order_reached 32 hilbert2d_guards eq_refl). Qed.
Print Assumptions hilbert2d_invalid_order.

Theorem hilbert3d_invalid_order : forall sh p,
  (21 < sh_order sh)%N ->
  run_guards hilbert3d_guards sh p = (OErr (InvalidOrder 21 (sh_order sh)), p).
Proof. exact (invalid_order_reached 21 hilbert3d_guards eq_refl). Qed.
Print Assumptions hilbert3d_invalid_order.

(* ---- whatever the guard list: an error (or the overflow panic) leaves the array as it was,
   and the only write a guard prefix can make is the zero fill of a trivial Ok *)
Theorem C20_error_untouched : forall gs sh p e p',
  run_guards gs sh p = (OErr e, p') -> p' = p.
Proof. exact run_guards_err_untouched. Qed.
Print Assumptions C20_error_untouched.

Theorem C20_only_trivial_fill_writes : forall gs sh p o p',
  run_guards gs sh p = (o, p') -> p' = p \/ (o = OEarlyOk /\ p' = map (fun _ => 0%N) p).
Proof. exact run_guards_writes. Qed.
Print Assumptions C20_only_trivial_fill_writes.

(* ---- the checker run on every implementation result decides the property: computed from the
   input shape and the observation alone; a rejection means the property fails on that call *)
Theorem C20_checker_ok : forall alg sh p0 code a b after,
  check_C20_err alg sh p0 code a b after = true <-> (err_justified alg sh p0 code a b = true /\ after = p0).
Proof. exact check_C20_err_ok. Qed.
Print Assumptions C20_checker_ok.

Theorem C20_checker_decides : forall alg sh p0 obs after,
  check_C20 alg sh p0 obs after = true <-> C20_holds alg sh p0 obs after.
Proof. exact check_C20_iff. Qed.
Print Assumptions C20_checker_decides.

Theorem C20_checker_rejection_is_failure : forall alg sh p0 obs after,
  check_C20 alg sh p0 obs after = false -> ~ C20_holds alg sh p0 obs after.
Proof. exact check_C20_rejects. Qed.
Print Assumptions C20_checker_rejection_is_failure.

(* a length mismatch alone: accepted only as InputLenMismatch with the array untouched *)
Theorem C20_checker_mismatch_only : forall alg sh p0 obs after,
  check_C20 alg sh p0 obs after = true ->
  mismatched alg sh p0 = true -> too_many_parts alg p0 = false -> negative_weight alg sh = false ->
  order_too_high alg sh = false ->
  after = p0 /\ exists a b, obs = ObsErr 1 a b.
Proof. exact check_C20_mismatch_only. Qed.
Print Assumptions C20_checker_mismatch_only.

(* Ok / panic / hang on a mismatched call, and a modified array on any violating call, are rejected *)
Theorem C20_checker_rejects_non_error : forall alg sh p0 obs after,
  mismatched alg sh p0 = true -> (forall code a b, obs <> ObsErr code a b) ->
  check_C20 alg sh p0 obs after = false.
Proof. exact check_C20_rejects_ok_on_mismatch. Qed.
Theorem C20_checker_rejects_modified : forall alg sh p0 obs after,
  violation alg sh p0 = true -> after <> p0 -> check_C20 alg sh p0 obs after = false.
Proof. exact check_C20_rejects_modified. Qed.
Print Assumptions C20_checker_rejects_modified.

(* the round-2 mutation (Rcb fast path `iter_count == 0 => fill(0); Ok`): rejected *)
Example C20_checker_rejects_fill_ok :
  check_C20 0 (mk_shape [WPos; WPos] 3 0 0 0) [7; 7; 7]%N ObsOk [0; 0; 0]%N = false
  /\ check_C20 0 (mk_shape [WPos; WPos] 3 0 0 0) [7; 7; 7]%N ObsOk [7; 7; 7]%N = false
  /\ check_C20 0 (mk_shape [WPos; WPos] 3 0 0 0) [7; 7; 7]%N (ObsErr 1 3 2) [7; 7; 7]%N = true.
Proof. repeat split. Qed.

(* ---- regression: the guard orders of the pinned tree (hand-written copies) let a
   mismatch through; the analysis used above rejects each of them *)
Theorem greedy_refuted : exists sh p, length (sh_wsigns sh) <> length p /\
  run_guards greedy_guards_pinned sh p = (OEarlyOk, [0; 0]%N) /\ p <> [0; 0]%N.
Proof. exact greedy_pinned_refuted. Qed.
Theorem kk_refuted : exists sh p, length (sh_wsigns sh) <> length p /\
  run_guards kk_guards_pinned sh p = (OEarlyOk, p).
Proof. exact kk_pinned_refuted. Qed.
Theorem vnbest_refuted : exists sh p, length (sh_wsigns sh) <> length p /\ ~ In usize_max p /\
  run_guards vnbest_guards_pinned sh p = (OEarlyOk, p).
Proof. exact vnbest_pinned_refuted. Qed.
Theorem vnfirst_refuted : exists sh p, length (sh_wsigns sh) <> length p /\ ~ In usize_max p /\
  run_guards vnfirst_guards_pinned sh p = (OEarlyOk, p).
Proof. exact vnfirst_pinned_refuted. Qed.
Theorem fm_refuted : exists sh p, length (sh_wsigns sh) <> length p /\
  run_guards fm_guards_pinned sh p = (OEarlyOk, p).
Proof. exact fm_pinned_refuted. Qed.
Theorem arcswap_refuted : exists sh p, sh_adj sh <> length p /\
  run_guards arcswap_guards_pinned sh p = (OEarlyOk, p).
Proof. exact arcswap_pinned_refuted. Qed.
(* Rib before fix f977178 (found by this property's harness): no point => Ok(()) first *)
Theorem rib_refuted : exists sh p, sh_points sh <> length p /\
  run_guards rib_guards_before_f977178 sh p = (OEarlyOk, p).
Proof. exact rib_before_f977178_refuted. Qed.

Example pinned_orders_rejected :
  map (reports_mismatch [InWeights] facts_ids_ok)
      [greedy_guards_pinned; kk_guards_pinned; vnbest_guards_pinned; vnfirst_guards_pinned]
  = [false; false; false; false]
  /\ map (reports_mismatch [InWeights; InAdjacency] no_facts) [fm_guards_pinned; arcswap_guards_pinned]
  = [false; false]
  /\ reports_mismatch [InWeights; InPoints] no_facts rib_guards_before_f977178 = false.
Proof. repeat split. Qed.

(* ---- large calls are written compactly by the harness (run-length encoded lists + the positions
   at which the caller's array changed, [diff_of] = that comparison); Run/RunC20.v [big20] rebuilds
   the plain lists with [of_runs] / [patch_ids].  The rebuilt array after the call is exactly the
   observed one, and the comparison is empty exactly when the array is untouched. *)
Theorem C20_compact_after_faithful : forall before after,
  length before = length after -> patch_ids before 0 (diff_of before after 0) = after.
Proof. exact (fun before after => patch_diff before after 0%N). Qed.
Print Assumptions C20_compact_after_faithful.

Theorem C20_compact_untouched_iff : forall before after,
  length before = length after -> (diff_of before after 0 = [] <-> before = after).
Proof. exact (fun before after => diff_nil_iff before after 0%N). Qed.
Print Assumptions C20_compact_untouched_iff.

Example C20_compact_example :
  of_runs [(WPos, 3); (WNeg, 1)]%N = [WPos; WPos; WPos; WNeg]
  /\ patch_ids (of_runs [(0, 2); (1, 2)])%N 0 [(3, 7)]%N = [0; 0; 1; 7]%N
  /\ patch_ids [0; 1]%N 0 [(5, 7)]%N = [0; 1; 7]%N.
Proof. repeat split. Qed.

(* ---- non-vacuity: concrete calls satisfying the hypotheses (garbage 7s in the array), and
   well-formed calls passing every guard *)
Example C20_nonvacuous_mismatch :
  (exists e a, run_guards rcb_guards (mk_shape [WPos; WPos] 3 0 0 0) [7; 7; 7]%N = (OErr (InputLenMismatch e a), [7; 7; 7]%N))
  /\ (exists e a, run_guards fm_guards (mk_shape [WPos; WPos] 0 0 0 0) []%N = (OErr (InputLenMismatch e a), []%N))
  /\ (exists e a, run_guards greedy_guards (mk_shape [] 0 0 1 0) [7; 7]%N = (OErr (InputLenMismatch e a), [7; 7]%N)).
Proof. repeat split; eexists; eexists; reflexivity. Qed.
Example C20_nonvacuous_other :
  run_guards fm_guards (mk_shape [WPos; WPos; WPos] 0 3 0 0) [0; 1; 2]%N = (OErr BiPartitioningOnly, [0; 1; 2]%N)
  /\ run_guards vnbest_guards (mk_shape [WPos; WZero; WNeg] 0 0 0 0) [0; 1; 0]%N = (OErr NegativeValues, [0; 1; 0]%N)
  /\ run_guards hilbert2d_guards (mk_shape [WPos] 1 0 2 33) [7]%N = (OErr (InvalidOrder 32 33), [7]%N)
  /\ run_guards hilbert3d_guards (mk_shape [WPos] 1 0 2 22) [7]%N = (OErr (InvalidOrder 21 22), [7]%N).
Proof. repeat split. Qed.
Example C20_wellformed_proceeds :
  map (fun gs => fst (run_guards gs (mk_shape [WPos; WPos; WPos] 3 3 2 12) [0; 1; 0]%N))
      [rcb_guards; rib_guards; greedy_guards; kk_guards; ckk_guards; vnbest_guards; vnfirst_guards;
       fm_guards; arcswap_guards; hilbert2d_guards; hilbert3d_guards]
  = [OProceed; OProceed; OProceed; OProceed; OProceed; OProceed; OProceed; OProceed; OProceed; OProceed; OProceed].
Proof. reflexivity. Qed.

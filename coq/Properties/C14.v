(* C14 — VnBest and VnFirst never worsen the load gap; VnBest rejects negative
   weights.  This file contains only the property theorems, each closed by
   [exact] of a lemma of Proofs/VnBestProofs.v or Proofs/VnFirstProofs.v, with
   [Print Assumptions] beneath, and non-vacuity examples.
   [part_count p] = 1 + the largest id of the input array (what both
   algorithms use as the number of parts); [gap] = heaviest - lightest load. *)
From Coupe Require Import Lib.Prelude Model.NumPart Model.Vn
  Proofs.NumPartLemmas Proofs.VnBestProofs Proofs.VnFirstProofs Gen.VnGen
  Lib.SFloat Model.ArithW Model.VnW Proofs.VnWProofs Proofs.ArithWLemmas Proofs.VnBestWTermination Proofs.F64RoundFacts.
From Coq Require Import Floats.SpecFloat.
Open Scope Z_scope.

(* The guards and comparison operators of vn/best.rs and vn/first.rs that the
   models hard-code, as the translator reads them from the current source
   (Gen/VnGen.v): order of VnBest's guards (length, sign, trivial return, all
   before the first write), `*weight < T::zero()`, the stop test
   `imbalance <= nearest_weight || is_zero`, the progress test of fix 98041ea between it and the move, the move, the source part being the
   heaviest one; VnFirst's `part_loads[p] < max_load`, `imbalance < new_imbalance`,
   the roll-back, `p` read once per index (stale in the inner loop), the
   `i_last = i` exit. *)
Theorem C14_source_literals :
  [vnbest_guards_in_order; vnbest_negative_test; vnbest_stop_when_not_below; vnbest_progress_test; vnbest_move;
   vnbest_source_is_heaviest; vnfirst_skip_strict; vnfirst_reject_strict; vnfirst_rollback;
   vnfirst_stale_p; vnfirst_stops_after_move; parts_load_single_fold; vn_real_order_exact;
   vnbest_loads_computed_once; vnfirst_loads_computed_once]
  = [true; true; true; true; true; true; true; true; true; true; true; true; true; true; true].
Proof. exact eq_refl. Qed.
Print Assumptions C14_source_literals.

(* ---------------- VnBest (flt = the weights are f64 holding integers) ---------------- *)

Theorem C14_vnbest_gap : forall flt ws p p' n, vn_best flt ws p = Ok (p', n) ->
  let k := part_count p in
  length p' = length p /\ Forall (fun x => (x <= maxN p)%N) p'
  /\ gap (loads ws p' k) <= gap (loads ws p k)
  /\ sumZ (loads ws p' k) = sumZ (loads ws p k).
Proof. exact vnbest_gap. Qed.
Print Assumptions C14_vnbest_gap.

(* a negative weight is rejected; the model returns no array on an error (the
   run glue checks that the implementation left the caller's array untouched) *)
Theorem C14_vnbest_negative : forall flt ws p, length ws = length p -> Exists (fun w => w < 0) ws ->
  vn_best flt ws p = Err NegativeValues.
Proof. exact vnbest_negative. Qed.
Print Assumptions C14_vnbest_negative.

(* the loop never runs out of its fuel: 1 + the sum of the squared part loads *)
Theorem C14_vnbest_terminates : forall flt ws p, vn_best flt ws p <> OutOfFuel.
Proof. exact vnbest_terminates. Qed.
Print Assumptions C14_vnbest_terminates.

Theorem C14_vnbest_no_panic : forall flt ws p s, vn_best flt ws p <> Panic s.
Proof. exact vnbest_no_panic. Qed.
Print Assumptions C14_vnbest_no_panic.

(* under the usage contract (matching lengths, non-negative weights) VnBest answers Ok: no error value,
   no panic, and the fuel that [vn_best] grants itself (1 + the sum of the squared part loads) suffices *)
Theorem C14_vnbest_ok_in_contract : forall flt ws p, length ws = length p -> Forall (fun w => 0 <= w) ws ->
  exists p' n, vn_best flt ws p = Ok (p', n).
Proof. exact vnbest_ok_in_contract. Qed.
Print Assumptions C14_vnbest_ok_in_contract.

Theorem C14_vnbest_mismatch : forall flt ws p, length ws <> length p ->
  vn_best flt ws p = Err (InputLenMismatch (length p) (length ws)).
Proof. exact vnbest_mismatch. Qed.
Print Assumptions C14_vnbest_mismatch.

(* ---------------- VnFirst (with the stale `p` of the inner loop) ---------------- *)

(* full statement: the gap of the true loads of the returned partition *)
Theorem C14_vnfirst_gap : forall ws p p' n, Forall (fun w => 0 <= w) ws -> vn_first ws p = Ok (p', n) ->
  let k := part_count p in
  length p' = length p /\ Forall (fun x => (x <= maxN p)%N) p'
  /\ gap (loads ws p' k) <= gap (loads ws p k)
  /\ sumZ (loads ws p' k) = sumZ (loads ws p k).
Proof. exact vnfirst_gap. Qed.
Print Assumptions C14_vnfirst_gap.

(* under the contract VnFirst returns Ok: no panic, and the scan ends within its fuel (len + 1 turns) *)
Theorem C14_vnfirst_total : forall ws p, Forall (fun w => 0 <= w) ws -> length ws = length p ->
  exists p' n, vn_first ws p = Ok (p', n)
    /\ length p' = length p /\ Forall (fun x => (x < N.of_nat (part_count p))%N) p'
    /\ gap (loads ws p' (part_count p)) <= gap (loads ws p (part_count p)).
Proof. exact vnfirst_spec. Qed.
Print Assumptions C14_vnfirst_total.

Theorem C14_vnfirst_mismatch : forall ws p, length ws <> length p ->
  vn_first ws p = Err (InputLenMismatch (length p) (length ws)).
Proof. exact vnfirst_mismatch. Qed.
Print Assumptions C14_vnfirst_mismatch.

(* ---------------- the checker decides the property ---------------- *)
Theorem C14_check_vn_ok : forall ws p p',
  check_vn ws p p' = true <->
  (length p' = length p /\ Forall (fun x => (x <= maxN p)%N) p'
   /\ gap (loads ws p' (part_count p)) <= gap (loads ws p (part_count p))
   /\ sumZ (loads ws p' (part_count p)) = sumZ (loads ws p (part_count p))).
Proof. exact check_vn_ok. Qed.
Print Assumptions C14_check_vn_ok.

(* ---------------- VnBest / VnFirst over an arbitrary weight arithmetic (integers, binary64) ---------------- *)

(* [vn_bestW A], [vn_firstW A] are the same transcriptions with every +, -, <, <=, ==, / two going
   through the arithmetic [A].  The guards need no law: *)
Theorem C14_vnbest_negative_generic : forall (A : arith) guard fuel ws p, length ws = length p ->
  Exists (fun w => w_ltb A w (w_zero A) = true) ws -> vn_bestW A guard fuel ws p = Err NegativeValues.
Proof. exact vn_bestW_negative. Qed.
Print Assumptions C14_vnbest_negative_generic.
Theorem C14_vn_mismatch_generic : forall (A : arith) guard fuel ws p, length ws <> length p ->
  vn_bestW A guard fuel ws p = Err (InputLenMismatch (length p) (length ws))
  /\ vn_firstW A ws p = Err (InputLenMismatch (length p) (length ws)).
Proof. exact (fun A g fuel ws p H => conj (vn_bestW_mismatch A g fuel ws p H) (vn_firstW_mismatch A ws p H)). Qed.

(* The progress test added by fix 98041ea (`new_overweight_load < new_underweight_load &&
   !(new_underweight_load - new_overweight_load < imbalance)` => break) is part of both models.  On the
   integers it never fires: the loop with it and the loop without it are the same function, which is
   why C14_vnbest_gap / _terminates / _no_panic above stand unchanged ([vn_best] runs [vb_step], the
   loop with the test; the proofs go through [vb_step0], the loop without it). *)
Theorem C14_vnbest_progress_test_idle_on_integers :
  (forall flt crit st, vb_step flt crit st = vb_step0 flt crit st)
  /\ (forall fuel ws p, vn_bestW Zarith true fuel ws p = vn_bestW Zarith false fuel ws p).
Proof. exact (conj vb_step_eq vn_bestW_Z_guard). Qed.
Print Assumptions C14_vnbest_progress_test_idle_on_integers.

(* Regression witness about the OLD loop (guard = false, the code before fix 98041ea): with rounding it
   need not terminate -- on 0.2 0.8 0.9 0.1 0.1 with parts 1 1 0 1 0 (loads 1.0 | 1.1; the tracked
   imbalance is the rounded difference 0.10000000000000009 > 0.1, the weight 0.1 is moved, the loads
   become 1.1 | 1.0, it is moved back, for ever) the model answers OutOfFuel whatever the fuel. *)
Theorem C14_vnbest_f64_terminates_refuted : forall fuel, vn_bestW F64arith false fuel osc_ws osc_p = OutOfFuel.
Proof. exact vnbest_f64_never_returns. Qed.
Print Assumptions C14_vnbest_f64_terminates_refuted.

(* ... and with the progress test (the current code) the same input returns at once, nothing moved.
   Termination of the new loop on binary64 in general: see C14_vnbest_f64_terminates below (proved from
   monotonic-rounding facts through a lexicographic measure; the facts themselves are premises). *)
Theorem C14_vnbest_f64_fixed_example : vn_bestW F64arith true 10 osc_ws osc_p = Ok (osc_p, 0%N).
Proof. exact vnbest_f64_fixed_returns. Qed.
Print Assumptions C14_vnbest_f64_fixed_example.

(* ---------------- termination of the repaired loop over an arbitrary arithmetic ---------------- *)

(* [round_laws A ok rank]: < is a strict weak order with equal ties on the admitted values, [rank] embeds it
   into the non-negative integers, and the rounded + and - are monotone in the weight and never leave
   [m, M] (fields rl_add_ge .. rl_sub_self of Proofs/VnBestWTermination.v).  Under these laws the loop WITH
   the progress test of fix 98041ea terminates: a lexicographic measure on the tracked loads decreases at
   every move (NOT the tracked imbalance, see C14_vnbest_f64_imbalance_not_strict), so the model never runs
   out of fuel beyond a (symbolic, huge) bound.  Premise on the initial loads: they are admitted values
   ("the sums do not overflow"). *)
Theorem C14_vnbest_terminates_generic : forall (A : arith) (ok : W A -> Prop) (rank : W A -> Z),
  round_laws A ok rank ->
  forall ws p, Forall ok ws ->
  (forall L, parts_loadW A ws p (part_count p) = Ok L -> Forall ok L) ->
  exists fuel0, forall fuel, (fuel0 <= fuel)%nat -> vn_bestW A true fuel ws p <> OutOfFuel.
Proof. exact vn_bestW_terminates. Qed.
Print Assumptions C14_vnbest_terminates_generic.

(* the integers satisfy the laws: an independent termination proof of the generic model at Z *)
Theorem C14_vnbest_terminates_Z_generic : forall ws p, Forall (fun w => 0 <= w) ws ->
  exists fuel0, forall fuel, (fuel0 <= fuel)%nat -> vn_bestW Zarith true fuel ws p <> OutOfFuel.
Proof. exact vn_bestW_Z_terminates. Qed.
Print Assumptions C14_vnbest_terminates_Z_generic.

(* binary64, on +0 and the positive finite numbers: the order and rank laws are PROVED for SpecFloat ... *)
Theorem C14_f64_order_rank_laws :
  order_laws F64arith okV
  /\ (forall x, okV x -> 0 <= rankV x)
  /\ (forall x y, okV x -> okV y -> SFltb x y = true -> rankV x < rankV y)
  /\ (forall x, okV x -> SFltb x (S754_zero false) = false).
Proof. exact (conj F64_order_laws_V (conj rankV_nonneg (conj rankV_mono okV_nonneg))). Qed.
Print Assumptions C14_f64_order_rank_laws.

(* ... and so are the ten IEEE-754 facts about rounded + and - that the measure needs (monotone in the
   weight, inside [m, M], no NaN / -0.0 / negative result), for SpecFloat's SFadd / SFsub at (53,1024),
   through Flocq (Bplus_correct / Bminus_correct, round_le, Bltb_correct).  These two theorems, and only
   these, depend on the axioms of Coq's classical real numbers. *)
Theorem C14_f64_rounding_facts : f64_rounding_facts.
Proof. exact f64_rounding_facts_hold. Qed.
Print Assumptions C14_f64_rounding_facts.

(* VnBest with the progress test of fix 98041ea terminates on finite non-negative binary64 weights (in their
   canonical representation: [okV]) whose initial part loads are finite ("the sums do not overflow"): beyond a
   (symbolic, huge) bound the model never answers OutOfFuel.  No premise about the arithmetic. *)
Theorem C14_vnbest_f64_terminates :
  forall ws p, Forall okV ws ->
  (forall L, parts_loadW F64arith ws p (part_count p) = Ok L -> Forall okV L) ->
  exists fuel0, forall fuel, (fuel0 <= fuel)%nat -> vn_bestW F64arith true fuel ws p <> OutOfFuel.
Proof. exact vn_bestW_f64_terminates_closed. Qed.
Print Assumptions C14_vnbest_f64_terminates.

(* non-vacuity: the former oscillation witness satisfies the hypotheses *)
Example C14_vnbest_f64_terminates_nonvacuous :
  Forall okV osc_ws /\ (forall L, parts_loadW F64arith osc_ws osc_p (part_count osc_p) = Ok L -> Forall okV L).
Proof.
  split.
  - repeat constructor; vm_compute; auto; intuition congruence.
  - intros L H. vm_compute in H. injection H as <-. repeat constructor; vm_compute; auto; intuition congruence.
Qed.

(* why not simply "the tracked imbalance decreases": 1e16 0.25 0.25 0.25 with parts 0 0 0 1 -- the weight
   0.25 moves, yet the largest load, the imbalance (and the number of parts at the maximum) are unchanged *)
Theorem C14_vnbest_f64_imbalance_not_strict :
  let ws := map (fun b => f64_of_bits b) [4846369599423283200; 4598175219545276416; 4598175219545276416; 4598175219545276416]%N in
  let crit := rev (sort_items_descW F64arith (items_ofW F64arith ws)) in
  exists L L' p',
    parts_loadW F64arith ws [0; 0; 0; 1]%N 2 = Ok L
    /\ vb_stepW F64arith true crit ([0; 0; 0; 1]%N, L, 0%N) = inl (p', L', 1%N)
    /\ p' <> [0; 0; 0; 1]%N
    /\ maxW F64arith L' = maxW F64arith L
    /\ f64_sub (maxW F64arith L') (minW F64arith L') = f64_sub (maxW F64arith L) (minW F64arith L).
Proof. exact vnbest_f64_imbalance_not_strict. Qed.

(* The exact-gap statement does not survive rounding: REFUTED for binary64 in exact arithmetic -- VnFirst on 0.1 0.1 0.6000000000000001 0.7000000000000001
   with parts 0 1 1 0 returns 1 1 1 0: the exact gap grows by 2^-54 ([check_vn_f64] = (within the
   rounding tolerance, NOT strictly)). *)
Theorem C14_vnfirst_f64_exact_gap_refuted :
  vn_firstW F64arith vf_ws [0; 1; 1; 0]%N = Ok ([1; 1; 1; 0]%N, 2%N)
  /\ check_vn_f64 vf_ws [0; 1; 1; 0]%N [1; 1; 1; 0]%N = Some (true, false).
Proof. exact vnfirst_f64_exact_gap_grows. Qed.
Print Assumptions C14_vnfirst_f64_exact_gap_refuted.

(* ---------------- non-vacuity ---------------- *)
(* three parts, loads 21 | 11 | 3: the weight 9 moves from the heaviest to the lightest part *)
Example C14_nonvacuous_vnbest :
  vn_best false [4;7;1;8;3;3;9] [0;0;0;1;1;2;0]%N = Ok ([0;0;0;1;1;2;2]%N, 1%N)
  /\ loads [4;7;1;8;3;3;9] [0;0;0;1;1;2;0]%N 3 = [21;11;3]
  /\ loads [4;7;1;8;3;3;9] [0;0;0;1;1;2;2]%N 3 = [12;11;12].
Proof. vm_compute. auto. Qed.
Example C14_nonvacuous_vnbest_negative :
  vn_best false [4;(-1);3] [0;1;1]%N = Err NegativeValues.
Proof. vm_compute. reflexivity. Qed.
(* VnFirst with phantom moves: the weight 1 (index 1, part 0) is accepted by the
   targets 1, 2 and 3 in turn, each evaluated as if it were still in part 0; it
   ends in part 3; true loads 10|0|8|0 -> 9|0|8|1 *)
Example C14_nonvacuous_vnfirst :
  vn_first [9;1;8;0;0] [0;0;2;3;1]%N = Ok ([0;3;2;3;1]%N, 1%N)
  /\ loads [9;1;8;0;0] [0;0;2;3;1]%N 4 = [10;0;8;0]
  /\ loads [9;1;8;0;0] [0;3;2;3;1]%N 4 = [9;0;8;1].
Proof. vm_compute. auto. Qed.

From Coupe Require Import Lib.Prelude Model.NumPart Model.Vn.
Open Scope Z_scope.
Example C14_placeholder : vn_best false [1;2;3;4;5;6] [0;0;0;0;0;1]%N = vn_best false [1;2;3;4;5;6] [0;0;0;0;0;1]%N.
Proof. reflexivity. Qed.

(* Model of the box arithmetic behind ZCurve's quadrants:
     src/geometry.rs  BoundingBox::{center, sub_aabb, contains, region}
   on f64 (Lib/SFloat.v), for the axis-aligned box and the ROTATED coordinates
   `obb.obb_to_aabb(p)` that the hooks record ("zcurve_aabb", "zcurve_rotated");
   nalgebra's rotation itself is not modelled.
   Executable definitions only; lemmas are in Proofs/ZGeomProofs.v. *)
From Coupe Require Import Lib.Prelude Lib.SFloat.
From Coq Require Import Floats.SpecFloat.
Open Scope nat_scope.

(* one (p_min[i], p_max[i]) pair per axis *)
Definition box := list (spec_float * spec_float).
Definition fpoint := list spec_float.

(* `let eps = 10. * std::f64::EPSILON;` *)
Definition geo_eps : spec_float := f64_mul (f64_of_Z 10) (f64_of_bits 4372995238176751616%N).

(* `(self.p_min + self.p_max) / 2.0`, componentwise *)
Definition center1 (mm : spec_float * spec_float) : spec_float :=
  f64_div (f64_add (fst mm) (snd mm)) (f64_of_Z 2).
Definition center (b : box) : fpoint := map center1 b.

(* `*point < *max + eps && *point > *min - eps` on every axis *)
Definition contains1 (mm : spec_float * spec_float) (x : spec_float) : bool :=
  flt x (f64_add (snd mm) geo_eps) && flt (f64_sub (fst mm) geo_eps) x.
Fixpoint contains (b : box) (p : fpoint) : bool :=
  match b, p with
  | mm :: b', x :: p' => contains1 mm x && contains b' p'
  | _, _ => true
  end.

(* `if point > center { ret |= 1 << i }` *)
Fixpoint region_bits (b : box) (p : fpoint) (w : N) : N :=
  match b, p with
  | mm :: b', x :: p' => ((if flt (center1 mm) x then w else 0) + region_bits b' p' (2 * w))%N
  | _, _ => 0%N
  end.
Definition region (b : box) (p : fpoint) : option N :=
  if contains b p then Some (region_bits b p 1) else None.

(* sub_aabb: bit i of [r] selects the upper half [center, max] of axis i,
   otherwise the lower half [min, center].  (`assert!(region < 2^D)`: the
   callers pass the result of [region] or 0.) *)
Fixpoint sub_aabb (b : box) (r : N) : box :=
  match b with
  | [] => []
  | mm :: b' =>
    (if N.odd r then (center1 mm, snd mm) else (fst mm, center1 mm)) :: sub_aabb b' (N.div2 r)
  end.

(* the hook's loop: `let r = mbr.region(p).unwrap_or(0); codes.push(r); mbr = mbr.sub_mbr(r);` *)
Fixpoint geo_codes (order : nat) (b : box) (p : fpoint) : list N :=
  match order with
  | O => []
  | S o =>
    let r := match region b p with Some r => r | None => 0%N end in
    r :: geo_codes o (sub_aabb b r) p
  end.

(* ---- the geometric clause of C09: the Z-order cell of a point contains the point ---- *)

(* the absolute tolerance of [contains] is effective at v: v - eps < v < v + eps
   in f64 (false for |v| >= 32, where eps is below half an ulp) *)
Definition eps_effective (v : spec_float) : bool :=
  flt v (f64_add v geo_eps) && flt (f64_sub v geo_eps) v.

(* Follow the quadrants [codes] (what the run used for this point) from the
   box [b] with the specification's cell arithmetic; every cell on the way,
   the final depth-[order] cell included, must contain the point.  The walk
   stops (accepting) at a level whose midlines are not all eps-effective: there
   the code's own tolerance is void and the clause is not claimed. *)
Fixpoint cells_contain (nq : N) (codes : list N) (b : box) (p : fpoint) : bool :=
  contains b p &&
  match codes with
  | [] => true
  | r :: ct =>
    if forallb eps_effective (center b)
    then (r <? nq)%N && cells_contain nq ct (sub_aabb b r) p
    else true
  end.

(* only points that the top-level box contains are concerned *)
Definition check_cells (nq : N) (b : box) (pts : list fpoint) (codes : list (list N)) : bool :=
  Nat.eqb (length pts) (length codes)
  && forallb (fun pc => if contains b (fst pc) then cells_contain nq (snd pc) b (fst pc) else true)
             (combine pts codes).

(* box and points from the hook records *)
Fixpoint box_of_bits (mins maxs : list N) : box :=
  match mins, maxs with
  | a :: mins', c :: maxs' => (f64_of_bits a, f64_of_bits c) :: box_of_bits mins' maxs'
  | _, _ => []
  end.

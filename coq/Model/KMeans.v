(* CONCRETE model of src/algorithms/k_means.rs (`KMeans::partition`,
   `balanced_k_means_with_initial_partition`, `balanced_k_means_iter`,
   `assign_and_balance`, `relax_bounds`, `best_values`, `erosion`,
   `max_distance`, `imbalance`) and of what it calls in src/geometry.rs
   (`center`, `OrientedBoundingBox::from_points` after the rotation matrix,
   `BoundingBox::from_points`, `contains`, `distance_to_point`, `center`).
   Executable definitions only; proofs are in Proofs/KMeans*.v.

   The arithmetic is a parameter ([karith]): IEEE binary64 on Coq's SpecFloat
   for the execution against the implementation (bit for bit), anything else
   for the proofs (every theorem that does not say otherwise holds for EVERY
   arithmetic).

   What is NOT computed here but enters as an oracle / input:
   - [rot]: the matrix `obb_to_aabb` = `householder_reflection(inertia_vector(
     inertia_matrix(points))).try_inverse()` (nalgebra's symmetric
     eigendecomposition is not modelled, DESIGN §3).  [None] = `try_inverse`
     answered `None`.  The matrix is a function of `points` only, provided the
     two parallel sums of `inertia_matrix` are exact (class `obb-inexact-sums`
     of C06 otherwise).
   - [reds]: every rayon reduction (`sum`, `min_by`, `max_by`, `fold_with` +
     `reduce_with`) and the one HashMap iteration (`into_group_map().into_values()`)
     goes through a record of reduction functions keyed by (site, outer
     iteration, balance iteration, cluster).  [reds_tree T P] is the real
     semantics: the reduction over the split tree [T key] (Lib/Rayon.v), the
     HashMap order [P key].  [reds_chk] is the same with a run-time flag
     (`Panic 99`) raised when a reduction is applied to values on which the
     result could depend on the tree: the premise of the schedule-independence
     theorem, evaluated on every correspondence case.
   - `f64::ln/exp` behind `erode` ([k_log], [k_exp]): fields of the arithmetic.
   - the `hilbert` flag: never read by k_means.rs (checked by the translator).

   Vectors are lists of D coordinates (D = 2, 3: the dimensions for which
   nalgebra's `dot` is the left-to-right sum used here).

   Panic sites: 2 "Input partition is unsound" | 3 `assert!(!points.is_empty())`
   in geometry::center | 4 `try_inverse().unwrap()` | 5 `OrientedBoundingBox::
   from_points(points).unwrap()` on an empty point set | 6 `partial_cmp(b).unwrap()`
   in BoundingBox::distance_to_point (NaN) | 7 `.max_by(..).unwrap()` there with
   D = 0 | 8 `delta_max ... .unwrap()` without centres | 9 `points[idx]` out of
   bounds | 10 raw write `ptr.add(idx)` outside `assignments` (undefined
   behaviour in Rust) | 11 `max_distance(..).unwrap()` on an empty group |
   99 (never raised by [reds_tree]) schedule-sensitive reduction, [reds_chk] only. *)
From Coupe Require Import Lib.Prelude Lib.SFloat Lib.Rayon Model.KMeansAbs.
From Coq Require Import Floats.SpecFloat.
Local Open Scope nat_scope.
Local Open Scope list_scope.

Notation "x <- e ;; f" := (bind e (fun x => f)) (at level 61, e at next level, right associativity).

(* ------------------------------------------------------------------ numbers *)

Record karith := mkKA {
  num : Type;
  k_add : num -> num -> num;
  k_sub : num -> num -> num;
  k_mul : num -> num -> num;
  k_div : num -> num -> num;
  k_sqrt : num -> num;
  k_abs : num -> num;
  k_neg : num -> num;
  k_ofN : N -> num;                              (* `x as f64` for x : usize *)
  k_cmp : num -> num -> option comparison;       (* partial_cmp *)
  k_isnan : num -> bool;
  k_zero : num;                                  (* 0. *)
  k_nzero : num;                                 (* -0.0, the identity of `Sum for f64` *)
  k_one : num;                                   (* 1. : initial influence, erosion *)
  k_two : num;                                   (* 2. : BoundingBox::center, erosion *)
  k_fmax : num;                                  (* f64::MAX *)
  k_fmin : num;                                  (* f64::MIN *)
  k_eps : num;                                   (* 10. * f64::EPSILON (BoundingBox::contains) *)
  k_step : num;                                  (* 0.05 : influence variation cap *)
  k_ten : num;                                   (* 10. : base of the erosion logarithm *)
  k_log : num -> num -> num;                     (* x.log(base) *)
  k_exp : num -> num
}.

(* binary64; `log` / `exp` are parameters (libm is not modelled) *)
Definition F64km (lg : spec_float -> spec_float -> spec_float) (ex : spec_float -> spec_float)
                 (fmax_bits fmin_bits eps_bits step_bits : N) : karith :=
  {| num := spec_float;
     k_add := f64_add; k_sub := f64_sub; k_mul := f64_mul; k_div := f64_div; k_sqrt := f64_sqrt;
     k_abs := fabs; k_neg := fopp;
     k_ofN := fun n => f64_of_Z (Z.of_N n);
     k_cmp := fcmp;
     k_isnan := is_nan;
     k_zero := S754_zero false; k_nzero := S754_zero true;
     k_one := f64_of_Z 1; k_two := f64_of_Z 2;
     k_fmax := f64_of_bits fmax_bits; k_fmin := f64_of_bits fmin_bits;
     k_eps := f64_of_bits eps_bits; k_step := f64_of_bits step_bits;
     k_ten := f64_of_Z 10;
     k_log := lg; k_exp := ex |}.

Section Num.
  Variable A : karith.
  Notation num := (num A).
  Definition vec := list num.

  Definition klt (a b : num) : bool := match k_cmp A a b with Some Lt => true | _ => false end.
  Definition kgt (a b : num) : bool := match k_cmp A a b with Some Gt => true | _ => false end.
  (* `a.partial_cmp(b).unwrap_or(Ordering::Equal)` *)
  Definition cmp_eq (a b : num) : comparison := match k_cmp A a b with Some c => c | None => Eq end.
  (* f64::min / f64::max: the other operand when one is NaN (the sign of a zero
     result is not specified by Rust; it is never observed by k-means) *)
  Definition fmin2 (a b : num) : num :=
    if k_isnan A a then b else if klt b a then b else a.
  Definition fmax2 (a b : num) : num :=
    if k_isnan A a then b else if kgt b a then b else a.

  Fixpoint map2 {X Y Z} (f : X -> Y -> Z) (xs : list X) (ys : list Y) : list Z :=
    match xs, ys with
    | x :: xs', y :: ys' => f x y :: map2 f xs' ys'
    | _, _ => []
    end.

  (* `xs.iter_mut().zip(ys).for_each(|(x, y)| *x = f(x, y))`: the cells beyond
     the shorter side keep their value *)
  Fixpoint upd_zip {Y} (f : num -> Y -> num) (xs : list num) (ys : list Y) : list num :=
    match xs, ys with
    | x :: xs', y :: ys' => f x y :: upd_zip f xs' ys'
    | _, [] => xs
    | [], _ => []
    end.

  Definition vadd (a b : vec) : vec := map2 (k_add A) a b.
  Definition vsub (a b : vec) : vec := map2 (k_sub A) a b.
  Definition vdivs (a : vec) (s : num) : vec := map (fun x => k_div A x s) a.
  Definition vzero (D : nat) : vec := repeat (k_zero A) D.

  (* nalgebra 0.32 `dot` for fixed vectors of dimension 2 and 3: a + b, a + b + c *)
  Definition dot (a b : vec) : num :=
    match map2 (k_mul A) a b with
    | [] => k_zero A
    | p :: ps => fold_left (k_add A) ps p
    end.
  (* norm_squared: `res = 0; res += col.dot(col)`; norm = sqrt *)
  Definition norm (a : vec) : num := k_sqrt A (k_add A (k_zero A) (dot a a)).
  Definition dist (a b : vec) : num := norm (vsub a b).

  (* `matrix * vector` (gemv): y = col_0 * x_0; y = col_j * x_j + y *)
  Definition row_apply (row p : vec) : num :=
    match map2 (k_mul A) row p with
    | [] => k_zero A
    | t :: ts => fold_left (fun y t' => k_add A t' y) ts t
    end.
  Definition matvec (M : list vec) (p : vec) : vec := map (fun row => row_apply row p) M.
End Num.
Arguments map2 {X Y Z} f xs ys.

(* ------------------------------------------------------------- reductions *)

Definition key := list nat.

Record reds (A : karith) := mkReds {
  (* `.sum::<f64>()` *)
  r_sum : key -> list (num A) -> res (num A);
  (* `.sum::<PointND<D>>()` *)
  r_vsum : key -> nat -> list (vec A) -> res (vec A);
  (* `.max_by(|a, b| a.partial_cmp(b).unwrap_or(Equal))`, `.min_by(..)` *)
  r_maxby : key -> list (num A) -> res (option (num A));
  r_minby : key -> list (num A) -> res (option (num A));
  (* BoundingBox::from_points: `fold_with((MAX.., MIN..), ..).reduce_with(..)`, None iff empty *)
  r_bbox : key -> nat -> list (vec A) -> res (option (vec A * vec A));
  (* `HashMap::into_values().map(..).sum::<f64>()` *)
  r_gsum : key -> list (num A) -> res (num A)
}.
Arguments r_sum {A}. Arguments r_vsum {A}. Arguments r_maxby {A}. Arguments r_minby {A}.
Arguments r_bbox {A}. Arguments r_gsum {A}.

Section Trees.
  Variable A : karith.
  Notation num := (num A).
  Notation vec := (vec A).

  (* `impl Sum for f64`: fold(-0.0, +); nalgebra `impl Sum for Matrix`: fold(zero(), +).
     rayon's SumFolder / reducer compute `[l, r].into_iter().sum()` = (z0 + l) + r
     where z0 is the identity of the element type's `Sum` *)
  Definition seq_sum_from (z0 : num) (xs : list num) : num := fold_left (k_add A) xs z0.
  Definition sum2_from (z0 l r : num) : num := seq_sum_from z0 [l; r].
  Definition tree_sum_from (z0 : num) (t : sched) (xs : list num) : num :=
    par_fold (fun l => sum2_from z0 (seq_sum_from z0 []) (seq_sum_from z0 l)) (sum2_from z0) t xs.
  Definition seq_sum (xs : list num) : num := seq_sum_from (k_nzero A) xs.
  Definition tree_sum (t : sched) (xs : list num) : num := tree_sum_from (k_nzero A) t xs.

  (* coordinate c of every vector *)
  Definition column (c : nat) (xs : list vec) : list num :=
    flat_map (fun v => match nth_opt v c with Some x => [x] | None => [] end) xs.

  (* `.sum::<PointND<D>>()`: nalgebra's `+` on vectors is componentwise, so the
     tree of vector additions is, coordinate by coordinate, the same tree of
     scalar additions starting from zero() = 0.0 *)
  Definition tree_vsum (t : sched) (D : nat) (xs : list vec) : vec :=
    map (fun c => tree_sum_from (k_zero A) t (column c xs)) (seq 0 D).

  (* rayon max_by / min_by = reduce_with(op) *)
  Definition max_op (a b : num) : num := match cmp_eq A a b with Gt => a | _ => b end.
  Definition min_op (a b : num) : num := match cmp_eq A a b with Gt => b | _ => a end.
  Definition oreduce {X} (op : X -> X -> X) (a b : option X) : option X :=
    match a, b with
    | Some x, Some y => Some (op x y)
    | Some x, None => Some x
    | None, b' => b'
    end.
  Definition seq_reduce {X} (op : X -> X -> X) (xs : list X) : option X :=
    match xs with
    | [] => None
    | x :: t => Some (fold_left op t x)
    end.
  Definition tree_reduce {X} (op : X -> X -> X) (t : sched) (xs : list X) : option X :=
    par_fold (seq_reduce op) (oreduce op) t xs.

  (* BoundingBox::from_points: `fold_with((MAX.., MIN..), |(mins, maxs), vals| ..)` then
     `reduce_with(|l, r| (l.min(r), l.max(r)))`, coordinate by coordinate (the
     closures treat the coordinates independently).  One accumulator per piece
     of the split; a coordinate no vector has keeps MAX / MIN. *)
  Definition min_step (mn x : num) : num := if klt A x mn then x else mn.   (* if *val < *min { *min = *val } *)
  Definition max_step (mx x : num) : num := if klt A mx x then x else mx.   (* if *max < *val { *max = *val } *)
  Definition col_leaf (step : num -> num -> num) (init : num) (l : list num) : option num :=
    match l with [] => None | _ => Some (fold_left step l init) end.
  Definition tree_col (step : num -> num -> num) (init : num) (red : num -> num -> num)
                      (t : sched) (col : list num) : num :=
    match par_fold (col_leaf step init) (oreduce red) t col with Some v => v | None => init end.
  Definition tree_bbox (t : sched) (D : nat) (xs : list vec) : option (vec * vec) :=
    match xs with
    | [] => None
    | _ => Some (map (fun c => tree_col min_step (k_fmax A) (fmin2 A) t (column c xs)) (seq 0 D),
                 map (fun c => tree_col max_step (k_fmin A) (fmax2 A) t (column c xs)) (seq 0 D))
    end.

  (* HashMap iteration order: the oracle lists indices; indices out of range
     are dropped (a true HashMap visits a permutation) *)
  Definition reorder {X} (ord : list nat) (xs : list X) : list X :=
    flat_map (fun i => match nth_opt xs i with Some x => [x] | None => [] end) ord.

  Definition reds_tree (T : key -> sched) (P : key -> list nat) : reds A :=
    {| r_sum := fun k xs => Ok (tree_sum (T k) xs);
       r_vsum := fun k D xs => Ok (tree_vsum (T k) D xs);
       r_maxby := fun k xs => Ok (tree_reduce max_op (T k) xs);
       r_minby := fun k xs => Ok (tree_reduce min_op (T k) xs);
       r_bbox := fun k D xs => Ok (tree_bbox (T k) D xs);
       r_gsum := fun k xs => Ok (seq_sum (reorder (P k) xs)) |}.

  (* the same, flagging every reduction whose result could depend on the tree:
     [sum_ok xs] = every sub-sum of xs is exact; [val_ok x] = x is a value on
     which partial_cmp is a total order and `Equal` means identical *)
  Variable sum_ok : list num -> bool.
  Variable val_ok : num -> bool.
  (* [cmp_ok xs]: on the values of xs partial_cmp is a total order and `Equal` means identical *)
  Variable cmp_ok : list num -> bool.
  Definition vsum_ok (D : nat) (xs : list vec) : bool :=
    forallb (fun v => Nat.eqb (length v) D) xs && forallb (fun c => sum_ok (column c xs)) (seq 0 D).
  Definition guard {X} (b : bool) (x : X) : res X := if b then Ok x else Panic 99.
  Definition reds_chk (T : key -> sched) (P : key -> list nat) : reds A :=
    {| r_sum := fun k xs => guard (sum_ok xs) (tree_sum (T k) xs);
       r_vsum := fun k D xs => guard (vsum_ok D xs) (tree_vsum (T k) D xs);
       r_maxby := fun k xs => guard (cmp_ok xs) (tree_reduce max_op (T k) xs);
       r_minby := fun k xs => guard (cmp_ok xs) (tree_reduce min_op (T k) xs);
       r_bbox := fun k D xs => guard (forallb (fun v => Nat.eqb (length v) D && forallb val_ok v) xs)
                                     (tree_bbox (T k) D xs);
       r_gsum := fun k xs => guard (sum_ok xs) (seq_sum (reorder (P k) xs)) |}.
End Trees.

(* the sequential schedule: one leaf everywhere, groups in first-occurrence order *)
Definition T_seq : key -> sched := fun _ => Leaf.
Definition P_id : key -> list nat := fun _ => seq 0 64.

(* ------------------------------------------------------------------ k-means *)

Record settings (A : karith) := mkSettings {
  s_imbalance_tol : num A;
  s_delta_threshold : num A;
  s_max_iter : nat;
  s_max_balance_iter : nat;
  s_erode : bool;
  s_hilbert : bool;
  s_mbr_early_break : bool
}.
Arguments s_imbalance_tol {A}. Arguments s_delta_threshold {A}. Arguments s_max_iter {A}.
Arguments s_max_balance_iter {A}. Arguments s_erode {A}. Arguments s_hilbert {A}.
Arguments s_mbr_early_break {A}.

Fixpoint mapM {X Y} (f : X -> res Y) (l : list X) : res (list Y) :=
  match l with
  | [] => Ok []
  | x :: t => y <- f x ;; ys <- mapM f t ;; Ok (y :: ys)
  end.

(* enumerate *)
Fixpoint indexed {X} (i : nat) (l : list X) : list (nat * X) :=
  match l with
  | [] => []
  | x :: t => (i, x) :: indexed (S i) t
  end.

(* `ids.zip(xs).filter(|(id, _)| id == c).map(|(_, x)| x)` *)
Definition select {X} (ids : list N) (xs : list X) (c : N) : list X :=
  map snd (filter (fun ix => (fst ix =? c)%N) (combine ids xs)).

Section KMeans.
  Variable A : karith.
  Notation num := (num A).
  Notation vec := (vec A).
  Variable R : reds A.
  Variable rot : option (list vec).
  Variable D : nat.
  Variable cfg : settings A.

  Notation add := (k_add A). Notation sub := (k_sub A). Notation mul := (k_mul A). Notation div := (k_div A).

  (* ---- src/geometry.rs *)

  (* geometry::center *)
  Definition center (k : key) (pts : list vec) : res vec :=
    match pts with
    | [] => Panic 3
    | _ => s <- r_vsum R k D pts ;; Ok (vdivs A s (k_ofN A (N.of_nat (length pts))))
    end.

  (* BoundingBox::center *)
  Definition bb_center (pmin pmax : vec) : vec := vdivs A (vadd A pmin pmax) (k_two A).

  (* BoundingBox::contains *)
  Definition bb_contains (pmin pmax p : vec) : bool :=
    forallb (fun '(mn, mx, x) => klt A x (add mx (k_eps A)) && kgt A x (sub mn (k_eps A)))
            (combine (combine pmin pmax) p).

  (* std `Iterator::max_by(|a, b| a.partial_cmp(b).unwrap())`: the last maximum *)
  Fixpoint max_by_unwrap (acc : num) (xs : list num) : res num :=
    match xs with
    | [] => Ok acc
    | x :: t => match k_cmp A acc x with
                | None => Panic 6
                | Some Gt => max_by_unwrap acc t
                | Some _ => max_by_unwrap x t
                end
    end.

  (* BoundingBox::distance_to_point *)
  Definition bb_distance (pmin pmax p : vec) : res num :=
    if negb (bb_contains pmin pmax p) then
      Ok (norm A (map (fun '(mn, mx, x) => if kgt A x mx then mx else if klt A x mn then mn else x)
                      (combine (combine pmin pmax) p)))
    else
      let c := bb_center pmin pmax in
      match map (fun '(mn, mx, x, ce) => if kgt A x ce then k_abs A (sub mx x) else k_abs A (sub mn x))
                (combine (combine (combine pmin pmax) p) c) with
      | [] => Panic 7
      | d :: ds => max_by_unwrap d ds
      end.

  (* OrientedBoundingBox::from_points(points).unwrap() *)
  Definition obb_of (k : key) (points : list vec) : res (list vec * vec * vec) :=
    match rot with
    | None => Panic 4
    | Some M =>
      bb <- r_bbox R k D (map (matvec A M) points) ;;
      match bb with
      | None => Panic 5
      | Some (pmin, pmax) => Ok (M, pmin, pmax)
      end
    end.
  (* OrientedBoundingBox::distance_to_point *)
  Definition obb_distance (obb : list vec * vec * vec) (p : vec) : res num :=
    let '(M, pmin, pmax) := obb in bb_distance pmin pmax (matvec A M p).

  (* ---- src/algorithms/k_means.rs *)

  (* fn imbalance *)
  Definition imbalance (k : key) (ws : list num) : res num :=
    mn <- r_minby R (4 :: k) ws ;;
    mx <- r_maxby R (5 :: k) ws ;;
    match mn, mx with
    | Some a, Some b => Ok (sub b a)
    | _, _ => Ok (k_zero A)
    end.

  (* fn best_values; the state is (best_value, snd_best_value, assignment) *)
  Fixpoint best_loop (point : vec) (cs : list (vec * N * num * num)) (best snd : num) (asg : option N)
    : num * num * option N :=
    match cs with
    | [] => (snd, best, asg)
    | (c, id, dmbr, infl) :: t =>
      if kgt A dmbr snd && s_mbr_early_break cfg then (snd, best, asg)
      else
        let eff := mul (dist A c point) infl in
        if klt A eff best then best_loop point t eff best (Some id)
        else if klt A eff snd then best_loop point t best eff asg
        else best_loop point t best snd asg
    end.
  Definition best_values (point : vec) (centers : list vec) (cids : list N) (dmbr infl : list num)
    : num * num * option N :=
    best_loop point (combine (combine (combine centers cids) dmbr) infl) (k_fmax A) (k_fmax A) None.

  (* fn relax_bounds *)
  Definition relax_bounds (k : key) (lbs ubs dists infl : list num) : res (list num * list num) :=
    m <- r_maxby R k (map2 mul dists infl) ;;
    let mx := match m with Some x => x | None => k_zero A end in
    Ok (map (fun lb => sub lb mx) lbs,
        upd_zip A (fun ub di => add ub (mul (fst di) (snd di))) ubs (combine dists infl)).

  (* the new centres of `center_ids.par_iter().zip(centers.par_iter()).map(..)` *)
  Definition new_centers (k : key) (points : list vec) (asg : list N) (cids : list N) (centers : list vec)
    : res (list vec) :=
    mapM (fun '(j, (cid, old)) =>
            match select asg points cid with
            | [] => Ok old
            | pts => center (k ++ [j]) pts
            end)
         (indexed 0 (combine cids centers)).

  (* `par_sort_by(|(_, d1), (_, d2)| d1.partial_cmp(d2).unwrap_or(Equal))`: rayon's
     stable sort; up to 20 elements it is this insertion sort (from the right,
     `insert_head`), beyond that a merge sort with the same result whenever the
     comparison is a total preorder *)
  Fixpoint insert_head {X} (x : X * num) (l : list (X * num)) : list (X * num) :=
    match l with
    | [] => [x]
    | y :: t => match cmp_eq A (snd y) (snd x) with
                | Lt => y :: insert_head x t
                | _ => x :: l
                end
    end.
  Definition sort_by_dist {X} (l : list (X * num)) : list (X * num) := fold_right insert_head [] l.

  Record state := mkState { st_asg : list N; st_infl : list num; st_lbs : list num; st_ubs : list num }.

  (* one pass of the parallel `for_each` over (permutation, lbs, ubs): the new
     bounds in order, and the writes (index, id) to `assignments`.  The
     permutation is the identity (it is never modified), so the written indices
     are pairwise distinct and the order of the writes is irrelevant
     (Rayon.writes_perm_indep). *)
  Fixpoint sweep (points : list vec) (centers : list vec) (cids : list N) (dmbr infl : list num)
                 (items : list (nat * num * num)) : res (list num * list num * list (nat * N)) :=
    match items with
    | [] => Ok ([], [], [])
    | (idx, lb, ub) :: t =>
      r <- sweep points centers cids dmbr infl t ;;
      let '(lbs, ubs, ws) := r in
      if klt A lb ub then
        match nth_opt points idx with
        | None => Panic 9
        | Some p =>
          let '(nlb, nub, na) := best_values p centers cids dmbr infl in
          Ok (nlb :: lbs, nub :: ubs, match na with Some a => (idx, a) :: ws | None => ws end)
        end
      else Ok (lb :: lbs, ub :: ubs, ws)
    end.

  Fixpoint apply_writes (ws : list (nat * N)) (asg : list N) : res (list N) :=
    match ws with
    | [] => Ok asg
    | (i, a) :: t => if (i <? length asg)%nat then apply_writes t (set_nth asg i a) else Panic 10
    end.

  (* the influence update *)
  Definition new_influence (target : num) (infl w : num) : num :=
    let ratio := div target w in
    let max_diff := mul (k_step A) infl in
    let ni := div infl (k_sqrt A ratio) in
    if klt A (k_abs A (sub infl ni)) max_diff then ni
    else if kgt A ni infl then add infl max_diff
    else sub infl max_diff.

  (* `for _ in 0..settings.max_balance_iter` of assign_and_balance; [b] counts the
     iterations still to run *)
  Fixpoint balance_loop (b : nat) (it : nat) (points : list vec) (weights : list num) (perm : list nat)
                        (centers : list vec) (cids : list N) (dmbr : list num) (target : num)
                        (st : state) : res state :=
    match b with
    | O => Ok st
    | S b' =>
      let k := [it; b] in
      r <- sweep points centers cids dmbr (st_infl st) (combine (combine perm (st_lbs st)) (st_ubs st)) ;;
      let '(lbs1, ubs1, ws) := r in
      (* zip of permutation, lbs, ubs: cells beyond the shortest keep their value *)
      let lbs1 := lbs1 ++ skipn (length lbs1) (st_lbs st) in
      let ubs1 := ubs1 ++ skipn (length ubs1) (st_ubs st) in
      asg <- apply_writes ws (st_asg st) ;;
      nw <- mapM (fun '(j, cid) => r_sum R (3 :: k ++ [j]) (select asg weights cid)) (indexed 0 cids) ;;
      imb <- imbalance k nw ;;
      if klt A imb (s_imbalance_tol cfg) then Ok (mkState asg (st_infl st) lbs1 ubs1)
      else
        let infl := upd_zip A (new_influence target) (st_infl st) nw in
        ncs <- new_centers (6 :: k) points asg cids centers ;;
        let dold := map2 (dist A) centers ncs in
        lu <- relax_bounds (7 :: k) lbs1 ubs1 dold infl ;;
        balance_loop b' it points weights perm centers cids dmbr target (mkState asg infl (fst lu) (snd lu))
    end.

  (* fn assign_and_balance *)
  Definition assign_and_balance (it : nat) (points : list vec) (weights : list num) (perm : list nat)
                                (centers : list vec) (cids : list N) (st : state) : res state :=
    obb <- obb_of [1; it] points ;;
    dmbr <- mapM (fun '(c, infl) => d <- obb_distance obb c ;; Ok (mul d infl))
                 (combine centers (st_infl st)) ;;
    let zipped := sort_by_dist (combine (combine centers cids) dmbr) in
    let dmbr' := map snd zipped in
    let centers' := map (fun z => fst (fst z)) zipped in
    let cids' := map (fun z => snd (fst z)) zipped in
    tw <- r_sum R [2; it] weights ;;
    let target := div tw (k_ofN A (N.of_nat (length centers'))) in
    balance_loop (s_max_balance_iter cfg) it points weights perm centers' cids' dmbr' target st.

  (* fn max_distance: `iproduct!(points, points).map(norm).max_by(partial_cmp.unwrap_or(Equal)).unwrap()` *)
  Definition max_distance (pts : list vec) : res num :=
    match flat_map (fun p1 => map (fun p2 => dist A p1 p2) pts) pts with
    | [] => Panic 11
    | d :: ds => Ok (fold_left (fun acc x => match cmp_eq A acc x with Gt => acc | _ => x end) ds d)
    end.

  (* fn erosion *)
  Definition erosion (d avg : num) : num :=
    sub (div (k_two A) (add (k_one A) (k_exp A (fmin2 A (div (k_neg A d) avg) (k_zero A))))) (k_one A).

  (* `into_group_map()`: the groups in first-occurrence order of their key *)
  Definition groups (asg : list N) (points : list vec) : list (list vec) :=
    map (select asg points) (distinct [] (firstn (length points) asg)).

  Definition erode (it : nat) (points : list vec) (asg : list N) (ncenters : nat)
                   (infl dmoved : list num) : res (list num) :=
    ds <- mapM max_distance (groups asg points) ;;
    tot <- r_gsum R [9; it] ds ;;
    let avg := div tot (k_ofN A (N.of_nat ncenters)) in
    Ok (upd_zip A (fun i d => mul (k_log A i (k_ten A)) (k_exp A (sub (k_one A) (erosion d avg)))) infl dmoved).

  (* fn balanced_k_means_iter; [cur] = current_iter *)
  Fixpoint kmeans_iter (cur : nat) (points : list vec) (weights : list num) (perm : list nat)
                       (centers : list vec) (cids : list N) (st : state) : res state :=
    st1 <- assign_and_balance cur points weights perm centers cids st ;;
    ncs <- new_centers [8; cur] points (st_asg st1) cids centers ;;
    let dmoved := map2 (dist A) centers ncs in
    infl <- (if s_erode cfg then erode cur points (st_asg st1) (length centers) (st_infl st1) dmoved
             else Ok (st_infl st1)) ;;
    dm <- r_maxby R [10; cur] dmoved ;;
    match dm with
    | None => Panic 8
    | Some delta_max =>
      match cur with
      | O => Ok (mkState (st_asg st1) infl (st_lbs st1) (st_ubs st1))
      | S cur' =>
        if klt A delta_max (s_delta_threshold cfg) then Ok (mkState (st_asg st1) infl (st_lbs st1) (st_ubs st1))
        else
          lu <- relax_bounds [11; cur] (st_lbs st1) (st_ubs st1) dmoved infl ;;
          kmeans_iter cur' points weights perm ncs cids (mkState (st_asg st1) infl (fst lu) (snd lu))
      end
    end.

  (* the same with the assignments after every call of assign_and_balance
     recorded (most recent first): used by the runs to compare the whole
     trajectory -- the implementation run with max_iter = i stops with the
     assignments of iteration min(i, last) of a longer run
     (Proofs/KMeansTrace.v: the state component is [kmeans_iter]) *)
  Fixpoint kmeans_iter_tr (cur : nat) (points : list vec) (weights : list num) (perm : list nat)
                          (centers : list vec) (cids : list N) (st : state) (acc : list (list N))
    : res (state * list (list N)) :=
    st1 <- assign_and_balance cur points weights perm centers cids st ;;
    let acc := st_asg st1 :: acc in
    ncs <- new_centers [8; cur] points (st_asg st1) cids centers ;;
    let dmoved := map2 (dist A) centers ncs in
    infl <- (if s_erode cfg then erode cur points (st_asg st1) (length centers) (st_infl st1) dmoved
             else Ok (st_infl st1)) ;;
    dm <- r_maxby R [10; cur] dmoved ;;
    match dm with
    | None => Panic 8
    | Some delta_max =>
      match cur with
      | O => Ok (mkState (st_asg st1) infl (st_lbs st1) (st_ubs st1), acc)
      | S cur' =>
        if klt A delta_max (s_delta_threshold cfg) then Ok (mkState (st_asg st1) infl (st_lbs st1) (st_ubs st1), acc)
        else
          lu <- relax_bounds [11; cur] (st_lbs st1) (st_ubs st1) dmoved infl ;;
          kmeans_iter_tr cur' points weights perm ncs cids (mkState (st_asg st1) infl (fst lu) (snd lu)) acc
      end
    end.

  (* ---- the same run with the values the `coupe_verif` records of k_means.rs
     export, in program order: after every assignment step the assignments and
     the bounds (`kmeans_assign`, `kmeans_bounds`), after every influence
     update the influences (`kmeans_influences`).  Most recent first.
     (Proofs/KMeansTrace.v: the state component is the run proper.) *)
  Inductive event :=
  | EvAssign (asg : list N) (lbs ubs : list num)
  | EvInfl (infl : list num).

  Fixpoint balance_loop_ev (b : nat) (it : nat) (points : list vec) (weights : list num) (perm : list nat)
                           (centers : list vec) (cids : list N) (dmbr : list num) (target : num)
                           (st : state) (ev : list event) : res (state * list event) :=
    match b with
    | O => Ok (st, ev)
    | S b' =>
      let k := [it; b] in
      r <- sweep points centers cids dmbr (st_infl st) (combine (combine perm (st_lbs st)) (st_ubs st)) ;;
      let '(lbs1, ubs1, ws) := r in
      let lbs1 := lbs1 ++ skipn (length lbs1) (st_lbs st) in
      let ubs1 := ubs1 ++ skipn (length ubs1) (st_ubs st) in
      asg <- apply_writes ws (st_asg st) ;;
      let ev := EvAssign asg lbs1 ubs1 :: ev in
      nw <- mapM (fun '(j, cid) => r_sum R (3 :: k ++ [j]) (select asg weights cid)) (indexed 0 cids) ;;
      imb <- imbalance k nw ;;
      if klt A imb (s_imbalance_tol cfg) then Ok (mkState asg (st_infl st) lbs1 ubs1, ev)
      else
        let infl := upd_zip A (new_influence target) (st_infl st) nw in
        let ev := EvInfl infl :: ev in
        ncs <- new_centers (6 :: k) points asg cids centers ;;
        let dold := map2 (dist A) centers ncs in
        lu <- relax_bounds (7 :: k) lbs1 ubs1 dold infl ;;
        balance_loop_ev b' it points weights perm centers cids dmbr target (mkState asg infl (fst lu) (snd lu)) ev
    end.

  Definition assign_and_balance_ev (it : nat) (points : list vec) (weights : list num) (perm : list nat)
                                   (centers : list vec) (cids : list N) (st : state) (ev : list event)
    : res (state * list event) :=
    obb <- obb_of [1; it] points ;;
    dmbr <- mapM (fun '(c, infl) => d <- obb_distance obb c ;; Ok (k_mul A d infl))
                 (combine centers (st_infl st)) ;;
    let zipped := sort_by_dist (combine (combine centers cids) dmbr) in
    let dmbr' := map snd zipped in
    let centers' := map (fun z => fst (fst z)) zipped in
    let cids' := map (fun z => snd (fst z)) zipped in
    tw <- r_sum R [2; it] weights ;;
    let target := k_div A tw (k_ofN A (N.of_nat (length centers'))) in
    balance_loop_ev (s_max_balance_iter cfg) it points weights perm centers' cids' dmbr' target st ev.

  Fixpoint kmeans_iter_ev (cur : nat) (points : list vec) (weights : list num) (perm : list nat)
                          (centers : list vec) (cids : list N) (st : state) (ev : list event)
    : res (state * list event) :=
    r1 <- assign_and_balance_ev cur points weights perm centers cids st ev ;;
    let '(st1, ev) := r1 in
    ncs <- new_centers [8; cur] points (st_asg st1) cids centers ;;
    let dmoved := map2 (dist A) centers ncs in
    infl <- (if s_erode cfg then erode cur points (st_asg st1) (length centers) (st_infl st1) dmoved
             else Ok (st_infl st1)) ;;
    dm <- r_maxby R [10; cur] dmoved ;;
    match dm with
    | None => Panic 8
    | Some delta_max =>
      match cur with
      | O => Ok (mkState (st_asg st1) infl (st_lbs st1) (st_ubs st1), ev)
      | S cur' =>
        if klt A delta_max (s_delta_threshold cfg) then Ok (mkState (st_asg st1) infl (st_lbs st1) (st_ubs st1), ev)
        else
          lu <- relax_bounds [11; cur] (st_lbs st1) (st_ubs st1) dmoved infl ;;
          kmeans_iter_ev cur' points weights perm ncs cids (mkState (st_asg st1) infl (fst lu) (snd lu)) ev
      end
    end.

  (* fn balanced_k_means_with_initial_partition *)
  Definition kmeans_with_initial (num_partitions : N) (points : list vec) (weights : list num)
                                 (part : list N) : res (list N) :=
    let cids := center_ids part in
    if negb (N.of_nat (length cids) =? num_partitions)%N then Panic 2
    else
      centers <- mapM (fun '(j, cid) => center [0; j] (select part points cid)) (indexed 0 cids) ;;
      let n := length points in
      st <- kmeans_iter (s_max_iter cfg) points weights (seq 0 n) centers cids
                        (mkState part (map (fun _ => k_one A) centers) (repeat (k_zero A) n) (repeat (k_fmax A) n)) ;;
      Ok (st_asg st).

  (* KMeans::partition *)
  Definition kmeans (points : list vec) (weights : list num) (part : list N) : res (list N) :=
    let num_partitions := (1 + list_maxN part)%N in
    if (num_partitions <? 2)%N then Ok part
    else kmeans_with_initial num_partitions points weights part.
  (* KMeans::partition with the trajectory: the assignments after each outer
     iteration, oldest first ([] when the call returns at once) *)
  Definition kmeans_trace (points : list vec) (weights : list num) (part : list N) : res (list (list N)) :=
    let num_partitions := (1 + list_maxN part)%N in
    if (num_partitions <? 2)%N then Ok []
    else
      let cids := center_ids part in
      if negb (N.of_nat (length cids) =? num_partitions)%N then Panic 2
      else
        centers <- mapM (fun '(j, cid) => center [0; j] (select part points cid)) (indexed 0 cids) ;;
        let n := length points in
        r <- kmeans_iter_tr (s_max_iter cfg) points weights (seq 0 n) centers cids
               (mkState part (map (fun _ => k_one A) centers) (repeat (k_zero A) n) (repeat (k_fmax A) n)) [] ;;
        Ok (rev (snd r)).
  (* KMeans::partition with its recorded events, oldest first *)
  Definition kmeans_events (points : list vec) (weights : list num) (part : list N) : res (list N * list event) :=
    let num_partitions := (1 + list_maxN part)%N in
    if (num_partitions <? 2)%N then Ok (part, [])
    else
      let cids := center_ids part in
      if negb (N.of_nat (length cids) =? num_partitions)%N then Panic 2
      else
        centers <- mapM (fun '(j, cid) => center [0; j] (select part points cid)) (indexed 0 cids) ;;
        let n := length points in
        r <- kmeans_iter_ev (s_max_iter cfg) points weights (seq 0 n) centers cids
               (mkState part (map (fun _ => k_one A) centers) (repeat (k_zero A) n) (repeat (k_fmax A) n)) [] ;;
        Ok (st_asg (fst r), rev (snd r)).
End KMeans.

(* the result of the call, from its trajectory *)
Definition final_of_trace (part : list N) (r : res (list (list N))) : res (list N) :=
  match r with
  | Ok tr => Ok (last tr part)
  | Err e => Err e
  | Panic p => Panic p
  | OutOfFuel => OutOfFuel
  end.

(* ------------------------------------------------- binary64 check predicates *)

(* structural equality of spec_float values *)
Definition sf_eqb (a b : spec_float) : bool :=
  match a, b with
  | S754_zero s1, S754_zero s2 => Bool.eqb s1 s2
  | S754_infinity s1, S754_infinity s2 => Bool.eqb s1 s2
  | S754_nan, S754_nan => true
  | S754_finite s1 m1 e1, S754_finite s2 m2 e2 => Bool.eqb s1 s2 && Pos.eqb m1 m2 && Z.eqb e1 e2
  | _, _ => false
  end.

(* the integer a binary64 value stands for, if it is integer-valued (-0.0 is not) *)
Definition f64_int (x : spec_float) : option Z :=
  match trunc_Z x with
  | Some z => if sf_eqb (f64_of_Z z) x then Some z else None
  | None => None
  end.

(* every element is an integer and the absolute values add up to at most 2^53:
   then every sub-sum, in any order, is exact *)
Fixpoint abs_total (xs : list spec_float) : option Z :=
  match xs with
  | [] => Some 0%Z
  | x :: t => match f64_int x, abs_total t with
              | Some z, Some s => Some (Z.abs z + s)%Z
              | _, _ => None
              end
  end.
Definition sum_ok_f64 (xs : list spec_float) : bool :=
  match abs_total xs with Some s => (s <=? 2 ^ 53)%Z | None => false end.

(* a canonical binary64 value other than NaN and -0.0: on such values
   partial_cmp is a total order and `Equal` means identical *)
Definition val_ok_f64 (x : spec_float) : bool :=
  match x with
  | S754_nan => false
  | S754_zero s => negb s
  | S754_infinity _ => true
  | S754_finite _ m e => bounded 53 1024 m e
  end.

(* the same with -0.0 allowed and 0.0 excluded *)
Definition val_ok_neg_f64 (x : spec_float) : bool :=
  match x with
  | S754_nan => false
  | S754_zero s => s
  | S754_infinity _ => true
  | S754_finite _ m e => bounded 53 1024 m e
  end.

(* no NaN, and not both 0.0 and -0.0 (the only two distinct values that compare Equal) *)
Definition cmp_ok_f64 (xs : list spec_float) : bool :=
  forallb val_ok_f64 xs || forallb val_ok_neg_f64 xs.

(* VnBest / VnFirst (src/algorithms/vn/best.rs, first.rs) and
   `compute_parts_load` over an arbitrary weight arithmetic (Model/ArithW.v):
   the same transcription as Model/Vn.v, every +, -, <, <=, ==, / two of the
   Rust code going through the arithmetic, in the order the code performs them
   (this matters for floats: the tracked loads are updated by rounded +/-).
   The `loop` of VnBest runs on plain fuel supplied by the caller: with floats
   no bound on the number of turns is proved (before fix 98041ea it could
   oscillate for ever, see docs/C14.md; [guard] selects the loop with / without
   the progress test of that fix).  Executable definitions only. *)
From Coupe Require Import Lib.Prelude Lib.SFloat Model.ArithW Model.NumPart Model.Vn.
From Coq Require Import Floats.SpecFloat.

Section VnW.
  Variable A : arith.
  Notation Wt := (W A).

  (* one fold of compute_parts_load: `acc[part] += w` *)
  Fixpoint fold_loadW (ws : list Wt) (p : list N) (acc : list Wt) : res (list Wt) :=
    match ws, p with
    | w :: ws', x :: p' =>
      match nth_opt acc (N.to_nat x) with
      | None => Panic 1
      | Some a => fold_loadW ws' p' (set_nth acc (N.to_nat x) (w_add A a w))
      end
    | _, _ => Ok acc
    end.
  Fixpoint zip_addW (l r : list Wt) : list Wt :=
    match l, r with
    | x :: l', y :: r' => w_add A x y :: zip_addW l' r'
    | _, _ => l
    end.
  (* rayon fold + reduce_with on a pool of ONE thread (what the harness uses for float weights, so
     that the summation order is fixed): the index range is split once, in the middle, each half is
     folded from zeros, the right result is added onto the left one.  With more threads the split
     tree depends on scheduling; integer sums do not depend on it. *)
  Definition parts_loadW (ws : list Wt) (p : list N) (k : nat) : res (list Wt) :=
    let n := Nat.min (length ws) (length p) in
    let z := repeat (w_zero A) k in
    if Nat.ltb n 2 then fold_loadW ws p z
    else
      let mid := Nat.div n 2 in
      bind (fold_loadW (firstn mid ws) (firstn mid p) z) (fun l =>
      bind (fold_loadW (skipn mid (firstn n ws)) (skipn mid (firstn n p)) z) (fun r =>
      Ok (zip_addW l r))).

  (* ---------------- VnBest ---------------- *)

  Definition minmax_posW (l : list Wt) : option (nat * nat) :=
    match l with
    | [] => None
    | x :: t => Some (argmin_first_auxW A 0 x 1 t, argmax_last_auxW A 0 x 1 t)
    end.

  Fixpoint count_ltW (target : Wt) (crit : list (itemW A)) : nat :=
    match crit with
    | [] => O
    | x :: t => if w_ltb A (fst x) target then S (count_ltW target t) else O
    end.

  Fixpoint nearestW (fuel : nat) (crit : list (itemW A)) (p : list N) (over : N) (target : Wt)
           (above below : option nat) : res (option nat) :=
    match fuel with
    | O => OutOfFuel
    | S f =>
      let pick : res (option (nat * bool)) :=
        match above, below with
        | Some a, Some b =>
          match nth_opt crit a, nth_opt crit b with
          | Some ca, Some cb =>
            if w_ltb A (w_sub A (fst ca) target) (w_sub A target (fst cb))
            then Ok (Some (a, true)) else Ok (Some (b, false))
          | _, _ => Panic 2
          end
        | Some a, None => Ok (Some (a, true))
        | None, Some b => Ok (Some (b, false))
        | None, None => Ok None
        end in
      match pick with
      | Ok None => Ok None
      | Ok (Some (c, is_above)) =>
        match nth_opt crit c with
        | None => Panic 2
        | Some cc =>
          match nth_opt p (snd cc) with
          | None => Panic 2
          | Some pc =>
            if (pc =? over)%N then Ok (Some c)
            else if is_above then
              nearestW f crit p over target (if Nat.ltb (S c) (length crit) then Some (S c) else None) below
            else
              nearestW f crit p over target above (match c with O => None | S c' => Some c' end)
          end
        end
      | Err e => Err e
      | Panic s => Panic s
      | OutOfFuel => OutOfFuel
      end
    end.

  Definition vb_stateW := (list N * list Wt * N)%type.

  (* the progress test added by fix 98041ea (see Model/Vn.v, vb_guard): it reads `-`, `+=`, `<` *)
  Definition vb_guardW (lo lu w imbalance : Wt) : bool :=
    let new_over := w_sub A lo w in
    let new_under := w_add A lu w in
    w_ltb A new_over new_under && negb (w_ltb A (w_sub A new_under new_over) imbalance).

  (* [guard] = with the progress test (the current code) / without it (the loop before the fix) *)
  Definition vb_stepW (guard : bool) (crit : list (itemW A)) (st : vb_stateW) : vb_stateW + res (list N * N) :=
    let '(p, L, n) := st in
    match minmax_posW L with
    | None => inr (Panic 3)
    | Some (under, over) =>
      match nth_opt L over, nth_opt L under with
      | Some lo, Some lu =>
        let imbalance := w_sub A lo lu in
        let target := w_half A imbalance in
        let idx := count_ltW target crit in
        let above := if Nat.ltb idx (length crit) then Some idx else None in
        let below := match idx with O => None | S i => Some i end in
        match nearestW (S (length crit)) crit p (N.of_nat over) target above below with
        | Ok None => inr (Ok (p, n))
        | Ok (Some c) =>
          match nth_opt crit c with
          | None => inr (Panic 2)
          | Some (w, id) =>
            if w_leb A imbalance w || w_is_zero A w then inr (Ok (p, n))
            else if guard && vb_guardW lo lu w imbalance then inr (Ok (p, n))
            else if Nat.ltb id (length p) then
              let L1 := set_nth L over (w_sub A lo w) in
              match nth_opt L1 under with
              | None => inr (Panic 2)
              | Some lu1 => inl (set_nth p id (N.of_nat under), set_nth L1 under (w_add A lu1 w), (n + 1)%N)
              end
            else inr (Panic 2)
          end
        | Err e => inr (Err e)
        | Panic s => inr (Panic s)
        | OutOfFuel => inr OutOfFuel
        end
      | _, _ => inr (Panic 2)
      end
    end.

  Definition vn_bestW (guard : bool) (fuel : nat) (ws : list Wt) (p : list N) : res (list N * N) :=
    let k := part_count p in
    if negb (Nat.eqb (length ws) (length p)) then Err (InputLenMismatch (length p) (length ws))
    else if existsb (fun w => w_ltb A w (w_zero A)) ws then Err NegativeValues
    else if Nat.eqb (length p) 0 || forallb (w_is_zero A) ws || Nat.ltb k 2 then Ok (p, 0%N)
    else
      bind (parts_loadW ws p k) (fun L =>
        let crit := rev (sort_items_descW A (items_ofW A ws)) in
        match iter_nat (vb_stepW guard crit) fuel (p, L, 0%N) with
        | inl _ => OutOfFuel
        | inr r => r
        end).

  (* ---------------- VnFirst ---------------- *)

  Definition vf_stateW := (list N * list Wt * Wt * Wt * nat)%type.

  Definition minmaxW (l : list Wt) : option (Wt * Wt) :=
    match l with
    | [] => None
    | x :: t => Some (minmax_valW A x x t)
    end.

  Fixpoint vf_forW (qs : list nat) (pp i : nat) (w : Wt) (st : vf_stateW) : res vf_stateW :=
    match qs with
    | [] => Ok st
    | q :: t =>
      if Nat.eqb pp q then vf_forW t pp i w st
      else
        let '(p, L, imb, mx, il) := st in
        match nth_opt L pp with
        | None => Panic 2
        | Some lp =>
          let L1 := set_nth L pp (w_sub A lp w) in
          match nth_opt L1 q with
          | None => Panic 2
          | Some lq =>
            let L2 := set_nth L1 q (w_add A lq w) in
            match minmaxW L2 with
            | None => Panic 3
            | Some (nmin, nmax) =>
              let nimb := w_sub A nmax nmin in
              if w_ltb A imb nimb then
                match nth_opt L2 pp with
                | None => Panic 2
                | Some lp2 =>
                  let L3 := set_nth L2 pp (w_add A lp2 w) in
                  match nth_opt L3 q with
                  | None => Panic 2
                  | Some lq3 => vf_forW t pp i w (p, set_nth L3 q (w_sub A lq3 w), imb, mx, il)
                  end
                end
              else if Nat.ltb i (length p) then
                vf_forW t pp i w (set_nth p i (N.of_nat q), L2, nimb, nmax, i)
              else Panic 2
            end
          end
        end
    end.

  Fixpoint vf_whileW (fuel : nat) (ws : list Wt) (k : nat) (i : nat) (iters : N) (st : vf_stateW)
    : res (list N * N) :=
    let '(p, L, imb, mx, il) := st in
    if Nat.eqb i il then Ok (p, iters)
    else
      match fuel with
      | O => OutOfFuel
      | S f =>
        if Nat.eqb (length ws) 0 then Panic 4
        else
          let i' := Nat.modulo (i + 1) (length ws) in
          match nth_opt p i' with
          | None => Panic 2
          | Some pi =>
            match nth_opt L (N.to_nat pi) with
            | None => Panic 2
            | Some lp =>
              if w_ltb A lp mx then vf_whileW f ws k i' iters st
              else
                match nth_opt ws i' with
                | None => Panic 2
                | Some w =>
                  match vf_forW (seq 0 k) (N.to_nat pi) i' w st with
                  | Ok st' => vf_whileW f ws k i' (iters + 1)%N st'
                  | Err e => Err e
                  | Panic s => Panic s
                  | OutOfFuel => OutOfFuel
                  end
                end
            end
          end
      end.

  Definition vn_firstW (ws : list Wt) (p : list N) : res (list N * N) :=
    let k := part_count p in
    if negb (Nat.eqb (length ws) (length p)) then Err (InputLenMismatch (length p) (length ws))
    else if Nat.eqb (length ws) 0 || Nat.ltb k 2 then Ok (p, 0%N)
    else
      bind (parts_loadW ws p k) (fun L =>
        (* `part_loads.iter().cloned().sum()`; only its being zero is used *)
        if w_is_zero A (fold_left (w_add A) L (w_zero A)) then Ok (p, 0%N)
        else
          match minmaxW L with
          | None => Panic 3
          | Some (mn, mx) => vf_whileW (S (length ws)) ws k (length ws) 0%N (p, L, w_sub A mx mn, mx, O)
          end).
End VnW.

(* ---- checker for binary64 weights: exact arithmetic on the values (every finite f64 is a dyadic
   rational; the weights are scaled to integers by a common power of two).  Returns
   (accepted, strictly): [accepted] = structure + exact gap of the output <= exact gap of the input
   + total / 2^45 (the reading "up to accumulated rounding error", see docs/C14.md);
   [strictly] = the exact gap did not grow at all. *)
Definition check_vn_f64 (ws : list spec_float) (p p' : list N) : option (bool * bool) :=
  match exact_ints ws with
  | None => None
  | Some zs =>
    let k := part_count p in
    let g0 := gap (loads zs p k) in
    let g1 := gap (loads zs p' k) in
    let m := maxN p in
    let structure := Nat.eqb (length p') (length p) && forallb (fun x => (x <=? m)%N) p' in
    Some (structure && (g1 <=? g0 + sumZ zs / 2 ^ 45)%Z, (g1 <=? g0)%Z)
  end.

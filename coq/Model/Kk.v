(* Model of src/algorithms/kk.rs (KarmarkarKarp, integer weights): kk_bipart,
   the k-way kk, and the entry point `Partition::partition`.  Executable
   definitions only; proofs are in Proofs/KkProofs.v.

   A `BinaryHeap` whose elements are pairwise distinct under a total order
   pops them in descending order whatever its internal layout: it is kept as
   a list in DESCENDING order (head = what `pop()` returns), `push` = sorted
   insertion.  (weight, id) items carry distinct ids; rows (`Vec<(T, usize)>`,
   compared lexicographically) differ in the id of their first entry. *)
From Coupe Require Import Lib.Prelude Model.NumPart.
Open Scope Z_scope.

(* ---------------- kk_bipart ---------------- *)

(* `while 2 <= weights.len()`; the opposites vector grows at its end and is
   read back reversed: kept here most recent first. *)
Fixpoint kk2_loop (fuel : nat) (h : list item) (opp : list (nat * nat))
  : option (list item * list (nat * nat)) :=
  match h with
  | a :: b :: t =>
    match fuel with
    | O => None
    | S f => kk2_loop f (insert_desc (fst a - fst b, snd a) t) ((snd a, snd b) :: opp)
    end
  | _ => Some (h, opp)
  end.

(* `partition[b] = 1 - partition[a]`.  Panic 2: index out of bounds; Panic 3:
   `1 - partition[a]` underflows (usize). *)
Fixpoint kk2_back (p : list N) (opp : list (nat * nat)) : res (list N) :=
  match opp with
  | [] => Ok p
  | (a, b) :: t =>
    match nth_opt p a with
    | None => Panic 2
    | Some pa =>
      if (pa <=? 1)%N then
        if Nat.ltb b (length p) then kk2_back (set_nth p b (1 - pa)%N) t else Panic 2
      else Panic 3
    end
  end.

(* Panic 1: `weights.pop().unwrap()` on an empty heap *)
Definition kk_bipart (ws : list Z) (p0 : list N) : res (list N) :=
  match kk2_loop (length ws) (sort_items_desc (items_of ws)) [] with
  | None => OutOfFuel
  | Some ([], _) => Panic 1
  | Some ((_, last) :: _, opp) =>
    if Nat.ltb last (length p0) then kk2_back (set_nth p0 last 0%N) opp else Panic 2
  end.

(* ---------------- k-way kk ---------------- *)

Definition row := list item.

(* `Ord` of Vec<(T, usize)>: lexicographic, a proper prefix is smaller *)
Fixpoint ltb_row (a b : row) : bool :=
  match a, b with
  | [], [] => false
  | [], _ :: _ => true
  | _ :: _, [] => false
  | x :: a', y :: b' =>
    if ltb_item x y then true else if ltb_item y x then false else ltb_row a' b'
  end.
Fixpoint insert_row (e : row) (m : list row) : list row :=
  match m with
  | [] => [e]
  | x :: t => if ltb_row x e then e :: m else x :: insert_row e t
  end.
Definition sort_rows_desc (m : list row) : list row := fold_right insert_row [] m.

(* `(0..num_parts).map(|p| (T::zero(), weight_count * p + id)).collect(); v[0].0 = w`
   Panic 4: `v[0]` on an empty vector (num_parts = 0; not reachable from the entry point). *)
Definition mk_row (n k : nat) (w : Z) (id : nat) : option row :=
  match map (fun p => (0, (n * p + id)%nat)) (seq 0 k) with
  | [] => None
  | (_, i) :: t => Some ((w, i) :: t)
  end.
Fixpoint mk_rows (n k : nat) (its : list item) : option (list row) :=
  match its with
  | [] => Some []
  | (w, id) :: t =>
    match mk_row n k w id, mk_rows n k t with
    | Some r, Some rs => Some (r :: rs)
    | _, _ => None
    end
  end.

(* `e.sort_unstable_by(|ei, ej| T::cmp(&ej.0, &ei.0))`: descending by weight
   only, so entries of equal weight may come out in any order.  The model is
   parameterised by the sort [srt]; the theorems hold for every [srt] that
   returns a weight-descending permutation.  The instance used for execution
   is the stable insertion sort (what the standard library runs on slices of
   at most 20 elements: an element moves left past strictly smaller ones). *)
Fixpoint insert_stable (x : item) (l : list item) : list item :=
  match l with
  | [] => [x]
  | y :: t => if fst y <? fst x then x :: l else y :: insert_stable x t
  end.
Definition sort_stable_desc (l : list item) : list item :=
  fold_left (fun acc x => insert_stable x acc) l [].

Fixpoint last_opt {A} (l : list A) : option A :=
  match l with
  | [] => None
  | [x] => Some x
  | _ :: t => last_opt t
  end.

Definition tuple := (nat * nat)%type.

Section KWay.
  Variable srt : list item -> list item.

  (* one differencing step on the two largest rows; Panic 5: `e[e.len() - 1]` on an empty row *)
  Definition kk_merge (a b : row) : option (list tuple * row) :=
    let z := combine a (rev b) in
    let tuples := map (fun ab => (snd (fst ab), snd (snd ab))) z in
    let e := srt (map (fun ab => (fst (fst ab) + fst (snd ab), snd (fst ab))) z) in
    match last_opt e with
    | None => None
    | Some lst => Some (tuples, map (fun x => (fst x - fst lst, snd x)) e)
    end.

  Fixpoint kk_loop (fuel : nat) (m : list row) (opp : list (list tuple))
    : res (list row * list (list tuple)) :=
    match m with
    | a :: b :: t =>
      match fuel with
      | O => OutOfFuel
      | S f =>
        match kk_merge a b with
        | None => Panic 5
        | Some (tuples, e) => kk_loop f (insert_row e t) (tuples :: opp)
        end
      end
    | _ => Ok (m, opp)
    end.

  (* `for (i, w) in imbalance.into_iter().enumerate() { parts[w.1] = i }` *)
  Fixpoint kk_init_parts (i : nat) (r : row) (parts : list N) : res (list N) :=
    match r with
    | [] => Ok parts
    | (_, id) :: t =>
      if Nat.ltb id (length parts) then kk_init_parts (S i) t (set_nth parts id (N.of_nat i))
      else Panic 2
    end.
  (* `for (a, b) in tuples { parts[b] = parts[a] }` *)
  Fixpoint kk_apply (ts : list tuple) (parts : list N) : res (list N) :=
    match ts with
    | [] => Ok parts
    | (a, b) :: t =>
      match nth_opt parts a with
      | None => Panic 2
      | Some pa => if Nat.ltb b (length parts) then kk_apply t (set_nth parts b pa) else Panic 2
      end
    end.
  Fixpoint kk_back (opp : list (list tuple)) (parts : list N) : res (list N) :=
    match opp with
    | [] => Ok parts
    | ts :: rest => bind (kk_apply ts parts) (kk_back rest)
    end.

  (* Panic 1: `m.pop().unwrap()`; Panic 6: `copy_from_slice` length mismatch *)
  Definition kk (ws : list Z) (k : nat) (p0 : list N) : res (list N) :=
    let n := length ws in
    match mk_rows n k (items_of ws) with
    | None => Panic 4
    | Some rows =>
      bind (kk_loop n (sort_rows_desc rows) []) (fun r =>
        match fst r with
        | [] => Panic 1
        | last :: _ =>
          bind (kk_init_parts 0 last (repeat 0%N (k * n))) (fun parts =>
          bind (kk_back (snd r) parts) (fun parts' =>
            let out := firstn (length p0) parts' in
            if Nat.eqb (length out) (length p0) then Ok out else Panic 6))
        end)
    end.

  (* `KarmarkarKarp::partition` *)
  Definition kk_partition (ws : list Z) (k : nat) (p0 : list N) : res (list N) :=
    if negb (Nat.eqb (length ws) (length p0)) then Err (InputLenMismatch (length p0) (length ws))
    else if Nat.ltb k 2 || Nat.ltb (length p0) 2 then Ok (map (fun _ => 0%N) p0)
    else if Nat.eqb k 2 then kk_bipart ws p0
    else kk ws k p0.
End KWay.

(* ---- specification ---- *)

(* what is left after repeatedly replacing the two largest numbers by their difference *)
Fixpoint residue_loop (fuel : nat) (l : list Z) : Z :=
  match l with
  | a :: b :: t =>
    match fuel with
    | O => 0
    | S f => residue_loop f (insertZ (a - b) t)
    end
  | [x] => x
  | [] => 0
  end.
Definition residue (ws : list Z) : Z := residue_loop (length ws) (sortZ_desc ws).

(* ---- checker ---- *)
Definition check_kk (ws : list Z) (k : nat) (p : list N) : bool :=
  Nat.eqb (length p) (length ws) && ids_below k p
  && (if Nat.eqb k 2 then Z.abs (load ws p 0 - load ws p 1) =? residue ws else true)
  && (gap (loads ws p k) <=? maxl ws).

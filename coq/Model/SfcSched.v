(* HilbertCurve with the rayon schedule as a parameter (DESIGN §3 "Rayon", C06).
   In `weighted_quantiles` the parallel constructs are the min / max of the
   indices (schedule independent: the true minimum / maximum of u64 values,
   Lib/Rayon.v par_min_indep) and, in every round, the per-part weight
   histogram
       points.par_iter().zip(weights).fold(|| vec![0; n], ..).reduce_with(vector add)
   which is modelled here over an explicit split tree (Lib/Rayon.v: [sched],
   [par_fold]); a run takes one tree per round.  `partition_indexed`'s index
   computation and id writes are point-wise.  Executable definitions only. *)
From Coupe Require Import Lib.Prelude Lib.SFloat Lib.Sorting Lib.Rayon Model.SfcPart.
From Coq Require Import Floats.SpecFloat.
Open Scope nat_scope.

(* `for (pw0, pw1) in pw0.iter_mut().zip(pw1) { *pw0 += pw1 }` *)
Definition vaddf (a b : list spec_float) : list spec_float :=
  map (fun xy => f64_add (fst xy) (snd xy)) (combine a b).

Definition red_pw (a b : res (list spec_float)) : res (list spec_float) :=
  bind a (fun x => bind b (fun y => Ok (vaddf x y))).

(* the sequential fold of one piece of `points.zip(weights)` *)
Definition pw_piece (positions : list N) (n : nat) (piece : list (N * spec_float)) : res (list spec_float) :=
  part_weights_of positions (map fst piece) (map snd piece) (repeat fzero n).

Definition part_weights_sched (t : sched) (positions : list N) (n : nat)
           (pts : list N) (ws : list spec_float) : res (list spec_float) :=
  par_fold (pw_piece positions n) red_pw t (combine pts ws).

Definition wq_round_s (t : sched) (tol : spec_float) (n : nat) (pts : list N) (ws : list spec_float) (ss : list split)
  : res (list split * nat) :=
  let positions := map s_pos ss in
  bind (part_weights_sched t positions n pts ws) (fun pws =>
    let total := fold_left f64_add pws fnegzero in
    update_splits tol n positions pws total 0 ss (prefix_sums fzero pws)).

(* [ts k] = the split tree rayon happens to use in the round that starts with k units of fuel left *)
Fixpoint wq_loop_s (ts : nat -> sched) (tol : spec_float) (fuel n : nat) (pts : list N) (ws : list spec_float)
         (ss : list split) (todo : nat) : res (list split) :=
  match todo with
  | O => Ok ss
  | _ =>
    match fuel with
    | O => OutOfFuel
    | S f =>
      bind (wq_round_s (ts f) tol n pts ws ss) (fun '(ss', settled_now) =>
        wq_loop_s ts tol f n pts ws ss' (todo - settled_now))
    end
  end.

Definition weighted_quantiles_s (ts : nat -> sched) (tol : spec_float) (fuel : nat) (pts : list N)
           (ws : list spec_float) (n : nat) : res (list N) :=
  match n with
  | O => Panic 22
  | _ =>
    match min_list pts, max_list pts with
    | Some mn, Some mx =>
      let ss := init_splits mn mx n in
      bind (wq_loop_s ts tol fuel n pts ws ss (length ss)) (fun ss' => Ok (map s_pos ss'))
    | _, _ => Panic 21
    end
  end.

Definition hilbert_partition_s (ts : nat -> sched) (tol : spec_float) (max_order order : N) (fuel : nat)
           (idx : list N) (ws : list spec_float) (k : nat) (p0 : list N) : res (list N) :=
  if (max_order <? order)%N then Err (InvalidOrder max_order order)
  else
    match p0 with
    | [] => Ok []
    | _ =>
      bind (weighted_quantiles_s ts tol fuel idx ws k) (fun splits =>
      bind (assign_parts splits idx) (fun ids => Ok (write_zip p0 ids)))
    end.

(* integer-valued non-negative weights whose total stays within the range where
   f64 represents every integer: every partial sum, in any association, is exact *)
Definition exact_sums (ws : list spec_float) : Prop :=
  exists zs : list Z, ws = map (fun z => f64_of_Z z) zs /\ Forall (fun z => (0 <= z)%Z) zs /\ (sumZ zs <= 2 ^ 53)%Z.

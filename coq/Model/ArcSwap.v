(* Model of src/algorithms/arc_swap.rs (ArcSwap, i64 vertex weights, i64 edge
   weights) as a small-step machine at the granularity of the shared-memory
   accesses, plus the specification vocabulary and the boolean checkers of C05.
   Executable definitions only; proofs are in Proofs/ArcSwap*.v.

   Vertices and part ids are [nat] (they are indices), weights are [Z]. *)
From Coupe Require Import Lib.Prelude Lib.SFloat.
From Coq Require Import Floats.SpecFloat.
Open Scope Z_scope.

(* ------------------------------------------------------------------ graph *)

(* row v = what `adjacency.neighbors(v)` yields, in that order: (neighbour, edge weight) *)
Definition graph := list (list (nat * Z)).
Definition row (g : graph) (v : nat) : list (nat * Z) := nth v g [].
Definition nbrs (g : graph) (v : nat) : list nat := map fst (row g v).

(* total weight of the edges v -> u in v's row *)
Definition wt (g : graph) (v u : nat) : Z :=
  sumZ (map (fun e => if Nat.eqb (fst e) u then snd e else 0) (row g v)).

Definition pid (p : list nat) (v : nat) : nat := nth v p O.

(* Topology::edge_cut (generic definition, src/topology/mod.rs): for every
   vertex, the edges to lower-numbered neighbours in another part *)
Definition cut_row (p : list nat) (v : nat) (r : list (nat * Z)) : Z :=
  sumZ (map (fun e => if Nat.ltb (fst e) v && negb (Nat.eqb (pid p (fst e)) (pid p v)) then snd e else 0) r).
Definition cut (g : graph) (p : list nat) : Z :=
  sumZ (map (fun v => cut_row p v (row g v)) (seq 0 (length g))).

(* weight of part q *)
Fixpoint load (vw : list Z) (p : list nat) (q : nat) : Z :=
  match vw, p with
  | w :: vw', x :: p' => (if Nat.eqb x q then w else 0) + load vw' p' q
  | _, _ => 0
  end.
Definition loads (vw : list Z) (p : list nat) (k : nat) : list Z := map (load vw p) (seq 0 k).

Fixpoint relabelled (p0 p : list nat) : Z :=
  match p0, p with
  | a :: p0', b :: p' => (if Nat.eqb a b then 0 else 1) + relabelled p0' p'
  | _, _ => 0
  end.

Definition list_max_nat (l : list nat) : nat := fold_right Nat.max O l.
Definition list_max_Z (d : Z) (l : list Z) : Z := fold_right Z.max d l.

(* `1 + max(part_ids)`, at least 2 (Partition::partition of ArcSwap) *)
Definition part_count (p0 : list nat) : nat := Nat.max 2 (S (list_max_nat p0)).

(* src/work_share.rs: (items per thread, thread count); total, max_threads >= 1 *)
Definition work_share (total max_threads : nat) : nat * nat :=
  let m := Nat.min total max_threads in
  let per := Nat.div (total + m - 1) m in
  (per, Nat.div (total + per - 1) per).

(* usage contract of the property: a symmetric graph over the vertices 0..n-1 *)
Definition symmetricb (g : graph) : bool :=
  forallb (fun v => forallb (fun u => wt g v u =? wt g u v) (seq 0 (length g))) (seq 0 (length g)).
Definition rows_in_range (g : graph) : bool :=
  forallb (fun r => forallb (fun e => Nat.ltb (fst e) (length g)) r) g.

(* ---- the cap: `max_part_weight` of arc_swap (W = i64) ---- *)

Definition in_i64 (z : Z) : bool := (- 2 ^ 63 <=? z) && (z <? 2 ^ 63).

(* W::from_f64(ideal + max_imbalance * ideal) with ideal = total as f64 / part_count as f64;
   None = the `unwrap` panics *)
Definition cap_of (mi : option spec_float) (lds : list Z) (k : nat) : option Z :=
  match mi with
  | None => match lds with [] => None | x :: t => Some (list_max_Z x t) end
  | Some m =>
    let ideal := f64_div (f64_of_Z (sumZ lds)) (f64_of_Z (Z.of_nat k)) in
    match trunc_Z (f64_add ideal (f64_mul m ideal)) with
    | Some z => if in_i64 z then Some z else None
    | None => None
    end
  end.

(* `W::from_f64((max - pw).to_f64().unwrap() / thread_count as f64).unwrap()` *)
Definition headroom_f64 (d : Z) (tc : nat) : option Z :=
  match trunc_Z (f64_div (f64_of_Z d) (f64_of_Z (Z.of_nat tc))) with
  | Some z => if in_i64 z then Some z else None
  | None => None
  end.
(* the same on exact integers: truncation toward zero *)
Definition headroom_quot (d : Z) (tc : nat) : option Z := Some (Z.quot d (Z.of_nat tc)).

(* ------------------------------------------------ recorded access events *)

(* kinds of src/verif.rs minus 10 *)
Inductive akind := KCas | KReadLock | KReadPart | KStorePart | KUnlock.
Record event := mkEv { e_task : nat; e_kind : akind; e_idx : nat; e_val : nat }.

(* the harness writes ((task*8 + kind-10)*256 + index)*256 + value *)
Definition decode_event (x : N) : option event :=
  let v := N.to_nat (x mod 256) in
  let i := N.to_nat ((x / 256) mod 256) in
  let k := ((x / 65536) mod 8)%N in
  let t := N.to_nat (x / 524288) in
  match k with
  | 0%N => Some (mkEv t KCas i v)
  | 1%N => Some (mkEv t KReadLock i v)
  | 2%N => Some (mkEv t KReadPart i v)
  | 3%N => Some (mkEv t KStorePart i v)
  | 4%N => Some (mkEv t KUnlock i v)
  | _ => None
  end.
Fixpoint decode_trace (l : list N) : option (list event) :=
  match l with
  | [] => Some []
  | x :: t =>
    match decode_event x, decode_trace t with
    | Some e, Some r => Some (e :: r)
    | _, _ => None
    end
  end.

(* ---- "two adjacent vertices are never moved concurrently", on a trace ----
   A task is CRITICAL on v from the moment it has acquired lock v and read all
   of v's neighbour locks as free, until it releases lock v.  The automaton
   below tracks this per task from the events alone (it does not use the
   machine) and rejects a trace in which two tasks are critical on equal or
   adjacent vertices, a part id is stored outside a critical section, or the
   lock events are not well-bracketed. *)
Inductive tst := TIdle | THold (v : nat) (cleared : nat) | TCrit (v : nat).

Definition adjacentb (g : graph) (v w : nat) : bool :=
  Nat.eqb v w || existsb (Nat.eqb w) (nbrs g v) || existsb (Nat.eqb v) (nbrs g w).

Definition crit_of (s : tst) : option nat := match s with TCrit v => Some v | _ => None end.

Definition tst_step (g : graph) (s : tst) (e : event) : option tst :=
  match e_kind e, s with
  | KCas, TIdle =>
      if Nat.eqb (e_val e) 1
      then Some (if Nat.eqb (length (row g (e_idx e))) 0 then TCrit (e_idx e) else THold (e_idx e) 0)
      else Some TIdle
  | KCas, _ => None
  | KReadLock, THold v c =>
      if Nat.eqb (e_val e) 0
      then Some (if Nat.eqb (S c) (length (row g v)) then TCrit v else THold v (S c))
      else Some (THold v c)
  | KReadLock, _ => None
  | KReadPart, _ => Some s
  | KStorePart, TCrit v => if Nat.eqb v (e_idx e) then Some s else None
  | KStorePart, _ => None
  | KUnlock, THold v _ => if Nat.eqb v (e_idx e) then Some TIdle else None
  | KUnlock, TCrit v => if Nat.eqb v (e_idx e) then Some TIdle else None
  | KUnlock, TIdle => None
  end.

Fixpoint no_conflict (g : graph) (v : nat) (t : nat) (i : nat) (ts : list tst) : bool :=
  match ts with
  | [] => true
  | s :: r =>
    (if Nat.eqb i t then true
     else match crit_of s with Some w => negb (adjacentb g v w) | None => true end)
    && no_conflict g v t (S i) r
  end.

Fixpoint trace_mutex (g : graph) (ts : list tst) (tr : list event) : bool :=
  match tr with
  | [] => true
  | e :: r =>
    match nth_opt ts (e_task e) with
    | None => false
    | Some s =>
      match tst_step g s e with
      | None => false
      | Some s' =>
        let ts' := set_nth ts (e_task e) s' in
        (match crit_of s' with Some v => no_conflict g v (e_task e) 0 ts' | None => true end)
        && trace_mutex g ts' r
      end
    end
  end.

(* -------------------------------------------- certified checker of C05 *)

(* the diagnostic counters the property mentions *)
Record outcome := mkOut { o_part : list nat; o_gain : Z; o_moves : Z }.

Definition check_valid (n k : nat) (p : list nat) : bool :=
  Nat.eqb (length p) n && forallb (fun x => Nat.ltb x k) p.
Definition check_accounting (g : graph) (p0 : list nat) (o : outcome) : bool :=
  (cut g p0 - cut g (o_part o) =? o_gain o) && (0 <=? o_gain o).
Definition check_caps (vw : list Z) (p0 : list nat) (k : nat) (cap : Z) (p : list nat) : bool :=
  forallb (fun q => load vw p q <=? Z.max (load vw p0 q) cap) (seq 0 k).
Definition check_moves (p0 : list nat) (o : outcome) : bool := relabelled p0 (o_part o) <=? o_moves o.

Definition check_C05 (g : graph) (vw : list Z) (p0 : list nat) (cap : Z) (tasks : nat)
    (tr : list event) (o : outcome) : bool :=
  check_valid (length p0) (part_count p0) (o_part o)
  && check_accounting g p0 o
  && check_caps vw p0 (part_count p0) cap (o_part o)
  && check_moves p0 o
  && trace_mutex g (repeat TIdle tasks) tr.

(* Model of src/algorithms/arc_swap.rs (ArcSwap, i64 vertex weights, i64 edge
   weights) as a small-step machine at the granularity of the shared-memory
   accesses, plus the specification vocabulary and the boolean checkers of C05.
   Executable definitions only; proofs are in Proofs/ArcSwap*.v.

   Vertices and part ids are [nat] (they are indices), weights are [Z]. *)
From Coupe Require Import Lib.Prelude Lib.SFloat.
From Coq Require Import Floats.SpecFloat.
Open Scope Z_scope.

(* ------------------------------------------------------------------ graph *)

(* row v = what `adjacency.neighbors(v)` yields, in that order: (neighbour, edge weight) *)
Definition graph := list (list (nat * Z)).
Definition row (g : graph) (v : nat) : list (nat * Z) := nth v g [].
Definition nbrs (g : graph) (v : nat) : list nat := map fst (row g v).

(* total weight of the edges v -> u in v's row *)
Definition wt (g : graph) (v u : nat) : Z :=
  sumZ (map (fun e => if Nat.eqb (fst e) u then snd e else 0) (row g v)).

Definition pid (p : list nat) (v : nat) : nat := nth v p O.

(* Topology::edge_cut (generic definition, src/topology/mod.rs): for every
   vertex, the edges to lower-numbered neighbours in another part *)
Definition cut_row (p : list nat) (v : nat) (r : list (nat * Z)) : Z :=
  sumZ (map (fun e => if Nat.ltb (fst e) v && negb (Nat.eqb (pid p (fst e)) (pid p v)) then snd e else 0) r).
Definition cut (g : graph) (p : list nat) : Z :=
  sumZ (map (fun v => cut_row p v (row g v)) (seq 0 (length g))).

(* weight of part q *)
Fixpoint load (vw : list Z) (p : list nat) (q : nat) : Z :=
  match vw, p with
  | w :: vw', x :: p' => (if Nat.eqb x q then w else 0) + load vw' p' q
  | _, _ => 0
  end.
Definition loads (vw : list Z) (p : list nat) (k : nat) : list Z := map (load vw p) (seq 0 k).

Fixpoint relabelled (p0 p : list nat) : Z :=
  match p0, p with
  | a :: p0', b :: p' => (if Nat.eqb a b then 0 else 1) + relabelled p0' p'
  | _, _ => 0
  end.

Definition list_max_nat (l : list nat) : nat := fold_right Nat.max O l.
Definition list_max_Z (d : Z) (l : list Z) : Z := fold_right Z.max d l.

(* `1 + max(part_ids)`, at least 2 (Partition::partition of ArcSwap) *)
Definition part_count (p0 : list nat) : nat := Nat.max 2 (S (list_max_nat p0)).

(* src/work_share.rs: (items per thread, thread count); total, max_threads >= 1 *)
Definition work_share (total max_threads : nat) : nat * nat :=
  let m := Nat.min total max_threads in
  let per := Nat.div (total + m - 1) m in
  (per, Nat.div (total + per - 1) per).

(* usage contract of the property: a symmetric graph over the vertices 0..n-1 *)
Definition symmetricb (g : graph) : bool :=
  forallb (fun v => forallb (fun u => wt g v u =? wt g u v) (seq 0 (length g))) (seq 0 (length g)).
Definition rows_in_range (g : graph) : bool :=
  forallb (fun r => forallb (fun e => Nat.ltb (fst e) (length g)) r) g.

Definition nbrs_symb (g : graph) : bool :=
  forallb (fun v => forallb (fun u => existsb (Nat.eqb v) (nbrs g u)) (nbrs g v)) (seq 0 (length g)).
(* decides [graph_ok] below *)
Definition graph_okb (g : graph) : bool := nbrs_symb g && symmetricb g && rows_in_range g.

(* ---- the cap: `max_part_weight` of arc_swap (W = i64) ---- *)

Definition in_i64 (z : Z) : bool := (- 2 ^ 63 <=? z) && (z <? 2 ^ 63).

(* W::from_f64(ideal + max_imbalance * ideal) with ideal = total as f64 / part_count as f64;
   None = the `unwrap` panics *)
Definition cap_of (mi : option spec_float) (lds : list Z) (k : nat) : option Z :=
  match mi with
  | None => match lds with [] => None | x :: t => Some (list_max_Z x t) end
  | Some m =>
    let ideal := f64_div (f64_of_Z (sumZ lds)) (f64_of_Z (Z.of_nat k)) in
    match trunc_Z (f64_add ideal (f64_mul m ideal)) with
    | Some z => if in_i64 z then Some z else None
    | None => None
    end
  end.

(* `W::from_f64((max - pw).to_f64().unwrap() / thread_count as f64).unwrap()` *)
Definition headroom_f64 (d : Z) (tc : nat) : option Z :=
  match trunc_Z (f64_div (f64_of_Z d) (f64_of_Z (Z.of_nat tc))) with
  | Some z => if in_i64 z then Some z else None
  | None => None
  end.
(* the same on exact integers: truncation toward zero *)
Definition headroom_quot (d : Z) (tc : nat) : option Z := Some (Z.quot d (Z.of_nat tc)).

(* The same expression for an UNSIGNED weight type (W = u64), where `max_part_weight - pw`
   is computed in the weight type before the conversion: a debug build panics when the part is
   above the cap, a release build wraps around (known finding, see docs/C05.md). *)
Definition headroom_u64_debug (d : Z) (tc : nat) : option Z :=
  if d <? 0 then None else headroom_f64 d tc.
Definition headroom_u64_release (d : Z) (tc : nat) : option Z :=
  match trunc_Z (f64_div (f64_of_Z (d mod 2 ^ 64)) (f64_of_Z (Z.of_nat tc))) with
  | Some z => if (0 <=? z) && (z <? 2 ^ 64) then Some z else None
  | None => None
  end.

(* ------------------------------------------------ recorded access events *)

(* kinds of src/verif.rs minus 10 *)
Inductive akind := KCas | KReadLock | KReadPart | KStorePart | KUnlock.
Record event := mkEv { e_task : nat; e_kind : akind; e_idx : nat; e_val : nat }.

(* the harness writes ((task*8 + kind-10)*256 + index)*256 + value *)
Definition decode_event (x : N) : option event :=
  let v := N.to_nat (x mod 256) in
  let i := N.to_nat ((x / 256) mod 256) in
  let k := ((x / 65536) mod 8)%N in
  let t := N.to_nat (x / 524288) in
  match k with
  | 0%N => Some (mkEv t KCas i v)
  | 1%N => Some (mkEv t KReadLock i v)
  | 2%N => Some (mkEv t KReadPart i v)
  | 3%N => Some (mkEv t KStorePart i v)
  | 4%N => Some (mkEv t KUnlock i v)
  | _ => None
  end.
Fixpoint decode_trace (l : list N) : option (list event) :=
  match l with
  | [] => Some []
  | x :: t =>
    match decode_event x, decode_trace t with
    | Some e, Some r => Some (e :: r)
    | _, _ => None
    end
  end.

(* ---- "two adjacent vertices are never moved concurrently", on a trace ----
   A task is CRITICAL on v from the moment it has acquired lock v and read all
   of v's neighbour locks as free, until it releases lock v.  A MOVE WINDOW is
   a critical section that contains a store of a part id (positions of the
   trace: [start, release]); a store made outside any critical section is a
   window of one position.  The checker extracts the move windows from the
   events alone (it does not use the machine) and rejects a trace in which the
   windows of two equal or adjacent vertices overlap.  Lock events that are not
   well-bracketed end the extraction (that is a correspondence failure, not a
   statement about moves). *)
Inductive tst := TIdle | THold (v : nat) (cleared : nat) | TCrit (v : nat) (start : nat) (stored : bool).

Definition adjacentb (g : graph) (v w : nat) : bool :=
  Nat.eqb v w || existsb (Nat.eqb w) (nbrs g v) || existsb (Nat.eqb v) (nbrs g w).

Record window := mkWin { wi_task : nat; wi_v : nat; wi_start : nat; wi_end : nat }.

(* new state of the task, and the window the event closes (if any); None = not well-bracketed *)
Definition tst_step (g : graph) (i : nat) (s : tst) (e : event) : option (tst * option window) :=
  let t := e_task e in
  match e_kind e, s with
  | KCas, TIdle =>
      if Nat.eqb (e_val e) 1
      then Some (if Nat.eqb (length (row g (e_idx e))) 0 then TCrit (e_idx e) i false else THold (e_idx e) 0, None)
      else Some (TIdle, None)
  | KCas, _ => None
  | KReadLock, THold v c =>
      if Nat.eqb (e_val e) 0
      then Some (if Nat.eqb (S c) (length (row g v)) then TCrit v i false else THold v (S c), None)
      else Some (THold v c, None)
  | KReadLock, _ => None
  | KReadPart, _ => Some (s, None)
  | KStorePart, TCrit v st _ =>
      if Nat.eqb v (e_idx e) then Some (TCrit v st true, None) else Some (s, Some (mkWin t (e_idx e) i i))
  | KStorePart, _ => Some (s, Some (mkWin t (e_idx e) i i))
  | KUnlock, THold v _ => if Nat.eqb v (e_idx e) then Some (TIdle, None) else None
  | KUnlock, TCrit v st stored =>
      if Nat.eqb v (e_idx e) then Some (TIdle, if stored then Some (mkWin t v st i) else None) else None
  | KUnlock, TIdle => None
  end.

Fixpoint windows_of (g : graph) (i : nat) (ts : list tst) (tr : list event) : list window :=
  match tr with
  | [] => []
  | e :: r =>
    match nth_opt ts (e_task e) with
    | None => []
    | Some s =>
      match tst_step g i s e with
      | None => []
      | Some (s', w) =>
        let rest := windows_of g (S i) (set_nth ts (e_task e) s') r in
        match w with Some x => x :: rest | None => rest end
      end
    end
  end.

Definition win_disjoint (g : graph) (a b : window) : bool :=
  negb (adjacentb g (wi_v a) (wi_v b)) || Nat.ltb (wi_end a) (wi_start b) || Nat.ltb (wi_end b) (wi_start a).
Fixpoint windows_ok (g : graph) (ws : list window) : bool :=
  match ws with
  | [] => true
  | a :: r => forallb (win_disjoint g a) r && windows_ok g r
  end.

Definition trace_mutex (g : graph) (ts : list tst) (tr : list event) : bool :=
  windows_ok g (windows_of g 0 ts tr).

(* -------------------------------------------- certified checker of C05 *)

(* the diagnostic counters the property mentions *)
Record outcome := mkOut { o_part : list nat; o_gain : Z; o_moves : Z }.

Definition check_valid (n k : nat) (p : list nat) : bool :=
  Nat.eqb (length p) n && forallb (fun x => Nat.ltb x k) p.
Definition check_accounting (g : graph) (p0 : list nat) (o : outcome) : bool :=
  (cut g p0 - cut g (o_part o) =? o_gain o) && (0 <=? o_gain o).
Definition check_caps (vw : list Z) (p0 : list nat) (k : nat) (cap : Z) (p : list nat) : bool :=
  forallb (fun q => load vw p q <=? Z.max (load vw p0 q) cap) (seq 0 k).
Definition check_moves (p0 : list nat) (o : outcome) : bool := relabelled p0 (o_part o) <=? o_moves o.

Definition check_C05 (g : graph) (vw : list Z) (p0 : list nat) (cap : Z) (tasks : nat)
    (tr : list event) (o : outcome) : bool :=
  check_valid (length p0) (part_count p0) (o_part o)
  && check_accounting g p0 o
  && check_caps vw p0 (part_count p0) cap (o_part o)
  && check_moves p0 o
  && trace_mutex g (repeat TIdle tasks) tr.

(* ====================================================================== *)
(* The machine.  One [step] = one shared-memory access of one worker plus  *)
(* the thread-local computation that follows it up to the next access.     *)
(* [None] stands for a Rust panic (index out of bounds, `unwrap` on None). *)
(* ====================================================================== *)

(* what does not change during a run *)
Record config := mkCfg {
  cf_g : graph;
  cf_vw : list Z;                  (* vertex weights *)
  cf_k : nat;                      (* part_count *)
  cf_ipt : nat;                    (* items_per_thread *)
  cf_tc : nat;                     (* thread_count = number of chunks of a pass *)
  cf_cap : Z;                      (* max_part_weight *)
  cf_hr : Z -> nat -> option Z     (* the per-thread share of a headroom: [headroom_f64] in the runs *)
}.

Record metadata := mkMd {
  md_gain : Z; md_pass : Z; md_attempts : Z; md_moves : Z;
  md_races : Z; md_locked : Z; md_nogain : Z; md_badbal : Z
}.
Definition md_zero := mkMd 0 0 0 0 0 0 0 0.
Definition md_merge (a b : metadata) : metadata :=
  mkMd (md_gain a + md_gain b) (md_pass a + md_pass b) (md_attempts a + md_attempts b)
       (md_moves a + md_moves b) (md_races a + md_races b) (md_locked a + md_locked b)
       (md_nogain a + md_nogain b) (md_badbal a + md_badbal b).
Definition md_attempt (m : metadata) := mkMd (md_gain m) (md_pass m) (md_attempts m + 1) (md_moves m) (md_races m) (md_locked m) (md_nogain m) (md_badbal m).
Definition md_move (g : Z) (m : metadata) := mkMd (md_gain m + g) (md_pass m) (md_attempts m) (md_moves m + 1) (md_races m) (md_locked m) (md_nogain m) (md_badbal m).
Definition md_race (m : metadata) := mkMd (md_gain m) (md_pass m) (md_attempts m) (md_moves m) (md_races m + 1) (md_locked m) (md_nogain m) (md_badbal m).
Definition md_lock (m : metadata) := mkMd (md_gain m) (md_pass m) (md_attempts m) (md_moves m) (md_races m) (md_locked m + 1) (md_nogain m) (md_badbal m).
Definition md_no_gain (m : metadata) := mkMd (md_gain m) (md_pass m) (md_attempts m) (md_moves m) (md_races m) (md_locked m) (md_nogain m + 1) (md_badbal m).
Definition md_bad_bal (m : metadata) := mkMd (md_gain m) (md_pass m) (md_attempts m) (md_moves m) (md_races m) (md_locked m) (md_nogain m) (md_badbal m + 1).
Definition md_passes (m : metadata) := mkMd (md_gain m) (md_pass m + 1) (md_attempts m) (md_moves m) (md_races m) (md_locked m) (md_nogain m) (md_badbal m).

(* why the lock guard is being dropped *)
Inductive ureason := URaced | UNoMove | UMoved.

(* Program counter = the NEXT shared access of the worker, with the local
   variables that are live across it.  [todo] lists are the not-yet-visited
   suffix of an adjacency row, head = the entry whose vertex is accessed next.
   [tg]/[rest] = the target part being evaluated / the later ones. *)
Inductive pc :=
| PScanOwn                                         (* `initial_part.load` of the chunk's vertex [w_cur] *)
| PScanNbr (ip : nat) (todo : list (nat * Z))      (* on_cut: `partition[neighbor].load` *)
| PCas (v : nat)                                   (* `locks[vertex].compare_exchange` *)
| PChk (v : nat) (todo : list (nat * Z))           (* raced: `locks[neighbor].load` *)
| POwn (v : nat)                                   (* `partition[vertex].load` *)
| PGain (v ip tg : nat) (rest : list nat) (acc : Z) (todo : list (nat * Z)) (best : option (nat * Z))
| PStore (v ip tg : nat) (gn : Z)                  (* `partition[vertex].store(target_part)` *)
| PUnlock (v : nat) (r : ureason)                  (* `_lock_guard` dropped: `locks[vertex].store(false)` *)
| PReNbr (v : nat) (todo : list (nat * Z))         (* `neighbor_part = partition[neighbor].load` *)
| PReGain (v : nat) (todo : list (nat * Z)) (nb np tg : nat) (rest : list nat) (acc : Z)
          (todo2 : list (nat * Z)) (best : option Z)
| PDone.

Record worker := mkW {
  w_pc : pc;
  w_cur : nat;                 (* the chunk's vertex being handled by the `for` loop *)
  w_end : nat;                 (* end of the chunk (exclusive) *)
  w_cut : list nat;            (* the `cut` stack, head = what `pop()` returns *)
  w_pw : list Z;               (* thread-local `part_weights` *)
  w_md : metadata
}.
Definition set_pc (w : worker) (p : pc) := mkW p (w_cur w) (w_end w) (w_cut w) (w_pw w) (w_md w).
Definition set_md (w : worker) (m : metadata) := mkW (w_pc w) (w_cur w) (w_end w) (w_cut w) (w_pw w) m.
Definition set_cut (w : worker) (c : list nat) := mkW (w_pc w) (w_cur w) (w_end w) c (w_pw w) (w_md w).

(* targets `(0..part_count).filter(|t| *t != initial_part)` *)
Definition targets (k ip : nat) : list nat := filter (fun t => negb (Nat.eqb t ip)) (seq 0 k).

(* one term of the gain sums *)
Definition gain_term (ip tg pu : nat) (ew : Z) : Z :=
  if Nat.eqb pu ip then - ew else if Nat.eqb pu tg then ew else 0.

(* `max_by(i64::cmp)` keeps the LAST maximum *)
Definition upd_best (best : option (nat * Z)) (tg : nat) (gn : Z) : nat * Z :=
  match best with
  | None => (tg, gn)
  | Some (bt, bg) => if bg <=? gn then (tg, gn) else (bt, bg)
  end.
Definition upd_max (best : option Z) (gn : Z) : Z :=
  match best with None => gn | Some b => Z.max b gn end.

(* next iteration of the chunk's `for` loop *)
Definition scan_next (w : worker) : worker :=
  let c := S (w_cur w) in
  mkW (if Nat.ltb c (w_end w) then PScanOwn else PDone) c (w_end w) (w_cut w) (w_pw w) (w_md w).

(* head of `make_move`'s loop: pop a vertex or return false to the `for` loop *)
Definition enter_make_move (w : worker) : worker :=
  match w_cut w with
  | [] => scan_next w
  | v :: rest => mkW (PCas v) (w_cur w) (w_end w) rest (w_pw w) (md_attempt (w_md w))
  end.

(* the post-move loop over the moved vertex's neighbours *)
Definition re_start (w : worker) (v : nat) (todo : list (nat * Z)) : worker :=
  match todo with
  | [] => enter_make_move w          (* make_move returned true: the `while` calls it again *)
  | _ => set_pc w (PReNbr v todo)
  end.

(* The arithmetic of the vertex-weight type W of arc_swap.  Weights are carried as [Z]: the value
   itself for W = i64 ([wops_Z], the instance every statement without an explicit instance is
   about), the IEEE bit pattern for W = f64 ([wops_f64] in Model/ArcSwapF64.v).  Only the balance
   test, the thread-local weight updates, thread_max and the merge use it. *)
Class wops := mkWops {
  w_add : Z -> Z -> Z;
  w_sub : Z -> Z -> Z;
  w_ltb : Z -> Z -> bool;          (* a < b *)
  w_zero : Z;
  w_scale : Z -> Z -> Z            (* W::from_usize(n).unwrap() * x *)
}.
#[global] Instance wops_Z : wops := mkWops Z.add Z.sub Z.ltb 0 Z.mul.

(* compute_parts_load in the weight type (for exact sums the order of the additions is irrelevant) *)
Fixpoint wload {W : wops} (vw : list Z) (p : list nat) (q : nat) : Z :=
  match vw, p with
  | w :: vw', x :: p' => w_add (if Nat.eqb x q then w else w_zero) (wload vw' p' q)
  | _, _ => w_zero
  end.
Definition wloads {W : wops} (vw : list Z) (p : list nat) (k : nat) : list Z := map (wload vw p) (seq 0 k).

(* all targets evaluated: gain / balance tests of make_move *)
Definition decide {W : wops} (cf : config) (tmax : list Z) (w : worker) (v ip : nat) (b : nat * Z) : option worker :=
  let '(bt, bg) := b in
  if bg <=? 0 then Some (set_pc (set_md w (md_no_gain (w_md w))) (PUnlock v UNoMove))
  else
    match nth_opt (cf_vw cf) v, nth_opt (w_pw w) bt, nth_opt tmax bt with
    | Some wv, Some pwt, Some mx =>
        if w_ltb mx (w_add wv pwt) then Some (set_pc (set_md w (md_bad_bal (w_md w))) (PUnlock v UNoMove))
        else Some (set_pc w (PStore v ip bt bg))
    | _, _, _ => None
    end.

Definition b2n (b : bool) : nat := if b then 1%nat else 0%nat.

(* one access of worker [w] on the shared [locks] and [part] *)
Definition wstep {W : wops} (cf : config) (tmax : list Z) (locks : list bool) (part : list nat) (w : worker)
  : option (list bool * list nat * worker) :=
  let g := cf_g cf in
  match w_pc w with
  | PScanOwn =>
      match nth_opt part (w_cur w) with
      | None => None
      | Some ip =>
        match row g (w_cur w) with
        | [] => Some (locks, part, scan_next w)
        | r => Some (locks, part, set_pc w (PScanNbr ip r))
        end
      end
  | PScanNbr ip [] => None
  | PScanNbr ip ((u, _) :: todo) =>
      match nth_opt part u with
      | None => None
      | Some pu =>
        if negb (Nat.eqb pu ip) then Some (locks, part, enter_make_move (set_cut w (w_cur w :: w_cut w)))
        else match todo with
             | [] => Some (locks, part, scan_next w)
             | _ => Some (locks, part, set_pc w (PScanNbr ip todo))
             end
      end
  | PCas v =>
      match nth_opt locks v with
      | None => None
      | Some true => Some (locks, part, enter_make_move (set_md w (md_lock (w_md w))))
      | Some false =>
        Some (set_nth locks v true, part,
              set_pc w (match row g v with [] => POwn v | r => PChk v r end))
      end
  | PChk v [] => None
  | PChk v ((u, _) :: todo) =>
      match nth_opt locks u with
      | None => None
      | Some true => Some (locks, part, set_pc (set_md w (md_race (w_md w))) (PUnlock v URaced))
      | Some false => Some (locks, part, set_pc w (match todo with [] => POwn v | _ => PChk v todo end))
      end
  | POwn v =>
      match nth_opt part v with
      | None => None
      | Some ip =>
        match targets (cf_k cf) ip with
        | [] => None                                     (* `.max_by(..).unwrap()` on an empty iterator *)
        | tg :: rest =>
          match row g v with
          | [] => Some (locks, part, set_pc (set_md w (md_no_gain (w_md w))) (PUnlock v UNoMove))
          | r => Some (locks, part, set_pc w (PGain v ip tg rest 0 r None))
          end
        end
      end
  | PGain v ip tg rest acc [] best => None
  | PGain v ip tg rest acc ((u, ew) :: todo) best =>
      match nth_opt part u with
      | None => None
      | Some pu =>
        let acc' := acc + gain_term ip tg pu ew in
        match todo with
        | _ :: _ => Some (locks, part, set_pc w (PGain v ip tg rest acc' todo best))
        | [] =>
          let b := upd_best best tg acc' in
          match rest with
          | tg' :: rest' => Some (locks, part, set_pc w (PGain v ip tg' rest' 0 (row g v) (Some b)))
          | [] => match decide cf tmax w v ip b with
                  | Some w' => Some (locks, part, w')
                  | None => None
                  end
          end
        end
      end
  | PStore v ip tg gn =>
      match nth_opt (cf_vw cf) v, nth_opt (w_pw w) ip, nth_opt (w_pw w) tg with
      | Some wv, Some a, Some _ =>
        if Nat.ltb v (length part) then
          let pw1 := set_nth (w_pw w) ip (w_sub a wv) in
          match nth_opt pw1 tg with
          | Some b =>
            let pw2 := set_nth pw1 tg (w_add b wv) in
            Some (locks, set_nth part v tg,
                  mkW (PUnlock v UMoved) (w_cur w) (w_end w) (w_cut w) pw2 (md_move gn (w_md w)))
          | None => None
          end
        else None
      | _, _, _ => None
      end
  | PUnlock v r =>
      if Nat.ltb v (length locks) then
        Some (set_nth locks v false, part,
              match r with
              | UMoved => re_start w v (row g v)
              | _ => enter_make_move w
              end)
      else None
  | PReNbr v [] => None
  | PReNbr v ((nb, _) :: todo) =>
      match nth_opt part nb with
      | None => None
      | Some np =>
        match targets (cf_k cf) np with
        | [] => None
        | tg :: rest =>
          match row g nb with
          | [] => Some (locks, part, re_start w v todo)          (* gain 0: not pushed *)
          | r2 => Some (locks, part, set_pc w (PReGain v todo nb np tg rest 0 r2 None))
          end
        end
      end
  | PReGain v todo nb np tg rest acc [] best => None
  | PReGain v todo nb np tg rest acc ((u, ew) :: todo2) best =>
      match nth_opt part u with
      | None => None
      | Some pu =>
        let acc' := acc + gain_term np tg pu ew in
        match todo2 with
        | _ :: _ => Some (locks, part, set_pc w (PReGain v todo nb np tg rest acc' todo2 best))
        | [] =>
          let b := upd_max best acc' in
          match rest with
          | tg' :: rest' => Some (locks, part, set_pc w (PReGain v todo nb np tg' rest' 0 (row g nb) (Some b)))
          | [] =>
            let w1 := if 0 <? b then set_cut w (nb :: w_cut w) else w in
            Some (locks, part, re_start w1 v todo)
          end
        end
      end
  | PDone => None
  end.

(* ------------------------------------------------------ global machine *)

Record gstate := mkG {
  g_locks : list bool;
  g_part : list nat;
  g_ws : list worker;
  g_pw : list Z;               (* `part_weights` at the start of the current pass *)
  g_tmax : list Z;             (* `thread_max_pws` of the current pass *)
  g_md : metadata;             (* merged metadata of the completed passes (+ pass_count) *)
  g_fin : bool                 (* the outer loop has exited *)
}.

Definition n_of (cf : config) : nat := length (cf_g cf).

(* the worker of chunk [i] at the start of a pass *)
Definition init_worker (cf : config) (pw : list Z) (i : nat) : worker :=
  mkW PScanOwn (cf_ipt cf * i) (Nat.min (cf_ipt cf * S i) (n_of cf)) [] pw md_zero.
Definition init_workers (cf : config) (pw : list Z) : list worker :=
  map (init_worker cf pw) (seq 0 (cf_tc cf)).

(* thread_max_pws: pw + from_f64((max_part_weight - pw) / thread_count) *)
Fixpoint thread_max {W : wops} (cf : config) (pw : list Z) : option (list Z) :=
  match pw with
  | [] => Some []
  | x :: t =>
    match cf_hr cf (w_sub (cf_cap cf) x) (cf_tc cf), thread_max cf t with
    | Some h, Some r => Some (w_add x h :: r)
    | _, _ => None
    end
  end.

Definition all_done (ws : list worker) : bool :=
  forallb (fun w => match w_pc w with PDone => true | _ => false end) ws.

(* reduce: element-wise sum of the thread-local part weights, from a zero vector *)
Fixpoint vec_add {W : wops} (a b : list Z) : list Z :=
  match a, b with x :: a', y :: b' => w_add x y :: vec_add a' b' | _, _ => [] end.
Definition pw_sum {W : wops} (k : nat) (ws : list worker) : list Z :=
  fold_right (fun w acc => vec_add acc (w_pw w)) (repeat w_zero k) ws.
(* PW <- (sum_i tPW_i) - (thread_count - 1) * PW *)
Fixpoint pw_merge {W : wops} (tc : nat) (sum pw : list Z) : list Z :=
  match sum, pw with
  | s :: sum', x :: pw' => w_sub s (w_scale (Z.of_nat tc - 1) x) :: pw_merge tc sum' pw'
  | _, _ => []
  end.

(* end of a pass: merge, then either leave the outer loop or start the next pass *)
Definition end_pass {W : wops} (cf : config) (st : gstate) : option gstate :=
  let pmd := fold_right (fun w acc => md_merge acc (w_md w)) md_zero (g_ws st) in
  let pw' := pw_merge (cf_tc cf) (pw_sum (cf_k cf) (g_ws st)) (g_pw st) in
  let md' := md_merge (g_md st) pmd in
  if md_gain pmd =? 0 then
    Some (mkG (g_locks st) (g_part st) [] pw' (g_tmax st) md' true)   (* no worker is left *)
  else
    match thread_max cf pw' with
    | None => None
    | Some tm => Some (mkG (g_locks st) (g_part st) (init_workers cf pw') pw' tm (md_passes md') false)
    end.

Definition step {W : wops} (cf : config) (st : gstate) (tid : nat) : option gstate :=
  if g_fin st then None
  else
    match nth_opt (g_ws st) tid with
    | None => None
    | Some w =>
      match wstep cf (g_tmax st) (g_locks st) (g_part st) w with
      | None => None
      | Some (locks', part', w') =>
        let st' := mkG locks' part' (set_nth (g_ws st) tid w') (g_pw st) (g_tmax st) (g_md st) false in
        if all_done (g_ws st') then end_pass cf st' else Some st'
      end
    end.

(* a schedule = the sequence of workers chosen by the scheduler *)
Fixpoint run {W : wops} (cf : config) (st : gstate) (sch : list nat) : option gstate :=
  match sch with
  | [] => Some st
  | t :: r => match step cf st t with Some st' => run cf st' r | None => None end
  end.

(* arc_swap's prologue for the initial partition [p0] *)
Definition init_state {W : wops} (cf : config) (p0 : list nat) : option gstate :=
  let pw := wloads (cf_vw cf) p0 (cf_k cf) in
  match thread_max cf pw with
  | None => None
  | Some tm =>
    Some (mkG (repeat false (length p0)) p0 (init_workers cf pw) pw tm (md_passes md_zero) false)
  end.

(* the configuration arc_swap derives from its arguments and the pool size [T] *)
Definition config_of (hr : Z -> nat -> option Z) (g : graph) (vw : list Z) (p0 : list nat) (T : nat) (cap : Z) : config :=
  let '(ipt, tc) := work_share (length p0) T in
  mkCfg g vw (part_count p0) ipt tc cap hr.

(* --------------------------------------------- replay of a recorded trace *)

(* the access worker [w] performs next, and the value it reads / writes *)
Definition next_access (locks : list bool) (part : list nat) (w : worker) : option (akind * nat * nat) :=
  let rd u := match nth_opt part u with Some x => Some (KReadPart, u, x) | None => None end in
  match w_pc w with
  | PScanOwn => rd (w_cur w)
  | PScanNbr _ ((u, _) :: _) => rd u
  | PCas v => match nth_opt locks v with Some b => Some (KCas, v, b2n (negb b)) | None => None end
  | PChk _ ((u, _) :: _) => match nth_opt locks u with Some b => Some (KReadLock, u, b2n b) | None => None end
  | POwn v => rd v
  | PGain _ _ _ _ _ ((u, _) :: _) _ => rd u
  | PStore v _ tg _ => Some (KStorePart, v, tg)
  | PUnlock v _ => Some (KUnlock, v, O)
  | PReNbr _ ((nb, _) :: _) => rd nb
  | PReGain _ _ _ _ _ _ _ ((u, _) :: _) _ => rd u
  | _ => None
  end.

Definition akind_eqb (a b : akind) : bool :=
  match a, b with
  | KCas, KCas | KReadLock, KReadLock | KReadPart, KReadPart | KStorePart, KStorePart | KUnlock, KUnlock => true
  | _, _ => false
  end.

(* every recorded event must be the enabled next access of its task, with the same value *)
Fixpoint replay {W : wops} (cf : config) (st : gstate) (tr : list event) : option gstate :=
  match tr with
  | [] => Some st
  | e :: r =>
    match nth_opt (g_ws st) (e_task e) with
    | None => None
    | Some w =>
      match next_access (g_locks st) (g_part st) w with
      | Some (k, i, v) =>
        if akind_eqb k (e_kind e) && Nat.eqb i (e_idx e) && Nat.eqb v (e_val e) then
          match step cf st (e_task e) with
          | Some st' => replay cf st' r
          | None => None
          end
        else None
      | None => None
      end
    end
  end.

Definition md_list (m : metadata) : list Z :=
  [md_gain m; md_pass m; md_attempts m; md_moves m; md_races m; md_locked m; md_nogain m; md_badbal m].

(* ------------------------------------------ vocabulary of the C05 theorems *)

(* the f64 share, accepted only where it is the exact integer quotient (else: panic-like [None],
   which makes the replay of a run fail): the runs use this function, so that the run-time
   arithmetic is IEEE and the theorems' premise on the share is proved rather than assumed *)
Definition headroom_checked (d : Z) (tc : nat) : option Z :=
  match headroom_f64 d tc with
  | Some a => if a =? Z.quot d (Z.of_nat tc) then Some a else None
  | None => None
  end.

(* the per-thread share of arc_swap for W = i64, by the form of the source (Gen/ArcSwapGen.v:
   arcswap_share_in_W): divided in W = the exact truncating quotient, or through f64 *)
Definition share_i64 (in_W : bool) : Z -> nat -> option Z := if in_W then headroom_quot else headroom_f64.
(* what the runs use: the f64 form only where it is the exact quotient (cross-check) *)
Definition share_i64_run (in_W : bool) : Z -> nat -> option Z := if in_W then headroom_quot else headroom_checked.

(* never more than a 1/tc share of a headroom, never a positive share of a negative one *)
Definition hr_ok (cf : config) : Prop :=
  forall d h, cf_hr cf d (cf_tc cf) = Some h ->
    (0 <= d -> 0 <= h /\ Z.of_nat (cf_tc cf) * h <= d) /\ (d <= 0 -> h <= 0).

(* the same, asked only of the operands that arise (cap minus the load of a part, loads being
   between 0 and the total weight), and up to a total over-allocation of [slack] per part *)
Definition hr_ok_on (cf : config) (slack : Z) : Prop :=
  forall d h, cf_cap cf - sumZ (cf_vw cf) <= d <= cf_cap cf -> cf_hr cf d (cf_tc cf) = Some h ->
    (0 <= d -> 0 <= h /\ Z.of_nat (cf_tc cf) * h <= d + slack) /\ (d <= 0 -> h <= 0).

(* an undirected weighted multigraph on the vertices 0..n-1 *)
Record graph_ok (g : graph) : Prop := {
  go_nbrs : forall v u, In u (nbrs g v) -> In v (nbrs g u);
  go_wt : forall a b, wt g a b = wt g b a;
  go_range : forall a u, In u (nbrs g a) -> (u < length g)%nat
}.

(* the worker holds lock v and has read every neighbour lock of v as free
   (it is evaluating, applying or has just applied a move of v) *)
Definition critical_on (p : pc) : option nat :=
  match p with
  | POwn v => Some v
  | PGain v _ _ _ _ _ _ => Some v
  | PStore v _ _ _ => Some v
  | PUnlock v URaced => None
  | PUnlock v _ => Some v
  | _ => None
  end.

Definition adjacent (g : graph) (v u : nat) : Prop := v = u \/ In u (nbrs g v) \/ In v (nbrs g u).

Definition no_adjacent_critical (g : graph) (st : gstate) : Prop :=
  forall t t' w w' v u, t <> t' ->
    nth_opt (g_ws st) t = Some w -> nth_opt (g_ws st) t' = Some w' ->
    critical_on (w_pc w) = Some v -> critical_on (w_pc w') = Some u -> ~ adjacent g v u.

(* what the Metadata will report: completed passes + the running workers *)
Definition total_gain (st : gstate) : Z := md_gain (g_md st) + sumZ (map (fun w => md_gain (w_md w)) (g_ws st)).
Definition total_moves (st : gstate) : Z := md_moves (g_md st) + sumZ (map (fun w => md_moves (w_md w)) (g_ws st)).

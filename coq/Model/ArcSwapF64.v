(* ArcSwap with W = f64 vertex weights: the instance [wops_f64] of the weight arithmetic of
   Model/ArcSwap.v.  A weight is carried as the IEEE bit pattern (a [Z]) of a binary64 value and
   every operation of the code on weights is the SpecFloat operation on the decoded values:
   `weight + part_weights[t]`, `part_weights[p] -= weight`, `max_part_weights[t] < ...`,
   `*pw + W::from_f64((max_part_weight - *pw).to_f64().unwrap() / thread_count as f64).unwrap()`
   (for W = f64 the two conversions are the identity: the share is NOT truncated),
   `pw_sum - W::from_usize(thread_count - 1).unwrap() * *pw`, and the cap.
   Edge weights, gains and the edge cut stay i64 whatever W is. *)
From Coupe Require Import Lib.Prelude Lib.SFloat Model.ArcSwap.
From Coq Require Import Floats.SpecFloat.
Open Scope Z_scope.

Definition fz (z : Z) : spec_float := f64_of_bits (Z.to_N z).
Definition zf (x : spec_float) : Z := Z.of_N (f64_to_bits x).

Definition wops_f64 : wops :=
  mkWops (fun a b => zf (f64_add (fz a) (fz b)))
         (fun a b => zf (f64_sub (fz a) (fz b)))
         (fun a b => flt (fz a) (fz b))
         (zf (f64_of_Z 0))
         (fun n x => zf (f64_mul (f64_of_Z n) (fz x))).

(* the per-thread share for W = f64: (max - pw) / thread_count, no truncation, never a panic *)
Definition headroom_f64w (d : Z) (tc : nat) : option Z :=
  Some (zf (f64_div (fz d) (f64_of_Z (Z.of_nat tc)))).

(* `max_part_weight` for W = f64.  None: `max_by(partial_cmp)` where partial_cmp answers Less iff
   a < b (the first maximum is kept; only the value matters).  Some: ideal + mi * ideal. *)
Definition cap_f64w (mi : option spec_float) (lds : list Z) (k : nat) : option Z :=
  match mi with
  | None =>
    match lds with
    | [] => None
    | x :: t => Some (fold_left (fun m y => if flt (fz m) (fz y) then y else m) t x)
    end
  | Some m =>
    let total := fold_left (fun a y => f64_add a (fz y)) lds (f64_of_Z 0) in
    let ideal := f64_div total (f64_of_Z (Z.of_nat k)) in
    Some (zf (f64_add ideal (f64_mul m ideal)))
  end.

(* the value of a weight as an integer, when it is one (for the exact-sum clauses) *)
Definition f64_int (z : Z) : option Z :=
  match trunc_Z (fz z) with
  | Some i => if Z.eqb (zf (f64_of_Z i)) z then Some i else None
  | None => None
  end.

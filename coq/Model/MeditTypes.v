(* mesh_io::Mesh and mesh_io::ElementType as data (tools/mesh-io/src/lib.rs).
   Separate file so that the generated tables (Gen/MeditGen.v) can refer to
   [etype]. *)
From Coupe Require Import Lib.Prelude.
Open Scope N_scope.

Inductive etype := Vertex | Edge | Triangle | Quadrangle | Quadrilateral | Tetrahedron | Hexahedron.

Definition etype_eqb (a b : etype) : bool :=
  match a, b with
  | Vertex, Vertex | Edge, Edge | Triangle, Triangle | Quadrangle, Quadrangle
  | Quadrilateral, Quadrilateral | Tetrahedron, Tetrahedron | Hexahedron, Hexahedron => true
  | _, _ => false
  end.

(* one entry of Mesh::topology: (ElementType, Vec<usize> nodes, Vec<isize> refs) *)
Record block := mkblock { b_ty : etype; b_nodes : list N; b_refs : list Z }.

(* Mesh { dimension, coordinates (f64 bit patterns), node_refs, topology } *)
Record mesh := mkmesh { m_dim : N; m_coords : list N; m_nrefs : list Z; m_topo : list block }.

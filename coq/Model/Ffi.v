(* C17 — model of the C glue (ffi/src/lib.rs, ffi/src/data.rs).

   What is modelled: the caller's memory as typed cells, the three data-set
   representations and how data.rs reads them at a requested element type
   ([denote]); each algorithm entry point as the composition the C code
   performs — early returns that precede the guarded region (in the order the
   translator read them), creation of the output slice, dimension dispatch,
   choice of the numeric type from the Type tag, call of the Rust algorithm
   (an abstract parameter [rust_*]), conversion of its result to a code, and
   the guard (catch_unwind) around that region.

   What is NOT modelled (the check is partial on these, see docs/C17.md):
   reading a cell at another type than the one it holds, or past the end of
   the caller's memory, is undefined behaviour in the real code; here it is
   the explicit outcome [UB] and every theorem is stated outside it.
   Allocation failure (COUPE_ERR_ALLOC) is not modelled.

   Definitions only; proofs are in Proofs/FfiProofs.v. *)
From Coupe Require Import Lib.Prelude Lib.SFloat Gen.FfiTables.
From Coq Require Import String Ascii.
Open Scope nat_scope.

(* ------------------------------------------------------------------ codes *)

(* enum Error of ffi/src/lib.rs = enum coupe_err of coupe.h (pinned against the
   generated tables by ffi_model_codes_agree / ffi_header_enum_agrees) *)
Inductive code :=
| COk | CAlloc | CCrash | CBadDimension | CBadType | CBipartOnly | CLenMismatch | CNotFound | CNegValues.

Definition all_codes : list code :=
  [COk; CAlloc; CCrash; CBadDimension; CBadType; CBipartOnly; CLenMismatch; CNotFound; CNegValues].

Definition code_name (c : code) : string :=
  match c with
  | COk => "Ok" | CAlloc => "Alloc" | CCrash => "Crash" | CBadDimension => "BadDimension"
  | CBadType => "BadType" | CBipartOnly => "BipartOnly" | CLenMismatch => "LenMismatch"
  | CNotFound => "NotFound" | CNegValues => "NegValues"
  end%string.

(* the integer a C caller sees *)
Definition code_disc (c : code) : N :=
  match c with
  | COk => 0 | CAlloc => 1 | CCrash => 2 | CBadDimension => 3 | CBadType => 4
  | CBipartOnly => 5 | CLenMismatch => 6 | CNotFound => 7 | CNegValues => 8
  end%N.

Definition code_eqb (a b : code) : bool := (code_disc a =? code_disc b)%N.

Definition code_of_name (s : string) : option code :=
  find (fun c => String.eqb (code_name c) s) all_codes.

(* position of a name in an enum = its discriminant (no explicit values: the translator refuses them) *)
Fixpoint index_of (s : string) (l : list string) : option N :=
  match l with
  | [] => None
  | x :: t => if String.eqb x s then Some 0%N else option_map N.succ (index_of s t)
  end.

(* CamelCase -> UPPER_SNAKE, the naming convention between the Rust enums and coupe.h *)
Definition is_upper (a : ascii) : bool := let n := nat_of_ascii a in (65 <=? n) && (n <=? 90).
Definition to_upper (a : ascii) : ascii :=
  let n := nat_of_ascii a in if (97 <=? n) && (n <=? 122) then ascii_of_nat (n - 32) else a.
Fixpoint snake (first : bool) (s : string) : string :=
  match s with
  | EmptyString => EmptyString
  | String a t =>
    if is_upper a && negb first then String "_"%char (String a (snake false t))
    else String (to_upper a) (snake false t)
  end.
Definition header_name (prefix v : string) : string := (prefix ++ snake true v)%string.

Definition mem_str (s : string) (l : list string) : bool := existsb (String.eqb s) l.
Definition same_names (a b : list string) : bool :=
  forallb (fun s => mem_str s b) a && forallb (fun s => mem_str s a) b.
Fixpoint nodup_str (l : list string) : bool :=
  match l with [] => true | x :: t => negb (mem_str x t) && nodup_str t end.

(* prototypes (name, parameter types, return type): every prototype of [a] is, literally, a prototype of [b] *)
Fixpoint strs_eqb (a b : list string) : bool :=
  match a, b with
  | [], [] => true
  | x :: a', y :: b' => String.eqb x y && strs_eqb a' b'
  | _, _ => false
  end.
Definition proto_eqb (x y : string * list string * string) : bool :=
  String.eqb (fst (fst x)) (fst (fst y)) && strs_eqb (snd (fst x)) (snd (fst y)) && String.eqb (snd x) (snd y).
Definition protos_sub (a b : list (string * list string * string)) : bool :=
  forallb (fun x => existsb (proto_eqb x) b) a.

(* ------------------------------------------------------------------ errors *)

Definition error_name (e : error) : string :=
  match e with
  | NotFound => "NotFound" | InputLenMismatch _ _ => "InputLenMismatch"
  | NegativeValues => "NegativeValues" | BiPartitioningOnly => "BiPartitioningOnly"
  | InvalidOrder _ _ => "InvalidOrder"
  end%string.

(* one inhabitant per variant of coupe::Error (algorithms.rs), resp. of HilbertCurve's Error *)
Definition coupe_errors : list error := [NotFound; InputLenMismatch 0 0; NegativeValues; BiPartitioningOnly].
Definition hilbert_errors : list error := [InvalidOrder 0 0].

(* the code coupe.h documents for each error of the library:
   COUPE_ERR_NOT_FOUND "No partition matching the given constraints have been found",
   COUPE_ERR_LEN_MISMATCH "Data sets passed to an algorithm don't have the same number of elements",
   COUPE_ERR_NEG_VALUES "Input contains negative values", COUPE_ERR_BIPART_ONLY "more than two parts".
   An invalid Hilbert order has no code of its own: coupe.h only says coupe_hilbert "returns an error" *)
Definition documented_code (e : error) : option code :=
  match e with
  | NotFound => Some CNotFound
  | InputLenMismatch _ _ => Some CLenMismatch
  | NegativeValues => Some CNegValues
  | BiPartitioningOnly => Some CBipartOnly
  | InvalidOrder _ _ => None
  end.

Fixpoint lookup {A} (s : string) (l : list (string * A)) : option A :=
  match l with
  | [] => None
  | (k, v) :: t => if String.eqb k s then Some v else lookup s t
  end.

(* `impl From<coupe::Error> for Error`: [None] is the wildcard arm (a panicking macro) *)
Definition conv_error (arms : list (string * code)) (e : error) : option code := lookup (error_name e) arms.

Fixpoint compile_arms (arms : list (string * string)) : option (list (string * code)) :=
  match arms with
  | [] => Some []
  | (k, v) :: t =>
    match code_of_name v, compile_arms t with
    | Some c, Some r => Some ((k, c) :: r)
    | _, _ => None
    end
  end.

(* ------------------------------------------------------------------ the caller's memory *)

Inductive ty := TInt | TInt64 | TDouble.           (* enum Type / enum coupe_type *)
Definition ty_eqb (a b : ty) : bool :=
  match a, b with TInt, TInt | TInt64, TInt64 | TDouble, TDouble => true | _, _ => false end.
Definition ty_name (t : ty) : string :=
  match t with TInt => "Int" | TInt64 => "Int64" | TDouble => "Double" end%string.

(* one cell of caller memory: an `int`, an `int64_t`, or a `double` (bit pattern) *)
Inductive value := VInt (z : Z) | VInt64 (z : Z) | VDouble (bits : N).
Definition ty_of (v : value) : ty := match v with VInt _ => TInt | VInt64 _ => TInt64 | VDouble _ => TDouble end.
Definition value_eqb (a b : value) : bool :=
  match a, b with
  | VInt x, VInt y | VInt64 x, VInt64 y => (x =? y)%Z
  | VDouble x, VDouble y => (x =? y)%N
  | _, _ => false
  end.

Fixpoint values_same (a b : list value) : bool :=
  match a, b with
  | [], [] => true
  | x :: a', y :: b' => value_eqb x y && values_same a' b'
  | _, _ => false
  end.

(* a pointer: the cells at and after the address *)
Definition ptr := list value.

(* enum Data of data.rs with the fields of struct Array / Constant / Fn *)
Inductive data :=
| DArray (len : nat) (t : ty) (array : ptr)
| DConstant (len : nat) (t : ty) (value : ptr)
| DFn (len : nat) (t : ty) (i_th : nat -> ptr).

Definition dlen (d : data) : nat := match d with DArray n _ _ | DConstant n _ _ | DFn n _ _ => n end.
Definition dtype (d : data) : ty := match d with DArray _ t _ | DConstant _ t _ | DFn _ t _ => t end.

(* `*(p as *const T)` where T is [w] cells of type [ct]; [None]: the memory does not hold such a T (UB) *)
Definition read (ct : ty) (w : nat) (p : ptr) : option (list value) :=
  let c := firstn w p in
  if Nat.eqb (List.length c) w && forallb (fun v => ty_eqb (ty_of v) ct) c then Some c else None.

Fixpoint sequence {A} (l : list (option A)) : option (list A) :=
  match l with
  | [] => Some []
  | None :: _ => None
  | Some a :: t => match sequence t with Some r => Some (a :: r) | None => None end
  end.

(* Array::{iter,par_iter,to_slice}: slice::from_raw_parts(array as *const T, len) *)
Definition array_elems (ct : ty) (w len : nat) (p : ptr) : option (list (list value)) :=
  sequence (map (fun i => read ct w (skipn (i * w) p)) (seq 0 len)).
(* Constant::{iter,par_iter,to_slice}: `*(value as *const T)` read once, repeated len times *)
Definition constant_elems (ct : ty) (w len : nat) (p : ptr) : option (list (list value)) :=
  option_map (fun v => repeat v len) (read ct w p).
(* Fn::{iter,par_iter,to_slice}: `*((i_th)(context, i) as *const T)` for i in 0..len *)
Definition fn_elems (ct : ty) (w len : nat) (f : nat -> ptr) : option (list (list value)) :=
  sequence (map (fun i => read ct w (f i)) (seq 0 len)).

(* the elements an algorithm sees when the glue reads data set [d] at element type "[w] cells of
   type [ct]".  The Type tag stored in [d] plays no role here: the glue chooses [ct] (from the tag
   for weights, always `double` for points). *)
Definition denote (ct : ty) (w : nat) (d : data) : option (list (list value)) :=
  match d with
  | DArray len _ p => array_elems ct w len p
  | DConstant len _ p => constant_elems ct w len p
  | DFn len _ f => fn_elems ct w len f
  end.

(* numeric type the Rust algorithm is instantiated at *)
Inductive numty := I32 | I64 | F64 | RealF64.      (* c_int, i64, f64, coupe::Real (an Ord wrapper of f64) *)
Definition numty_eqb (a b : numty) : bool :=
  match a, b with I32, I32 | I64, I64 | F64, F64 | RealF64, RealF64 => true | _, _ => false end.
Definition cell_ty (nt : numty) : ty := match nt with I32 => TInt | I64 => TInt64 | F64 | RealF64 => TDouble end.
Definition numty_of_name (s : string) : option numty :=
  if String.eqb s "c_int" then Some I32 else if String.eqb s "i64" then Some I64
  else if String.eqb s "f64" then Some F64 else if String.eqb s "Real" then Some RealF64 else None.

(* weights: scalars of numeric type [nt] *)
Definition denote_scalars (nt : numty) (d : data) : option (list value) :=
  option_map (@List.concat value) (denote (cell_ty nt) 1 d).
(* points: PointND<D> = D consecutive doubles *)
Definition denote_points (dim : nat) (d : data) : option (list (list value)) := denote TDouble dim d.

(* ------------------------------------------------------------------ compiled entry table *)

Inductive precheck := PLenPointsWeights | PWeightsDouble | PAdjInt64 | PPointsDouble.
Definition precheck_of_name (s : string) : option precheck :=
  if String.eqb s "len_points_weights" then Some PLenPointsWeights
  else if String.eqb s "weights_type_double" then Some PWeightsDouble
  else if String.eqb s "adjncy_type_int64" then Some PAdjInt64
  else if String.eqb s "points_type_double" then Some PPointsDouble else None.

(* how the weights' element type is chosen: from the tag (a macro with one arm per tag) or fixed (to_slice::<f64>) *)
Inductive wview := WFixed (nt : numty) | WByTag (nint nint64 ndouble : numty).
Definition numty_for (w : wview) (t : ty) : numty :=
  match w with
  | WFixed nt => nt
  | WByTag a b c => match t with TInt => a | TInt64 => b | TDouble => c end
  end.

Inductive dimspec := DimNone | DimFixed (d : nat) | DimDispatch (ds : list N) (default : code).

(* how a C scalar argument becomes a field of the algorithm's struct:
   unchanged | `if x == 0 { None } else { Some(x) }` | `if x <= 0.0 { None } else { Some(x) }` (x an f64, as bits) *)
Inductive pconv := PSame | PZeroNone | PNonPosNone.
Definition pconv_of_name (s : string) : option pconv :=
  if String.eqb s "same" then Some PSame else if String.eqb s "zero_none" then Some PZeroNone
  else if String.eqb s "nonpositive_none" then Some PNonPosNone else None.
Definition conv_param (k : pconv) (x : N) : option N :=
  match k with
  | PSame => Some x
  | PZeroNone => if (x =? 0)%N then None else Some x
  | PNonPosNone => if fle (f64_of_bits x) (Floats.SpecFloat.S754_zero false) then None else Some x
  end.

(* the fields of each algorithm's struct, in the order in which this model (and the harness) lists the
   parameters handed to the Rust algorithm *)
Definition alg_fields (alg : string) : option (list string) :=
  if String.eqb alg "Rcb" then Some ["iter_count"; "tolerance"]%string
  else if String.eqb alg "Rib" then Some ["iter_count"; "tolerance"]%string
  else if String.eqb alg "HilbertCurve" then Some ["part_count"; "order"]%string
  else if String.eqb alg "Greedy" then Some ["part_count"]%string
  else if String.eqb alg "KarmarkarKarp" then Some ["part_count"]%string
  else if String.eqb alg "CompleteKarmarkarKarp" then Some ["tolerance"]%string
  else if String.eqb alg "FiducciaMattheyses" then
    Some ["max_passes"; "max_moves_per_pass"; "max_imbalance"; "max_bad_move_in_a_row"]%string
  else None.

Record centry := mk_centry {
  ce_guarded : bool;                      (* algorithm call lexically inside the catch_unwind closure *)
  ce_pre : list (precheck * code);        (* early returns before the guarded region, in order *)
  ce_count_points : bool;                 (* element_count = points.len() (else weights.len()) *)
  ce_dim : dimspec;
  ce_ok : code;
  ce_err : option code;                   (* None: Error::from(err); Some c: every Err becomes c *)
  ce_w : wview;
  ce_alg : string;                        (* the coupe:: struct that is built *)
  ce_arity : nat;                         (* number of scalar parameters of the C function *)
  ce_params : list (nat * pconv) }.       (* for each field of [alg_fields ce_alg], in that order: position of the
                                             C scalar argument that feeds it, and the conversion *)

Fixpoint compile_pre (l : list (string * string)) : option (list (precheck * code)) :=
  match l with
  | [] => Some []
  | (k, v) :: t =>
    match precheck_of_name k, code_of_name v, compile_pre t with
    | Some p, Some c, Some r => Some ((p, c) :: r)
    | _, _, _ => None
    end
  end.

Definition compile_w (via : string) (l : list (string * string)) : option wview :=
  if String.eqb via "to_slice" then
    match l with
    | [(t, n)] => if String.eqb t "Double" then option_map WFixed (numty_of_name n) else None
    | _ => None
    end
  else
    match l with
    | [(t1, n1); (t2, n2); (t3, n3)] =>
      if String.eqb t1 "Int" && String.eqb t2 "Int64" && String.eqb t3 "Double" then
        match numty_of_name n1, numty_of_name n2, numty_of_name n3 with
        | Some a, Some b, Some c => Some (WByTag a b c)
        | _, _, _ => None
        end
      else None
    | _ => None
    end.

Definition compile_dim (e : ffi_entry) : option dimspec :=
  match fe_dims e with
  | [] =>
    if String.eqb (fe_points e) "" then Some DimNone
    else if String.eqb (fe_points e) "Point2D" then Some (DimFixed 2) else None
  | ds =>
    if String.eqb (fe_points e) "PointND<D>" then option_map (DimDispatch ds) (code_of_name (fe_dim_default e)) else None
  end.

Fixpoint index_nat (s : string) (l : list string) : option nat :=
  match l with
  | [] => None
  | x :: t => if String.eqb x s then Some 0 else option_map S (index_nat s t)
  end.

(* every field of the algorithm's struct must be given by the literal, each exactly once *)
Definition compile_params (e : ffi_entry) : option (list (nat * pconv)) :=
  match alg_fields (fe_alg e) with
  | None => None
  | Some fs =>
    if Nat.eqb (List.length (fe_fields e)) (List.length fs) then
      sequence (map (fun f =>
        match find (fun x => String.eqb (fst (fst x)) f) (fe_fields e) with
        | Some (_, conv, arg) =>
          match index_nat arg (fe_scalar_args e), pconv_of_name conv with
          | Some i, Some k => Some (i, k)
          | _, _ => None
          end
        | None => None
        end) fs)
    else None
  end.

Definition compile_entry (e : ffi_entry) : option centry :=
  match compile_pre (fe_prechecks e), compile_dim e, code_of_name (fe_ok e),
        compile_w (fe_weights_via e) (fe_weight_types e), compile_params e with
  | Some pre, Some dim, Some ok, Some w, Some ps =>
    let cp := String.eqb (fe_count_from e) "points" in
    let mk err := mk_centry (fe_guarded e) pre cp dim ok err w (fe_alg e) (List.length (fe_scalar_args e)) ps in
    if cp || String.eqb (fe_count_from e) "weights" then
      if String.eqb (fe_err e) "from" then Some (mk None)
      else option_map (fun c => mk (Some c)) (code_of_name (fe_err e))
    else None
  | _, _, _, _, _ => None
  end.

Definition find_entry (name : string) (l : list ffi_entry) : option ffi_entry :=
  find (fun e => String.eqb (fe_name e) name) l.
Definition compile_named (name : string) (l : list ffi_entry) : option centry :=
  match find_entry name l with Some e => compile_entry e | None => None end.

Definition is_some {A} (o : option A) : bool := match o with Some _ => true | None => false end.
Definition get_some {A} (o : option A) : is_some o = true -> A :=
  match o with
  | Some a => fun _ => a
  | None => fun H => match Bool.diff_false_true H with end
  end.

(* ------------------------------------------------------------------ entry points *)

(* what the C caller observes *)
Inductive outcome :=
| Returns (c : code) (arr : option (list N))
    (* the entry point returns [c]; the caller's array now holds [arr] ([None]: not determined by this
       model — the algorithm failed or panicked part-way) *)
| Unwinds        (* a panic reaches the `extern "C"` boundary (the process aborts with the current toolchain) *)
| Hangs
| UB             (* the caller broke the memory contract of coupe.h *)
| BadArity.      (* not a behaviour of the code: the model was applied to the wrong number of scalar arguments *)

(* result of the code inside the closure handed to catch_unwind *)
Inductive bres := BRet (c : code) (arr : option (list N)) | BPanic | BHang | BUB.

(* the parameters handed to the Rust algorithm (fields of its struct in [alg_fields] order) from the C scalar
   arguments [args] (in the order of the C prototype; floats as bits) *)
Definition build_params (ps : list (nat * pconv)) (args : list N) : option (list (option N)) :=
  sequence (map (fun '(i, k) => option_map (conv_param k) (nth_opt args i)) ps).

(* fn catch_unwind(f) = std::panic::catch_unwind(f).unwrap_or(crash); without it the panic keeps unwinding *)
Definition guard (guarded : bool) (crash : code) (b : bres) : outcome :=
  match b with
  | BRet c a => Returns c a
  | BPanic => if guarded then Returns crash None else Unwinds
  | BHang => Hangs
  | BUB => UB
  end.

(* 0 passes / moves = no limit; max_imbalance <= 0.0 = none (what the struct literal of
   coupe_fiduccia_mattheyses says, stated here for the theorems) *)
Definition fm_opt (x : N) : option N := conv_param PZeroNone x.
Definition fm_imbalance (bits : N) : option N := conv_param PNonPosNone bits.

(* slice::from_raw_parts_mut(partition, n): the first n cells of the caller's array, and the rest *)
Definition take_slice (n : nat) (p0 : list N) : option (list N * list N) :=
  if n <=? List.length p0 then Some (firstn n p0, skipn n p0) else None.

Record pctx := { px_len_mismatch : bool; px_weights_not_double : bool; px_adj_not_int64 : bool; px_points_not_double : bool }.
Definition pre_fails (k : precheck) (cx : pctx) : bool :=
  match k with
  | PLenPointsWeights => px_len_mismatch cx
  | PWeightsDouble => px_weights_not_double cx
  | PAdjInt64 => px_adj_not_int64 cx
  | PPointsDouble => px_points_not_double cx   (* no entry point has this check at present *)
  end.
Fixpoint run_pre (pre : list (precheck * code)) (cx : pctx) : option code :=
  match pre with
  | [] => None
  | (k, c) :: t => if pre_fails k cx then Some c else run_pre t cx
  end.

(* CSR adjacency handed to coupe_adjncy_csr: size, xadj, adjncy, type tag and values *)
Record adjacency := mk_adj { a_size : nat; a_xadj : list N; a_adjncy : list N; a_type : ty; a_vals : list value }.

Section Entries.
  Variable arms : list (string * code).     (* compiled arms of From<coupe::Error> *)
  Variable crash : code.                    (* what the guard returns on a panic *)

  (* `match res { Ok(_) => Error::Ok, Err(err) => Error::from(err) }` (or the constant arm of coupe_hilbert) *)
  Definition finish (e : centry) (rest : list N) (r : res (list N)) : bres :=
    match r with
    | Ok p => BRet (ce_ok e) (Some (p ++ rest))
    | Err er =>
      match ce_err e with
      | Some c => BRet c None
      | None => match conv_error arms er with Some c => BRet c None | None => BPanic end   (* wildcard arm: unreachable!() *)
      end
    | Panic _ => BPanic
    | OutOfFuel => BHang
    end.

  Definition pre_then (e : centry) (cx : pctx) (p0 : list N) (body : bres) : outcome :=
    match run_pre (ce_pre e) cx with
    | Some c => Returns c (Some p0)
    | None => guard (ce_guarded e) crash body
    end.

  Definition with_params (e : centry) (args : list N) (k : list (option N) -> outcome) : outcome :=
    if Nat.eqb (List.length args) (ce_arity e) then
      match build_params (ce_params e) args with Some ps => k ps | None => BadArity end
    else BadArity.

  (* ---- coupe_greedy, coupe_karmarkar_karp, coupe_karmarkar_karp_complete ----
     [rust nt ws params slice]: the Rust algorithm instantiated at [nt] on weights [ws] with its parameters
     and the output slice's initial content *)
  Definition entry_num (e : centry) (rust : numty -> list value -> list (option N) -> list N -> res (list N))
             (p0 : list N) (weights : data) (args : list N) : outcome :=
    with_params e args (fun params =>
    let n := dlen weights in
    pre_then e {| px_len_mismatch := false; px_weights_not_double := negb (ty_eqb (dtype weights) TDouble);
                  px_adj_not_int64 := false; px_points_not_double := false |} p0
      match take_slice n p0 with
      | None => BUB
      | Some (s, rest) =>
        let nt := numty_for (ce_w e) (dtype weights) in
        match denote_scalars nt weights with
        | None => BUB
        | Some ws => finish e rest (rust nt ws params s)
        end
      end).

  (* ---- coupe_rcb, coupe_rib (dimension dispatch), coupe_hilbert (fixed dimension 2) ----
     [rust dim points nt ws params slice] *)
  Definition entry_geo (e : centry)
             (rust : nat -> list (list value) -> numty -> list value -> list (option N) -> list N -> res (list N))
             (p0 : list N) (dimension : N) (points weights : data) (args : list N) : outcome :=
    with_params e args (fun params =>
    let n := if ce_count_points e then dlen points else dlen weights in
    pre_then e {| px_len_mismatch := negb (Nat.eqb (dlen points) (dlen weights));
                  px_weights_not_double := negb (ty_eqb (dtype weights) TDouble);
                  px_adj_not_int64 := false; px_points_not_double := negb (ty_eqb (dtype points) TDouble) |} p0
      match take_slice n p0 with
      | None => BUB
      | Some (s, rest) =>
        let call (dim : nat) :=
          match denote_points dim points with
          | None => BUB
          | Some ps =>
            let nt := numty_for (ce_w e) (dtype weights) in
            match denote_scalars nt weights with
            | None => BUB
            | Some ws => finish e rest (rust dim ps nt ws params s)
            end
          end in
        match ce_dim e with
        | DimDispatch ds default =>
          if existsb (N.eqb dimension) ds then call (N.to_nat dimension) else BRet default (Some p0)
        | DimFixed d => call d
        | DimNone => BUB     (* not a geometric entry: excluded by the typed tables (ffi_*_eq) *)
        end
      end).

  (* ---- coupe_fiduccia_mattheyses ---- *)
  Definition entry_fm (e : centry)
             (rust : adjacency -> numty -> list value -> list (option N) -> list N -> res (list N))
             (p0 : list N) (adj : adjacency) (weights : data) (args : list N) : outcome :=
    with_params e args (fun params =>
    let n := dlen weights in
    pre_then e {| px_len_mismatch := false; px_weights_not_double := negb (ty_eqb (dtype weights) TDouble);
                  px_adj_not_int64 := negb (ty_eqb (a_type adj) TInt64); px_points_not_double := false |} p0
      match take_slice n p0 with
      | None => BUB
      | Some (s, rest) =>
        let nt := numty_for (ce_w e) (dtype weights) in
        match denote_scalars nt weights with
        | None => BUB
        | Some ws => finish e rest (rust adj nt ws params s)
        end
      end).
End Entries.

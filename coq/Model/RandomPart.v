(* Model of `coupe::Random` (src/algorithms.rs): every element gets
   `rng.gen_range(0..part_count)`.  The generator is an arbitrary stream of
   draws; `gen_range(0..0)` panics (empty range). *)
From Coupe Require Import Lib.Prelude.

Definition random_part (k : N) (draws : list N) : res (list N) :=
  if (k =? 0)%N then (match draws with [] => Ok [] | _ => Panic 1 end)
  else Ok (map (fun r => (r mod k)%N) draws).

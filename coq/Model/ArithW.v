(* Weight arithmetic as a parameter of the number-partitioning models
   (Greedy, VnBest, VnFirst are generic over their weight type in Rust):
   a carrier with zero, +, -, <, ==, and x / two.  Instances: Z (i64 without
   overflow) and IEEE-754 binary64 on Coq's SpecFloat (Lib/SFloat.v).
   NO algebraic law is assumed here; the laws each theorem needs are stated
   as hypotheses in Proofs/ArithWLemmas.v and discharged there for Z and (the
   order laws) for SpecFloat.
   Also: the vocabulary of Model/NumPart.v re-stated over an arithmetic.
   Executable definitions only. *)
From Coupe Require Import Lib.Prelude Lib.SFloat.
From Coq Require Import Floats.SpecFloat.
Open Scope Z_scope.

Record arith := {
  W : Type;
  w_zero : W;                 (* T::zero() *)
  w_add : W -> W -> W;        (* +, += *)
  w_sub : W -> W -> W;        (* - *)
  w_ltb : W -> W -> bool;     (* PartialOrd `<` *)
  w_eqb : W -> W -> bool;     (* PartialEq `==` *)
  w_half : W -> W             (* x / two, two = one + one *)
}.

Definition Zarith : arith :=
  {| W := Z; w_zero := 0; w_add := Z.add; w_sub := Z.sub; w_ltb := Z.ltb; w_eqb := Z.eqb;
     w_half := fun x => Z.quot x 2 |}.

Definition F64arith : arith :=
  {| W := spec_float; w_zero := S754_zero false; w_add := f64_add; w_sub := f64_sub;
     w_ltb := SFltb; w_eqb := SFeqb; w_half := fun x => f64_div x (f64_of_Z 2) |}.

Section Generic.
  Variable A : arith.
  Notation Wt := (W A).

  (* PartialOrd `<=`: less or equal (false as soon as a NaN is involved) *)
  Definition w_leb (x y : Wt) : bool := w_ltb A x y || w_eqb A x y.
  Definition w_is_zero (x : Wt) : bool := w_eqb A x (w_zero A).

  Definition itemW := (Wt * nat)%type.

  (* `<` on Rust tuples (weight, id): lexicographic through partial_cmp *)
  Definition ltb_itemW (a b : itemW) : bool :=
    w_ltb A (fst a) (fst b) || (w_eqb A (fst a) (fst b) && Nat.ltb (snd a) (snd b)).

  Fixpoint insert_descW (e : itemW) (l : list itemW) : list itemW :=
    match l with
    | [] => [e]
    | x :: t => if ltb_itemW x e then e :: l else x :: insert_descW e t
    end.
  Definition sort_items_descW (l : list itemW) : list itemW := fold_right insert_descW [] l.
  Definition items_ofW (ws : list Wt) : list itemW := combine ws (seq 0 (length ws)).

  (* positions of extreme elements, as in Model/NumPart.v *)
  Fixpoint argmin_last_auxW (bi : nat) (bv : Wt) (i : nat) (l : list Wt) : nat :=
    match l with
    | [] => bi
    | y :: t => if w_ltb A bv y then argmin_last_auxW bi bv (S i) t else argmin_last_auxW i y (S i) t
    end.
  Definition argmin_lastW (l : list Wt) : option nat :=
    match l with [] => None | x :: t => Some (argmin_last_auxW 0 x 1 t) end.
  Fixpoint argmin_first_auxW (bi : nat) (bv : Wt) (i : nat) (l : list Wt) : nat :=
    match l with
    | [] => bi
    | y :: t => if w_ltb A y bv then argmin_first_auxW i y (S i) t else argmin_first_auxW bi bv (S i) t
    end.
  Fixpoint argmax_last_auxW (bi : nat) (bv : Wt) (i : nat) (l : list Wt) : nat :=
    match l with
    | [] => bi
    | y :: t => if w_ltb A y bv then argmax_last_auxW bi bv (S i) t else argmax_last_auxW i y (S i) t
    end.

  (* `Itertools::minmax` on values: (min, max) *)
  Fixpoint minmax_valW (mn mx : Wt) (l : list Wt) : Wt * Wt :=
    match l with
    | [] => (mn, mx)
    | y :: t => minmax_valW (if w_ltb A y mn then y else mn) (if w_ltb A y mx then mx else y) t
    end.
End Generic.

(* ---- exact values of binary64 numbers: every finite f64 is m * 2^e ---- *)

(* the common scale: the smallest exponent of the finite non-zero values *)
Definition exps (l : list spec_float) : list Z :=
  flat_map (fun x => match x with S754_finite _ _ e => [e] | _ => [] end) l.
Definition min_exp (l : list spec_float) : Z :=
  match exps l with [] => 0 | e :: t => fold_right Z.min e t end.
(* x / 2^s as an integer, for s <= the exponent of x; None for NaN / infinities *)
Definition scaled (s : Z) (x : spec_float) : option Z :=
  match x with
  | S754_zero _ => Some 0
  | S754_finite sg m e => Some ((if sg then -1 else 1) * Zpos m * 2 ^ (e - s))
  | _ => None
  end.
Fixpoint scale_all (s : Z) (l : list spec_float) : option (list Z) :=
  match l with
  | [] => Some []
  | x :: t => match scaled s x, scale_all s t with
              | Some z, Some zs => Some (z :: zs)
              | _, _ => None
              end
  end.
(* the weights as integers in units of 2^(min_exp): exact, order- and sum-preserving *)
Definition exact_ints (l : list spec_float) : option (list Z) := scale_all (min_exp l) l.

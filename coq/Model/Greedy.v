(* Model of src/algorithms/greedy.rs (Greedy, integer weights), and the LPT
   specification it is compared with.  Executable definitions only; proofs
   are in Proofs/GreedyProofs.v.

   Rust                                      here
   weights.zip(0..)                          items_of ws
   len check                                 Err (InputLenMismatch ..)
   part_count < 2  => fill(0)                map (fun _ => 0) p0
   sort_unstable_by(partial_cmp); .rev()     sort_items_desc (ids distinct: the order is strict and total)
   min_by(partial_cmp) (never Equal)         argmin_last: a tie moves on to the LATER part
   partition[id] = idx; part_weights[idx]+=w set_nth / Panic on an index out of range *)
From Coupe Require Import Lib.Prelude Model.NumPart.
Open Scope Z_scope.

(* the scan over the weights in descending order.  Panic 1: `unwrap` of
   min_by on an empty vector; Panic 2: index out of bounds. *)
Fixpoint greedy_loop (its : list item) (pw : list Z) (p : list N) : res (list N * list Z) :=
  match its with
  | [] => Ok (p, pw)
  | (w, id) :: t =>
    match argmin_last pw with
    | None => Panic 1
    | Some m =>
      if Nat.ltb id (length p) then
        match nth_opt pw m with
        | None => Panic 2
        | Some lm => greedy_loop t (set_nth pw m (lm + w)) (set_nth p id (N.of_nat m))
        end
      else Panic 2
    end
  end.

Definition greedy (ws : list Z) (k : nat) (p0 : list N) : res (list N) :=
  if negb (Nat.eqb (length ws) (length p0)) then Err (InputLenMismatch (length p0) (length ws))
  else if Nat.ltb k 2 then Ok (map (fun _ => 0%N) p0)
  else bind (greedy_loop (sort_items_desc (items_of ws)) (repeat 0 k) p0) (fun r => Ok (fst r)).

(* ---- specification: LPT (longest processing time first) list scheduling ---- *)

(* one LPT run: each weight in turn goes to ANY part whose load is minimal *)
Inductive lpt_run : list Z -> list Z -> list Z -> Prop :=
| lpt_done L : lpt_run [] L L
| lpt_give w ws L i li L' :
    nth_opt L i = Some li -> (forall x, In x L -> li <= x) ->
    lpt_run ws (set_nth L i (li + w)) L' ->
    lpt_run (w :: ws) L L'.

(* a canonical run (first lightest part: NumPart.argmin_first), used by the checker *)
Fixpoint lpt_first (ws : list Z) (L : list Z) : list Z :=
  match ws with
  | [] => L
  | w :: t =>
    let i := argmin_first L in
    match nth_opt L i with
    | Some li => lpt_first t (set_nth L i (li + w))
    | None => L
    end
  end.
(* LPT on [k] parts: weights in non-increasing order *)
Definition lpt (ws : list Z) (k : nat) : list Z := lpt_first (sortZ_desc ws) (repeat 0 k).

(* ---- checker: the implementation's output against the property ---- *)
Definition check_greedy (ws : list Z) (k : nat) (p : list N) : bool :=
  Nat.eqb (length p) (length ws) && ids_below k p
  && same_multiset (loads ws p k) (lpt ws k).

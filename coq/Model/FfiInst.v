(* C17 — the model of Model/Ffi.v instantiated with the tables the translator read from the current
   source (Gen/FfiTables.v).  If a table entry does not compile to the typed form (unknown code name,
   unknown pre-check, missing Type arm, ...) this file does not build: fail closed. *)
From Coupe Require Import Lib.Prelude Gen.FfiTables Model.Ffi.
From Coq Require Import String.
Local Open Scope string_scope.

Definition ffi_arms : list (string * code) := get_some (compile_arms ffi_error_arms) eq_refl.
Definition ffi_crash : code := get_some (code_of_name ffi_guard_code) eq_refl.

Definition ffi_rcb : centry := get_some (compile_named "coupe_rcb" ffi_entries) eq_refl.
Definition ffi_rib : centry := get_some (compile_named "coupe_rib" ffi_entries) eq_refl.
Definition ffi_hilbert : centry := get_some (compile_named "coupe_hilbert" ffi_entries) eq_refl.
Definition ffi_greedy : centry := get_some (compile_named "coupe_greedy" ffi_entries) eq_refl.
Definition ffi_kk : centry := get_some (compile_named "coupe_karmarkar_karp" ffi_entries) eq_refl.
Definition ffi_ckk : centry := get_some (compile_named "coupe_karmarkar_karp_complete" ffi_entries) eq_refl.
Definition ffi_fm : centry := get_some (compile_named "coupe_fiduccia_mattheyses" ffi_entries) eq_refl.

(* the seven entry points of the property, with the scalar parameters of their C prototypes (floats as bits) *)
Definition coupe_greedy rust p0 weights (part_count : N) := entry_num ffi_arms ffi_crash ffi_greedy rust p0 weights [part_count].
Definition coupe_karmarkar_karp rust p0 weights (part_count : N) := entry_num ffi_arms ffi_crash ffi_kk rust p0 weights [part_count].
Definition coupe_karmarkar_karp_complete rust p0 weights (tolerance : N) :=
  entry_num ffi_arms ffi_crash ffi_ckk rust p0 weights [tolerance].
Definition coupe_rcb rust p0 dimension points weights (iter_count tolerance : N) :=
  entry_geo ffi_arms ffi_crash ffi_rcb rust p0 dimension points weights [iter_count; tolerance].
Definition coupe_rib rust p0 dimension points weights (iter_count tolerance : N) :=
  entry_geo ffi_arms ffi_crash ffi_rib rust p0 dimension points weights [iter_count; tolerance].
Definition coupe_hilbert rust p0 points weights (part_count order : N) :=
  entry_geo ffi_arms ffi_crash ffi_hilbert rust p0 2%N points weights [part_count; order].
Definition coupe_fiduccia_mattheyses rust p0 adjncy weights (max_passes max_moves_per_pass max_imbalance max_bad_moves_in_a_row : N) :=
  entry_fm ffi_arms ffi_crash ffi_fm rust p0 adjncy weights [max_passes; max_moves_per_pass; max_imbalance; max_bad_moves_in_a_row].

(* C17 — the model of Model/Ffi.v instantiated with the tables the translator read from the current
   source (Gen/FfiTables.v).  If a table entry does not compile to the typed form (unknown code name,
   unknown pre-check, missing Type arm, ...) this file does not build: fail closed. *)
From Coupe Require Import Lib.Prelude Gen.FfiTables Model.Ffi.
From Coq Require Import String.
Local Open Scope string_scope.

Definition ffi_arms : list (string * code) := get_some (compile_arms ffi_error_arms) eq_refl.
Definition ffi_crash : code := get_some (code_of_name ffi_guard_code) eq_refl.

Definition ffi_rcb : centry := get_some (compile_named "coupe_rcb" ffi_entries) eq_refl.
Definition ffi_rib : centry := get_some (compile_named "coupe_rib" ffi_entries) eq_refl.
Definition ffi_hilbert : centry := get_some (compile_named "coupe_hilbert" ffi_entries) eq_refl.
Definition ffi_greedy : centry := get_some (compile_named "coupe_greedy" ffi_entries) eq_refl.
Definition ffi_kk : centry := get_some (compile_named "coupe_karmarkar_karp" ffi_entries) eq_refl.
Definition ffi_ckk : centry := get_some (compile_named "coupe_karmarkar_karp_complete" ffi_entries) eq_refl.
Definition ffi_fm : centry := get_some (compile_named "coupe_fiduccia_mattheyses" ffi_entries) eq_refl.

(* the seven entry points of the property, as the C caller calls them *)
Definition coupe_greedy := entry_num ffi_arms ffi_crash ffi_greedy.
Definition coupe_karmarkar_karp := entry_num ffi_arms ffi_crash ffi_kk.
Definition coupe_karmarkar_karp_complete := entry_num ffi_arms ffi_crash ffi_ckk.
Definition coupe_rcb := entry_geo ffi_arms ffi_crash ffi_rcb.
Definition coupe_rib := entry_geo ffi_arms ffi_crash ffi_rib.
Definition coupe_hilbert := entry_geo ffi_arms ffi_crash ffi_hilbert.
Definition coupe_fiduccia_mattheyses := entry_fm ffi_arms ffi_crash ffi_fm.

(* Model of src/algorithms/recursive_bisection.rs (Rcb; Rib = Rcb on the rotated
   points exported by the `rib_points` hook).  Executable definitions only;
   proofs are in Proofs/RcbProofs.v (C03) and Proofs/RcbBalance.v (C04).

   The generic part is a Section over an abstract coordinate type [C] with a
   boolean strict order [ltb], its non-strict companion [leb] (Rust `<` and
   `<=` on f32: both false on NaN) and the three arithmetic operations the
   cut search performs: [mid mn mx] = `(min + max) / 2.0`, [dist x t] =
   `point - split_target`, [addc t d] = `split_target + nearest_distance`.
   Weights are i64, modelled in Z; [within_tol wl sum] replays the f64
   expression `|(wl - sum/2) / (sum/2)| <= tolerance`.

   The instance used for execution (end of file) is SpecFloat binary32.
   Where the code converts: `rcb` turns every f64 coordinate into f32 once
   (`point[coord] as f32`, l.676); the bounding box is computed in f64 from
   the f64 points and each bound is converted on use (`bb.p_min[coord] as
   f32`, l.603-604); child boxes store `split_pos as f64` (exact), so the box
   can be kept in f32 throughout: f32 -> f64 -> f32 is the identity. *)
From Coupe Require Import Lib.Prelude Lib.SFloat.
From Coq Require Import Floats.SpecFloat FSets.FMapPositive.
Open Scope Z_scope.

(* rayon split tree of an indexed parallel iterator: [SNode k l r] splits the
   index range at position [k]; leaves fold sequentially (DESIGN §3). *)
Inductive stree := SLeaf | SNode (k : nat) (l r : stree).

(* why the cut search returned *)
Inductive stop := StTol | StExhausted | StNothingRight | StSameCount.

Section Generic.
  Variable C : Type.
  Variables ltb leb : C -> C -> bool.
  Variable mid : C -> C -> C.
  Variables dist addc : C -> C -> C.
  Variables zero inf : C.
  Variable within_tol : Z -> Z -> bool.
  (* Which variant of par_rcb_split is modelled; the values that describe
     /repo's current source are read by the translator (Gen/RcbGen.v), the
     others are kept for the refutation witnesses.
     [old]: the stop rules of the pinned tree (before 40af1ed);
     [by_coord]: the pivot is the right-hand point of smallest COORDINATE
       (fold, reduce and the `nothing on the right` rule compare coordinates);
       [false]: of smallest rounded distance `point - split_target`;
     [probe_max]: an exhausted interval is probed at `max`, not at the
       rounded midpoint. *)
  Variables old by_coord probe_max : bool.

  (* one element of the structure-of-arrays [Items]: its index in the caller's
     arrays (the `&AtomicUsize` cell it carries), its D coordinates, its weight *)
  (* the cell index is kept in binary ([ixN]); [ix] is its value as a position *)
  Record item := mkitem { ixN : N; co : list C; wt : Z }.
  Definition ix (it : item) : nat := N.to_nat (ixN it).

  (* an element together with its coordinate on the current axis *)
  Definition keyed := (C * item)%type.

  Fixpoint keys (a : nat) (its : list item) : option (list keyed) :=
    match its with
    | [] => Some []
    | it :: t =>
      match nth_opt (co it) a, keys a t with
      | Some c, Some r => Some ((c, it) :: r)
      | _, _ => None
      end
    end.

  (* ---- the fold / reduce of par_rcb_split (l.479-521) ---- *)

  (* (count_left, weight_left, nearest_idx, nearest_distance or nearest_coord) *)
  Definition acc := (Z * Z * option nat * C)%type.
  Definition acc0 : acc := (0, 0, None, inf).

  Definition fold_step (t : C) (a : acc) (idx : nat) (x : C) (w : Z) : acc :=
    let '(cnt, wl, ni, nd) := a in
    (* `distance` is computed only by the variant that uses it *)
    let key := if by_coord then x else dist x t in
    let left := if by_coord then ltb x t else ltb key zero in
    if left then (cnt + 1, wl + w, ni, nd)
    else if ltb key nd then (cnt, wl, Some idx, key)
    else (cnt, wl, ni, nd).

  Fixpoint fold_chunk (t : C) (a : acc) (idx : nat) (xs : list keyed) : acc :=
    match xs with
    | [] => a
    | (x, it) :: r => fold_chunk t (fold_step t a idx x (wt it)) (S idx) r
    end.

  Definition reduce (a b : acc) : acc :=
    let '(c0, w0, n0, d0) := a in
    let '(c1, w1, n1, d1) := b in
    if ltb d0 d1 then (c0 + c1, w0 + w1, n0, d0) else (c0 + c1, w0 + w1, n1, d1).

  Fixpoint par_fold (t : C) (s : stree) (base : nat) (xs : list keyed) : acc :=
    match s with
    | SLeaf => fold_chunk t acc0 base xs
    | SNode k l r =>
      reduce (par_fold t l base (firstn k xs)) (par_fold t r (base + k)%nat (skipn k xs))
    end.

  (* ---- the cut search (the `loop` of par_rcb_split) ---- *)

  Inductive split_res :=
  | SplitAt (pivot : nat) (wl : Z) (pos : C) (why : stop)
  | AllLeft (pos : C).

  (* [it]: number of the loop iteration (selects the split tree of this fold);
     [prev]: `prev_count_left` of the pinned code (None = usize::MAX) *)
  Fixpoint search (fuel : nat) (sch : nat -> stree) (it : nat) (xs : list keyed) (sum : Z)
           (mn mx : C) (prev : option Z) : res split_res :=
    match fuel with
    | O => OutOfFuel
    | S f =>
      let m := mid mn mx in
      let exhausted := negb (ltb mn m && ltb m mx) in
      let t := if probe_max && exhausted then mx else m in
      let '(cnt, wl, ni, nd) := par_fold t (sch it) 0%nat xs in
      let same := match prev with Some c => c =? cnt | None => false end in
      match ni with
      | None =>
        if (if old then same else exhausted) then Ok (AllLeft mx)
        else search f sch (S it) xs sum mn t (if old then Some cnt else prev)
      | Some i =>
        let wr := sum - wl in
        let nothing_right := leb mx (if by_coord then nd else addc t nd) in
        let tol := within_tol wl sum in
        let stop_now :=
          if old then same || nothing_right || tol
          else exhausted || ((wl <? wr) && nothing_right) || tol in
        if stop_now then
          Ok (SplitAt i wl t
                (if tol then StTol
                 else if old then (if same then StSameCount else StNothingRight)
                 else if exhausted then StExhausted else StNothingRight))
        else if wl <? wr then search f sch (S it) xs sum t mx (if old then Some cnt else prev)
        else search f sch (S it) xs sum mn t (if old then Some cnt else prev)
      end
    end.

  (* ---- reorder_split_scalar (l.122-181) ----
     The in-place two-pointer loop on the slice `[1..]`, on a list seen from
     both ends: [f] = the unclassified segment `[l, r)` read forwards, [b] =
     the same segment read backwards, the first argument = `r - l` (so the
     two views never cross).  [hoare] is the first inner `while` (advance
     `l`), [hoare_back] the second one (retreat `r`) with the element [x]
     stuck at position `l`.  [aL]: elements already placed at `[0, l)`, most
     recent first; [aR]: elements placed at `[r, len)`, in array order. *)
  Section Reorder.
    Variable pv : C.

    Fixpoint hoare (n : nat) (f b aL aR : list keyed) : option (list keyed * list keyed) :=
      match n with
      | O => Some (aL, aR)
      | S n' =>
        match f with
        | [] => None
        | x :: f' =>
          if ltb (fst x) pv then hoare n' f' b (x :: aL) aR
          else hoare_back n' x f' b aL aR
        end
      end
    with hoare_back (m : nat) (x : keyed) (f b aL aR : list keyed)
         : option (list keyed * list keyed) :=
      match m with
      | O =>
        (* `r - 1 = l`: the second while looks at x itself *)
        if leb pv (fst x) then Some (aL, x :: aR) else Some (x :: aL, aR)
      | S m' =>
        match b with
        | [] => None
        | y :: b' =>
          if leb pv (fst y) then hoare_back m' x f b' aL (y :: aR)
          else hoare m' f b' (y :: aL) (x :: aR)       (* r -= 1; swap(l, r); l += 1 *)
        end
      end.
  End Reorder.

  (* Panic 2: `swap(0, pivot)` out of bounds.  Panic 9: unreachable (the two
     views of the segment are shorter than the counter). *)
  Definition reorder_split (xs : list keyed) (pivot : nat) : res (list keyed * list keyed) :=
    match xs, nth_opt xs pivot with
    | x0 :: rest, Some p =>
      let tail := match pivot with O => rest | S j => set_nth rest j x0 end in
      match hoare (fst p) (length tail) tail (rev_append tail []) [] [] with
      | None => Panic 9
      | Some (aL, aR) =>
        (* swap(0, l); split_at(l) *)
        Ok (match aL with [] => [] | z :: a' => z :: rev_append a' [] end, p :: aR)
      end
    | _, _ => Panic 2
    end.

  (* ---- rcb_recurse (l.574-641) ---- *)

  Definition box := list (C * C).

  (* Panic 1: coordinate / bounding-box index out of range (D mismatch) *)
  Fixpoint rcb_rec (fuel : nat) (sched : N -> nat -> stree) (D : nat) (k : nat)
           (its : list item) (iter_id : N) (a : nat) (sum : Z) (bb : box)
    : res (list (item * N)) :=
    match its with
    | [] => Ok []
    | _ :: _ =>
      match k with
      | O => Ok (map (fun it => (it, iter_id)) its)
      | S k' =>
        match nth_opt bb a, keys a its with
        | Some (mn, mx), Some xs =>
          bind (search fuel (sched iter_id) 0%nat xs sum mn mx None) (fun sr =>
          bind (match sr with
                | AllLeft pos => Ok (xs, [], sum, pos)
                | SplitAt i wl pos _ =>
                  bind (reorder_split xs i) (fun lr => Ok (fst lr, snd lr, wl, pos))
                end) (fun '(l, r, wl, pos) =>
          let a' := ((a + 1) mod D)%nat in
          bind (rcb_rec fuel sched D k' (map snd l) (2 * iter_id + 1)%N a' wl
                        (set_nth bb a (mn, pos))) (fun L =>
          bind (rcb_rec fuel sched D k' (map snd r) (2 * iter_id + 2)%N a' (sum - wl)
                        (set_nth bb a (pos, mx))) (fun R =>
          Ok (L ++ R)))))
        | _, _ => Panic 1
        end
      end
    end.

  (* the stores `part.store(iter_id)` through the permuted cell pointers.
     Panic 3: a cell index outside the partition array (never: cells are the
     caller's own array). *)
  Fixpoint scatter (p : list N) (asg : list (item * N)) : res (list N) :=
    match asg with
    | [] => Ok p
    | (it, id) :: t =>
      if Nat.ltb (ix it) (length p) then scatter (set_nth p (ix it) id) t else Panic 3
    end.

  (* the same stores through a binary-trie view of the array (O(n log n)
     instead of O(n^2); [scatter_fast = scatter]: Proofs/RcbProofs.v).  This is
     what [rcb_core] runs. *)
  Fixpoint fill (m : PositiveMap.t N) (asg : list (item * N)) : PositiveMap.t N :=
    match asg with
    | [] => m
    | (it, id) :: t => fill (PositiveMap.add (N.succ_pos (ixN it)) id m) t
    end.
  (* [j]: key of the first position of [p] *)
  Fixpoint readback (m : PositiveMap.t N) (j : positive) (p : list N) : list N :=
    match p with
    | [] => []
    | v :: t => match PositiveMap.find j m with Some w => w | None => v end :: readback m (Pos.succ j) t
    end.
  Definition scatter_fast (p : list N) (asg : list (item * N)) : res (list N) :=
    let n := N.of_nat (length p) in
    if forallb (fun x => (ixN (fst x) <? n)%N) asg
    then Ok (readback (fill (PositiveMap.empty N) asg) 1%positive p) else Panic 3.

  Fixpoint minN (d : N) (l : list N) : N :=
    match l with [] => d | x :: t => minN (N.min d x) t end.

  (* from `rcb_recurse(items, iter_count, 0, 0, tolerance, sum, bb)` to the end
     of `rcb`; Panic 4: `min().unwrap()` on an empty partition (unreachable:
     empty inputs return before) *)
  Definition rcb_core (fuel : nat) (sched : N -> nat -> stree) (D k : nat)
             (its : list item) (sum : Z) (bb : box) (p0 : list N) : res (list N) :=
    bind (rcb_rec fuel sched D k its 0%N 0%nat sum bb) (fun asg =>
    bind (scatter_fast p0 asg) (fun p =>
    match p with
    | [] => Panic 4
    | x :: t => let off := minN x t in Ok (map (fun i => (i - off)%N) p)
    end)).

  (* ================= specification vocabulary ================= *)

  (* C03 (DESIGN §13): items with their final ids *)
  Definition pitem := (list C * N)%type.
  Definition coord (a : nat) (x : pitem) : option C := nth_opt (fst x) a.
  Definition below (a : nat) (x y : pitem) : Prop :=
    exists cx cy, coord a x = Some cx /\ coord a y = Some cy /\ ltb cx cy = true.
  Definition same_id (its : list pitem) : Prop :=
    forall x y, In x its -> In y its -> snd x = snd y.
  Definition ids_disjoint (lo hi : list pitem) : Prop :=
    forall x y, In x lo -> In y hi -> snd x <> snd y.

  (* depth budget, axis, items *)
  Inductive BisectTree (D : nat) : nat -> nat -> list pitem -> Prop :=
  | bt_leaf d a its : same_id its -> BisectTree D d a its
  | bt_node d a lo hi :
      (forall x y, In x lo -> In y hi -> below a x y) ->
      ids_disjoint lo hi ->
      BisectTree D d ((a + 1) mod D)%nat lo -> BisectTree D d ((a + 1) mod D)%nat hi ->
      BisectTree D (S d) a (lo ++ hi).

  (* ---- certified checker for C03 ----
     [code] = id + offset is the path code of the leaf (k bits, first split =
     most significant bit, 0 = low side). *)
  Definition citem := (list C * N)%type.    (* coordinates, path code *)

  Fixpoint col (a : nat) (its : list citem) : option (list C) :=
    match its with
    | [] => Some []
    | it :: t =>
      match nth_opt (fst it) a, col a t with
      | Some c, Some r => Some (c :: r)
      | _, _ => None
      end
    end.
  Definition cmax (x : C) (l : list C) := fold_left (fun m y => if ltb m y then y else m) l x.
  Definition cmin (x : C) (l : list C) := fold_left (fun m y => if ltb y m then y else m) l x.

  (* every element of lo strictly below every element of hi *)
  Definition sep (lo hi : list C) : bool :=
    match lo, hi with
    | x :: lo', y :: hi' =>
      let M := cmax x lo' in let m := cmin y hi' in
      ltb M m && forallb (fun c => negb (ltb M c)) lo && forallb (fun c => negb (ltb c m)) hi
    | _, _ => true
    end.

  Fixpoint check_tree (D : nat) (d : nat) (a : nat) (its : list citem) : bool :=
    match d with
    | O => match its with [] => true | x :: t => forallb (fun y => (snd y =? snd x)%N) t end
    | S d' =>
      let lo := filter (fun it => negb (N.testbit (snd it) (N.of_nat d'))) its in
      let hi := filter (fun it => N.testbit (snd it) (N.of_nat d')) its in
      match col a lo, col a hi with
      | Some cl, Some ch =>
        sep cl ch && check_tree D d' ((a + 1) mod D)%nat lo && check_tree D d' ((a + 1) mod D)%nat hi
      | _, _ => false
      end
    end.

  Definition with_off (off : N) (pts : list (list C)) (ids : list N) : list citem :=
    combine pts (map (fun i => (i + off)%N) ids).

  (* [valid]: the coordinates on which ltb is a strict weak order (not NaN) *)
  Variable valid : C -> bool.

  Fixpoint try_offsets (n : nat) (off : N) (D k : nat) (pts : list (list C)) (ids : list N) : bool :=
    match n with
    | O => false
    | S n' =>
      let its := with_off off pts ids in
      (forallb (fun it => (snd it <? 2 ^ N.of_nat k)%N) its && check_tree D k 0%nat its)
      || try_offsets n' (off + 1)%N D k pts ids
    end.

  Definition check_bisect (D k : nat) (pts : list (list C)) (ids : list N) : bool :=
    Nat.eqb (length pts) (length ids)
    && forallb (fun p => Nat.eqb (length p) D && forallb valid p) pts
    && forallb (fun i => (i <? 2 ^ N.of_nat k)%N) ids
    && try_offsets (Nat.pow 2 k) 0%N D k pts ids.

  (* ---- C04: balance of one bisection ----
     [lo], [hi]: (axis coordinate, weight) of the two sides of a node.
     "Moving the cut past one more distinct coordinate value": past the
     coordinate value c of some point of the other side, together with every
     point of that side that is not beyond c.  For the SMALLEST value of the
     high side this adds exactly the group of points sharing that value (a
     group of total weight 0 still counts as a value); for non-negative
     weights the other values follow from it. *)
  Definition wsum (l : list (C * Z)) : Z := sumZ (map snd l).
  (* weight of the points of [hi] not above c / of [lo] not below c *)
  Definition upto (hi : list (C * Z)) (c : C) : Z := wsum (filter (fun q => negb (ltb c (fst q))) hi).
  Definition from (lo : list (C * Z)) (c : C) : Z := wsum (filter (fun q => negb (ltb (fst q) c)) lo).

  Definition balanced_or_bracket (lo hi : list (C * Z)) : Prop :=
    let wl := wsum lo in let tot := wsum lo + wsum hi in
    within_tol wl tot = true \/ 2 * wl = tot
    \/ (2 * wl < tot /\ forall y, In y hi -> 2 * (wl + upto hi (fst y)) >= tot)
    \/ (2 * wl > tot /\ forall x, In x lo -> 2 * (wl - from lo (fst x)) <= tot).

  (* the group at the smallest coordinate of hi / the largest of lo *)
  Definition first_group (hi : list (C * Z)) : Z :=
    match hi with [] => 0 | (y, _) :: t => upto hi (cmin y (map fst t)) end.
  Definition last_group (lo : list (C * Z)) : Z :=
    match lo with [] => 0 | (x, _) :: t => from lo (cmax x (map fst t)) end.

  Definition check_split (lo hi : list (C * Z)) : bool :=
    let wl := wsum lo in let tot := wsum lo + wsum hi in
    within_tol wl tot || (2 * wl =? tot)
    || ((2 * wl <? tot) && (2 * (wl + first_group hi) >=? tot))
    || ((2 * wl >? tot) && (2 * (wl - last_group lo) <=? tot)).

  (* C04 (DESIGN §13): the C03 tree whose every internal node is balanced.
     Items: coordinates, weight, id. *)
  Definition witem := (list C * Z * N)%type.
  Fixpoint axis_w (a : nat) (its : list witem) : option (list (C * Z)) :=
    match its with
    | [] => Some []
    | (cs, w, _) :: t =>
      match nth_opt cs a, axis_w a t with
      | Some c, Some r => Some ((c, w) :: r)
      | _, _ => None
      end
    end.
  Definition wp (x : witem) : pitem := (fst (fst x), snd x).

  Inductive BalTree (D : nat) : nat -> nat -> list witem -> Prop :=
  | bal_leaf d a its : same_id (map wp its) -> BalTree D d a its
  | bal_node d a lo hi cl ch :
      (forall x y, In x lo -> In y hi -> below a (wp x) (wp y)) ->
      ids_disjoint (map wp lo) (map wp hi) ->
      axis_w a lo = Some cl -> axis_w a hi = Some ch -> balanced_or_bracket cl ch ->
      BalTree D d ((a + 1) mod D)%nat lo -> BalTree D d ((a + 1) mod D)%nat hi ->
      BalTree D (S d) a (lo ++ hi).

  (* checker: the tree read off the path codes (as in check_tree), every
     node with a non-empty item set tested with check_split; weights must be
     non-negative *)
  Fixpoint check_nodes (D : nat) (d : nat) (a : nat) (its : list witem) : bool :=
    match d with
    | O => match its with [] => true | x :: t => forallb (fun y => (snd y =? snd x)%N) t end
    | S d' =>
      let lo := filter (fun it => negb (N.testbit (snd it) (N.of_nat d'))) its in
      let hi := filter (fun it => N.testbit (snd it) (N.of_nat d')) its in
      match axis_w a lo, axis_w a hi with
      | Some cl, Some ch =>
        sep (map fst cl) (map fst ch) && check_split cl ch
        && check_nodes D d' ((a + 1) mod D)%nat lo && check_nodes D d' ((a + 1) mod D)%nat hi
      | _, _ => false
      end
    end.

  Definition witems (off : N) (pts : list (list C)) (ws : list Z) (ids : list N) : list witem :=
    combine (combine pts ws) (map (fun i => (i + off)%N) ids).

  Fixpoint try_balance (n : nat) (off : N) (D k : nat) (pts : list (list C)) (ws : list Z) (ids : list N) : bool :=
    match n with
    | O => false
    | S n' =>
      let its := witems off pts ws ids in
      (forallb (fun it => (snd it <? 2 ^ N.of_nat k)%N) its && check_nodes D k 0%nat its)
      || try_balance n' (off + 1)%N D k pts ws ids
    end.

  (* some offset of the leaf numbering gives a bisection tree (C03) all of
     whose nodes are balanced *)
  Definition check_balance (D k : nat) (pts : list (list C)) (ws : list Z) (ids : list N) : bool :=
    Nat.eqb (length pts) (length ids) && Nat.eqb (length ws) (length ids)
    && forallb (fun p => Nat.eqb (length p) D && forallb valid p) pts
    && forallb (fun w => 0 <=? w) ws
    && forallb (fun i => (i <? 2 ^ N.of_nat k)%N) ids
    && try_balance (Nat.pow 2 k) 0%N D k pts ws ids.
End Generic.

Arguments mkitem {C}.
Arguments ixN {C}.
Arguments ix {C}.
Arguments co {C}.
Arguments wt {C}.
Arguments SplitAt {C}.
Arguments AllLeft {C}.

(* ================= the binary32 instance ================= *)

Definition f32_zero : spec_float := S754_zero false.
Definition f32_inf : spec_float := S754_infinity false.
(* [safe]: `min / 2.0 + max / 2.0`; otherwise `(min + max) / 2.0` *)
Definition f32_mid (safe : bool) (mn mx : spec_float) : spec_float :=
  if safe then f32_add (f32_div mn (f32_of_Z 2)) (f32_div mx (f32_of_Z 2))
  else f32_div (f32_add mn mx) (f32_of_Z 2).
Definition f32_valid (x : spec_float) : bool := negb (is_nan x).

(* `let ideal = sum.to_f64().unwrap() / 2.0; |(wl.to_f64() - ideal) / ideal| <= tolerance`
   (i64 -> f64 rounds to nearest) *)
Definition tol_test (tol : spec_float) (wl sum : Z) : bool :=
  let ideal := f64_div (f64_of_Z sum) (f64_of_Z 2) in
  fle (fabs (f64_div (f64_sub (f64_of_Z wl) ideal) ideal)) tol.

Definition item32 := item spec_float.

(* BoundingBox::from_points (geometry.rs l.33-78), sequential fold, in f64:
   starts from (f64::MAX, f64::MIN), `if *val < *min`, `if *max < *val`. *)
Definition f64_max_value : spec_float := f64_of_bits 9218868437227405311%N.
Definition f64_min_value : spec_float := f64_of_bits 18442240474082181119%N.
Fixpoint bbox_axis (mn mx : spec_float) (col : list spec_float) : spec_float * spec_float :=
  match col with
  | [] => (mn, mx)
  | v :: t => bbox_axis (if flt v mn then v else mn) (if flt mx v then v else mx) t
  end.
Fixpoint column (a : nat) (pts : list (list spec_float)) : option (list spec_float) :=
  match pts with
  | [] => Some []
  | p :: t => match nth_opt p a, column a t with Some c, Some r => Some (c :: r) | _, _ => None end
  end.
(* The f64 -> f32 conversion of a coordinate or of a box bound.  [clamp = true]:
   `(x as f32).clamp(f32::MIN, f32::MAX)` (finite f64 values beyond the binary32
   range do not become infinities; NaN stays NaN); [false]: plain `x as f32`
   (the code before the clamp fix, kept for the regression witnesses).
   f32::clamp: `if x < min { x = min } if x > max { x = max } x`. *)
Definition f32_max_value : spec_float := f32_of_bits 2139095039%N.
Definition f32_min_value : spec_float := f32_of_bits 4286578687%N.
Definition clamp32 (x : spec_float) : spec_float :=
  let x1 := if flt x f32_min_value then f32_min_value else x in
  if flt f32_max_value x1 then f32_max_value else x1.
Definition cast32 (clamp : bool) (x : spec_float) : spec_float :=
  if clamp then clamp32 (f64_to_f32 x) else f64_to_f32 x.

(* the box stays in f64 in the code and each bound is cast on use; child
   bounds are `split_pos as f64` of a finite or already clamped f32, on which
   the cast (clamped or not) is the identity, so only the root bounds are cast here *)
Fixpoint bbox32 (clamp : bool) (D : nat) (a : nat) (pts : list (list spec_float)) : option (box spec_float) :=
  match D with
  | O => Some []
  | S D' =>
    match column a pts, bbox32 clamp D' (S a) pts with
    | Some c, Some r =>
      let '(mn, mx) := bbox_axis f64_max_value f64_min_value c in
      Some ((cast32 clamp mn, cast32 clamp mx) :: r)
    | _, _ => None
    end
  end.

Fixpoint mk_items (clamp : bool) (i : N) (pts : list (list spec_float)) (ws : list Z) : list item32 :=
  match pts, ws with
  | p :: pt, w :: wt' => mkitem i (map (cast32 clamp) p) w :: mk_items clamp (N.succ i) pt wt'
  | _, _ => []
  end.

(* `rcb` (l.643-704) for f64 points given by their values and i64 weights.
   [pts]: the f64 coordinates (D per point). *)
Record variant := mkvariant { v_old : bool; v_by_coord : bool; v_probe_max : bool; v_safe_mid : bool;
                              v_clamp : bool }.

Definition rcb (v : variant) (fuel : nat) (sched : N -> nat -> stree) (D k : nat)
           (tol : spec_float) (pts : list (list spec_float)) (ws : list Z) (p0 : list N)
  : res (list N) :=
  if negb (Nat.eqb (length ws) (length p0)) then Err (InputLenMismatch (length p0) (length ws))
  else if negb (Nat.eqb (length pts) (length p0)) then Err (InputLenMismatch (length p0) (length pts))
  else
    match pts with
    | [] => Ok p0
    | _ =>
      match bbox32 (v_clamp v) D 0 pts with
      | None => Panic 1
      | Some bb =>
        rcb_core spec_float flt fle (f32_mid (v_safe_mid v)) f32_sub f32_add f32_zero f32_inf (tol_test tol)
                 (v_old v) (v_by_coord v) (v_probe_max v)
                 fuel sched D k (mk_items (v_clamp v) 0%N pts ws) (sumZ ws) bb p0
      end
    end.

Definition seq_sched : N -> nat -> stree := fun _ _ => SLeaf.

(* a finite binary32 value in canonical form (what the operations return) *)
Definition f32_fin (x : spec_float) : bool := valid_binary 24 128 x && is_finite x.

(* premise of the C04 theorem, decidable: the root box (f64 min/max, then
   `as f32`) has finite bounds that enclose the binary32 coordinates (true
   whenever `as f32` is monotone; evaluated on every generated case) *)
Fixpoint box_ok_from (a : nat) (bb : box spec_float) (its : list item32) : bool :=
  match bb with
  | [] => true
  | (mn, mx) :: t =>
    f32_fin mn && f32_fin mx
    && forallb (fun it => match nth_opt (co it) a with
                          | Some c => negb (flt c mn) && negb (flt mx c)
                          | None => true
                          end) its
    && box_ok_from (S a) t its
  end.
Definition box_ok32c (clamp : bool) (D : nat) (pts : list (list spec_float)) (ws : list Z) : bool :=
  match bbox32 clamp D 0 pts with
  | Some bb => box_ok_from 0 bb (mk_items clamp 0%N pts ws)
  | None => false
  end.
Definition box_ok32 := box_ok32c false.

(* one cut search on a single axis, judged by check_split on the two sides
   the reordering produces (regression witnesses, Proofs/RcbRegress.v) *)
Definition split_check (v : variant) (fuel : nat) (tol : spec_float) (xs : list (keyed spec_float))
           (mn mx : spec_float) : option bool :=
  let aw := map (fun x => (fst x, wt (snd x))) xs in
  let sum := sumZ (map snd aw) in
  match search spec_float flt fle (f32_mid (v_safe_mid v)) f32_sub f32_add f32_zero f32_inf (tol_test tol)
               (v_old v) (v_by_coord v) (v_probe_max v) fuel (fun _ => SLeaf) 0 xs sum mn mx None with
  | Ok (AllLeft _) => Some (check_split spec_float flt (tol_test tol) aw [])
  | Ok (SplitAt i _ _ _) =>
    match nth_opt xs i with
    | Some p => Some (check_split spec_float flt (tol_test tol)
                        (filter (fun q => flt (fst q) (fst p)) aw)
                        (filter (fun q => negb (flt (fst q) (fst p))) aw))
    | None => None
    end
  | _ => None
  end.

(* checkers at the instance *)
Definition check_bisect32 (D k : nat) (pts : list (list spec_float)) (ids : list N) : bool :=
  check_bisect spec_float flt f32_valid D k (map (map (cast32 true)) pts) ids.

Definition check_balance32 (D k : nat) (tol : spec_float) (pts : list (list spec_float))
           (ws : list Z) (ids : list N) : bool :=
  check_balance spec_float flt (tol_test tol) f32_valid D k (map (map (cast32 true)) pts) ws ids.

(* Model of tools/mesh-io: partition files (partition.rs), weight files
   (weight.rs).  The MEDIT part is in Model/Medit.v.
   Executable definitions only; proofs are in Proofs/FormatsProofs.v.

   A file / reader is a [list N] of bytes (each < 256; the encoders only
   produce such bytes, the decoders are defined on any list).  `read_exact`
   on a short input is [EIo] (UnexpectedEof).  Machine integers are unbounded
   [N]/[Z]; the casts the code performs (`as u64`, `as i64`, `as usize`) are
   the explicit two's-complement maps [to_bits]/[of_bits]. *)
From Coupe Require Import Lib.Prelude Gen.FormatsGen.
Open Scope N_scope.

(* The literals of the source (magic strings, version, flag bit, the 16-byte
   empty-array file, the largest accepted criterion count) are re-read from
   partition.rs / weight.rs on every run: Gen/FormatsGen.v. *)

(* ---- results ---- *)

Inductive ferr :=
| EBadHeader | EUnsupportedVersion | EIo            (* partition::Error / weight::Error *)
| EUnexpectedToken | EBadInteger | EBadFloat        (* medit::ParseError kinds (EIo shared) *)
| EUnknownFormat.                                   (* mesh_io::Error::UnknownFormat *)

(* panic sites: 1 Vec::with_capacity "capacity overflow"; 2 assert "Too many criterions";
   3 `x as usize - 1` on 0 (debug overflow check); 4 chunks_exact(0);
   5 str slice not on a char boundary; 6 `node + 1` overflow *)
Inductive fres (A : Type) :=
| FOk (a : A)
| FErr (e : ferr)
| FPanic (site : N)
| FOutOfFuel.
Arguments FOk {A} a.
Arguments FErr {A} e.
Arguments FPanic {A} site.
Arguments FOutOfFuel {A}.

Definition fbind {A B} (r : fres A) (f : A -> fres B) : fres B :=
  match r with
  | FOk a => f a
  | FErr e => FErr e
  | FPanic s => FPanic s
  | FOutOfFuel => FOutOfFuel
  end.

(* ---- little/big-endian codecs ---- *)

(* `uN::to_le_bytes` for N = 8*n bits (of the value reduced mod 2^(8n)) *)
Fixpoint le_enc (n : nat) (x : N) : list N :=
  match n with
  | O => []
  | S k => N.land x 255 :: le_enc k (N.shiftr x 8)     (* = x mod 256 :: le_enc k (x / 256) *)
  end.
(* `uN::from_le_bytes` *)
Fixpoint le_dec (l : list N) : N :=
  match l with
  | [] => 0
  | b :: t => b + 256 * le_dec t
  end.
Definition be_dec (l : list N) : N := le_dec (rev l).
Definition be_enc (n : nat) (x : N) : list N := rev (le_enc n x).

(* `z as uW` (two's complement) and `n as iW` for a W-bit pattern n *)
(* [Z.land z (2^w - 1)] = z mod 2^w, two's complement for negative z (FormatsProofs.to_bits_mod);
   written with bit operations because the boundary cases of the run evaluate it ~10^5 times *)
Definition to_bits (w : N) (z : Z) : N := Z.to_N (Z.land z (Z.ones (Z.of_N w))).
Definition of_bits (w : N) (n : N) : Z :=
  if n <? 2 ^ (w - 1) then Z.of_N n else (Z.of_N n - 2 ^ Z.of_N w)%Z.

Definition isize_max : N := 2 ^ 63 - 1.

(* `read_exact` of n bytes *)
Fixpoint take (n : nat) (s : list N) : option (list N * list N) :=
  match n with
  | O => Some ([], s)
  | S k =>
    match s with
    | [] => None
    | b :: t =>
      match take k t with
      | None => None
      | Some (h, r) => Some (b :: h, r)
      end
    end
  end.

Fixpoint bytes_eqb (a b : list N) : bool :=
  match a, b with
  | [], [] => true
  | x :: a', y :: b' => (x =? y) && bytes_eqb a' b'
  | _, _ => false
  end.

(* `for _ in 0..count { v.push(rd(r)?) }`: count comes from the file (any
   u64), so the loop runs on fuel; every reader consumes at least one byte,
   fuel = 1 + remaining bytes suffices (FormatsProofs.read_items_fuel). *)
Fixpoint read_items {A} (fuel : nat) (count : N) (rd : list N -> fres (A * list N)) (s : list N)
  : fres (list A * list N) :=
  if count =? 0 then FOk ([], s)
  else
    match fuel with
    | O => FOutOfFuel
    | S f =>
      match rd s with
      | FOk (x, s1) =>
        match read_items f (count - 1) rd s1 with
        | FOk (xs, s2) => FOk (x :: xs, s2)
        | FErr e => FErr e
        | FPanic p => FPanic p
        | FOutOfFuel => FOutOfFuel
        end
      | FErr e => FErr e
      | FPanic p => FPanic p
      | FOutOfFuel => FOutOfFuel
      end
    end.

Definition read_u64 (s : list N) : fres (N * list N) :=
  match take 8 s with
  | None => FErr EIo
  | Some (b, r) => FOk (le_dec b, r)
  end.

(* ---- partition file (partition.rs) ---- *)

(* partition::write: ids are usize, written `as u64` *)
Definition write_partition (ids : list N) : list N :=
  part_magic_write ++ le_enc 8 (N.of_nat (length ids)) ++ flat_map (le_enc 8) ids.

(* partition::read.  `Vec::<usize>::with_capacity(count)` panics with
   "capacity overflow" when 8*count > isize::MAX (below that bound a huge
   count is an allocation failure = process abort: not modelled). *)
Definition read_partition (s : list N) : fres (list N) :=
  match take 4 s with
  | None => FErr EIo
  | Some (h, s1) =>
    if negb (bytes_eqb h part_magic_read) then FErr EBadHeader
    else
      match take 8 s1 with
      | None => FErr EIo
      | Some (cb, s2) =>
        let count := le_dec cb in
        if isize_max <? 8 * count then FPanic 1
        else
          match read_items (S (length s2)) count read_u64 s2 with
          | FOk (ids, _) => FOk ids
          | FErr e => FErr e
          | FPanic p => FPanic p
          | FOutOfFuel => FOutOfFuel
          end
      end
  end.

(* ---- weight file (weight.rs) ---- *)

Definition w_version : N := weight_version.
Definition flag_integer : N := weight_flag_integer.

(* Array::Integers(Vec<Vec<i64>>) | Array::Floats(Vec<Vec<f64>>); floats are
   their bit patterns (f64::to_bits) *)
Inductive warray :=
| WInts (rows : list (list Z))
| WFloats (rows : list (list N)).

(* write_inner, generic in the 8-byte encoder of one value *)
Definition write_weights_inner {T} (flags : N) (enc : T -> list N) (rows : list (list T)) : fres (list N) :=
  match rows with
  | [] => FOk (weight_empty_file flags)
  | first :: _ =>
    let c := N.of_nat (length first) in
    if weight_max_criteria <? c then FPanic 2
    else FOk (weight_magic_write ++ [w_version; flags] ++ le_enc 2 c
              ++ le_enc 8 (N.of_nat (length rows))
              ++ flat_map (flat_map enc) rows)
  end.

Definition enc_i64 (z : Z) : list N := le_enc 8 (to_bits 64 z).   (* i64::to_le_bytes *)
Definition dec_i64 (b : list N) : Z := of_bits 64 (le_dec b).     (* i64::from_le_bytes *)
Definition enc_f64 (bits : N) : list N := le_enc 8 bits.          (* f64::to_le_bytes *)
Definition dec_f64 (b : list N) : N := le_dec b.                  (* f64::from_le_bytes *)

Definition write_integers (rows : list (list Z)) : fres (list N) :=
  write_weights_inner flag_integer enc_i64 rows.
Definition write_floats (rows : list (list N)) : fres (list N) :=
  write_weights_inner 0 enc_f64 rows.
Definition write_weights (a : warray) : fres (list N) :=
  match a with WInts r => write_integers r | WFloats r => write_floats r end.

(* `chunks_exact(8)` *)
Fixpoint chunks8 (l : list N) : list (list N) :=
  match l with
  | a :: b :: c :: d :: e :: f :: g :: h :: t => [a; b; c; d; e; f; g; h] :: chunks8 t
  | _ => []
  end.

(* one iteration of read_inner's loop: `vec![0; criterion_count*8]`, read_exact, chunks_exact(8) *)
Definition read_row {T} (c : N) (dec : list N -> T) (s : list N) : fres (list T * list N) :=
  match take (N.to_nat (c * 8)) s with
  | None => FErr EIo
  | Some (b, r) => FOk (map dec (chunks8 b), r)
  end.

(* read_inner; `Vec::<Vec<T>>::with_capacity(n)` (24-byte elements) *)
Definition read_weights_inner {T} (c : N) (dec : list N -> T) (s : list N) : fres (list (list T)) :=
  match take 8 s with
  | None => FErr EIo
  | Some (cb, s1) =>
    let wc := le_dec cb in
    if isize_max <? 24 * wc then FPanic 1
    else
      match read_items (S (length s1)) wc (read_row c dec) s1 with
      | FOk (rows, _) => FOk rows
      | FErr e => FErr e
      | FPanic p => FPanic p
      | FOutOfFuel => FOutOfFuel
      end
  end.

(* weight::read *)
Definition read_weights (s : list N) : fres warray :=
  match take 4 s with
  | None => FErr EIo
  | Some (h, s1) =>
    if negb (bytes_eqb h weight_magic_read) then FErr EBadHeader
    else
      match take 4 s1 with
      | Some ([version; fl; c0; c1], s2) =>
        if negb (version =? w_version) then FErr EUnsupportedVersion
        else
          let is_integer := negb (N.land fl flag_integer =? 0) in
          let c := le_dec [c0; c1] in
          if c =? 0 then FOk (WInts [])
          else if is_integer then
            match read_weights_inner c dec_i64 s2 with
            | FOk r => FOk (WInts r) | FErr e => FErr e | FPanic p => FPanic p | FOutOfFuel => FOutOfFuel
            end
          else
            match read_weights_inner c dec_f64 s2 with
            | FOk r => FOk (WFloats r) | FErr e => FErr e | FPanic p => FPanic p | FOutOfFuel => FOutOfFuel
            end
      | _ => FErr EIo
      end
  end.

(* ---- specification vocabulary ---- *)

Definition u64_ok (x : N) : Prop := x < 2 ^ 64.
Definition i64_ok (z : Z) : Prop := (- 2 ^ 63 <= z < 2 ^ 63)%Z.

(* a weight array the format can hold: rectangular, 1 <= criteria < 2^16;
   the row count bound is what any in-memory Vec<Vec<_>> satisfies *)
Definition wf_rows {T} (ok : T -> Prop) (rows : list (list T)) : Prop :=
  match rows with
  | [] => True
  | first :: _ =>
    1 <= N.of_nat (length first) < 65536
    /\ Forall (fun r => length r = length first /\ Forall ok r) rows
    /\ 24 * N.of_nat (length rows) <= isize_max
  end.

(* ---- boolean checkers used on the implementation's outputs ---- *)

Fixpoint leqb {T} (eqb : T -> T -> bool) (a b : list T) : bool :=
  match a, b with
  | [], [] => true
  | x :: a', y :: b' => eqb x y && leqb eqb a' b'
  | _, _ => false
  end.
Definition rows_eqb {T} (eqb : T -> T -> bool) : list (list T) -> list (list T) -> bool :=
  leqb (leqb eqb).

Definition warray_eqb (a b : warray) : bool :=
  match a, b with
  | WInts x, WInts y => rows_eqb Z.eqb x y
  | WFloats x, WFloats y => rows_eqb N.eqb x y
  | _, _ => false
  end.

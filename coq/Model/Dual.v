(* Model of tools/src/lib.rs: `dual`, `barycentres` (element count only) and
   `used_element_count`, over the mesh-io `Mesh` (tools/mesh-io/src/lib.rs).
   Executable definitions only; proofs are in Proofs/DualProofs.v.

   Element ids, node ids, offsets and lengths are indices: `nat` (the
   correspondence harness never writes a literal above a few thousand).
   Every panicking Rust operation is an explicit [Panic site]:
     20 chunks_exact(0) / division by zero (node_count() = 0)
     21 `e - item.start_idx` underflow in element_to_nodes (debug build)
     22 slice `item.nodes[e..e + npe]` out of range in element_to_nodes
     23 `unreachable!()` at the end of element_to_nodes
     24 `node_to_elements[*node]` / `mesh.node(idx)` out of range
     25 `indice_locks[e1]` out of range
     26 `CsMat::new`'s structure check (`unwrap` of new_checked)
     27 slice `indices[start..end]` out of range in the final copy

   The element tables ([etype], [et_dimension], [et_node_count]) and the
   clauses that differ between the three functions ([dual_drops_edges],
   [barycentres_drops_edges], [dual_threshold_is_le]) are read from the source
   by the translator (Gen/MeshTables.v).

   A `Mesh` is (node_count, topology); the per-element refs are not modelled:
   `Mesh::from_raw_parts` asserts `nodes.len() = refs.len() * node_count()`,
   so `chunks_exact(..).zip(refs)` yields exactly the chunks. *)
From Coupe Require Import Lib.Prelude Gen.MeshTables.
From Coq Require Import Sorting.Sorted.

Definition block := (etype * list nat)%type.
Record mesh := mkMesh { m_node_count : nat; m_topology : list block }.

Definition P_DIV0 : N := 20.
Definition P_UNDERFLOW : N := 21.
Definition P_SLICE : N := 22.
Definition P_UNREACHABLE : N := 23.
Definition P_NODE_OOB : N := 24.
Definition P_ROW_OOB : N := 25.
Definition P_CSMAT : N := 26.
Definition P_COPY : N := 27.

(* ---- sequencing of fallible steps, left to right as the iterators run ---- *)
Fixpoint mapM {A B} (f : A -> res B) (l : list A) : res (list B) :=
  match l with
  | [] => Ok []
  | x :: t => bind (f x) (fun y => bind (mapM f t) (fun ys => Ok (y :: ys)))
  end.

Fixpoint filterM {A} (f : A -> res bool) (l : list A) : res (list A) :=
  match l with
  | [] => Ok []
  | x :: t => bind (f x) (fun b => bind (filterM f t) (fun r => Ok (if b then x :: r else r)))
  end.

(* ---- `.map(|(el_type, _, _)| el_type.dimension()).max()` ---- *)
Definition max_dimension (topo : list block) : option nat :=
  match topo with
  | [] => None
  | _ => Some (fold_right Nat.max 0 (map (fun b : block => et_dimension (fst b)) topo))
  end.

(* ---- slice::chunks_exact: panics on 0, drops the remainder ---- *)
Fixpoint chunks_exact_aux {A} (fuel n : nat) (l : list A) : res (list (list A)) :=
  if length l <? n then Ok []
  else match fuel with
       | O => OutOfFuel
       | S f => bind (chunks_exact_aux f n (skipn n l)) (fun r => Ok (firstn n l :: r))
       end.
Definition chunks_exact {A} (n : nat) (l : list A) : res (list (list A)) :=
  match n with
  | O => Panic P_DIV0
  | _ => chunks_exact_aux (length l) n l
  end.

(* ---- Mesh::elements(): (type, nodes) of every element, in block order ---- *)
Definition mesh_elements (topo : list block) : res (list (etype * list nat)) :=
  bind (mapM (fun b : block =>
                bind (chunks_exact (et_node_count (fst b)) (snd b))
                     (fun cs => Ok (map (fun c => (fst b, c)) cs))) topo)
       (fun ls => Ok (concat ls)).

(* `el_type.dimension() != dimension || el_type == ElementType::Edge`; whether
   the second clause is present is read from the source for each function *)
Definition ignored (drop_edges : bool) (dim : nat) (t : etype) : bool :=
  negb (et_dimension t =? dim) || (drop_edges && etype_eqb t Edge).

(* `elements()` of `dual`: the kept elements, `enumerate()` = position *)
Definition dual_elements (dim : nat) (topo : list block) : res (list (list nat)) :=
  bind (mesh_elements topo)
       (fun els => Ok (map snd (filter (fun e => negb (ignored dual_drops_edges dim (fst e))) els))).

(* ---- ElementChunk and the `scan` that accumulates start offsets ---- *)
Record chunk := mkChunk { c_start : nat; c_npe : nat; c_nodes : list nat }.

Fixpoint topology_chunks (dim start : nat) (topo : list block) : res (list chunk) :=
  match topo with
  | [] => Ok []
  | (t, nodes) :: rest =>
    if ignored dual_drops_edges dim t then topology_chunks dim start rest
    else
      let npe := et_node_count t in
      if npe =? 0 then Panic P_DIV0
      else bind (topology_chunks dim (start + length nodes / npe) rest)
                (fun cs => Ok (mkChunk start npe nodes :: cs))
  end.

(* the closure `element_to_nodes` *)
Fixpoint element_to_nodes (cs : list chunk) (e : nat) : res (list nat) :=
  match cs with
  | [] => Panic P_UNREACHABLE
  | c :: rest =>
    if e <? c_start c then Panic P_UNDERFLOW
    else
      let off := (e - c_start c) * c_npe c in
      if off <? length (c_nodes c) then
        if off + c_npe c <=? length (c_nodes c)
        then Ok (firstn (c_npe c) (skipn off (c_nodes c)))
        else Panic P_SLICE
      else element_to_nodes rest e
  end.

(* ---- node -> elements index.  `binary_search(&e)` + `insert(idx, e)` on a
   sorted Vec: insert at the sorted position unless present (the vectors are
   strictly sorted at every step: Proofs/DualProofs.v, n2e_rows_sorted). *)
Fixpoint ins (e : nat) (l : list nat) : list nat :=
  match l with
  | [] => [e]
  | x :: t => if e <? x then e :: l else if e =? x then l else x :: ins e t
  end.

Fixpoint n2e_add (n2e : list (list nat)) (e : nat) (nodes : list nat) : res (list (list nat)) :=
  match nodes with
  | [] => Ok n2e
  | v :: t =>
    match nth_opt n2e v with
    | None => Panic P_NODE_OOB
    | Some l => n2e_add (set_nth n2e v (ins e l)) e t
    end
  end.

Fixpoint n2e_build (n2e : list (list nat)) (e : nat) (els : list (list nat)) : res (list (list nat)) :=
  match els with
  | [] => Ok n2e
  | nodes :: t => bind (n2e_add n2e e nodes) (fun n => n2e_build n (S e) t)
  end.

Definition node_to_elements (node_count : nat) (els : list (list nat)) : res (list (list nat)) :=
  n2e_build (repeat [] node_count) 0 els.

(* ---- one row: what the innermost rayon closure computes for (e1_nodes, e1) ---- *)
Definition count_common (a b : list nat) : nat :=
  length (filter (fun x => existsb (Nat.eqb x) b) a).

Definition threshold (dim c : nat) : bool :=
  if dual_threshold_is_le then dim <=? c else dim <? c.

Fixpoint insert_sorted (x : nat) (l : list nat) : list nat :=
  match l with
  | [] => [x]
  | y :: t => if x <=? y then x :: l else y :: insert_sorted x t
  end.
(* sort_unstable on usize: equal keys are indistinguishable, the result is unique *)
Definition sort_nat (l : list nat) : list nat := fold_right insert_sorted [] l.
(* Vec::dedup: drop consecutive repetitions *)
Fixpoint dedup (l : list nat) : list nat :=
  match l with
  | [] => []
  | x :: t => match t with
              | [] => [x]
              | y :: _ => if x =? y then dedup t else x :: dedup t
              end
  end.

(* the steps applied to the candidate list, in the order the closure writes them
   (read from the source: Gen/MeshTables.v, [dual_row_steps]) *)
Definition run_step (pred : nat -> res bool) (s : row_step) (l : list nat) : res (list nat) :=
  match s with
  | RFilter => filterM pred l
  | RSort => Ok (sort_nat l)
  | RDedup => Ok (dedup l)
  end.
Fixpoint run_steps (pred : nat -> res bool) (steps : list row_step) (l : list nat) : res (list nat) :=
  match steps with
  | [] => Ok l
  | s :: t => bind (run_step pred s l) (run_steps pred t)
  end.

Definition row_of (dim : nat) (n2e : list (list nat)) (cs : list chunk)
           (e1 : nat) (e1_nodes : list nat) : res (list nat) :=
  bind (mapM (fun v => match nth_opt n2e v with
                       | Some l => Ok l
                       | None => Panic P_NODE_OOB
                       end) e1_nodes)
       (fun ls =>
          run_steps (fun e2 =>
                       if e1 =? e2 then Ok false
                       else bind (element_to_nodes cs e2)
                                 (fun e2_nodes => Ok (threshold dim (count_common e1_nodes e2_nodes))))
                    dual_row_steps (concat ls)).

(* the writes `indice_locks[e1] = neighbors` issued for one chunk:
   `par_chunks_exact(npe).zip(start_idx..end_idx).for_each(..)` *)
Definition chunk_writes (dim : nat) (n2e : list (list nat)) (cs : list chunk) (c : chunk)
  : res (list (nat * list nat)) :=
  bind (chunks_exact (c_npe c) (c_nodes c))
       (fun els =>
          let cnt := length (c_nodes c) / c_npe c in
          mapM (fun p : list nat * nat => bind (row_of dim n2e cs (snd p) (fst p)) (fun r => Ok (snd p, r)))
               (combine els (seq (c_start c) cnt))).

Definition all_writes (dim : nat) (n2e : list (list nat)) (cs : list chunk)
  : res (list (nat * list nat)) :=
  bind (mapM (chunk_writes dim n2e cs) cs) (fun ws => Ok (concat ws)).

(* the raw-pointer writes, applied in the order given by the schedule *)
Fixpoint apply_writes (locks : list (list nat)) (ws : list (nat * list nat)) : res (list (list nat)) :=
  match ws with
  | [] => Ok locks
  | (e1, r) :: t =>
    if e1 <? length locks then apply_writes (set_nth locks e1 r) t else Panic P_ROW_OOB
  end.

(* ---- CSR assembly ---- *)
Fixpoint prefix_sums (acc : nat) (l : list nat) : list nat :=
  match l with
  | [] => []
  | x :: t => (acc + x) :: prefix_sums (acc + x) t
  end.

Definition ONE_BITS : N := 4607182418800017408.    (* 1.0f64.to_bits() *)

Record csr := mkCsr { g_rows : nat; g_cols : nat; g_indptr : list nat; g_indices : list nat; g_data : list N }.

(* CsMat::new -> new_checked -> check_compressed_structure, for usize indices *)
Fixpoint strictly_increasing (l : list nat) : bool :=
  match l with
  | [] => true
  | x :: t => match t with
              | [] => true
              | y :: _ => (x <? y) && strictly_increasing t
              end
  end.
Fixpoint split_rows (prev : nat) (ptrs : list nat) (idx : list nat) : option (list (list nat)) :=
  match ptrs with
  | [] => match idx with [] => Some [] | _ => None end
  | p :: t =>
    if p <? prev then None
    else if length idx <? p - prev then None
    else match split_rows p t (skipn (p - prev) idx) with
         | Some r => Some (firstn (p - prev) idx :: r)
         | None => None
         end
  end.
(* the rows of a CSR structure: indptr starts at 0, is monotone and ends at nnz *)
Definition csr_rows (indptr indices : list nat) : option (list (list nat)) :=
  match indptr with
  | 0 :: t => split_rows 0 t indices
  | _ => None
  end.
Definition csmat_valid (size : nat) (indptr indices : list nat) (data : list N) : bool :=
  (length data =? length indices) && (length indptr =? S size) &&
  match csr_rows indptr indices with
  | Some rows => forallb (fun r => strictly_increasing r && forallb (fun i => i <? size) r) rows
  | None => false
  end.

(* `indices[*start..*end]` <- neighbors: the slice bounds check, then
   `copy_nonoverlapping(src, dst, end - start)` *)
Definition copy_row (indices : list nat) (start stop : nat) (src : list nat) : res (list nat) :=
  if (stop <? start) || (length indices <? stop) then Panic P_COPY
  else Ok (firstn start indices ++ firstn (stop - start) src ++ skipn stop indices).

(* `indptr.par_iter().zip(&indptr[1..]).zip(indice_locks).for_each(..)`: one copy task
   (start, end, neighbors) per row, into pairwise-disjoint ranges *)
Definition copy_task := (nat * nat * list nat)%type.
Fixpoint copy_tasks (start : nat) (stops : list nat) (rows : list (list nat)) : list copy_task :=
  match stops, rows with
  | stop :: t, r :: rs => (start, stop, r) :: copy_tasks stop t rs
  | _, _ => []
  end.
Fixpoint run_copies (indices : list nat) (tasks : list copy_task) : res (list nat) :=
  match tasks with
  | [] => Ok indices
  | (start, stop, r) :: t => bind (copy_row indices start stop r) (fun i => run_copies i t)
  end.

(* [sched]: the order in which rayon performs the copies *)
Definition assemble_sched (sched : list copy_task -> list copy_task) (rows : list (list nat)) : res csr :=
  let stops := prefix_sums 0 (map (@length nat) rows) in
  let indptr := 0 :: stops in
  let size := length indptr - 1 in
  let total := last indptr 0 in                       (* indptr[indptr.len() - 1] *)
  bind (run_copies (repeat 0 total) (sched (copy_tasks 0 stops rows))) (fun indices =>
  let data := repeat ONE_BITS (length indices) in
  if csmat_valid size indptr indices data
  then Ok (mkCsr size size indptr indices data)
  else Panic P_CSMAT).

Definition empty_csr : csr := mkCsr 0 0 [0] [] [].     (* CsMat::empty(CSR, 0) *)

(* everything up to `indice_locks` filled, for an arbitrary order of the writes:
   [sched] permutes the list of writes (rayon's schedule) *)
Definition dual_rows_sched (sched : list (nat * list nat) -> list (nat * list nat))
           (dim : nat) (m : mesh) : res (list (list nat)) :=
  bind (topology_chunks dim 0 (m_topology m)) (fun cs =>
  bind (dual_elements dim (m_topology m)) (fun els =>
  bind (node_to_elements (m_node_count m) els) (fun n2e =>
  let el_count := fold_right Nat.add 0 (map (fun c => length (c_nodes c) / c_npe c) cs) in
  bind (all_writes dim n2e cs) (fun ws =>
  apply_writes (repeat [] el_count) (sched ws))))).

Definition dual_sched (sched : list (nat * list nat) -> list (nat * list nat))
           (sched2 : list copy_task -> list copy_task) (m : mesh) : res csr :=
  match max_dimension (m_topology m) with
  | None => Ok empty_csr
  | Some dim => bind (dual_rows_sched sched dim m) (assemble_sched sched2)
  end.

Definition dual_rows := dual_rows_sched (fun ws => ws).
Definition assemble := assemble_sched (fun ts => ts).
Definition dual := dual_sched (fun ws => ws) (fun ts => ts).

(* ---- barycentres: number of points returned ---- *)
Definition barycentre_count (m : mesh) : res nat :=
  match max_dimension (m_topology m) with
  | None => Ok 0
  | Some dim =>
    bind (mesh_elements (m_topology m)) (fun els =>
    bind (filterM (fun e : etype * list nat =>
                     if ignored barycentres_drops_edges dim (fst e) then Ok false
                     else if forallb (fun v => v <? m_node_count m) (snd e) then Ok true
                     else Panic P_NODE_OOB) els)
         (fun kept => Ok (length kept)))
  end.

(* ---- used_element_count ---- *)
Definition used_element_count (m : mesh) : res nat :=
  match max_dimension (m_topology m) with
  | None => Ok 0
  | Some dim =>
    bind (mapM (fun b : block =>
                  if ignored used_count_drops_edges dim (fst b) then Ok 0
                  else if et_node_count (fst b) =? 0 then Panic P_DIV0
                  else Ok (length (snd b) / et_node_count (fst b))) (m_topology m))
         (fun ns => Ok (fold_right Nat.add 0 ns))
  end.

(* ================= specification vocabulary ================= *)

(* the elements of one block, by position: element i = nodes[i*npe .. (i+1)*npe] *)
Definition block_elements (npe : nat) (nodes : list nat) : list (list nat) :=
  map (fun i => firstn npe (skipn (i * npe) nodes)) (seq 0 (length nodes / npe)).

(* the elements of dimension [dim], in block order *)
Definition spec_elements (dim : nat) (topo : list block) : list (list nat) :=
  flat_map (fun b : block =>
              if et_dimension (fst b) =? dim then block_elements (et_node_count (fst b)) (snd b)
              else []) topo.

(* number of nodes of [a] that are nodes of [b] *)
Definition shared (a b : list nat) : nat := count_common a b.

Definition adjacent (dim : nat) (els : list (list nat)) (e1 e2 : nat) : bool :=
  negb (e1 =? e2) && (dim <=? shared (nth e1 els []) (nth e2 els [])).

(* the dual graph by its definition: brute force over all pairs *)
Definition spec_rows (dim : nat) (els : list (list nat)) : list (list nat) :=
  map (fun e1 => filter (adjacent dim els e1) (seq 0 (length els))) (seq 0 (length els)).

(* row i of a CSR matrix, by the usual definition *)
Definition csr_row (g : csr) (i : nat) : list nat :=
  let a := nth i (g_indptr g) 0 in
  let b := nth (S i) (g_indptr g) 0 in
  firstn (b - a) (skipn a (g_indices g)).

(* the property, for a mesh of highest dimension [dim] whose elements of that
   dimension are [els]: what `dual` returned is the graph of the definition,
   and the two counts equal its number of vertices *)
Definition C18_holds (dim : nat) (els : list (list nat)) (g : csr) (nb nu : nat) : Prop :=
  let n := length els in
  g_rows g = n /\ g_cols g = n /\ length (g_indptr g) = S n
  /\ (exists rows, csr_rows (g_indptr g) (g_indices g) = Some rows /\ length rows = n
        /\ (forall e1, e1 < n -> csr_row g e1 = nth e1 rows [])
        /\ (forall e1, e1 < n -> StronglySorted lt (nth e1 rows []))
        /\ (forall e1 e2, e1 < n ->
              (In e2 (nth e1 rows []) <->
               e2 < n /\ e1 <> e2 /\ dim <= shared (nth e1 els []) (nth e2 els []))))
  /\ length (g_data g) = length (g_indices g) /\ Forall (eq ONE_BITS) (g_data g)
  /\ nb = n /\ nu = n.

(* usage contract (DESIGN §7 C18) *)
Definition blocks_ok (topo : list block) : bool :=
  forallb (fun b : block => (1 <=? et_node_count (fst b)) && (length (snd b) mod et_node_count (fst b) =? 0)) topo.
Definition nodes_in_range (node_count : nat) (topo : list block) : bool :=
  forallb (fun b : block => forallb (fun v => v <? node_count) (snd b)) topo.
Fixpoint nodupb (l : list nat) : bool :=
  match l with
  | [] => true
  | x :: t => negb (existsb (Nat.eqb x) t) && nodupb t
  end.
Definition wf_mesh (m : mesh) : bool :=
  match max_dimension (m_topology m) with
  | Some dim =>
    ((dim =? 2) || (dim =? 3)) && blocks_ok (m_topology m)
    && nodes_in_range (m_node_count m) (m_topology m)
    && forallb nodupb (spec_elements dim (m_topology m))
  | None => false
  end.

(* ---- certified checker (lemmas in Proofs/DualProofs.v) ---- *)
Fixpoint list_nat_eqb (a b : list nat) : bool :=
  match a, b with
  | [], [] => true
  | x :: a', y :: b' => (x =? y) && list_nat_eqb a' b'
  | _, _ => false
  end.
Fixpoint rows_eqb (a b : list (list nat)) : bool :=
  match a, b with
  | [], [] => true
  | x :: a', y :: b' => list_nat_eqb x y && rows_eqb a' b'
  | _, _ => false
  end.

(* [g]: the matrix returned by `dual`; [nb]: barycentres().len(); [nu]: used_element_count() *)
Definition check_C18 (m : mesh) (g : csr) (nb nu : nat) : bool :=
  match max_dimension (m_topology m) with
  | None => false
  | Some dim =>
    let els := spec_elements dim (m_topology m) in
    (g_rows g =? length els) && (g_cols g =? length els)
    && (length (g_indptr g) =? S (length els))
    && match csr_rows (g_indptr g) (g_indices g) with
       | Some rows => rows_eqb rows (spec_rows dim els)
       | None => false
       end
    && (length (g_data g) =? length (g_indices g)) && forallb (N.eqb ONE_BITS) (g_data g)
    && (nb =? length els) && (nu =? length els)
  end.

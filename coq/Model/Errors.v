(* C20 -- the guard prefix of every entry point, as data.

   Each `impl Partition<...> for X` of coupe starts with a sequence of guard
   statements (length checks, sign checks, early returns) before the first
   statement that can write the caller's partition array or start the
   algorithm proper.  The translator (tools/props_d/C20.py) reads that
   sequence from the CURRENT source, in source order, into one
   [list guard] per entry point (coq/Gen/GuardsGen.v).  This file gives the
   vocabulary and its meaning: [run_guards] interprets a guard list on the
   shape of an input and on the caller's partition array.  Definitions only;
   the lemmas are in Proofs/ErrorsProofs.v. *)
From Coupe Require Import Lib.Prelude.

(* ------------------------------------------------------------------ inputs *)

(* the inputs of an entry point other than the partition array *)
Inductive input_id := InWeights | InPoints | InAdjacency.

Definition input_eqb (a b : input_id) : bool :=
  match a, b with
  | InWeights, InWeights | InPoints, InPoints | InAdjacency, InAdjacency => true
  | _, _ => false
  end.

(* `x.len()` for x the partition array or one of the other inputs *)
Inductive len_expr := LPartition | LInput (i : input_id).

(* where a part count comes from: the algorithm's `part_count` field, or
   `1 + max(part_ids)` computed from the caller's array *)
Inductive pc_src := PcParam | PcMaxId.

(* what the guards look at in a weight *)
Inductive wsign := WNeg | WZero | WPos.

(* Everything the guards can observe of a call, except the partition array
   itself (which is passed separately because guards may write it). *)
Record input_shape := mk_shape {
  sh_wsigns : list wsign;    (* one entry per weight: its length is weights.len() *)
  sh_points : nat;           (* points.len() *)
  sh_adj : nat;              (* adjacency.len() *)
  sh_part_count : N;         (* the `part_count` field of the algorithm *)
  sh_order : N               (* the `order` field (HilbertCurve) *)
}.

(* ------------------------------------------------------------------ guards *)

(* conditions of the early `return Ok(..)` statements *)
Inductive cond :=
| CEmpty (l : len_expr)          (* x.is_empty() *)
| CLenLt2 (l : len_expr)         (* x.len() < 2 *)
| CPartCountLt2 (s : pc_src)     (* part_count < 2 *)
| CAllZero                       (* every weight is zero *)
| COr (a b : cond).              (* a || b *)

Inductive guard :=
(* if which.len() != partition.len() { return Err(InputLenMismatch { expected, actual }) } *)
| GLenMismatch (which : input_id) (expected actual : len_expr)
(* if c { return Ok(..) }                              -- nothing written *)
| GEarlyOk (c : cond)
(* if c { partition.fill(0); return Ok(..) }           -- WRITES *)
| GFillOk (c : cond)
(* if 1 < max(part_ids) { return Err(BiPartitioningOnly) } *)
| GBipartOnly
(* if weights.any(|w| w < 0) { return Err(NegativeValues) } *)
| GNegative
(* if self.order > max { return Err(InvalidOrder { max, actual: self.order }) } *)
| GInvalidOrder (max : N)
(* let part_count = 1 + max(part_ids) -- overflows (panics in a debug build) when an id is usize::MAX *)
| GPartCountMaxId
(* first statement that is not a recognised guard and may touch the partition: the algorithm proper *)
| GCompute
(* the translator did not understand the entry point (reason in Gen/GuardsGen.v): nothing is
   known from here on, no theorem can be proved about the list *)
| GUntranslated.

Inductive outcome :=
| OErr (e : error)      (* returned Err(e) *)
| OEarlyOk              (* returned Ok before the algorithm proper *)
| OProceed              (* all guards passed: the algorithm proper starts *)
| OPanic (site : N).    (* 1 = `1 + max(part_ids)` overflows *)

(* --------------------------------------------------------------- semantics *)

Definition usize_max : N := 18446744073709551615.

Definition max_id (p : list N) : N := fold_right N.max 0%N p.

Definition len_of (sh : input_shape) (p : list N) (l : len_expr) : nat :=
  match l with
  | LPartition => length p
  | LInput InWeights => length (sh_wsigns sh)
  | LInput InPoints => sh_points sh
  | LInput InAdjacency => sh_adj sh
  end.

Definition is_neg (s : wsign) : bool := match s with WNeg => true | _ => false end.
Definition is_zero (s : wsign) : bool := match s with WZero => true | _ => false end.
Definition has_neg (sh : input_shape) : bool := existsb is_neg (sh_wsigns sh).

Definition part_count_of (sh : input_shape) (p : list N) (s : pc_src) : N :=
  match s with
  | PcParam => sh_part_count sh
  | PcMaxId => (1 + max_id p)%N
  end.

Fixpoint eval_cond (c : cond) (sh : input_shape) (p : list N) : bool :=
  match c with
  | CEmpty l => Nat.eqb (len_of sh p l) 0
  | CLenLt2 l => Nat.ltb (len_of sh p l) 2
  | CPartCountLt2 s => (part_count_of sh p s <? 2)%N
  | CAllZero => forallb is_zero (sh_wsigns sh)
  | COr a b => eval_cond a sh p || eval_cond b sh p
  end.

(* one guard: [None] = falls through to the next statement *)
Definition step (g : guard) (sh : input_shape) (p : list N) : option (outcome * list N) :=
  match g with
  | GLenMismatch w e a =>
    if Nat.eqb (len_of sh p (LInput w)) (length p) then None
    else Some (OErr (InputLenMismatch (len_of sh p e) (len_of sh p a)), p)
  | GEarlyOk c => if eval_cond c sh p then Some (OEarlyOk, p) else None
  | GFillOk c => if eval_cond c sh p then Some (OEarlyOk, map (fun _ => 0%N) p) else None
  | GBipartOnly => if (1 <? max_id p)%N then Some (OErr BiPartitioningOnly, p) else None
  | GNegative => if has_neg sh then Some (OErr NegativeValues, p) else None
  | GInvalidOrder mx => if (mx <? sh_order sh)%N then Some (OErr (InvalidOrder mx (sh_order sh)), p) else None
  | GPartCountMaxId => if (max_id p =? usize_max)%N then Some (OPanic 1, p) else None
  | GCompute | GUntranslated => Some (OProceed, p)
  end.

(* the guard prefix of an entry point, run on a call *)
Fixpoint run_guards (gs : list guard) (sh : input_shape) (p : list N) : outcome * list N :=
  match gs with
  | [] => (OProceed, p)
  | g :: rest =>
    match step g sh p with
    | Some r => r
    | None => run_guards rest sh p
    end
  end.

(* ------------------------------------------- static analysis of a guard list
   Boolean functions on guard lists that decide, without running them, that a
   contract violation is reported.  Their soundness lemmas (Proofs/
   ErrorsProofs.v) turn `analysis gs = true` into a theorem about
   [run_guards gs] on every input; the property theorems are instances at the
   GENERATED lists. *)

(* facts assumed of the call *)
Record facts := mk_facts {
  f_eq : list input_id;        (* inputs whose length equals the partition's *)
  f_part_nonempty : bool;      (* the partition array is not empty *)
  f_points_nonempty : bool;    (* there is at least one point *)
  f_ids_ok : bool;             (* no part id equals usize::MAX *)
  f_two_parts : bool;          (* every part id is 0 or 1 *)
  f_nonneg : bool              (* no weight is negative *)
}.

Definition no_facts : facts := mk_facts [] false false false false false.

Definition mem_input (w : input_id) (l : list input_id) : bool := existsb (input_eqb w) l.

Definition add_eq (w : input_id) (f : facts) : facts :=
  mk_facts (w :: f_eq f) (f_part_nonempty f) (f_points_nonempty f) (f_ids_ok f) (f_two_parts f) (f_nonneg f).

(* the condition is certainly false under the facts *)
Fixpoint cond_refuted (f : facts) (c : cond) : bool :=
  match c with
  | CEmpty LPartition => f_part_nonempty f
  | CEmpty (LInput InPoints) => f_points_nonempty f || (f_part_nonempty f && mem_input InPoints (f_eq f))
  | CEmpty (LInput w) => f_part_nonempty f && mem_input w (f_eq f)
  | COr a b => cond_refuted f a && cond_refuted f b
  | _ => false
  end.

(* the guard certainly falls through under the facts *)
Definition guard_passes (f : facts) (g : guard) : bool :=
  match g with
  | GLenMismatch w _ _ => mem_input w (f_eq f)
  | GEarlyOk c | GFillOk c => cond_refuted f c
  | GBipartOnly => f_two_parts f
  | GNegative => f_nonneg f
  | GPartCountMaxId => f_ids_ok f
  | GInvalidOrder _ | GCompute | GUntranslated => false
  end.

Definition subset_inputs (a b : list input_id) : bool := forallb (fun w => mem_input w b) a.

(* "some input of [need] has a length different from the partition's  ==>
   an InputLenMismatch is returned":  every guard met before all of [need]
   have been compared with the partition length is either such a comparison
   or falls through under the facts. *)
Fixpoint reports_mismatch (need : list input_id) (f : facts) (gs : list guard) : bool :=
  if subset_inputs need (f_eq f) then true
  else match gs with
       | [] => false
       | GLenMismatch w _ _ :: rest => reports_mismatch need (add_eq w f) rest
       | g :: rest => guard_passes f g && reports_mismatch need f rest
       end.

Definition guard_eqb (a b : guard) : bool :=
  match a, b with
  | GBipartOnly, GBipartOnly => true
  | GNegative, GNegative => true
  | GInvalidOrder m, GInvalidOrder m' => (m =? m')%N
  | _, _ => false
  end.

(* the guard [target] is reached: everything before it falls through under the facts *)
Fixpoint reaches (target : guard) (f : facts) (gs : list guard) : bool :=
  match gs with
  | [] => false
  | g :: rest => if guard_eqb g target then true else guard_passes f g && reaches target f rest
  end.

(* ------------------------------------------------------- the property, as a
   boolean checker on what the implementation did (used by Run/RunC20.v on
   every case; independent of the guard lists). *)

(* entry points: 0 Rcb | 1 Rib | 2 Greedy | 3 KarmarkarKarp | 4 CompleteKarmarkarKarp | 5 VnBest
   | 6 VnFirst | 7 FiducciaMattheyses | 8 ArcSwap | 9 HilbertCurve 2-D | 10 HilbertCurve 3-D *)
Definition inputs_of (alg : N) : list input_id :=
  match alg with
  | 0 | 1 => [InWeights; InPoints]
  | 2 | 3 | 4 | 5 | 6 => [InWeights]
  | 7 | 8 => [InWeights; InAdjacency]
  | _ => []                          (* HilbertCurve does not return coupe::Error: no length clause *)
  end%N.

Definition spec_max_order (alg : N) : option N :=
  match alg with 9 => Some 32 | 10 => Some 21 | _ => None end%N.

Definition mismatched (alg : N) (sh : input_shape) (p : list N) : bool :=
  existsb (fun w => negb (Nat.eqb (len_of sh p (LInput w)) (length p))) (inputs_of alg).
Definition too_many_parts (alg : N) (p : list N) : bool := (alg =? 7)%N && (1 <? max_id p)%N.
Definition negative_weight (alg : N) (sh : input_shape) : bool := (alg =? 5)%N && has_neg sh.
Definition order_too_high (alg : N) (sh : input_shape) : bool :=
  match spec_max_order alg with Some mx => (mx <? sh_order sh)%N | None => false end.

Fixpoint ids_eqb (a b : list N) : bool :=
  match a, b with
  | [], [] => true
  | x :: a', y :: b' => (x =? y)%N && ids_eqb a' b'
  | _, _ => false
  end.

(* some clause of the property applies to this call *)
Definition violation (alg : N) (sh : input_shape) (p : list N) : bool :=
  mismatched alg sh p || too_many_parts alg p || negative_weight alg sh || order_too_high alg sh.

(* [code a b] = the error the implementation returned (Lib/Report.v numbering:
   1 InputLenMismatch a b | 2 NegativeValues | 3 BiPartitioningOnly | 4 InvalidOrder a b),
   [after] = the caller's array after the call.  When several violations are
   present, any of the promised errors is accepted; the fields of
   InputLenMismatch are not constrained (the property does not fix them). *)
Definition err_justified (alg : N) (sh : input_shape) (p0 : list N) (code a b : N) : bool :=
  ((code =? 1)%N && mismatched alg sh p0)
  || ((code =? 3)%N && too_many_parts alg p0)
  || ((code =? 2)%N && negative_weight alg sh)
  || ((code =? 4)%N && order_too_high alg sh
      && match spec_max_order alg with Some mx => (a =? mx)%N | None => false end && (b =? sh_order sh)%N).

Definition check_C20_err (alg : N) (sh : input_shape) (p0 : list N) (code a b : N) (after : list N) : bool :=
  err_justified alg sh p0 code a b && ids_eqb after p0.

(* What the harness observed of a call, and the whole property as a checker on
   it, computed from the INPUT SHAPE alone (never from a guard list): when a
   clause of the property applies, the only acceptable observation is an error
   promised by an applicable clause, with the array as it was.  Ok, any other
   error, a panic, a hang or a modified array are rejections. *)
Inductive observed := ObsOk | ObsErr (code a b : N) | ObsPanic | ObsHang.

Definition check_C20 (alg : N) (sh : input_shape) (p0 : list N) (obs : observed) (after : list N) : bool :=
  if violation alg sh p0 then
    match obs with
    | ObsErr code a b => check_C20_err alg sh p0 code a b after
    | _ => false
    end
  else true.

(* ------------------------------------------------ compact encodings (large calls)
   The harness writes a call on thousands of elements as run-length encoded
   lists plus the positions at which the caller's array changed; Run/RunC20.v
   [big20] rebuilds the plain lists with the two functions below and judges
   them exactly like a small call. *)

(* [(x1, n1); (x2, n2); ...]  =  n1 copies of x1, then n2 copies of x2, ... *)
Definition of_runs {A} (rs : list (A * N)) : list A :=
  flat_map (fun r => repeat (fst r) (N.to_nat (snd r))) rs.

(* [l] with the value at every listed position replaced: [ds] = (position, new
   value), positions ascending, counted from [i] at the head of [l].  An entry
   that is never reached (position out of range or out of order) is APPENDED,
   so that it can never be dropped silently: the result then differs from any
   array of the original length. *)
Fixpoint patch_ids (l : list N) (i : N) (ds : list (N * N)) : list N :=
  match l with
  | [] => map snd ds
  | x :: t =>
    match ds with
    | [] => x :: patch_ids t (i + 1) []
    | (j, v) :: ds' =>
      if (i =? j)%N then v :: patch_ids t (i + 1) ds' else x :: patch_ids t (i + 1) ds
    end
  end.

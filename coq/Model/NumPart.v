(* Vocabulary shared by the number-partitioning models (Greedy, KarmarkarKarp,
   VnBest, VnFirst): (weight, index) items and their Rust tuple order, the
   unique ascending/descending sort of items with distinct indices, part
   loads, maximum / minimum / gap of a load vector, sorting of plain numbers
   (specification side), and a loop combinator on binary fuel.
   Executable definitions only; lemmas are in Proofs/NumPartLemmas.v. *)
From Coupe Require Import Lib.Prelude.
Open Scope Z_scope.

Definition item := (Z * nat)%type.

(* `a < b` on Rust tuples (weight, id): strict lexicographic order *)
Definition ltb_item (a b : item) : bool :=
  (fst a <? fst b) || ((fst a =? fst b) && (Nat.ltb (snd a) (snd b))).

(* Insertion into a list kept in DESCENDING tuple order (head = largest).
   With pairwise distinct ids the tuple order is strict and total, so any
   correct sort / heap yields exactly this list. *)
Fixpoint insert_desc (e : item) (l : list item) : list item :=
  match l with
  | [] => [e]
  | x :: t => if ltb_item x e then e :: l else x :: insert_desc e t
  end.
Definition sort_items_desc (l : list item) : list item := fold_right insert_desc [] l.

(* `weights.into_iter().zip(0..)` *)
Definition items_of (ws : list Z) : list item := combine ws (seq 0 (length ws)).

(* ---- specification side: plain numbers ---- *)

(* insertion into a non-increasing list of numbers *)
Fixpoint insertZ (w : Z) (l : list Z) : list Z :=
  match l with
  | [] => [w]
  | x :: t => if x <? w then w :: l else x :: insertZ w t
  end.
Definition sortZ_desc (l : list Z) : list Z := fold_right insertZ [] l.

(* weight of part [b] *)
Fixpoint load (ws : list Z) (p : list N) (b : N) : Z :=
  match ws, p with
  | w :: ws', x :: p' => (if (x =? b)%N then w else 0) + load ws' p' b
  | _, _ => 0
  end.
(* loads of parts 0 .. k-1 *)
Definition loads (ws : list Z) (p : list N) (k : nat) : list Z :=
  map (fun q => load ws p (N.of_nat q)) (seq 0 k).

(* maximum / minimum of a list (0 for the empty list; only used on non-empty lists) *)
Fixpoint maxl (l : list Z) : Z :=
  match l with
  | [] => 0
  | [x] => x
  | x :: t => Z.max x (maxl t)
  end.
Fixpoint minl (l : list Z) : Z :=
  match l with
  | [] => 0
  | [x] => x
  | x :: t => Z.min x (minl t)
  end.
Definition gap (l : list Z) : Z := maxl l - minl l.

(* ---- positions of extreme elements ---- *)

(* `Iterator::min_by` is `reduce(|x, y| match cmp(x, y) { Greater => y, _ => x })`;
   `partial_cmp x y` is Less iff x < y, otherwise Greater: the accumulator is
   kept only when it is strictly smaller. *)
Fixpoint argmin_last_aux (bi : nat) (bv : Z) (i : nat) (l : list Z) : nat :=
  match l with
  | [] => bi
  | y :: t => if bv <? y then argmin_last_aux bi bv (S i) t else argmin_last_aux i y (S i) t
  end.
Definition argmin_last (l : list Z) : option nat :=
  match l with
  | [] => None
  | x :: t => Some (argmin_last_aux 0 x 1 t)
  end.

(* position of the FIRST minimum *)
Fixpoint argmin_first_aux (bi : nat) (bv : Z) (i : nat) (l : list Z) : nat :=
  match l with
  | [] => bi
  | y :: t => if y <? bv then argmin_first_aux i y (S i) t else argmin_first_aux bi bv (S i) t
  end.
Definition argmin_first (l : list Z) : nat :=
  match l with
  | [] => O
  | x :: t => argmin_first_aux 0 x 1 t
  end.
(* position of the LAST maximum *)
Fixpoint argmax_last_aux (bi : nat) (bv : Z) (i : nat) (l : list Z) : nat :=
  match l with
  | [] => bi
  | y :: t => if y <? bv then argmax_last_aux bi bv (S i) t else argmax_last_aux i y (S i) t
  end.

(* largest part id of a partition array (`part_ids.par_iter().max().unwrap_or(&0)`) *)
Definition maxN (p : list N) : N := fold_right N.max 0%N p.

Fixpoint list_Zeqb (a b : list Z) : bool :=
  match a, b with
  | [], [] => true
  | x :: a', y :: b' => (x =? y) && list_Zeqb a' b'
  | _, _ => false
  end.
(* same multiset of numbers *)
Definition same_multiset (a b : list Z) : bool := list_Zeqb (sortZ_desc a) (sortZ_desc b).

(* every id is below the part count *)
Definition ids_below (k : nat) (p : list N) : bool := forallb (fun x => (x <? N.of_nat k)%N) p.

(* ---- loops on binary fuel ----
   [iter_pos n step s] runs [step] on the state until it answers [inr] (the
   loop's result), at most [n] times; [inl s'] left over = out of fuel.
   Structural on the binary numeral, so a fuel of 2^64 costs nothing until it
   is used; Proofs/NumPartLemmas.v relates it to the unary version. *)
Section Iter.
  Context {St R : Type} (step : St -> St + R).
  Fixpoint iter_pos (n : positive) (s : St) : St + R :=
    match n with
    | xH => step s
    | xO n' => match iter_pos n' s with inl s' => iter_pos n' s' | inr r => inr r end
    | xI n' =>
      match step s with
      | inl s1 => match iter_pos n' s1 with inl s' => iter_pos n' s' | inr r => inr r end
      | inr r => inr r
      end
    end.
  Fixpoint iter_nat (n : nat) (s : St) : St + R :=
    match n with
    | O => inl s
    | S n' => match step s with inl s' => iter_nat n' s' | inr r => inr r end
    end.
End Iter.

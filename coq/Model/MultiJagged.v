(* Model of src/algorithms/multi_jagged.rs (MultiJagged) and of
   recursive_bisection::axis_sort as used by it.
   Executable definitions only; proofs are in Proofs/MultiJaggedProofs.v.

   What is NOT computed here but enters as an oracle (DESIGN §3, §6):
   - [root]   : `(num_parts as f32).powf(1. / max_iter as f32).ceil() as usize`
                (libm powf is not modelled; the run takes the roots the
                implementation's own scheme reveals);
   - [sorter] : `par_sort_unstable_by` on the coordinate (ties unspecified);
   - [blk]    : rayon's decomposition of the slab into `fold_with` blocks;
   - [ord]    : the order in which the leaves draw their number from the
                atomic counter (`fetch_add`), i.e. the rayon schedule.
   The arithmetic on weights is a parameter ([arith]): IEEE binary64 for the
   execution against the implementation, exact rationals for the balance
   theorem ("exact threshold arithmetic").

   Panic sites: 1 weights[idx] out of bounds | 2 points[idx] out of bounds (sort
   comparator) | 3 modifiers.split_last().unwrap() | 4 ret[ret.len() - 1] on an
   empty ret | 5 `*pos - drained_count` underflows | 6 split_at_mut past the end
   | 7 partition_scheme.next.unwrap() | 8 raw write outside the partition array
   (undefined behaviour in Rust) | 9 `% D` with D = 0 | 10 `% approx_root` with
   approx_root = 0 | 11 `max_iter - 1` underflows | 12 capacity overflow when
   collecting the modifiers. *)
From Coupe Require Import Lib.Prelude Lib.SFloat.
From Coq Require Import Floats.SpecFloat QArith.
Local Open Scope N_scope.

Notation "x <- e ;; f" := (bind e (fun x => f)) (at level 61, e at next level, right associativity).

(* ------------------------------------------------------------------ numbers *)

Record arith := mkArith {
  num : Type;
  a_zero : num;
  a_add : num -> num -> num;
  a_mul : num -> num -> num;
  a_div : num -> num -> num;
  a_ofN : N -> num;                 (* `x as f64` for x : usize *)
  a_lt : num -> num -> bool;        (* a < b *)
  a_ulps : num -> num -> bool       (* approx::Ulps::default().eq(&a, &b) *)
}.

(* approx 0.5.1, impl_ulps_eq!(f64, u64), `Ulps::default().epsilon(eps).eq(&a, &b)`
   (max_ulps = 4):
     if (a - b).abs() <= eps { return true }
     if a.signum() != b.signum() { return false }        // NaN.signum() = NaN != NaN
     |a.to_bits() - b.to_bits()| <= 4
   Since 70b7d46 the code passes eps = 0.0 (equal values only, then ULPs); before
   it used the default eps = f64::EPSILON = 2^-52, an ABSOLUTE tolerance. *)
Definition f64_epsilon : spec_float := f64_of_bits 4372995238176751616%N.   (* 2^-52 *)
Definition sign_of (x : spec_float) : option bool :=
  match x with
  | S754_zero s | S754_infinity s | S754_finite s _ _ => Some s
  | S754_nan => None
  end.
Definition f64_ulps_eq (eps a b : spec_float) : bool :=
  if fle (fabs (f64_sub a b)) eps then true
  else match sign_of a, sign_of b with
       | Some sa, Some sb =>
           if Bool.eqb sa sb
           then (Z.abs (Z.of_N (f64_to_bits a) - Z.of_N (f64_to_bits b)) <=? 4)%Z
           else false
       | _, _ => false
       end.

Definition F64eps (eps : spec_float) : arith :=
  {| num := spec_float; a_zero := f64_of_Z 0; a_add := f64_add; a_mul := f64_mul; a_div := f64_div;
     a_ofN := fun n => f64_of_Z (Z.of_N n); a_lt := flt; a_ulps := f64_ulps_eq eps |}.
(* the code as it is: epsilon(0.0) *)
Definition F64 : arith := F64eps (f64_of_Z 0).
(* the comparison before 70b7d46 (regression witness C11_balance_f64_refuted_tiny) *)
Definition F64_default_epsilon : arith := F64eps f64_epsilon.

(* exact arithmetic: what the code computes when no operation rounds *)
Definition QA : arith :=
  {| num := Q; a_zero := 0%Q; a_add := Qplus; a_mul := Qmult; a_div := Qdiv;
     a_ofN := fun n => inject_Z (Z.of_N n); a_lt := fun a b => negb (Qle_bool b a); a_ulps := Qeq_bool |}.

(* the same exact arithmetic on normalised fractions (Qred after each operation):
   equal values, small numerators; used to EXECUTE the exact model in the runs *)
Definition QAred : arith :=
  {| num := Q; a_zero := 0%Q; a_add := fun a b => Qred (Qplus a b); a_mul := fun a b => Qred (Qmult a b);
     a_div := fun a b => Qred (Qdiv a b);
     a_ofN := fun n => inject_Z (Z.of_N n); a_lt := fun a b => negb (Qle_bool b a); a_ulps := Qeq_bool |}.

(* ------------------------------------------------------------------ scheme *)

Inductive scheme (B : Type) : Type :=
| SNode (num_splits : N) (modifiers : list B) (next : option (list (scheme B))).
Arguments SNode {B} num_splits modifiers next.

Definition sch_splits {B} (s : scheme B) : N := match s with SNode ns _ _ => ns end.

(* number of leaves as multi_jagged_recurse sees them: a node with
   num_splits = 0 is a leaf whatever its `next` *)
Fixpoint leaves {B} (s : scheme B) : nat :=
  match s with
  | SNode ns _ next =>
    if ns =? 0 then 1%nat
    else match next with
         | None => 0%nat
         | Some cs => (fix sum (l : list (scheme B)) : nat :=
                         match l with [] => 0%nat | c :: t => (leaves c + sum t)%nat end) cs
         end
  end.

Section Scheme.
  Variable A : arith.
  (* approx_root as a function of (num_parts, max_iter) *)
  Variable root : N -> nat -> N.

  (* compute_modifiers *)
  Definition compute_modifiers (nreg nfat sreg sfat : N) : list (num A) :=
    let total := nreg * sreg + nfat * sfat in
    repeat (a_div A (a_ofN A sfat) (a_ofN A total)) (N.to_nat nfat)
    ++ repeat (a_div A (a_ofN A sreg) (a_ofN A total)) (N.to_nat nreg).

  (* partition_scheme.  The `rem` fat children are all equal (pure function of
     (quotient + 1, max_iter - 1)), likewise the regular ones; a child that is
     not requested (rem = 0) is not evaluated, so it cannot panic. *)
  Fixpoint partition_scheme (num_parts : N) (max_iter : nat) : res (scheme (num A)) :=
    let r := root num_parts max_iter in
    if r =? 0 then Panic 10
    else
      let rem := num_parts mod r in
      let q := num_parts / r in
      if 2 ^ 60 <=? r then Panic 12
      else
        let mods := compute_modifiers (r - rem) rem q (q + 1) in
        match max_iter with
        | O => if rem =? 0 then Ok (SNode (r - 1) mods None) else Panic 11
        | S m =>
          fat <- (if rem =? 0 then Ok [] else
                    s <- partition_scheme (q + 1) m ;; Ok (repeat s (N.to_nat rem))) ;;
          s <- partition_scheme q m ;;
          Ok (SNode (r - 1) mods (Some (fat ++ repeat s (N.to_nat (r - rem)))))
        end.
End Scheme.

(* ------------------------------------------------- compute_split_positions *)

Section Csp.
  Variable A : arith.
  Notation num := (num A).

  (* weights[permutation[i]] for every i *)
  Fixpoint gather (wts : list num) (perm : list nat) : res (list num) :=
    match perm with
    | [] => Ok []
    | i :: t => match nth_opt wts i with
                | None => Panic 1
                | Some w => r <- gather wts t ;; Ok (w :: r)
                end
    end.

  Definition sum_list (l : list num) : num := fold_left (a_add A) l (a_zero A).

  Fixpoint split_last {T} (l : list T) : option (list T) :=
    match l with
    | [] => None
    | [_] => Some []
    | x :: t => match split_last t with Some i => Some (x :: i) | None => None end
    end.

  (* `scan(0.0, |consumed, m| { consumed += total * m; Some(consumed) })` (derefs omitted) *)
  Fixpoint thresholds (total consumed : num) (mods : list num) : list num :=
    match mods with
    | [] => []
    | m :: t => let c := a_add A consumed (a_mul A total m) in c :: thresholds total c t
    end.

  (* fold_with((MAX, 0.), |(low, acc), (idx, val)| (min(idx, low), acc + w[val])):
     one (first index, sum) pair per block; [bs] = the block lengths rayon chose
     (zero lengths are skipped, what is left after the last length is one block) *)
  Fixpoint blocks_of (bs : list nat) (start : nat) (l : list num) : list (nat * num) :=
    match l with
    | [] => []
    | _ :: _ =>
      match bs with
      | [] => [(start, sum_list l)]
      | b :: bs' =>
        if Nat.eqb b 0 then blocks_of bs' start l
        else (start, sum_list (firstn b l)) :: blocks_of bs' (start + b)%nat (skipn b l)
      end
    end.

  (* the 'inner loop: (pushed index, cached sum, new running sum, rest of the scan) *)
  Fixpoint take_until (scan : list (nat * num)) (cws t : num) (len : nat)
    : nat * num * num * list (nat * num) :=
    match scan with
    | [] => (len, cws, cws, [])
    | (lo, s) :: rest =>
      let c := a_add A cws s in
      if a_lt A t c then (lo, cws, c, rest) else take_until rest c t len
    end.

  (* `for threshold in &weight_thresholds`; [ret] = (ret, cache) zipped, last pushed first *)
  Fixpoint outer (ths : list num) (scan : list (nat * num)) (cws : num) (len : nat)
                 (ret : list (nat * num)) : res (list (nat * num)) :=
    match ths with
    | [] => Ok (rev ret)
    | t :: ths' =>
      if a_lt A t cws then
        match ret with
        | [] => Panic 4
        | last :: _ => outer ths' scan cws len (last :: ret)
        end
      else
        let '(lo, cached, cws', rest) := take_until scan cws t len in
        outer ths' rest cws' len ((lo, cached) :: ret)
    end.

  (* the refinement `while idx < len && (sum + w < t || ulps_eq(t, sum + w))`;
     [rest] = the weights from position idx on *)
  Fixpoint refine (rest : list num) (idx : nat) (sum t : num) : nat :=
    match rest with
    | [] => idx
    | w :: rest' =>
      let s := a_add A sum w in
      if a_lt A s t || a_ulps A t s then refine rest' (S idx) s t else idx
    end.

  Definition csp_core (wl : list num) (ths : list num) (bs : list nat) : res (list nat) :=
    r <- outer ths (blocks_of bs 0 wl) (a_zero A) (length wl) [] ;;
    Ok (map (fun '((idx, sum), t) => refine (skipn idx wl) idx sum t) (combine r ths)).

  Definition csp (wts : list num) (perm : list nat) (mods : list num) (bs : list nat) : res (list nat) :=
    match split_last mods with
    | None => Panic 3
    | Some init =>
      wl <- gather wts perm ;;
      csp_core wl (thresholds (sum_list wl) (a_zero A) init) bs
    end.
End Csp.

(* split_at_mut_many *)
Fixpoint split_many {T} (l : list T) (positions : list nat) (drained : nat) : res (list (list T)) :=
  match positions with
  | [] => Ok [l]
  | p :: ps =>
    if Nat.ltb p drained then Panic 5
    else
      let k := (p - drained)%nat in
      if Nat.ltb (length l) k then Panic 6
      else rest <- split_many (skipn k l) ps (drained + k)%nat ;; Ok (firstn k l :: rest)
  end.

(* ------------------------------------------------------------ the recursion *)

Section MJ.
  Variable A : arith.
  Variable D : nat.                              (* const D: usize *)
  Variable npts : nat.                           (* points.len() *)
  Variable wts : list (num A).
  Variable sorter : nat -> list nat -> list nat.  (* axis_sort: coordinate, permutation slice *)
  Variable blk : list nat -> list nat.            (* block lengths of the scan over a given slab *)

  (* multi_jagged_recurse: the leaves (element lists) in preorder.
     `par_iter_mut().zip(next.unwrap())` stops at the shorter of the two. *)
  Fixpoint mj_rec (sch : scheme (num A)) (axis : nat) (perm : list nat) {struct sch}
    : res (list (list nat)) :=
    match sch with
    | SNode ns mods next =>
      if ns =? 0 then Ok [perm]
      else if Nat.leb 2 (length perm) && negb (forallb (fun i => Nat.ltb i npts) perm) then Panic 2
      else
        let sorted := sorter axis perm in
        pos <- csp A wts sorted mods (blk sorted) ;;
        subs <- split_many sorted pos 0 ;;
        match next with
        | None => Panic 7
        | Some children =>
          (fix go (subs : list (list nat)) (chs : list (scheme (num A))) {struct chs}
             : res (list (list nat)) :=
             match subs, chs with
             | s :: subs', c :: chs' =>
               if Nat.eqb D 0 then Panic 9
               else
                 l1 <- mj_rec c (S axis mod D)%nat s ;;
                 l2 <- go subs' chs' ;;
                 Ok (l1 ++ l2)
             | _, _ => Ok []
             end) subs children
        end
    end.

  (* `ptr::write(ptr.add(idx), part_id)` for every idx of the leaf *)
  Fixpoint write_ids (p : list N) (els : list nat) (id : N) : res (list N) :=
    match els with
    | [] => Ok p
    | i :: t => if Nat.ltb i (length p) then write_ids (set_nth p i id) t id else Panic 8
    end.

  (* leaf number j (preorder) obtained [ord j] from `part_id.fetch_add(1)` *)
  Fixpoint write_leaves (ord : nat -> N) (j : nat) (lvs : list (list nat)) (p : list N) : res (list N) :=
    match lvs with
    | [] => Ok p
    | l :: t => p' <- write_ids p l (ord j) ;; write_leaves ord (S j) t p'
    end.

  (* multi_jagged_with_scheme *)
  Definition mj_with_scheme (ord : nat -> N) (sch : scheme (num A)) (p0 : list N) : res (list N) :=
    lvs <- mj_rec sch 0 (seq 0 npts) ;;
    write_leaves ord 0 lvs p0.

  (* multi_jagged *)
  Definition multi_jagged (root : N -> nat -> N) (ord : nat -> N) (part_count : N) (max_iter : nat)
                          (p0 : list N) : res (list N) :=
    sch <- partition_scheme A root part_count max_iter ;;
    mj_with_scheme ord sch p0.
End MJ.

(* ------------------------------------------------ canonical oracle instances *)

(* stable insertion sort on `lt i j` (= coordinate of i < coordinate of j): what
   rayon's quicksort does on slices of at most 20 elements, and a valid answer
   of the sort oracle for any slice *)
Section Sort.
  Variable lt : nat -> nat -> bool.
  Fixpoint ins (x : nat) (l : list nat) : list nat :=
    match l with
    | [] => [x]
    | y :: t => if lt y x then y :: ins x t else x :: l
    end.
  (* elements are inserted from the right, each one before the first element
     that is not below it: equal keys keep their original order *)
  Definition isort (l : list nat) : list nat := fold_right ins [] l.
End Sort.

(* ----------------------------------------------------- specification vocabulary *)

Open Scope Z_scope.

Fixpoint loadZ (ws : list Z) (p : list N) (b : N) : Z :=
  match ws, p with
  | w :: ws', x :: p' => (if (x =? b)%N then w else 0) + loadZ ws' p' b
  | _, _ => 0
  end.

Definition maxZ (l : list Z) : Z := fold_right Z.max 0 l.

(* the balance clause, scaled by part_count to stay in Z:
   |load b - total/k| < (max_iter + 1) * max   <->   |k*load b - total| < k*(max_iter + 1)*max *)
Definition balanced (ws : list Z) (p : list N) (k : N) (max_iter : nat) : Prop :=
  forall b, (b < k)%N ->
    Z.abs (Z.of_N k * loadZ ws p b - sumZ ws) < Z.of_N k * (Z.of_nat max_iter + 1) * maxZ ws.

Section Jagged.
  Variable B : Type.
  Variable D : nat.
  Variable cxlt : nat -> nat -> nat -> bool.   (* axis a, x, y: coordinate a of x < coordinate a of y *)
  Variable idf : nat -> N.                     (* part id of an element *)

  (* slab s1 comes before slab s2 along [a]: no coordinate of s2 is below one
     of s1, and the two slabs share no part id *)
  Definition slab_before (a : nat) (s1 s2 : list nat) : Prop :=
    forall x y, In x s1 -> In y s2 -> cxlt a y x = false /\ idf x <> idf y.

  (* the elements [els] form a jagged hierarchy of the shape of the scheme:
     a leaf is one part; a node is cut along [a] into num_splits + 1 ordered
     slabs, each one being a jagged hierarchy along the next axis *)
  Inductive JaggedTree : scheme B -> nat -> list nat -> Prop :=
  | JT_leaf mods next a els :
      (forall x y, In x els -> In y els -> idf x = idf y) ->
      JaggedTree (SNode 0%N mods next) a els
  | JT_node ns mods children a slabs :
      ns <> 0%N ->
      length children = S (N.to_nat ns) ->
      Forall2 (fun c s => JaggedTree c (S a mod D)%nat s) children slabs ->
      ForallOrdPairs (slab_before a) slabs ->
      JaggedTree (SNode ns mods (Some children)) a (concat slabs).

  (* ---- checker: the hierarchy is rebuilt from a candidate list of leaves
     (element lists in preorder) and verified against ids and coordinates ---- *)
  Definition same_id (els : list nat) : bool :=
    match els with [] => true | x :: t => forallb (fun y => (idf y =? idf x)%N) t end.
  Definition slab_before_b (a : nat) (s1 s2 : list nat) : bool :=
    forallb (fun x => forallb (fun y => negb (cxlt a y x) && negb (idf x =? idf y)%N) s2) s1.
  Fixpoint ord_pairs_b (a : nat) (slabs : list (list nat)) : bool :=
    match slabs with
    | [] => true
    | s :: t => forallb (slab_before_b a s) t && ord_pairs_b a t
    end.

  (* returns the slab (elements below the node) and the leaves not yet used *)
  Fixpoint cj (sch : scheme B) (a : nat) (lvs : list (list nat)) {struct sch}
    : option (list nat * list (list nat)) :=
    match sch with
    | SNode ns _ next =>
      if (ns =? 0)%N then
        match lvs with
        | [] => None
        | l :: rest => if same_id l then Some (l, rest) else None
        end
      else
        match next with
        | None => None
        | Some children =>
          if negb (Nat.eqb (length children) (S (N.to_nat ns))) then None
          else
            match (fix go (chs : list (scheme B)) (lvs : list (list nat)) {struct chs}
                     : option (list (list nat) * list (list nat)) :=
                     match chs with
                     | [] => Some ([], lvs)
                     | c :: chs' =>
                       match cj c (S a mod D)%nat lvs with
                       | None => None
                       | Some (s, lvs') =>
                         match go chs' lvs' with
                         | None => None
                         | Some (ss, lvs'') => Some (s :: ss, lvs'')
                         end
                       end
                     end) children lvs with
            | None => None
            | Some (slabs, rest) => if ord_pairs_b a slabs then Some (concat slabs, rest) else None
            end
        end
    end.

  Definition is_perm_seq (n : nat) (els : list nat) : bool :=
    Nat.eqb (length els) n && forallb (fun i => existsb (Nat.eqb i) els) (seq 0 n).

  Definition check_jagged (sch : scheme B) (n : nat) (lvs : list (list nat)) : bool :=
    match cj sch 0 lvs with
    | Some (els, []) => is_perm_seq n els
    | _ => false
    end.
End Jagged.

(* ids in range, every element written (the array has the length of the input) *)
Definition check_range (k : N) (n : nat) (p : list N) : bool :=
  Nat.eqb (length p) n && forallb (fun x => (x <? k)%N) p.

Definition check_balance (ws : list Z) (p : list N) (k : N) (max_iter : nat) : bool :=
  let tot := sumZ ws in
  let bound := Z.of_N k * (Z.of_nat max_iter + 1) * maxZ ws in
  forallb (fun j => Z.abs (Z.of_N k * loadZ ws p (N.of_nat j) - tot) <? bound) (seq 0 (N.to_nat k)).

(* ---- a NECESSARY condition of the jagged hierarchy, decidable from ids and
   coordinates alone (no candidate tree): any two parts are separated along one
   of the axes the scheme cuts along — their lowest common slab level puts all
   of one before all of the other.  [check_separated = false] therefore means
   that NO JaggedTree of the scheme's shape exists for these ids
   (Proofs/MultiJaggedSep.v), whatever the numbering of the leaves. ---- *)
Section Separation.
  Variable B : Type.
  Variable D : nat.
  Variable cxlt : nat -> nat -> nat -> bool.
  Variable idf : nat -> N.

  (* number of cutting levels *)
  Fixpoint sch_depth (s : scheme B) : nat :=
    match s with
    | SNode ns _ next =>
      if (ns =? 0)%N then 0%nat
      else S match next with
             | None => 0%nat
             | Some cs => (fix mx (l : list (scheme B)) : nat :=
                             match l with [] => 0%nat | c :: t => Nat.max (sch_depth c) (mx t) end) cs
             end
    end.

  (* the axes of levels 0 .. d-1 starting from axis a *)
  Fixpoint level_axes (a d : nat) : list nat :=
    match d with O => [] | S d' => a :: level_axes (S a mod D)%nat d' end.

  (* some element of l that no other element of l exceeds along a (the maximum for a total order) *)
  Definition rep_max (a : nat) (l : list nat) : option nat :=
    match l with [] => None | x :: t => Some (fold_left (fun m y => if cxlt a m y then y else m) t x) end.
  Definition rep_min (a : nat) (l : list nat) : option nat :=
    match l with [] => None | x :: t => Some (fold_left (fun m y => if cxlt a y m then y else m) t x) end.

  (* "every coordinate of P is at most every coordinate of Q", tested on the extremes *)
  Definition before_b (a : nat) (P Q : list nat) : bool :=
    match rep_max a P, rep_min a Q with
    | Some x, Some y => negb (cxlt a y x)
    | _, _ => true
    end.

  Definition parts_separated (axes : list nat) (P Q : list nat) : bool :=
    match P, Q with
    | [], _ | _, [] => true
    | _, _ => existsb (fun a => before_b a P Q || before_b a Q P) axes
    end.

  Fixpoint all_ord_pairs {T} (f : T -> T -> bool) (l : list T) : bool :=
    match l with [] => true | x :: t => forallb (f x) t && all_ord_pairs f t end.

  Definition check_separated (sch : scheme B) (n k : nat) : bool :=
    let axes := level_axes 0 (sch_depth sch) in
    let groups := map (fun b => filter (fun i => (idf i =? N.of_nat b)%N) (seq 0 n)) (seq 0 k) in
    all_ord_pairs (parts_separated axes) groups.
End Separation.

(* Model of tools/mesh-io/src/medit/{serializer,parser}.rs and of the format
   sniffing of Mesh::from_reader (lib.rs).  Executable definitions only;
   proofs are in Proofs/MeditBinProofs.v, Proofs/MeditAsciiProofs.v.

   Binary: byte level.  ASCII: byte level too, except that the decimal text
   of an f64 is produced / consumed by the Section variables
   [print_f64] / [parse_f64] (Rust std's Display / FromStr for f64).
   The element-type tables and the literals come from Gen/MeditGen.v. *)
From Coq Require Import DecimalN.
From Coupe Require Import Lib.Prelude Model.Formats Model.MeditTypes Gen.MeditGen.
Open Scope N_scope.

(* panic sites (continuing Formats.v): 1 capacity overflow; 3 `x - 1` on 0;
   4 chunks_exact(0); 5 str slice off a char boundary; 6 `node + 1` overflow;
   7 usize multiplication overflow *)

Definition u64_max : N := 2 ^ 64 - 1.

(* ================================================================== *)
(* Mesh::nodes(): coordinates.chunks_exact(dim).zip(node_refs)          *)
(* the first n elements and the rest, None when there are fewer (recursion on the list: n may be
   any u64) *)
Fixpoint split_at (n : N) (s : list N) : option (list N * list N) :=
  if n =? 0 then Some ([], s)
  else
    match s with
    | [] => None
    | b :: t => match split_at (n - 1) t with Some (h, r) => Some (b :: h, r) | None => None end
    end.
Fixpoint zip_chunks_exact (d : N) (cs : list N) (rs : list Z) : list (list N * Z) :=
  match rs with
  | [] => []
  | r :: rs' =>
    match split_at d cs with
    | None => []
    | Some (h, t) => (h, r) :: zip_chunks_exact d t rs'
    end
  end.

(* nodes.chunks(k).zip(refs), k >= 1 *)
Fixpoint zip_chunks (k : nat) (ns : list N) (rs : list Z) : list (list N * Z) :=
  match rs with
  | [] => []
  | r :: rs' =>
    match ns with
    | [] => []
    | _ => (firstn k ns, r) :: zip_chunks k (skipn k ns) rs'
    end
  end.

(* ================================================================== *)
(* serialize_medit_binary                                               *)

Definition i64_bytes (z : Z) : list N := le_enc 8 (to_bits 64 z).
Definition i32_bytes (z : Z) : list N := le_enc 4 (to_bits 32 z).

Definition ser_node (n : list N * Z) : list N :=
  flat_map (le_enc 8) (fst n) ++ i64_bytes (snd n).

(* `*node as i64 + 1`: overflow check (debug profile) when node as i64 = i64::MAX *)
Fixpoint ser_elem_nodes (ns : list N) : fres (list N) :=
  match ns with
  | [] => FOk []
  | n :: t =>
    if n mod 2 ^ 64 =? 2 ^ 63 - 1 then FPanic 6
    else
      match ser_elem_nodes t with
      | FOk b => FOk (le_enc 8 (n + 1) ++ b)
      | e => e
      end
  end.

Fixpoint ser_elems (es : list (list N * Z)) : fres (list N) :=
  match es with
  | [] => FOk []
  | (ns, r) :: t =>
    match ser_elem_nodes ns with
    | FOk b =>
      match ser_elems t with
      | FOk b' => FOk (b ++ i64_bytes r ++ b')
      | e => e
      end
    | e => e
    end
  end.

(* the element blocks, threading the byte-position counter *)
Fixpoint ser_blocks (bitpos : N) (bs : list block) : fres (list N) :=
  match bs with
  | [] => FOk []
  | b :: t =>
    match b_ty b with
    | Vertex => ser_blocks bitpos t                 (* "Breaks MEDIT and meshio-py": skipped *)
    | ty =>
      let count := N.of_nat (length (b_refs b)) in
      let npe := etype_node_count ty in
      let bitpos' := bitpos + 8 * count * (N.of_nat npe + 1) + (4 + 8 + 8) in
      match ser_elems (zip_chunks npe (b_nodes b) (b_refs b)) with
      | FOk body =>
        match ser_blocks bitpos' t with
        | FOk rest => FOk (i32_bytes (etype_code ty) ++ le_enc 8 bitpos' ++ le_enc 8 count ++ body ++ rest)
        | e => e
        end
      | e => e
      end
    end
  end.

Definition serialize_binary (m : mesh) : fres (list N) :=
  let bitpos0 := 4 + 4 + 4 + 8 + 4 in
  let ncount := N.of_nat (length (m_nrefs m)) in
  let bitpos1 := bitpos0 + 8 * ncount * (m_dim m + 1) + (4 + 8 + 8) in
  if m_dim m =? 0 then FPanic 4      (* self.nodes(): chunks_exact(0) *)
  else
    match ser_blocks bitpos1 (m_topo m) with
    | FOk blocks =>
      FOk (le_enc 4 bin_write_magic ++ le_enc 4 bin_write_version ++ i32_bytes code_DIMENSION
           ++ le_enc 8 bitpos0 ++ le_enc 4 (m_dim m)
           ++ i32_bytes code_VERTEX ++ le_enc 8 bitpos1 ++ le_enc 8 ncount
           ++ flat_map ser_node (zip_chunks_exact (m_dim m) (m_coords m) (m_nrefs m))
           ++ blocks
           ++ i32_bytes bin_write_end)
    | e => e
    end.

(* ================================================================== *)
(* parse_binary                                                         *)

(* f32 -> f64 (`as f64`) on bit patterns: exact; a NaN keeps its sign and
   payload and is made quiet (cvtss2sd) *)
Definition f32_to_f64_bits (b : N) : N :=
  let s := (b / 2 ^ 31) mod 2 in
  let e := (b / 2 ^ 23) mod 256 in
  let m := b mod 2 ^ 23 in
  let sign := s * 2 ^ 63 in
  if e =? 255 then
    if m =? 0 then sign + 2047 * 2 ^ 52
    else sign + 2047 * 2 ^ 52 + N.lor (m * 2 ^ 29) (2 ^ 51)
  else if e =? 0 then
    if m =? 0 then sign
    else let k := N.log2 m in sign + (k + 874) * 2 ^ 52 + (m - 2 ^ k) * 2 ^ (52 - k)
  else sign + (e + 896) * 2 ^ 52 + m * 2 ^ 29.

(* read_fn!: n bytes in the file's byte order *)
Definition read_bytes (le : bool) (n : nat) (s : list N) : fres (N * list N) :=
  match take n s with
  | None => FErr EIo
  | Some (b, r) => FOk (if le then le_dec b else be_dec b, r)
  end.
(* iN -> i64 *)
Definition read_sint (le : bool) (n : nat) (s : list N) : fres (Z * list N) :=
  match read_bytes le n s with
  | FOk (v, r) => FOk (of_bits (8 * N.of_nat n) v, r)
  | FErr e => FErr e | FPanic p => FPanic p | FOutOfFuel => FOutOfFuel
  end.
(* f32/f64 -> f64 bits *)
Definition read_float (le : bool) (n : nat) (s : list N) : fres (N * list N) :=
  match read_bytes le n s with
  | FOk (v, r) => FOk (if Nat.eqb n 4 then f32_to_f64_bits v else v, r)
  | FErr e => FErr e | FPanic p => FPanic p | FOutOfFuel => FOutOfFuel
  end.

(* `x as usize` for an i64 *)
Definition as_usize (z : Z) : N := to_bits 64 z.

(* Vec::<8-byte T>::with_capacity(a * b) under the debug profile *)
Definition cap8_check (a b : N) : option N :=
  if u64_max <? a * b then Some 7
  else if isize_max <? 8 * (a * b) then Some 1
  else None.

Record widths := { w_int : nat; w_float : nat; w_pos : nat }.

(* min(n, length s), without walking the whole of s *)
Fixpoint bounded_len (n : N) (s : list N) : nat :=
  match s with
  | [] => O
  | _ :: t => if n =? 0 then O else S (bounded_len (n - 1) t)
  end.

(* one vertex: dimension floats, one int.  [dim] comes from the file: the loop runs on fuel
   1 + min(dim, remaining bytes), enough because every float consumes at least one byte *)
Definition read_vertex (le : bool) (w : widths) (dim : N) (s : list N) : fres ((list N * Z) * list N) :=
  match read_items (S (bounded_len dim s)) dim (read_float le (w_float w)) s with
  | FOk (cs, s1) =>
    match read_sint le (w_int w) s1 with
    | FOk (r, s2) => FOk ((cs, r), s2)
    | FErr e => FErr e | FPanic p => FPanic p | FOutOfFuel => FOutOfFuel
    end
  | FErr e => FErr e | FPanic p => FPanic p | FOutOfFuel => FOutOfFuel
  end.

(* `read_int(..)? as usize - 1` *)
Definition read_node (le : bool) (w : widths) (s : list N) : fres (N * list N) :=
  match read_sint le (w_int w) s with
  | FOk (v, r) => if as_usize v =? 0 then FPanic 3 else FOk (as_usize v - 1, r)
  | FErr e => FErr e | FPanic p => FPanic p | FOutOfFuel => FOutOfFuel
  end.

Definition read_element (le : bool) (w : widths) (npe : nat) (s : list N) : fres ((list N * Z) * list N) :=
  match read_items npe (N.of_nat npe) (read_node le w) s with        (* exactly npe iterations *)
  | FOk (ns, s1) =>
    match read_sint le (w_int w) s1 with
    | FOk (r, s2) => FOk ((ns, r), s2)
    | FErr e => FErr e | FPanic p => FPanic p | FOutOfFuel => FOutOfFuel
    end
  | FErr e => FErr e | FPanic p => FPanic p | FOutOfFuel => FOutOfFuel
  end.

(* the `loop { ... }` over fields; each iteration consumes at least 4 bytes *)
Fixpoint parse_fields (fuel : nat) (le : bool) (w : widths) (m : mesh) (s : list N) : fres mesh :=
  match fuel with
  | O => FOutOfFuel
  | S f =>
    match read_sint le 4 s with
    | FErr _ => FOk m                              (* UnexpectedEof => break *)
    | FPanic p => FPanic p
    | FOutOfFuel => FOutOfFuel
    | FOk (code, s1) =>
      if (code =? code_END)%Z then FOk m
      else if (code =? code_VERTEX)%Z then
        match read_sint le (w_pos w) s1 with
        | FOk (_, s2) =>
          match read_sint le (w_int w) s2 with
          | FOk (cnt, s3) =>
            let count := as_usize cnt in
            match (match cap8_check count (m_dim m) with Some p => Some p | None => cap8_check count 1 end) with
            | Some p => FPanic p
            | None =>
              match read_items (S (length s3)) count (read_vertex le w (m_dim m)) s3 with
              | FOk (vs, s4) =>
                parse_fields f le w
                  (mkmesh (m_dim m) (flat_map fst vs) (map snd vs) (m_topo m)) s4
              | FErr e => FErr e | FPanic p => FPanic p | FOutOfFuel => FOutOfFuel
              end
            end
          | FErr e => FErr e | FPanic p => FPanic p | FOutOfFuel => FOutOfFuel
          end
        | FErr e => FErr e | FPanic p => FPanic p | FOutOfFuel => FOutOfFuel
        end
      else
        match etype_from_code code with
        | None => FErr EUnexpectedToken
        | Some ty =>
          match read_sint le (w_pos w) s1 with
          | FOk (_, s2) =>
            match read_sint le (w_int w) s2 with
            | FOk (cnt, s3) =>
              let count := as_usize cnt in
              let npe := etype_node_count ty in
              match cap8_check (N.of_nat npe) count with
              | Some p => FPanic p
              | None =>
                match read_items (S (length s3)) count (read_element le w npe) s3 with
                | FOk (es, s4) =>
                  parse_fields f le w
                    (mkmesh (m_dim m) (m_coords m) (m_nrefs m)
                            (m_topo m ++ [mkblock ty (flat_map fst es) (map snd es)])) s4
                | FErr e => FErr e | FPanic p => FPanic p | FOutOfFuel => FOutOfFuel
                end
              end
            | FErr e => FErr e | FPanic p => FPanic p | FOutOfFuel => FOutOfFuel
            end
          | FErr e => FErr e | FPanic p => FPanic p | FOutOfFuel => FOutOfFuel
          end
        end
    end
  end.

Definition widths_of_version (v : Z) : option widths :=
  if (v =? 1)%Z then Some {| w_int := 4; w_float := 4; w_pos := 4 |}
  else if (v =? 2)%Z then Some {| w_int := 4; w_float := 8; w_pos := 4 |}
  else if (v =? 3)%Z then Some {| w_int := 4; w_float := 8; w_pos := 8 |}
  else if (v =? 4)%Z then Some {| w_int := 8; w_float := 8; w_pos := 8 |}
  else None.

Definition parse_binary (s : list N) : fres mesh :=
  match take 4 s with
  | None => FErr EIo
  | Some (mg, s1) =>
    let magic := le_dec mg in
    match (if magic =? 1 then Some true else if magic =? 2 ^ 24 then Some false else None) with
    | None => FErr EUnexpectedToken
    | Some le =>
      match read_sint le 4 s1 with
      | FOk (version, s2) =>
        match widths_of_version version with
        | None => FErr EUnexpectedToken
        | Some w =>
          match read_sint le 4 s2 with
          | FOk (dcode, s3) =>
            if negb (dcode =? code_DIMENSION)%Z then FErr EUnexpectedToken
            else
              match read_sint le (w_pos w) s3 with
              | FOk (_, s4) =>
                match read_sint le 4 s4 with
                | FOk (d, s5) => parse_fields (S (length s5)) le w (mkmesh (as_usize d) [] [] []) s5
                | FErr e => FErr e | FPanic p => FPanic p | FOutOfFuel => FOutOfFuel
                end
              | FErr e => FErr e | FPanic p => FPanic p | FOutOfFuel => FOutOfFuel
              end
          | FErr e => FErr e | FPanic p => FPanic p | FOutOfFuel => FOutOfFuel
          end
        end
      | FErr e => FErr e | FPanic p => FPanic p | FOutOfFuel => FOutOfFuel
      end
    end
  end.

(* ================================================================== *)
(* what a round trip preserves                                          *)

(* binary: the code of Quadrangle is the code of Quadrilateral, read back as Quadrilateral *)
Definition norm_ty_bin (t : etype) : etype :=
  match etype_from_code (etype_code t) with Some t' => t' | None => t end.

Definition drop_vertex_blocks (bs : list block) : list block :=
  filter (fun b => negb (etype_eqb (b_ty b) Vertex)) bs.

Definition norm_bin (m : mesh) : mesh :=
  mkmesh (m_dim m) (m_coords m) (m_nrefs m)
    (map (fun b => mkblock (norm_ty_bin (b_ty b)) (b_nodes b) (b_refs b)) (drop_vertex_blocks (m_topo m))).

Definition norm_ascii (m : mesh) : mesh :=
  mkmesh (m_dim m) (m_coords m) (m_nrefs m) (drop_vertex_blocks (m_topo m)).

(* the invariants of Mesh::from_raw_parts *)
Definition block_shape (b : block) : Prop :=
  length (b_nodes b) = (etype_node_count (b_ty b) * length (b_refs b))%nat.
Definition mesh_shape (m : mesh) : Prop :=
  m_dim m <> 0 /\
  N.of_nat (length (m_coords m)) = m_dim m * N.of_nat (length (m_nrefs m)) /\
  Forall block_shape (m_topo m).

(* value ranges of the fields (usize / isize / f64 bits), node numbers that
   can be incremented, sizes any in-memory Vec satisfies *)
Definition block_ranges (b : block) : Prop :=
  Forall (fun n => n < 2 ^ 63 - 1) (b_nodes b) /\ Forall i64_ok (b_refs b) /\
  8 * N.of_nat (length (b_nodes b)) <= isize_max.
Definition mesh_ranges (m : mesh) : Prop :=
  m_dim m < 2 ^ 31 /\
  Forall u64_ok (m_coords m) /\ Forall i64_ok (m_nrefs m) /\
  8 * N.of_nat (length (m_coords m)) <= isize_max /\
  8 * N.of_nat (length (m_nrefs m)) <= isize_max /\
  Forall block_ranges (m_topo m).

Definition wf_mesh (m : mesh) : Prop := mesh_shape m /\ mesh_ranges m.

(* boolean equality of meshes (checker) *)
Definition block_eqb (a b : block) : bool :=
  etype_eqb (b_ty a) (b_ty b) && leqb N.eqb (b_nodes a) (b_nodes b) && leqb Z.eqb (b_refs a) (b_refs b).
Definition mesh_eqb (a b : mesh) : bool :=
  (m_dim a =? m_dim b) && leqb N.eqb (m_coords a) (m_coords b)
  && leqb Z.eqb (m_nrefs a) (m_nrefs b) && leqb block_eqb (m_topo a) (m_topo b).

(* ================================================================== *)
(* UTF-8 and Unicode white space on bytes (std::str::from_utf8,
   char::is_whitespace) *)

Definition is_cont (b : N) : bool := (128 <=? b) && (b <=? 191).

Fixpoint utf8_valid (s : list N) : bool :=
  match s with
  | [] => true
  | b :: t =>
    if b <? 128 then utf8_valid t
    else if (194 <=? b) && (b <=? 223) then
      match t with c1 :: t1 => is_cont c1 && utf8_valid t1 | _ => false end
    else if (224 <=? b) && (b <=? 239) then
      match t with
      | c1 :: c2 :: t2 =>
        (if b =? 224 then (160 <=? c1) && (c1 <=? 191)
         else if b =? 237 then (128 <=? c1) && (c1 <=? 159)
         else is_cont c1) && is_cont c2 && utf8_valid t2
      | _ => false
      end
    else if (240 <=? b) && (b <=? 244) then
      match t with
      | c1 :: c2 :: c3 :: t3 =>
        (if b =? 240 then (144 <=? c1) && (c1 <=? 191)
         else if b =? 244 then (128 <=? c1) && (c1 <=? 143)
         else is_cont c1) && is_cont c2 && is_cont c3 && utf8_valid t3
      | _ => false
      end
    else false
  end.

(* number of bytes of the White_Space character at the head of s, 0 if none:
   U+0009..000D, 0020, 0085, 00A0, 1680, 2000..200A, 2028, 2029, 202F, 205F, 3000 *)
Definition ws_len (s : list N) : nat :=
  match s with
  | [] => 0%nat
  | b :: t =>
    if ((9 <=? b) && (b <=? 13)) || (b =? 32) then 1%nat
    else if b =? 194 then
      match t with c :: _ => if (c =? 133) || (c =? 160) then 2%nat else 0%nat | _ => 0%nat end
    else if b =? 225 then
      match t with c :: d :: _ => if (c =? 154) && (d =? 128) then 3%nat else 0%nat | _ => 0%nat end
    else if b =? 226 then
      match t with
      | c :: d :: _ =>
        if (c =? 128) && (((128 <=? d) && (d <=? 138)) || (d =? 168) || (d =? 169) || (d =? 175)) then 3%nat
        else if (c =? 129) && (d =? 159) then 3%nat else 0%nat
      | _ => 0%nat
      end
    else if b =? 227 then
      match t with c :: d :: _ => if (c =? 128) && (d =? 128) then 3%nat else 0%nat | _ => 0%nat end
    else 0%nat
  end.

(* str::trim_start *)
Fixpoint trim_start_aux (s : list N) (skip : nat) : list N :=
  match s with
  | [] => []
  | _ :: t =>
    match skip with
    | S k => trim_start_aux t k
    | O => match ws_len s with O => s | S k => trim_start_aux t k end
    end
  end.
Definition trim_start (s : list N) : list N := trim_start_aux s 0.

(* str::split_whitespace: (word in progress, following words) *)
Definition cons_word (p : list N * list (list N)) : list (list N) :=
  match fst p with [] => snd p | w => w :: snd p end.
Fixpoint words_aux (s : list N) (skip : nat) : list N * list (list N) :=
  match s with
  | [] => ([], [])
  | b :: t =>
    match skip with
    | S k => ([], cons_word (words_aux t k))
    | O =>
      match ws_len s with
      | O => let p := words_aux t 0 in (b :: fst p, snd p)
      | S k => ([], cons_word (words_aux t k))
      end
    end
  end.
Definition split_whitespace (s : list N) : list (list N) := cons_word (words_aux s 0).

Definition to_lower (b : N) : N := if (65 <=? b) && (b <=? 90) then b + 32 else b.

(* a word the ASCII format can carry: non-empty, ASCII, no white space (what is assumed of the
   text std's Display prints for an f64; what the decimal integers satisfy) *)
Definition ws_byte (b : N) : bool := ((9 <=? b) && (b <=? 13)) || (b =? 32).
Definition word_byte (b : N) : bool := (b <? 128) && negb (ws_byte b).
Definition word_okb (w : list N) : bool :=
  match w with [] => false | _ => forallb word_byte w end.
Definition word_ok (w : list N) : Prop := word_okb w = true.

(* ================================================================== *)
(* format sniffing (parser.rs test_format_*, lib.rs from_reader)        *)

Definition test_format_binary (h : list N) : bool :=
  match h with
  | a :: b :: c :: d :: _ => bytes_eqb [a; b; c; d] [1; 0; 0; 0] || bytes_eqb [a; b; c; d] [0; 0; 0; 1]
  | _ => false
  end.

Definition ascii_header : list N :=   (* "meshversionformatted" *)
  [109; 101; 115; 104; 118; 101; 114; 115; 105; 111; 110; 102; 111; 114; 109; 97; 116; 116; 101; 100].

(* `header[..20]`: panics unless 20 is a char boundary *)
Definition test_format_ascii (h : list N) : fres bool :=
  if negb (utf8_valid h) then FOk false
  else
    let h' := trim_start h in
    if (length h' <? length ascii_header)%nat then FOk false
    else
      match nth_opt h' (length ascii_header) with
      | Some b => if is_cont b then FPanic 5
                  else FOk (bytes_eqb (map to_lower (firstn (length ascii_header) h')) ascii_header)
      | None => FOk (bytes_eqb (map to_lower (firstn (length ascii_header) h')) ascii_header)
      end.

Inductive format := FmtBinary | FmtAscii | FmtOther.

(* the decisions of Mesh::from_reader on the buffered prefix [buf] *)
Definition sniff (buf : list N) : fres format :=
  if test_format_binary buf then FOk FmtBinary
  else
    match test_format_ascii buf with
    | FOk true => FOk FmtAscii
    | FOk false => FOk FmtOther
    | FErr e => FErr e | FPanic p => FPanic p | FOutOfFuel => FOutOfFuel
    end.

(* ================================================================== *)
(* decimal integers (Display / FromStr of usize, isize)                 *)

Fixpoint uint_bytes (u : Decimal.uint) : list N :=
  match u with
  | Decimal.Nil => []
  | Decimal.D0 u => 48 :: uint_bytes u | Decimal.D1 u => 49 :: uint_bytes u
  | Decimal.D2 u => 50 :: uint_bytes u | Decimal.D3 u => 51 :: uint_bytes u
  | Decimal.D4 u => 52 :: uint_bytes u | Decimal.D5 u => 53 :: uint_bytes u
  | Decimal.D6 u => 54 :: uint_bytes u | Decimal.D7 u => 55 :: uint_bytes u
  | Decimal.D8 u => 56 :: uint_bytes u | Decimal.D9 u => 57 :: uint_bytes u
  end.
Fixpoint bytes_uint (l : list N) : option Decimal.uint :=
  match l with
  | [] => Some Decimal.Nil
  | b :: t =>
    match bytes_uint t with
    | None => None
    | Some u =>
      if b =? 48 then Some (Decimal.D0 u) else if b =? 49 then Some (Decimal.D1 u)
      else if b =? 50 then Some (Decimal.D2 u) else if b =? 51 then Some (Decimal.D3 u)
      else if b =? 52 then Some (Decimal.D4 u) else if b =? 53 then Some (Decimal.D5 u)
      else if b =? 54 then Some (Decimal.D6 u) else if b =? 55 then Some (Decimal.D7 u)
      else if b =? 56 then Some (Decimal.D8 u) else if b =? 57 then Some (Decimal.D9 u)
      else None
    end
  end.

Definition print_N (n : N) : list N := uint_bytes (N.to_uint n).
Definition print_Z (z : Z) : list N :=
  if (z <? 0)%Z then 45 :: print_N (Z.to_N (- z)) else print_N (Z.to_N z).

(* the digits of an integer literal: non-empty, all decimal *)
Definition parse_digits (l : list N) : option N :=
  match l with
  | [] => None
  | _ => match bytes_uint l with Some u => Some (N.of_uint u) | None => None end
  end.
(* usize::from_str: optional '+', digits, value < 2^64 *)
Definition parse_usize (l : list N) : option N :=
  let digits := match l with 43 :: t => t | _ => l end in
  match parse_digits digits with
  | Some n => if n <? 2 ^ 64 then Some n else None
  | None => None
  end.
(* isize::from_str: optional '+' or '-', digits, -2^63 <= value < 2^63 *)
Definition parse_isize (l : list N) : option Z :=
  match l with
  | 45 :: t =>
    match parse_digits t with
    | Some n => if n <=? 2 ^ 63 then Some (- Z.of_N n)%Z else None
    | None => None
    end
  | _ =>
    let digits := match l with 43 :: t => t | _ => l end in
    match parse_digits digits with
    | Some n => if n <? 2 ^ 63 then Some (Z.of_N n) else None
    | None => None
    end
  end.

(* ================================================================== *)
(* ASCII                                                                *)

Definition kw_end : list N := [101; 110; 100].                                   (* end *)
Definition kw_vertices : list N := [118; 101; 114; 116; 105; 99; 101; 115].       (* vertices *)
Definition kw_dimension : list N := [100; 105; 109; 101; 110; 115; 105; 111; 110]. (* dimension *)

Fixpoint lookup_kw {A} (k : list N) (tbl : list (list N * A)) : option A :=
  match tbl with
  | [] => None
  | (k', v) :: t => if bytes_eqb k k' then Some v else lookup_kw k t
  end.

Definition is_separator (b : N) : bool := (b =? 32) || (b =? 9) || (b =? 13) || (b =? 10).

(* reader state: (line number, remaining bytes) *)
Definition rstate := (N * list N)%type.

(* skip_separators: counts the '\n' it skips; EOF before a non-separator is an error *)
Fixpoint skip_seps (ln : N) (s : list N) : rstate :=
  match s with
  | b :: t => if is_separator b then skip_seps (if b =? 10 then ln + 1 else ln) t else (ln, s)
  | [] => (ln, [])
  end.
Definition skip_separators (st : rstate) : fres rstate :=
  match skip_seps (fst st) (snd st) with
  | (_, []) => FErr EIo
  | st' => FOk st'
  end.

(* read_token: bytes up to the next separator (not consumed) or EOF *)
Fixpoint span_token (s : list N) : list N * list N :=
  match s with
  | b :: t => if is_separator b then ([], s) else let p := span_token t in (b :: fst p, snd p)
  | [] => ([], [])
  end.
(* BufRead::read_line: bytes up to and including '\n', or EOF *)
Fixpoint span_line (s : list N) : list N * list N :=
  match s with
  | b :: t => if b =? 10 then ([b], t) else let p := span_line t in (b :: fst p, snd p)
  | [] => ([], [])
  end.

(* read(T): lower-cased token *)
Definition read_T (st : rstate) : fres (list N * rstate) :=
  match skip_separators st with
  | FOk (ln, s) =>
    let p := span_token s in
    if utf8_valid (fst p) then FOk (map to_lower (fst p), (ln, snd p)) else FErr EIo
  | FErr e => FErr e | FPanic p => FPanic p | FOutOfFuel => FOutOfFuel
  end.
(* read(L): one line *)
Definition read_L (st : rstate) : fres (list N * rstate) :=
  match skip_separators st with
  | FOk (ln, s) =>
    let p := span_line s in
    if utf8_valid (fst p) then FOk (fst p, (ln + 1, snd p)) else FErr EIo
  | FErr e => FErr e | FPanic p => FPanic p | FOutOfFuel => FOutOfFuel
  end.

Definition read_usize (st : rstate) : fres (N * rstate) :=
  match read_T st with
  | FOk (tok, st') => match parse_usize tok with Some n => FOk (n, st') | None => FErr EBadInteger end
  | FErr e => FErr e | FPanic p => FPanic p | FOutOfFuel => FOutOfFuel
  end.

Section Ascii.
  (* Rust std: `impl Display for f64` / `impl FromStr for f64`, on bit patterns *)
  Variable print_f64 : N -> list N.
  Variable parse_f64 : list N -> option N.

  (* ---- DisplayAscii ---- *)

  Definition sp (l : list N) : list N := 32 :: l.             (* " {}" *)

  Definition asc_node (n : list N * Z) : list N :=
    flat_map (fun c => sp (print_f64 c)) (fst n) ++ sp (print_Z (snd n)) ++ [10].

  (* `node + 1` on usize: overflow check under the debug profile *)
  Fixpoint asc_elem_nodes (ns : list N) : fres (list N) :=
    match ns with
    | [] => FOk []
    | n :: t =>
      if n mod 2 ^ 64 =? u64_max then FPanic 6
      else match asc_elem_nodes t with FOk b => FOk (sp (print_N (n + 1)) ++ b) | e => e end
    end.
  Fixpoint asc_elems (es : list (list N * Z)) : fres (list N) :=
    match es with
    | [] => FOk []
    | (ns, r) :: t =>
      match asc_elem_nodes ns with
      | FOk b => match asc_elems t with FOk b' => FOk (b ++ sp (print_Z r) ++ [10] ++ b') | e => e end
      | e => e
      end
    end.
  Fixpoint asc_blocks (bs : list block) : fres (list N) :=
    match bs with
    | [] => FOk []
    | b :: t =>
      match b_ty b with
      | Vertex => asc_blocks t
      | ty =>
        match asc_elems (zip_chunks (etype_node_count ty) (b_nodes b) (b_refs b)) with
        | FOk body =>
          match asc_blocks t with
          | FOk rest =>
            FOk ([10] ++ etype_ascii_name ty ++ [10; 9] ++ print_N (N.of_nat (length (b_refs b))) ++ [10]
                 ++ body ++ rest)
          | e => e
          end
        | e => e
        end
      end
    end.

  Definition ascii_prologue : list N :=   (* "MeshVersionFormatted 2\nDimension " *)
    [77; 101; 115; 104; 86; 101; 114; 115; 105; 111; 110; 70; 111; 114; 109; 97; 116; 116; 101; 100;
     32; 50; 10; 68; 105; 109; 101; 110; 115; 105; 111; 110; 32].
  Definition ascii_vertices_kw : list N :=  (* "\n\nVertices\n\t" *)
    [10; 10; 86; 101; 114; 116; 105; 99; 101; 115; 10; 9].
  Definition ascii_epilogue : list N := [10; 69; 110; 100].   (* "\nEnd" *)

  Definition serialize_ascii (m : mesh) : fres (list N) :=
    if m_dim m =? 0 then FPanic 4
    else
      match asc_blocks (m_topo m) with
      | FOk blocks =>
        FOk (ascii_prologue ++ print_N (m_dim m) ++ ascii_vertices_kw
             ++ print_N (N.of_nat (length (m_nrefs m))) ++ [10]
             ++ flat_map asc_node (zip_chunks_exact (m_dim m) (m_coords m) (m_nrefs m))
             ++ blocks ++ ascii_epilogue)
      | e => e
      end.

  (* ---- parse_ascii ---- *)

  (* `for _ in 0..dimension { words.next().ok_or(UnexpectedEof)?.parse::<f64>()? }`;
     [dim] comes from the file: recursion on the words, which run out first *)
  Fixpoint vertex_coords (fuel : nat) (dim : N) (ws : list (list N)) : fres (list N * list (list N)) :=
    if dim =? 0 then FOk ([], ws)
    else
      match fuel with
      | O => FOutOfFuel
      | S f =>
        match ws with
        | [] => FErr EIo
        | w :: ws' =>
          match parse_f64 w with
          | None => FErr EBadFloat
          | Some c =>
            match vertex_coords f (dim - 1) ws' with
            | FOk (cs, r) => FOk (c :: cs, r)
            | e => e
            end
          end
        end
      end.

  (* one line of the Vertices section: (coordinates, optional reference) *)
  Definition vertex_line (dim : N) (st : rstate) : fres ((list N * option Z) * rstate) :=
    match read_L st with
    | FOk (line, st') =>
      let ws := split_whitespace line in
      match vertex_coords (S (length ws)) dim ws with
      | FOk (cs, rest) =>
        match rest with
        | [] => FOk ((cs, None), st')
        | w :: rest' =>
          match parse_isize w with
          | None => FErr EBadInteger
          | Some r => match rest' with [] => FOk ((cs, Some r), st') | _ => FErr EUnexpectedToken end
          end
        end
      | FErr e => FErr e | FPanic p => FPanic p | FOutOfFuel => FOutOfFuel
      end
    | FErr e => FErr e | FPanic p => FPanic p | FOutOfFuel => FOutOfFuel
    end.

  (* `for word in (&mut words).take(npe) { vertices.push(word.parse::<usize>()? - 1) }` *)
  Fixpoint element_nodes (npe : nat) (ws : list (list N)) : fres (list N * list (list N)) :=
    match npe with
    | O => FOk ([], ws)
    | S k =>
      match ws with
      | [] => FOk ([], [])
      | w :: ws' =>
        match parse_usize w with
        | None => FErr EBadInteger
        | Some c =>
          if c =? 0 then FPanic 3
          else match element_nodes k ws' with FOk (ns, r) => FOk (c - 1 :: ns, r) | e => e end
        end
      end
    end.

  Definition element_line (npe : nat) (st : rstate) : fres ((list N * option Z) * rstate) :=
    match read_L st with
    | FOk (line, st') =>
      match element_nodes npe (split_whitespace line) with
      | FOk (ns, rest) =>
        if (length ns <? npe)%nat then FErr EIo
        else
          match rest with
          | [] => FOk ((ns, None), st')
          | w :: _ =>
            match parse_isize w with
            | None => FErr EBadInteger
            | Some r => FOk ((ns, Some r), st')
            end
          end
      | FErr e => FErr e | FPanic p => FPanic p | FOutOfFuel => FOutOfFuel
      end
    | FErr e => FErr e | FPanic p => FPanic p | FOutOfFuel => FOutOfFuel
    end.

  Definition opt_list {A} (o : option A) : list A := match o with Some a => [a] | None => [] end.

  (* the loop that looks for the entry count after an element keyword:
     tokens on the keyword's line that are not a count are skipped *)
  Fixpoint find_count (fuel : nat) (prev_ln : N) (st : rstate) : fres (N * rstate) :=
    match fuel with
    | O => FOutOfFuel
    | S f =>
      match read_T st with
      | FOk (tok, st') =>
        match parse_usize tok with
        | Some n => FOk (n, st')
        | None => if fst st' =? prev_ln then find_count f prev_ln st' else FErr EBadInteger
        end
      | FErr e => FErr e | FPanic p => FPanic p | FOutOfFuel => FOutOfFuel
      end
    end.

  Definition skip_line (st : rstate) : fres (unit * rstate) :=
    match read_L st with
    | FOk (_, st') => FOk (tt, st')
    | FErr e => FErr e | FPanic p => FPanic p | FOutOfFuel => FOutOfFuel
    end.

  Definition mem_kw (k : list N) (l : list (list N)) : bool := existsb (bytes_eqb k) l.

  (* counted loops over the reader state *)
  Fixpoint read_lines {A} (fuel : nat) (count : N) (rd : rstate -> fres (A * rstate)) (st : rstate)
    : fres (list A * rstate) :=
    if count =? 0 then FOk ([], st)
    else
      match fuel with
      | O => FOutOfFuel
      | S f =>
        match rd st with
        | FOk (x, st1) =>
          match read_lines f (count - 1) rd st1 with
          | FOk (xs, st2) => FOk (x :: xs, st2)
          | FErr e => FErr e | FPanic p => FPanic p | FOutOfFuel => FOutOfFuel
          end
        | FErr e => FErr e | FPanic p => FPanic p | FOutOfFuel => FOutOfFuel
        end
      end.

  (* the section loop; every iteration consumes at least one byte *)
  Fixpoint parse_sections (fuel : nat) (m : mesh) (st : rstate) : fres mesh :=
    match fuel with
    | O => FOutOfFuel
    | S f =>
      match read_T st with
      | FOk (sec, st1) =>
        if bytes_eqb sec kw_end then FOk m
        else if bytes_eqb sec kw_vertices then
          match read_usize st1 with
          | FOk (nv, st2) =>
            match (match cap8_check (m_dim m) nv with Some p => Some p | None => cap8_check nv 1 end) with
            | Some p => FPanic p
            | None =>
              match read_lines (S (length (snd st2))) nv (vertex_line (m_dim m)) st2 with
              | FOk (vs, st3) =>
                parse_sections f
                  (mkmesh (m_dim m) (flat_map fst vs) (flat_map (fun v => opt_list (snd v)) vs) (m_topo m)) st3
              | FErr e => FErr e | FPanic p => FPanic p | FOutOfFuel => FOutOfFuel
              end
            end
          | FErr e => FErr e | FPanic p => FPanic p | FOutOfFuel => FOutOfFuel
          end
        else
          match lookup_kw sec etype_keywords with
          | Some ty =>
            match find_count (S (length (snd st1))) (fst st1) st1 with
            | FOk (ne, st2) =>
              let npe := etype_node_count ty in
              match cap8_check ne (N.of_nat npe) with
              | Some p => FPanic p
              | None =>
                match read_lines (S (length (snd st2))) ne (element_line npe) st2 with
                | FOk (es, st3) =>
                  parse_sections f
                    (mkmesh (m_dim m) (m_coords m) (m_nrefs m)
                       (m_topo m ++ [mkblock ty (flat_map fst es) (flat_map (fun e => opt_list (snd e)) es)])) st3
                | FErr e => FErr e | FPanic p => FPanic p | FOutOfFuel => FOutOfFuel
                end
              end
            | FErr e => FErr e | FPanic p => FPanic p | FOutOfFuel => FOutOfFuel
            end
          | None =>
            if mem_kw sec ascii_skipped_sections then
              match read_usize st1 with
              | FOk (ne, st2) =>
                match read_lines (S (length (snd st2))) ne skip_line st2 with
                | FOk (_, st3) => parse_sections f m st3
                | FErr e => FErr e | FPanic p => FPanic p | FOutOfFuel => FOutOfFuel
                end
              | FErr e => FErr e | FPanic p => FPanic p | FOutOfFuel => FOutOfFuel
              end
            else FErr EUnexpectedToken
          end
      | FErr e => FErr e | FPanic p => FPanic p | FOutOfFuel => FOutOfFuel
      end
    end.

  Definition parse_ascii (s : list N) : fres mesh :=
    match read_T (1, s) with
    | FOk (hd, st1) =>
      if negb (bytes_eqb hd ascii_header) then FErr EUnexpectedToken
      else
        match read_usize st1 with
        | FOk (_, st2) =>
          match read_T st2 with
          | FOk (dk, st3) =>
            if negb (bytes_eqb dk kw_dimension) then FErr EUnexpectedToken
            else
              match read_usize st3 with
              | FOk (dim, st4) => parse_sections (S (length (snd st4))) (mkmesh dim [] [] []) st4
              | FErr e => FErr e | FPanic p => FPanic p | FOutOfFuel => FOutOfFuel
              end
          | FErr e => FErr e | FPanic p => FPanic p | FOutOfFuel => FOutOfFuel
          end
        | FErr e => FErr e | FPanic p => FPanic p | FOutOfFuel => FOutOfFuel
        end
    | FErr e => FErr e | FPanic p => FPanic p | FOutOfFuel => FOutOfFuel
    end.

  (* Mesh::from_reader on a byte slice (fill_buf returns the whole slice);
     FmtOther stands for the non-MEDIT branch (VTK / UnknownFormat) *)
  Definition from_reader (s : list N) : fres mesh :=
    match sniff s with
    | FOk FmtBinary => parse_binary s
    | FOk FmtAscii => parse_ascii s
    | FOk FmtOther => FErr EUnknownFormat
    | FErr e => FErr e | FPanic p => FPanic p | FOutOfFuel => FOutOfFuel
    end.
End Ascii.

(* Model of the space-filling-curve partitioners
     src/algorithms/hilbert_curve.rs  (weighted_quantiles, partition_indexed, HilbertCurve::partition)
     src/algorithms/z_curve.rs        (z_curve_partition, z_curve_partition_recurse)
     src/algorithms/multi_jagged.rs   (split_at_mut_many)
   Executable definitions only; proofs are in Proofs/SfcProofs.v.

   What enters as DATA (exported by the read-only hooks, DESIGN §3/§9):
   * HilbertCurve: the u64 curve index of every point (`hilbert_indices`);
     the encoders themselves are the subject of C08.
   * ZCurve: the quadrant function `mbr.region(p).unwrap_or(0)` for the box
     reached by a path of quadrants (nalgebra's rotation and the box
     arithmetic are not modelled numerically).

   Panic sites: 20 binary-search read out of range (Lib/Sorting), 21 `unwrap`
   of min/max of an empty index vector, 22 `debug_assert!(n > 0)`, 23 index
   out of bounds in weighted_quantiles, 24 `unwrap_err` on Ok, 25
   split_at_mut_many (subtraction underflow / `mid > len`), 26 division by
   zero (`part_count == 0`), 27 slice end out of range, 28
   `debug_assert_eq!(partition.len(), points.len())`, 29 `par_chunks(0)`,
   30 `assert!(order <= max_order)`. *)
From Coupe Require Import Lib.Prelude Lib.SFloat Lib.Sorting Gen.SfcGen.
From Coq Require Import Floats.SpecFloat.
Open Scope nat_scope.

(* ------------------------------------------------------------------ *)
(* HilbertCurve                                                        *)
(* ------------------------------------------------------------------ *)

(* partition_indexed, last phase:
     let (Ok(part_id) | Err(part_id)) = split_positions.binary_search(&index); *)
Fixpoint assign_parts (splits : list N) (idx : list N) : res (list N) :=
  match idx with
  | [] => Ok []
  | i :: t =>
    bind (bsearch_idx splits i) (fun p =>
    bind (assign_parts splits t) (fun r => Ok (N.of_nat p :: r)))
  end.

(* `partition.par_iter_mut().zip(hilbert_indices)`: the shorter side decides *)
Fixpoint write_zip (p0 ids : list N) : list N :=
  match p0, ids with
  | _ :: p0', x :: ids' => x :: write_zip p0' ids'
  | _, _ => p0
  end.

(* ---- weighted_quantiles, P = u64 (N), W = f64 ---- *)

Record split := mkSplit { s_pos : N; s_min : N; s_max : N; s_settled : bool }.

(* `P::avg` for u64 (src/average.rs): (a & b) + (a ^ b) / 2 *)
Definition avg_u64 (a b : N) : N := (N.land a b + N.lxor a b / 2)%N.

Definition fzero : spec_float := S754_zero false.          (* W::zero() *)
Definition fnegzero : spec_float := S754_zero true.        (* start value of `Sum for f64` *)
Definition f_of_nat (k : nat) : spec_float := f64_of_Z (Z.of_nat k).   (* `k as f64` *)
Definition f64_epsilon : spec_float := f64_of_bits 4372995238176751616%N.  (* 2^-52 *)

(* approx::abs_diff_eq!(a, b, epsilon = eps) for f64: |a - b| <= eps *)
Definition abs_diff_eq (eps a b : spec_float) : bool := fle (fabs (f64_sub a b)) eps.

(* the epsilon of the two `abs_diff_eq!` tests of weighted_quantiles.  [sc] is read
   from the source by the translator (Gen/SfcGen.v: hilbert_eps_scaled):
     false: `approx::abs_diff_eq!(pw.as_(), expected_left_weight)` (default epsilon f64::EPSILON;
            does not terminate for tiny total weights, Proofs/WqNonTermination.v)
     true:  `…, epsilon = f64::EPSILON * f64::min(1.0, total_weight.as_())`
   (`f64::min` returns the other operand when one is NaN) *)
Definition scan_eps (sc : bool) (total : spec_float) : spec_float :=
  if sc then f64_mul f64_epsilon (if flt total (f64_of_Z 1) then total else f64_of_Z 1)
  else f64_epsilon.

(* min_by / max_by (partial_cmp) of a non-empty vector of u64 *)
Definition min_list (l : list N) : option N :=
  match l with [] => None | x :: t => Some (fold_left N.min t x) end.
Definition max_list (l : list N) : option N :=
  match l with [] => None | x :: t => Some (fold_left N.max t x) end.

(* the fold over `points.par_iter().zip(weights)`; f64 additions are taken in
   sequence order (rayon may associate them differently: bit-exact only when
   the additions are exact, see Run/RunC09.v) *)
Fixpoint part_weights_of (positions : list N) (pts : list N) (ws : list spec_float)
         (acc : list spec_float) : res (list spec_float) :=
  match pts, ws with
  | p :: pt, w :: wt =>
    bind (bsearch_pc_idx positions p) (fun s =>
      match nth_opt acc s with
      | None => Panic 23
      | Some x => part_weights_of positions pt wt (set_nth acc s (f64_add x w))
      end)
  | _, _ => Ok acc
  end.

Fixpoint prefix_sums (acc : spec_float) (l : list spec_float) : list spec_float :=
  match l with
  | [] => []
  | x :: t => let s := f64_add acc x in s :: prefix_sums s t
  end.

(* `for q in p + 1..n - 1 { pw += part_weights[q]; ... }` *)
Fixpoint scan_up (eps : spec_float) (positions : list N) (pws : list spec_float) (expected : spec_float)
         (qs : list nat) (pw : spec_float) (mn mx : N) : res (N * N) :=
  match qs with
  | [] => Ok (mn, mx)
  | q :: qt =>
    match nth_opt pws q with
    | None => Panic 23
    | Some w =>
      let pw' := f64_add pw w in
      if abs_diff_eq eps pw' expected then
        match nth_opt positions q with Some sq => Ok (sq, sq) | None => Panic 23 end
      else if flt expected pw' then
        match nth_opt positions q with
        | Some sq => Ok (mn, if (sq <? mx)%N then sq else mx)
        | None => Panic 23
        end
      else if flt pw' expected then
        match nth_opt positions q with
        | Some sq => scan_up eps positions pws expected qt pw' sq mx
        | None => Panic 23
        end
      else scan_up eps positions pws expected qt pw' mn mx
    end
  end.

(* `for q in (0..p).rev() { pw -= part_weights[q + 1]; ... }` *)
Fixpoint scan_down (eps : spec_float) (positions : list N) (pws : list spec_float) (expected : spec_float)
         (qs : list nat) (pw : spec_float) (mn mx : N) : res (N * N) :=
  match qs with
  | [] => Ok (mn, mx)
  | q :: qt =>
    match nth_opt pws (S q) with
    | None => Panic 23
    | Some w =>
      let pw' := f64_sub pw w in
      if abs_diff_eq eps pw' expected then
        match nth_opt positions q with Some sq => Ok (sq, sq) | None => Panic 23 end
      else if flt pw' expected then
        match nth_opt positions q with
        | Some sq => Ok (if (mn <? sq)%N then sq else mn, mx)
        | None => Panic 23
        end
      else if flt expected pw' then
        match nth_opt positions q with
        | Some sq => scan_down eps positions pws expected qt pw' mn sq
        | None => Panic 23
        end
      else scan_down eps positions pws expected qt pw' mn mx
    end
  end.

(* ---- the quantile search, parametric in the epsilon flag [sc] (used for the
   refutation of the old comparison, Proofs/WqNonTermination.v) ---- *)

(* the body of the `.map(|(p, (mut split, left_weight))| ...)` closure;
   the boolean says whether the split was settled by this call
   (`todo_split_count -= 1`).  [tol] = SPLIT_TOLERANCE, [positions] = the
   positions of the splits BEFORE this round (the closure reads `splits[q]`
   of the old vector). *)
Definition update_split_g (sc : bool) (tol : spec_float) (n : nat) (positions : list N) (pws : list spec_float)
           (total : spec_float) (p : nat) (s : split) (left : spec_float) : res (split * bool) :=
  if s_settled s then Ok (s, false)
  else
    let lr := f64_div left (f_of_nat (p + 1)) in
    let rr := f64_div (f64_sub total left) (f_of_nat (n - p - 1)) in
    if flt (f64_div (fabs (f64_sub lr rr)) total) tol then
      Ok (mkSplit (s_pos s) (s_min s) (s_max s) true, true)
    else
      let expected := f64_div (f64_mul (f_of_nat (p + 1)) total) (f_of_nat n) in
      bind (if flt lr rr
            then scan_up (scan_eps sc total) positions pws expected (seq (p + 1) (n - 1 - (p + 1))) left (s_pos s) (s_max s)
            else scan_down (scan_eps sc total) positions pws expected (rev (seq 0 p)) left (s_min s) (s_pos s))
           (fun '(mn, mx) =>
              let np := avg_u64 mn mx in
              if (s_pos s =? np)%N then Ok (mkSplit (s_pos s) mn mx true, true)
              else Ok (mkSplit np mn mx false, false)).

(* `splits.iter().cloned().zip(prefix_left_weights).enumerate().map(..).collect()` *)
Fixpoint update_splits_g (sc : bool) (tol : spec_float) (n : nat) (positions : list N) (pws : list spec_float)
         (total : spec_float) (p : nat) (ss : list split) (lefts : list spec_float)
  : res (list split * nat) :=
  match ss, lefts with
  | s :: st, l :: lt =>
    bind (update_split_g sc tol n positions pws total p s l) (fun '(s', b) =>
    bind (update_splits_g sc tol n positions pws total (S p) st lt) (fun '(r, c) =>
      Ok (s' :: r, if b then S c else c)))
  | _, _ => Ok ([], O)
  end.

(* one round of the `while todo_split_count > 0` loop *)
Definition wq_round_g (sc : bool) (tol : spec_float) (n : nat) (pts : list N) (ws : list spec_float) (ss : list split)
  : res (list split * nat) :=
  let positions := map s_pos ss in
  bind (part_weights_of positions pts ws (repeat fzero n)) (fun pws =>
    let total := fold_left f64_add pws fnegzero in
    update_splits_g sc tol n positions pws total 0 ss (prefix_sums fzero pws)).

Fixpoint wq_loop_g (sc : bool) (tol : spec_float) (fuel n : nat) (pts : list N) (ws : list spec_float)
         (ss : list split) (todo : nat) : res (list split) :=
  match todo with
  | O => Ok ss
  | _ =>
    match fuel with
    | O => OutOfFuel
    | S f =>
      bind (wq_round_g sc tol n pts ws ss) (fun '(ss', settled_now) =>
        wq_loop_g sc tol f n pts ws ss' (todo - settled_now))
    end
  end.

Definition init_splits (mn mx : N) (n : nat) : list split :=
  map (fun i => mkSplit (mn + (mx - mn) / N.of_nat n * N.of_nat i)%N mn mx false) (seq 1 (n - 1)).

Definition weighted_quantiles_g (sc : bool) (tol : spec_float) (fuel : nat) (pts : list N) (ws : list spec_float) (n : nat)
  : res (list N) :=
  match n with
  | O => Panic 22
  | _ =>
    match min_list pts, max_list pts with
    | Some mn, Some mx =>
      let ss := init_splits mn mx n in
      bind (wq_loop_g sc tol fuel n pts ws ss (length ss)) (fun ss' => Ok (map s_pos ss'))
    | _, _ => Panic 21
    end
  end.

(* HilbertCurve::partition after the index computation: [idx] = the recorded
   `hilbert_indices` (one per point). *)
Definition hilbert_partition_g (sc : bool) (tol : spec_float) (max_order order : N) (fuel : nat)
           (idx : list N) (ws : list spec_float) (k : nat) (p0 : list N) : res (list N) :=
  if (max_order <? order)%N then Err (InvalidOrder max_order order)
  else
    match p0 with
    | [] => Ok []
    | _ =>
      bind (weighted_quantiles_g sc tol fuel idx ws k) (fun splits =>
      bind (assign_parts splits idx) (fun ids => Ok (write_zip p0 ids)))
    end.

(* ---- the quantile search of the CURRENT source: the same definitions at the flag the
   translator reads (Gen/SfcGen.v: hilbert_eps_scaled); `…  = …_g hilbert_eps_scaled`
   holds by computation (SfcProofs) ---- *)

(* the body of the `.map(|(p, (mut split, left_weight))| ...)` closure;
   the boolean says whether the split was settled by this call
   (`todo_split_count -= 1`).  [tol] = SPLIT_TOLERANCE, [positions] = the
   positions of the splits BEFORE this round (the closure reads `splits[q]`
   of the old vector). *)
Definition update_split (tol : spec_float) (n : nat) (positions : list N) (pws : list spec_float)
           (total : spec_float) (p : nat) (s : split) (left : spec_float) : res (split * bool) :=
  if s_settled s then Ok (s, false)
  else
    let lr := f64_div left (f_of_nat (p + 1)) in
    let rr := f64_div (f64_sub total left) (f_of_nat (n - p - 1)) in
    if flt (f64_div (fabs (f64_sub lr rr)) total) tol then
      Ok (mkSplit (s_pos s) (s_min s) (s_max s) true, true)
    else
      let expected := f64_div (f64_mul (f_of_nat (p + 1)) total) (f_of_nat n) in
      bind (if flt lr rr
            then scan_up (scan_eps hilbert_eps_scaled total) positions pws expected (seq (p + 1) (n - 1 - (p + 1))) left (s_pos s) (s_max s)
            else scan_down (scan_eps hilbert_eps_scaled total) positions pws expected (rev (seq 0 p)) left (s_min s) (s_pos s))
           (fun '(mn, mx) =>
              let np := avg_u64 mn mx in
              if (s_pos s =? np)%N then Ok (mkSplit (s_pos s) mn mx true, true)
              else Ok (mkSplit np mn mx false, false)).

(* `splits.iter().cloned().zip(prefix_left_weights).enumerate().map(..).collect()` *)
Fixpoint update_splits (tol : spec_float) (n : nat) (positions : list N) (pws : list spec_float)
         (total : spec_float) (p : nat) (ss : list split) (lefts : list spec_float)
  : res (list split * nat) :=
  match ss, lefts with
  | s :: st, l :: lt =>
    bind (update_split tol n positions pws total p s l) (fun '(s', b) =>
    bind (update_splits tol n positions pws total (S p) st lt) (fun '(r, c) =>
      Ok (s' :: r, if b then S c else c)))
  | _, _ => Ok ([], O)
  end.

(* one round of the `while todo_split_count > 0` loop *)
Definition wq_round (tol : spec_float) (n : nat) (pts : list N) (ws : list spec_float) (ss : list split)
  : res (list split * nat) :=
  let positions := map s_pos ss in
  bind (part_weights_of positions pts ws (repeat fzero n)) (fun pws =>
    let total := fold_left f64_add pws fnegzero in
    update_splits tol n positions pws total 0 ss (prefix_sums fzero pws)).

Fixpoint wq_loop (tol : spec_float) (fuel n : nat) (pts : list N) (ws : list spec_float)
         (ss : list split) (todo : nat) : res (list split) :=
  match todo with
  | O => Ok ss
  | _ =>
    match fuel with
    | O => OutOfFuel
    | S f =>
      bind (wq_round tol n pts ws ss) (fun '(ss', settled_now) =>
        wq_loop tol f n pts ws ss' (todo - settled_now))
    end
  end.


Definition weighted_quantiles (tol : spec_float) (fuel : nat) (pts : list N) (ws : list spec_float) (n : nat)
  : res (list N) :=
  match n with
  | O => Panic 22
  | _ =>
    match min_list pts, max_list pts with
    | Some mn, Some mx =>
      let ss := init_splits mn mx n in
      bind (wq_loop tol fuel n pts ws ss (length ss)) (fun ss' => Ok (map s_pos ss'))
    | _, _ => Panic 21
    end
  end.

(* HilbertCurve::partition after the index computation: [idx] = the recorded
   `hilbert_indices` (one per point). *)
Definition hilbert_partition (tol : spec_float) (max_order order : N) (fuel : nat)
           (idx : list N) (ws : list spec_float) (k : nat) (p0 : list N) : res (list N) :=
  if (max_order <? order)%N then Err (InvalidOrder max_order order)
  else
    match p0 with
    | [] => Ok []
    | _ =>
      bind (weighted_quantiles tol fuel idx ws k) (fun splits =>
      bind (assign_parts splits idx) (fun ids => Ok (write_zip p0 ids)))
    end.

(* ---- certified checker: part ids are monotone along the curve ---- *)

Definition mono_pair (a b : N * N) : bool :=
  (if (fst a <? fst b)%N then (snd a <=? snd b)%N else true)
  && (if (fst a =? fst b)%N then (snd a =? snd b)%N else true).

Definition check_monotone (idx parts : list N) : bool :=
  Nat.eqb (length idx) (length parts)
  && let l := combine idx parts in forallb (fun a => forallb (mono_pair a) l) l.

(* ------------------------------------------------------------------ *)
(* ZCurve                                                              *)
(* ------------------------------------------------------------------ *)

(* split_at_mut_many(slice, positions) *)
Fixpoint split_at_many {A} (l : list A) (positions : list nat) (drained : nat) : res (list (list A)) :=
  match positions with
  | [] => Ok [l]
  | pos :: pt =>
    if Nat.ltb pos drained then Panic 25               (* `*pos - drained_count` underflows *)
    else
      let k := pos - drained in
      if Nat.ltb (length l) k then Panic 25            (* split_at_mut: mid > len *)
      else bind (split_at_many (skipn k l) pt (drained + k)) (fun r => Ok (firstn k l :: r))
  end.

(* the `for n in split_positions.iter_mut()` loop: binary_search_by with a
   never-Equal comparator, then `unwrap_err` *)
Fixpoint split_positions (key : nat -> N) (sorted : list nat) (ns : list nat) : res (list nat) :=
  match ns with
  | [] => Ok []
  | n :: nt =>
    match bsearch_by (fun idx => if (key idx <? N.of_nat n)%N then Lt else Gt) sorted with
    | Ok (false, pos) => bind (split_positions key sorted nt) (fun r => Ok (pos :: r))
    | Ok (true, _) => Panic 24
    | Err e => Err e
    | Panic s => Panic s
    | OutOfFuel => OutOfFuel
    end
  end.

(* `slices.into_par_iter().enumerate().for_each(|(i, slice)| recurse(.., &mbr.sub_mbr(i), slice))`;
   the slices are disjoint pieces of `permu`, so the result is their concatenation *)
Fixpoint zslices (rec : N -> list nat -> res (list nat)) (i : nat) (sl : list (list nat)) : res (list nat) :=
  match sl with
  | [] => Ok []
  | s :: st =>
    bind (rec (N.of_nat i) s) (fun r =>
    bind (zslices rec (S i) st) (fun rs => Ok (r ++ rs)))
  end.

(* z_curve_partition_recurse.
   [nq] = 2^D quadrants; [q path idx] = `mbr.region(&points[idx]).unwrap_or(0)`
   for the box reached from the root by the quadrants [path] (top level
   first); [sorter key l] = what `par_sort_unstable_by_key` leaves (tie order
   unspecified: an oracle, see ZCurveProofs.sort_contract). *)
Fixpoint zrec (nq : nat) (q : list N -> nat -> N) (sorter : (nat -> N) -> list nat -> list nat)
         (order : nat) (path : list N) (permu : list nat) : res (list nat) :=
  match order with
  | O => Ok permu
  | S o =>
    if Nat.leb (length permu) 1 then Ok permu
    else
      let key := q path in
      let sorted := sorter key permu in
      bind (split_positions key sorted (seq 1 (nq - 1))) (fun sp =>
      bind (split_at_many sorted sp 0) (fun slices =>
        zslices (fun i s => zrec nq q sorter o (path ++ [i]) s) 0 slices))
  end.

(* `slice.chunks(size)`, size >= 1; on fuel = length (each chunk removes >= 1 element) *)
Fixpoint chunks {A} (fuel size : nat) (l : list A) : list (list A) :=
  match l with
  | [] => []
  | _ =>
    match fuel with
    | O => []
    | S f => firstn size l :: chunks f size (skipn size l)
    end
  end.

(* `for idx in chunk { ptr.add( *idx ).write(id) }` *)
Fixpoint write_ids (p : list N) (chunk : list nat) (id : N) : res (list N) :=
  match chunk with
  | [] => Ok p
  | i :: t => if Nat.ltb i (length p) then write_ids (set_nth p i id) t id else Panic 27
  end.
Fixpoint write_chunks (p : list N) (cs : list (list nat)) (id : N) : res (list N) :=
  match cs with
  | [] => Ok p
  | c :: t => bind (write_ids p c id) (fun p' => write_chunks p' t (id + 1)%N)
  end.

(* the chunk numbering at the end of z_curve_partition.
   [guard] = the source says `par_chunks(usize::max(1, points_per_partition))`
   (read by the translator); without it a zero chunk size panics. *)
Definition z_assign (guard : bool) (perm : list nat) (k : nat) (p0 : list N) : res (list N) :=
  let n := length perm in
  match k with
  | O => Panic 26
  | _ =>
    let ppp := Nat.div n k in
    let rem := Nat.modulo n k in
    let thr := (ppp + 1) * rem in
    if Nat.ltb n thr then Panic 27
    else
      let size2 := if guard then Nat.max 1 ppp else ppp in
      match size2 with
      | O => Panic 29
      | _ =>
        write_chunks p0 (chunks thr (ppp + 1) (firstn thr perm)
                         ++ chunks (n - thr) size2 (skipn thr perm)) 0%N
      end
  end.

(* z_curve_partition; [n] = points.len() *)
Definition zcurve (guard : bool) (nq : nat) (max_order : nat) (q : list N -> nat -> N)
           (sorter : (nat -> N) -> list nat -> list nat)
           (order : nat) (k : nat) (n : nat) (p0 : list N) : res (list N) :=
  if negb (Nat.eqb (length p0) n) then Panic 28
  else if Nat.ltb max_order order then Panic 30
  else
    match n with
    | O => Ok p0                       (* OrientedBoundingBox::from_points = None *)
    | _ =>
      bind (zrec nq q sorter order [] (seq 0 n)) (fun perm => z_assign guard perm k p0)
    end.

(* ---- specification vocabulary ---- *)

(* the depth-[order] Z-order cell of a point: its quadrant at every level *)
Fixpoint zcode (q : list N -> nat -> N) (order : nat) (path : list N) (idx : nat) : list N :=
  match order with
  | O => []
  | S o => let r := q path idx in r :: zcode q o (path ++ [r]) idx
  end.

(* the quadrant oracle rebuilt from the codes the hook records along every
   point's OWN path (one list of `order` quadrants per point).  Queries off a
   point's own path or below depth `order` never occur
   (ZOracleProofs.zcurve_codes_oracle); they would read the default. *)
Definition oracle_of_codes (codes : list (list N)) (path : list N) (i : nat) : N :=
  nth (length path) (nth i codes []) 0%N.

(* lexicographic order on codes *)
Fixpoint lex_leb (a b : list N) : bool :=
  match a, b with
  | [], _ => true
  | _ :: _, [] => false
  | x :: a', y :: b' => (x <? y)%N || ((x =? y)%N && lex_leb a' b')
  end.
Fixpoint lex_ltb (a b : list N) : bool :=
  match a, b with
  | _, [] => false
  | [], _ :: _ => true
  | x :: a', y :: b' => (x <? y)%N || ((x =? y)%N && lex_ltb a' b')
  end.

(* size of part [j] (n points, k parts): the first `n mod k` parts have one more *)
Definition chunk_size (n k j : nat) : nat :=
  if Nat.ltb j (Nat.modulo n k) then Nat.div n k + 1
  else if Nat.ltb j k then Nat.div n k else 0.
Definition block_sizes (n k : nat) : list nat := map (chunk_size n k) (seq 0 k).

(* [perm] is cut into consecutive blocks of the given sizes; the points of
   block number j (counted from [j]) have part id j *)
Fixpoint runs_ok (parts : list N) (perm : list nat) (sizes : list nat) (j : N) : Prop :=
  match sizes with
  | [] => perm = []
  | s :: st =>
    exists b rest, perm = b ++ rest /\ length b = s
      /\ Forall (fun a => nth_opt parts a = Some j) b
      /\ runs_ok parts rest st (j + 1)%N
  end.

(* ---- certified checkers ---- *)

Fixpoint sorted_by_code (codes : list (list N)) (perm : list nat) : bool :=
  match perm with
  | [] => true
  | a :: t =>
    match t with
    | [] => true
    | b :: _ =>
      match nth_opt codes a, nth_opt codes b with
      | Some ca, Some cb => lex_leb ca cb && sorted_by_code codes t
      | _, _ => false
      end
    end
  end.

Fixpoint nodupb (l : list nat) : bool :=
  match l with
  | [] => true
  | x :: t => negb (existsb (Nat.eqb x) t) && nodupb t
  end.
Definition is_perm_of_range (perm : list nat) (n : nat) : bool :=
  Nat.eqb (length perm) n && nodupb perm && forallb (fun i => Nat.ltb i n) perm.

Fixpoint follow_blocks (parts : list N) (perm : list nat) (sizes : list nat) (j : N) : bool :=
  match sizes with
  | [] => match perm with [] => true | _ => false end
  | s :: st =>
    Nat.eqb (length (firstn s perm)) s
    && forallb (fun a => match nth_opt parts a with Some p => (p =? j)%N | None => false end) (firstn s perm)
    && follow_blocks parts (skipn s perm) st (j + 1)%N
  end.

(* with the run's own permutation as the witness *)
Definition check_runs (codes : list (list N)) (perm : list nat) (parts : list N) (k : nat) : bool :=
  let n := length parts in
  Nat.eqb (length codes) n
  && is_perm_of_range perm n
  && sorted_by_code codes perm
  && follow_blocks parts perm (block_sizes n k) 0%N.

(* witness-free: ids never decrease when the cell increases, and every part
   has the size the chunking prescribes *)
Definition code_mono_pair (a b : list N * N) : bool :=
  if lex_ltb (fst a) (fst b) then (snd a <=? snd b)%N else true.

Definition check_zparts (codes : list (list N)) (parts : list N) (k : nat) : bool :=
  let n := length parts in
  Nat.eqb (length codes) n
  && (let l := combine codes parts in forallb (fun a => forallb (code_mono_pair a) l) l)
  && forallb (fun p => (p <? N.of_nat k)%N) parts
  && forallb (fun j => Nat.eqb (count_occ N.eq_dec parts (N.of_nat j)) (chunk_size n k j)) (seq 0 k).

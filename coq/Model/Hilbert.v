(* Model of src/algorithms/hilbert_curve.rs (pdep fallback, encode_2d_slow,
   encode_2d, encode_3d, segment_to_segment) and src/nextafter.rs.
   Executable definitions only; proofs are in Proofs/Hilbert*.v.

   Machine integers are N with an explicit [wrap64]/[wrap16] wherever the Rust
   operation can drop bits (`<<` on u64, `as u16`, `wrapping_neg`).  The model
   is the DEBUG profile the harness builds: `debug_assert!`s and shift-amount
   overflow are panics.  Panic sites:
     1 = LUT / table index out of bounds        2 = debug_assert!(min <= max)
     3 = debug_assert!(min <= v && v <= max)    4 = shift amount >= 64
     5 = debug_assert!(x < (1 << order)) (or y, z; or order < 64)
   The tables, masks and limits come from Gen/HilbertTables.v (re-read from the
   source by the translator on every run). *)
From Coupe Require Import Lib.Prelude Lib.SFloat Gen.HilbertTables.
From Coq Require Import Floats.SpecFloat.
Open Scope N_scope.

(* literals, so that evaluation does not recompute the powers *)
Definition two64 : N := Eval compute in 2 ^ 64.
Definition two16 : N := Eval compute in 2 ^ 16.
Definition ones64 : N := Eval compute in 2 ^ 64 - 1.
Definition ones16 : N := Eval compute in 2 ^ 16 - 1.
Definition not7_u64 : N := Eval compute in 2 ^ 64 - 8.          (* !7 as u64 *)
(* truncation to 64 / 16 bits ([N.land_ones]: = x mod 2^64; the mask form evaluates faster) *)
Definition wrap64 (x : N) : N := N.land x ones64.
Definition wrap16 (x : N) : N := N.land x ones16.

(* ------------------------------------------------------------------ pdep *)

(* one iteration of the `for _ in 0..64` body of pdep_u64_fallback;
   state = (result, bitmask, srcbit) *)
Definition pdep_step (st : N * N * N) : N * N * N :=
  let '(result, bitmask, srcbit) := st in
  if bitmask =? 0 then st
  else
    let rightmost := N.land bitmask (wrap64 (two64 - bitmask)) in   (* bitmask & bitmask.wrapping_neg() *)
    let bitmask' := N.land bitmask (bitmask - 1) in
    let result' := N.lor result (N.land srcbit 1 * rightmost) in
    (result', bitmask', N.shiftr srcbit 1).

Fixpoint pdep_loop (fuel : nat) (st : N * N * N) : N * N * N :=
  match fuel with
  | O => st
  | S f => pdep_loop f (pdep_step st)
  end.

Definition pdep (src mask : N) : N := fst (fst (pdep_loop 64 (0, mask, src))).

(* `LITERAL << k` on u64 *)
Definition mask_of (m : N * N) : N := wrap64 (N.shiftl (fst m) (snd m)).

(* ------------------------------------------------------- encode_2d_slow *)

Definition tab2 (t : list (list N)) (c q : N) : option N :=
  match nth_opt t (N.to_nat c) with
  | Some row => nth_opt row (N.to_nat q)
  | None => None
  end.

(* `while i > 0 { i -= 1; ... }` with i counting down from [order] *)
Fixpoint slow_loop (i : nat) (zorder hilbert config : N) : res (N * N) :=
  match i with
  | O => Ok (hilbert, config)
  | S i' =>
    let sh := 2 * N.of_nat i' in
    if 64 <=? sh then Panic 4
    else
      let quadrant := N.land (N.shiftr zorder sh) 3 in
      match tab2 base_pattern config quadrant, tab2 configuration config quadrant with
      | Some b, Some c => slow_loop i' zorder (N.lor (wrap64 (N.shiftl hilbert 2)) b) c
      | _, _ => Panic 1
      end
  end.

Definition encode_2d_slow (zorder : N) (order : nat) (config : N) : res (N * N) :=
  slow_loop order zorder 0 config.

(* ------------------------------------------------------------ encode_2d *)

(* LUT[i], built at compile time: the table is a function of its index *)
Definition lut2_entry (i : N) : res N :=
  let zorder := N.land i 0xfff in
  let config := N.shiftr i lut2_chunk_bits in
  match encode_2d_slow zorder lut2_order config with
  | Ok (h, c) => Ok (N.lor (wrap16 (N.shiftl c lut2_chunk_bits)) (wrap16 h))
  | Err e => Err e
  | Panic s => Panic s
  | OutOfFuel => OutOfFuel
  end.

(* entries the builder loop `while i < lut2_built` did not reach keep the initial 0 *)
Definition lut2_get (i : N) : res N :=
  if i <? lut2_len then (if i <? lut2_built then lut2_entry i else Ok 0) else Panic 1.

(* the `while shift > 0` loop; state (config, hilbert, shift) *)
Fixpoint e2_loop (fuel : nat) (zorder config hilbert : N) (shift : Z) : res (N * N * Z) :=
  if (0 <? shift)%Z then
    match fuel with
    | O => OutOfFuel
    | S f =>
      if (64 <=? shift)%Z then Panic 4
      else
        let idx := N.lor (N.land config 0xf000)
                         (wrap16 (N.land (N.shiftr zorder (Z.to_N shift)) 0xfff)) in
        match lut2_get idx with
        | Ok c => e2_loop f zorder c (N.lor (wrap64 (N.shiftl hilbert 12)) (N.land c 0xfff)) (shift - 12)
        | Err e => Err e
        | Panic s => Panic s
        | OutOfFuel => OutOfFuel
        end
    end
  else Ok (config, hilbert, shift).

Definition interleave2 (x y : N) : N :=
  N.lor (pdep x (mask_of pdep2_x)) (pdep y (mask_of pdep2_y)).

(* the code after the loop: last (partial, zero-padded) chunk and the final
   shifts.  [fixed] selects the final expression: repaired (true) or pinned (false) *)
Definition e2_final (fixed : bool) (zorder : N) (st : N * N * Z) : res N :=
  let '(config, hilbert, shift) := st in
  let ns := Z.to_N (- shift) in                         (* (-shift) as u64, 0 <= -shift <= 12 *)
  let idx := N.lor (N.land config 0xf000)
                   (wrap16 (N.land (wrap64 (N.shiftl zorder ns)) 0xfff)) in
  match lut2_get idx with
  | Ok c =>
    if fixed then
      Ok (N.lor (wrap64 (N.shiftl hilbert (Z.to_N (12 + shift)))) (N.shiftr (N.land c 0xfff) ns))
    else
      Ok (N.shiftr (N.lor (wrap64 (N.shiftl hilbert 12)) (N.land c 0xfff)) ns)
  | Err e => Err e
  | Panic s => Panic s
  | OutOfFuel => OutOfFuel
  end.

Definition encode_2d_gen (fixed : bool) (x y : N) (order : N) : res N :=
  if negb (order <? 64) || negb (x <? 2 ^ order) || negb (y <? 2 ^ order) then Panic 5
  else
    let zorder := interleave2 x y in
    bind (e2_loop 64 zorder 0 0 (2 * Z.of_N order - 12)%Z) (e2_final fixed zorder).

Definition encode_2d := encode_2d_gen encode_2d_final_fixed.

(* ------------------------------------------------------------ encode_3d *)

Definition interleave3 (x y z : N) : N :=
  N.lor (N.lor (pdep x (mask_of pdep3_x)) (pdep y (mask_of pdep3_y))) (pdep z (mask_of pdep3_z)).

(* `for i in (0..order).rev()` *)
Fixpoint e3_loop (i : nat) (zorder config hilbert : N) : res N :=
  match i with
  | O => Ok hilbert
  | S i' =>
    let sh := 3 * N.of_nat i' in
    if 64 <=? sh then Panic 4
    else
      match nth_opt lut3 (N.to_nat (N.lor config (N.land (N.shiftr zorder sh) 7))) with
      | None => Panic 1
      | Some e =>
        e3_loop i' zorder (N.land e not7_u64) (N.lor (wrap64 (N.shiftl hilbert 3)) (N.land e 7))
      end
  end.

Definition encode_3d (x y z : N) (order : N) : res N :=
  if negb (order <? 64) || negb (x <? 2 ^ order) || negb (y <? 2 ^ order) || negb (z <? 2 ^ order) then Panic 5
  else e3_loop (N.to_nat order) (interleave3 x y z) 0 0.

(* ------------------------------------------------- HilbertCurve::partition *)

(* the accepted orders, as the property text states them *)
Definition spec_max_order_2d : N := 32.
Definition spec_max_order_3d : N := 21.

(* the guard at the head of both `partition` impls:
   `if self.order > MAX_ORDER { return Err(InvalidOrder { max: MAX_ORDER, actual: self.order }) }` *)
Definition order_guard (max_order order : N) : res unit :=
  if max_order <? order then Err (InvalidOrder max_order order) else Ok tt.

(* ------------------------------------------------------------ nextafter *)

Definition f64_zero : spec_float := S754_zero false.
Definition f64_inf (s : bool) : spec_float := S754_infinity s.

Definition sign_of (x : spec_float) : bool :=
  match x with
  | S754_zero s | S754_infinity s | S754_finite s _ _ => s
  | S754_nan => false
  end.
(* f64::copysign(x, sgn) for non-NaN x *)
Definition copysign (x : spec_float) (s : bool) : spec_float :=
  match x with
  | S754_zero _ => S754_zero s
  | S754_infinity _ => S754_infinity s
  | S754_finite _ m e => S754_finite s m e
  | S754_nan => S754_nan
  end.
Definition fge (a b : spec_float) : bool := fle b a.

(* src/nextafter.rs, on bit patterns as the code does *)
Definition nextafter (from to : spec_float) : spec_float :=
  if feq from to then to
  else if is_nan from || is_nan to then S754_nan
  else if fge from (f64_inf false) then f64_inf false
  else if fle from (f64_inf true) then f64_inf true
  else if feq from f64_zero then copysign (f64_of_bits 1) (sign_of to)
  else
    let ret :=
      if Bool.eqb (flt from to) (flt f64_zero from)
      then f64_of_bits (f64_to_bits from + 1)
      else f64_of_bits (f64_to_bits from - 1) in
    if feq ret f64_zero then copysign ret (sign_of from) else ret.

(* --------------------------------------------------- segment_to_segment *)

(* Rust `x as u64` on f64: saturating, NaN -> 0 *)
Definition cast_u64 (x : spec_float) : N :=
  match x with
  | S754_nan => 0
  | S754_infinity s => if s then 0 else two64 - 1
  | _ =>
    match trunc_Z x with
    | Some z => if (z <? 0)%Z then 0 else if (Z.of_N two64 <=? z)%Z then two64 - 1 else Z.to_N z
    | None => 0
    end
  end.

(* `while n <= width * f { f = nextafter(f, 0.0) }` *)
Fixpoint seg_loop (fuel : nat) (n width f : spec_float) : res spec_float :=
  if fle n (f64_mul width f) then
    match fuel with
    | O => OutOfFuel
    | S k => seg_loop k n width (nextafter f f64_zero)
    end
  else Ok f.

Definition seg_fuel : nat := 200.

(* f64::min: the other operand when one is NaN *)
Definition f64_min (a b : spec_float) : spec_float :=
  if is_nan a then b else if is_nan b then a else if flt b a then b else a.
Definition f64_max_value : spec_float := Eval compute in f64_of_bits 0x7FEFFFFFFFFFFFFF.   (* f64::MAX *)

(* the part of segment_to_segment that runs before the closure is returned;
   [capped]: `(n / width).min(f64::MAX)` (repaired) or `n / width` (pinned) *)
Definition seg_factor_gen (capped : bool) (fuel : nat) (mn mx : spec_float) (order : N) : res spec_float :=
  if negb (fle mn mx) then Panic 2
  else if 64 <=? order then Panic 4
  else
    let width := f64_sub mx mn in
    let n := f64_of_Z (Z.of_N (2 ^ order)) in           (* (1_u64 << order) as f64, exact *)
    let f0 := f64_div n width in
    seg_loop fuel n width (if capped then f64_min f0 f64_max_value else f0).
Definition seg_factor := seg_factor_gen seg_factor_capped.

(* the closure *)
Definition seg_cell (f mn mx v : spec_float) : res N :=
  if fle mn v && fle v mx then Ok (cast_u64 (f64_mul f (f64_sub v mn))) else Panic 3.

Definition segment_to_segment (fuel : nat) (mn mx : spec_float) (order : N) (vs : list spec_float)
  : res (list N) :=
  bind (seg_factor fuel mn mx order) (fun f =>
    fold_right (fun v acc => bind (seg_cell f mn mx v) (fun c => bind acc (fun l => Ok (c :: l)))) (Ok []) vs).

(* ------------------------------------------- specification vocabulary *)

(* A table-driven recursive curve in dimension D (Q = 2^D children per cell):
   [digit s q] is the position of child quadrant q in the traversal of a cell
   in state s, [next s q] the state of that child.  Cells are identified by
   their Morton code z (D bits per level, most significant level first; inside
   a level axis 0 is the most significant bit). *)
Section Curve.
  Variable D : N.
  Variable digit next : N -> N -> N.

  Definition Qp (m : nat) : N := 2 ^ (D * N.of_nat m).
  (* the level-m digit (0 = finest level) of a code *)
  Definition qd (m : nat) (z : N) : N := (z / Qp m) mod 2 ^ D.

  Fixpoint enc (n : nat) (s z : N) : N :=
    match n with
    | O => 0
    | S m => digit s (qd m z) * Qp m + enc m (next s (qd m z)) z
    end.

  (* the state after descending n levels *)
  Fixpoint st (n : nat) (s z : N) : N :=
    match n with
    | O => s
    | S m => st m (next s (qd m z)) z
    end.

  (* inverse of a table row, by search *)
  Fixpoint find_q (s d : N) (k : nat) : N :=
    match k with
    | O => 0
    | S k' => if digit s (N.of_nat k') =? d then N.of_nat k' else find_q s d k'
    end.
  Definition invq (s d : N) : N := find_q s d (N.to_nat (2 ^ D)).

  Fixpoint dec (n : nat) (s h : N) : N :=
    match n with
    | O => 0
    | S m => let q := invq s (qd m h) in q * Qp m + dec m (next s q) h
    end.

  (* bit of quadrant q on axis i (axis 0 = most significant) *)
  Definition qbit (q i : N) : N := N.b2n (N.testbit q (D - 1 - i)).
  (* coordinate i of the cell with Morton code z at order n *)
  Fixpoint coord (n : nat) (i : N) (z : N) : N :=
    match n with
    | O => 0
    | S m => qbit (qd m z) i * 2 ^ N.of_nat m + coord m i z
    end.

  (* two cells share a face: one coordinate differs by exactly one *)
  Definition adjacent (n : nat) (z z' : N) : Prop :=
    exists i, i < D /\ (coord n i z + 1 = coord n i z' \/ coord n i z' + 1 = coord n i z)
              /\ forall j, j < D -> j <> i -> coord n j z = coord n j z'.
End Curve.

(* the 2-D machine of encode_2d_slow and the 3-D machine of encode_3d *)
Definition nth2 (t : list (list N)) (s q : N) : N := nth (N.to_nat q) (nth (N.to_nat s) t []) 0.
Definition digit2 : N -> N -> N := nth2 base_pattern.
Definition next2 : N -> N -> N := nth2 configuration.
Definition digit3 (s q : N) : N := N.land (nth (N.to_nat (8 * s + q)) lut3 0) 7.
Definition next3 (s q : N) : N := N.shiftr (nth (N.to_nat (8 * s + q)) lut3 0) 3.

(* Morton codes, most significant level first *)
Definition bitn (m : nat) (x : N) : N := (x / 2 ^ N.of_nat m) mod 2.
Fixpoint il2 (n : nat) (x y : N) : N :=
  match n with
  | O => 0
  | S m => (2 * bitn m x + bitn m y) * 4 ^ N.of_nat m + il2 m x y
  end.
Fixpoint il3 (n : nat) (x y z : N) : N :=
  match n with
  | O => 0
  | S m => (4 * bitn m x + 2 * bitn m y + bitn m z) * 8 ^ N.of_nat m + il3 m x y z
  end.

(* the curves on cells *)
Definition enc2 (n : nat) (s x y : N) : N := enc 2 digit2 next2 n s (il2 n x y).
Definition dec2 (n : nat) (s h : N) : N * N :=
  let z := dec 2 digit2 next2 n s h in (coord 2 n 0 z, coord 2 n 1 z).
Definition enc3 (n : nat) (s x y z : N) : N := enc 3 digit3 next3 n s (il3 n x y z).
Definition dec3 (n : nat) (s h : N) : N * N * N :=
  let c := dec 3 digit3 next3 n s h in (coord 3 n 0 c, coord 3 n 1 c, coord 3 n 2 c).

Definition adjacent2 (a b : N * N) : Prop :=
  (fst a = fst b /\ (snd a + 1 = snd b \/ snd b + 1 = snd a)) \/
  (snd a = snd b /\ (fst a + 1 = fst b \/ fst b + 1 = fst a)).
Definition adjacent3 (a b : N * N * N) : Prop :=
  let '(ax, ay, az) := a in let '(bx, by_, bz) := b in
  (ay = by_ /\ az = bz /\ (ax + 1 = bx \/ bx + 1 = ax)) \/
  (ax = bx /\ az = bz /\ (ay + 1 = by_ \/ by_ + 1 = ay)) \/
  (ax = bx /\ ay = by_ /\ (az + 1 = bz \/ bz + 1 = az)).

(* pdep specification: deposit the low bits of src at the set positions of mask *)
Fixpoint pdep_pos (p : positive) (src : N) : N :=
  match p with
  | xH => src mod 2
  | xO p' => 2 * pdep_pos p' src
  | xI p' => N.lor (src mod 2) (2 * pdep_pos p' (src / 2))
  end.
Definition pdep_ref (src mask : N) : N :=
  match mask with N0 => 0 | Npos p => pdep_pos p src end.
Fixpoint popcount_pos (p : positive) : N :=
  match p with xH => 1 | xO p' => popcount_pos p' | xI p' => 1 + popcount_pos p' end.
Definition popcount (a : N) : N := match a with N0 => 0 | Npos p => popcount_pos p end.
(* number of set bits of mask strictly below position k *)
Definition rank (mask k : N) : N := popcount (mask mod 2 ^ k).

(* ------------------------------------------------ boolean checkers *)

Definition adjacent2b (a b : N * N) : bool :=
  ((fst a =? fst b) && ((snd a + 1 =? snd b) || (snd b + 1 =? snd a))) ||
  ((snd a =? snd b) && ((fst a + 1 =? fst b) || (fst b + 1 =? fst a))).

(* quantisation: cells are monotone in v and at most 2^order - 1 *)
Fixpoint sortedN (l : list N) : bool :=
  match l with
  | a :: ((b :: _) as t) => (a <=? b) && sortedN t
  | _ => true
  end.
Definition check_seg (order : N) (cells : list N) : bool :=
  sortedN cells && forallb (fun c => c <=? 2 ^ order - 1) cells.

(* in-grid face neighbours, in the order the harness lists them:
   per axis (x, y[, z]): minus then plus *)
Definition nbrs1 (side c : N) : list N :=
  (if 0 <? c then [c - 1] else []) ++ (if c + 1 <? side then [c + 1] else []).
Definition nbrs2 (order x y : N) : list (N * N) :=
  let side := 2 ^ order in
  map (fun x' => (x', y)) (nbrs1 side x) ++ map (fun y' => (x, y')) (nbrs1 side y).
Definition nbrs3 (order x y z : N) : list (N * N * N) :=
  let side := 2 ^ order in
  map (fun x' => (x', y, z)) (nbrs1 side x) ++ map (fun y' => (x, y', z)) (nbrs1 side y)
  ++ map (fun z' => (x, y, z')) (nbrs1 side z).

(* the property as far as one cell, its parent and its face neighbours show it:
   index in range; dropping D bits gives the parent's index; the cells holding
   the next and the previous index are among the face neighbours; no neighbour
   shares the index.  [false] refutes bijectivity, continuity or the recurrence. *)
Definition check_cell (D order h hp : N) (nb : list N) : bool :=
  let total := 2 ^ (D * order) in
  (h <? total)
  && ((order =? 0) || (h / 2 ^ D =? hp))
  && (negb (h + 1 <? total) || existsb (fun h' => h' =? h + 1) nb)
  && ((h =? 0) || existsb (fun h' => h' + 1 =? h) nb)
  && forallb (fun h' => negb (h' =? h)) nb.

(* the per-cell check at every cell of the order-n grid, for an indexing [g]
   (and [gp] one order lower) *)
Definition all_cells2 (order : N) : list (N * N) :=
  let r := map N.of_nat (seq 0 (N.to_nat (2 ^ order))) in
  flat_map (fun x => map (fun y => (x, y)) r) r.
Definition all_cells3 (order : N) : list (N * N * N) :=
  let r := map N.of_nat (seq 0 (N.to_nat (2 ^ order))) in
  flat_map (fun x => flat_map (fun y => map (fun z => (x, y, z)) r) r) r.
Definition check_table2 (order : N) (g gp : N * N -> N) : bool :=
  forallb (fun c => check_cell 2 order (g c) (gp (fst c / 2, snd c / 2))
                               (map g (nbrs2 order (fst c) (snd c)))) (all_cells2 order).
Definition check_table3 (order : N) (g gp : N * N * N -> N) : bool :=
  forallb (fun c => let '(x, y, z) := c in
                    check_cell 3 order (g c) (gp (x / 2, y / 2, z / 2)) (map g (nbrs3 order x y z)))
          (all_cells3 order).

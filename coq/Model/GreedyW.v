(* Greedy (src/algorithms/greedy.rs) over an arbitrary weight arithmetic
   (Model/ArithW.v): the same transcription as Model/Greedy.v, every `+`, `<`
   of the Rust code going through the arithmetic -- in particular the loads
   are accumulated by the SAME sequence of (rounded) additions as in the code.
   Specification: an LPT run in that arithmetic.  Executable definitions only. *)
From Coupe Require Import Lib.Prelude Model.ArithW.

Section GreedyW.
  Variable A : arith.
  Notation Wt := (W A).

  (* Panic 1: `unwrap` of min_by on an empty vector; Panic 2: index out of bounds *)
  Fixpoint greedy_loopW (its : list (itemW A)) (pw : list Wt) (p : list N) : res (list N * list Wt) :=
    match its with
    | [] => Ok (p, pw)
    | (w, id) :: t =>
      match argmin_lastW A pw with
      | None => Panic 1
      | Some m =>
        if Nat.ltb id (length p) then
          match nth_opt pw m with
          | None => Panic 2
          | Some lm => greedy_loopW t (set_nth pw m (w_add A lm w)) (set_nth p id (N.of_nat m))
          end
        else Panic 2
      end
    end.

  Definition greedyW (ws : list Wt) (k : nat) (p0 : list N) : res (list N) :=
    if negb (Nat.eqb (length ws) (length p0)) then Err (InputLenMismatch (length p0) (length ws))
    else if Nat.ltb k 2 then Ok (map (fun _ => 0%N) p0)
    else bind (greedy_loopW (sort_items_descW A (items_ofW A ws)) (repeat (w_zero A) k) p0) (fun r => Ok (fst r)).

  (* ---- specification ---- *)

  (* one LPT run in this arithmetic: each weight in turn goes to ANY part no other part is lighter than *)
  Inductive lpt_runW : list Wt -> list Wt -> list Wt -> Prop :=
  | lptW_done L : lpt_runW [] L L
  | lptW_give w ws L i li L' :
      nth_opt L i = Some li -> (forall x, In x L -> w_ltb A x li = false) ->
      lpt_runW ws (set_nth L i (w_add A li w)) L' ->
      lpt_runW (w :: ws) L L'.

  (* the array [p] assigns the items, in this order, each to a currently lightest part;
     [L] = the loads accumulated so far (by the same additions as the code) *)
  Fixpoint is_lpt_assign (its : list (itemW A)) (p : list N) (L : list Wt) : Prop :=
    match its with
    | [] => True
    | (w, id) :: t =>
      exists q lq, nth_opt p id = Some q /\ nth_opt L (N.to_nat q) = Some lq
        /\ (forall x, In x L -> w_ltb A x lq = false)
        /\ is_lpt_assign t p (set_nth L (N.to_nat q) (w_add A lq w))
    end.

  (* ---- checker: replay the weights in the order of the scan ---- *)
  Fixpoint replay_lpt (its : list (itemW A)) (p : list N) (L : list Wt) : bool :=
    match its with
    | [] => true
    | (w, id) :: t =>
      match nth_opt p id with
      | None => false
      | Some q =>
        match nth_opt L (N.to_nat q) with
        | None => false
        | Some lq =>
          forallb (fun x => negb (w_ltb A x lq)) L && replay_lpt t p (set_nth L (N.to_nat q) (w_add A lq w))
        end
      end
    end.

  Definition check_greedyW (ws : list Wt) (k : nat) (p : list N) : bool :=
    Nat.eqb (length p) (length ws) && forallb (fun x => (x <? N.of_nat k)%N) p
    && replay_lpt (sort_items_descW A (items_ofW A ws)) p (repeat (w_zero A) k).
End GreedyW.

(* Model of Grid::rcb (src/cartesian/mod.rs, src/cartesian/rcb.rs), weights
   in Z: the i64 instance exactly, and the f64 instance for DYADIC weights
   w = z * 2^-k (z integer, one scale k per input) whose total z stays below
   2^53: every sum the code forms (slab sums, fold_chunks, the scans, the
   par_iter total) is then exact in f64 whatever the association, so the
   model works on the integers z and only the two thresholds are floats.
   Executable definitions only; proofs are in Proofs/GridRcb*.v.

   Panic sites: 1 = slice index out of bounds (weights[..], weights[min..max]),
   2 = array index out of bounds (size[coord], pos[coord]), 3 = usize
   subtraction underflow (split_at), 4 = fold_chunks(0), 5 = division by zero
   (chunk_count = 0), 8 = NonZeroUsize side of 0 (caller's unwrap), 9 = a
   dimension other than 2 or 3 (Grid::rcb is only defined for Grid<2>, Grid<3>). *)
From Coupe Require Import Lib.Prelude Lib.SFloat.
From Coq Require Import Floats.SpecFloat.

(* the literals of the source the proofs depend on (Gen/GridRcbGen.v) *)
Record cfg := mkcfg {
  min_chunks : nat;         (* usize::max(THIS, rayon::current_num_threads()) *)
  min_chunk_size : nat;     (* usize::max(THIS, (max - min) / chunk_count) *)
  tol_bits : N;             (* TOLERANCE as f64 bits *)
  start_rec2 : nat; start_rec3 : nat;     (* axis given to recurse_2d / recurse_3d *)
  start_po2 : nat; start_po3 : nat        (* axis given to part_of *)
}.

(* ---------------------------------------------------------------- Grid *)

Definition glen (ds : list nat) : nat := fold_right Nat.mul 1%nat ds.

(* Grid::index_of for D = 2, 3 *)
Definition index_of (ds pos : list nat) : res nat :=
  match ds, pos with
  | [w; _], [x; y] => Ok (x + w * y)%nat
  | [w; h; _], [x; y; z] => Ok (x + w * (y + h * z))%nat
  | _, _ => Panic 9
  end.

(* Grid::position_of for D = 2, 3 (sides are NonZeroUsize) *)
Definition position_of (ds : list nat) (i : nat) : res (list nat) :=
  match ds with
  | [w; _] => Ok [i mod w; i / w]%nat
  | [w; h; _] => Ok [i mod w; (i / w) mod h; i / w / h]%nat
  | _ => Panic 9
  end.

(* SubGrid: (offset, size) per axis *)
Definition subgrid := list (nat * nat).
Definition into_subgrid (ds : list nat) : subgrid := map (fun s => (0%nat, s)) ds.

(* SubGrid::axis *)
Definition axis (sub : subgrid) (c : nat) : res (list nat) :=
  match nth_opt sub c with
  | Some (off, size) => Ok (seq off size)
  | None => Panic 2
  end.

(* weights[grid.index_of(pos)] *)
Definition wat (ds : list nat) (ws : list Z) (pos : list nat) : res Z :=
  bind (index_of ds pos) (fun i =>
    match nth_opt ws i with Some w => Ok w | None => Panic 1 end).

Fixpoint sum_res {A} (f : A -> res Z) (l : list A) : res Z :=
  match l with
  | [] => Ok 0%Z
  | a :: t => bind (f a) (fun v => bind (sum_res f t) (fun s => Ok (v + s)%Z))
  end.

Fixpoint map_res {A B} (f : A -> res B) (l : list A) : res (list B) :=
  match l with
  | [] => Ok []
  | a :: t => bind (f a) (fun v => bind (map_res f t) (fun r => Ok (v :: r)))
  end.

(* the `axis_weights` of recurse_2d / recurse_3d, loop nests in the order of the source *)
Definition axis_weights (ds : list nat) (ws : list Z) (sub : subgrid) (coord : nat) : res (list Z) :=
  match ds with
  | [_; _] =>
    bind (axis sub 0) (fun ax0 => bind (axis sub 1) (fun ax1 =>
      if Nat.eqb coord 0 then
        map_res (fun x => sum_res (fun y => wat ds ws [x; y]) ax1) ax0
      else
        map_res (fun y => sum_res (fun x => wat ds ws [x; y]) ax0) ax1))
  | [_; _; _] =>
    bind (axis sub 0) (fun ax0 => bind (axis sub 1) (fun ax1 => bind (axis sub 2) (fun ax2 =>
      if Nat.eqb coord 0 then
        map_res (fun x => sum_res (fun y => sum_res (fun z => wat ds ws [x; y; z]) ax2) ax1) ax0
      else if Nat.eqb coord 1 then
        map_res (fun y => sum_res (fun z => sum_res (fun x => wat ds ws [x; y; z]) ax0) ax2) ax1
      else
        map_res (fun z => sum_res (fun x => sum_res (fun y => wat ds ws [x; y; z]) ax1) ax0) ax2)))
  | _ => Panic 9
  end.

(* ---------------------------------------------------------------- thresholds *)

(* Rust `x as i64` on f64: truncation toward zero, saturating, NaN -> 0 *)
Definition sat_i64 (x : spec_float) : Z :=
  match x with
  | S754_nan => 0
  | S754_infinity s => if s then - 2 ^ 63 else 2 ^ 63 - 1
  | _ => match trunc_Z x with
         | Some z => Z.max (- 2 ^ 63) (Z.min (2 ^ 63 - 1) z)
         | None => 0
         end
  end%Z.

(* the weight type W of the instance: i64, or f64 holding z * 2^-k *)
Inductive wty := I64 | F64 (k : nat).

(* W = f64: the thresholds stay floats and are only ever COMPARED with prefix
   sums p = z * 2^-k (z integer):  p < lo  <->  z < ceil (lo * 2^k) ;
   hi < p  <->  floor (hi * 2^k) < z.
   Non-finite thresholds (never produced for |total| < 2^1000) compare like +-2^1100 / NaN like "never". *)
Definition BIG : Z := (2 ^ 1100)%Z.
Definition ceil_cmp (k : Z) (lo : spec_float) : Z :=
  match lo with
  | S754_zero _ => 0
  | S754_finite s m e =>
      let n := if s then Zneg m else Zpos m in
      if 0 <=? e + k then n * 2 ^ (e + k) else - ((- n) / 2 ^ (- (e + k)))
  | S754_infinity s => if s then - BIG else BIG
  | S754_nan => - BIG
  end%Z.
Definition floor_cmp (k : Z) (hi : spec_float) : Z :=
  match hi with
  | S754_zero _ => 0
  | S754_finite s m e =>
      let n := if s then Zneg m else Zpos m in
      if 0 <=? e + k then n * 2 ^ (e + k) else n / 2 ^ (- (e + k))
  | S754_infinity s => if s then - BIG else BIG
  | S754_nan => BIG
  end%Z.

(* total_weight.as_(): i64 -> f64 rounds to nearest even; the f64 total z * 2^-k is itself *)
Definition total_f64 (fw : wty) (tot : Z) : spec_float :=
  match fw with
  | I64 => f64_of_Z tot
  | F64 k => binary_normalize 53 1024 tot (- Z.of_nat k) false
  end.

(* ideal_part_weight, min_part_weight, max_part_weight, in units of 2^-k for f64 *)
Definition thresholds (fw : wty) (tolb : N) (tot : Z) : Z * Z :=
  let tol := f64_of_bits tolb in
  let ideal := f64_div (total_f64 fw tot) (f64_of_Z 2) in
  let lo := f64_mul ideal (f64_sub (f64_of_Z 1) tol) in
  let hi := f64_mul ideal (f64_add (f64_of_Z 1) tol) in
  match fw with
  | F64 k => (ceil_cmp (Z.of_nat k) lo, floor_cmp (Z.of_nat k) hi)
  | I64 => (sat_i64 lo, sat_i64 hi)
  end.

(* ---------------------------------------------------------------- weighted_median *)

(* rayon `fold_chunks(cs, zero, +)` followed by collect: the sums of the
   consecutive chunks of cs elements (the last one may be shorter); fuel = length *)
Fixpoint fold_chunks (fuel cs : nat) (l : list Z) : list Z :=
  match fuel with
  | O => []
  | S f => match l with
           | [] => []
           | _ => sumZ (firstn cs l) :: fold_chunks f cs (skipn cs l)
           end
  end.

(* the `enumerate().scan(...)`: (chunk_start, left_weight + prefix) per chunk;
   `min`, `chunk_size`, `left_weight` are the values captured when the closure is built *)
Fixpoint prefix_scan (min cs : nat) (lw : Z) (idx : nat) (acc : Z) (cws : list Z) : list (nat * Z) :=
  match cws with
  | [] => []
  | c :: t => ((min + idx * cs)%nat, (lw + acc)%Z) :: prefix_scan min cs lw (S idx) (acc + c)%Z t
  end.

Inductive loop_res :=
| Ret (position : nat) (left_weight : Z)
| Cont (min max : nat) (left_weight : Z).

(* the `for (position, prefix_chunk_weight) in ...` loop *)
Fixpoint for_loop (items : list (nat * Z)) (mn mx : Z) (min max : nat) (lw : Z) : loop_res :=
  match items with
  | [] => Cont min max lw
  | (pos, pcw) :: t =>
    if (pcw <? mn)%Z then for_loop t mn mx pos max pcw
    else if (mx <? pcw)%Z then Cont min pos lw
    else Ret pos pcw
  end.

(* the `loop { ... }`; [T] = rayon::current_num_threads() *)
Fixpoint median_loop (c : cfg) (fuel T : nat) (ws : list Z) (mn mx : Z) (min max : nat) (lw : Z)
  : res (nat * Z) :=
  match fuel with
  | O => OutOfFuel
  | S f =>
    let chunk_count := Nat.max (min_chunks c) T in
    if Nat.eqb chunk_count 0 then Panic 5 else
    if Nat.ltb max min || Nat.ltb (length ws) max then Panic 1 else
    let chunk_size := Nat.max (min_chunk_size c) ((max - min) / chunk_count) in
    if Nat.eqb chunk_size 0 then Panic 4 else
    let sl := firstn (max - min) (skipn min ws) in
    let cws := fold_chunks (length sl) chunk_size sl in
    match for_loop (prefix_scan min chunk_size lw 0 0%Z cws) mn mx min max lw with
    | Ret p w => Ok (p, w)
    | Cont min' max' lw' =>
      if Nat.leb max' (min' + 1) then Ok (min', lw')
      else median_loop c f T ws mn mx min' max' lw'
    end
  end.

Definition weighted_median (c : cfg) (fuel T : nat) (fw : wty) (ws : list Z) (tot : Z) : res (nat * Z) :=
  let '(mn, mx) := thresholds fw (tol_bits c) tot in
  median_loop c fuel T ws mn mx 0 (length ws) 0%Z.

(* ---------------------------------------------------------------- recursion *)

Inductive tree := Whole | Split (position : nat) (l r : tree).

(* recurse_2d / recurse_3d ([D] = 2 / 3), structural on iter_count *)
Fixpoint recurse (c : cfg) (fuel T : nat) (fw : wty) (ds : list nat) (ws : list Z)
         (sub : subgrid) (tot : Z) (iter_count coord : nat) : res tree :=
  match nth_opt sub coord with
  | None => Panic 2
  | Some (off, size) =>
    match iter_count with
    | O => Ok Whole
    | S k =>
      if Nat.eqb size 0 then Ok Whole else
      bind (axis_weights ds ws sub coord) (fun aw =>
      bind (weighted_median c fuel T fw aw tot) (fun '(position, left_weight) =>
        let split_position := (position + off)%nat in
        let right_weight := (tot - left_weight)%Z in
        (* split_at: `at - offset` and `size -= at - offset` on usize *)
        if Nat.ltb split_position off || Nat.ltb size (split_position - off) then Panic 3 else
        let low := set_nth sub coord (off, split_position - off)%nat in
        let high := set_nth sub coord (split_position, size - (split_position - off))%nat in
        let nc := (S coord mod length ds)%nat in
        bind (recurse c fuel T fw ds ws low left_weight k nc) (fun l =>
        bind (recurse c fuel T fw ds ws high right_weight k nc) (fun r =>
          Ok (Split split_position l r)))))
    end
  end.

(* IterationResult::part_of *)
Fixpoint part_of (D : nat) (t : tree) (pos : list nat) (coord : nat) (id : N) : res N :=
  match t with
  | Whole => Ok id
  | Split p l r =>
    match nth_opt pos coord with
    | None => Panic 2
    | Some x =>
      if Nat.ltb x p then part_of D l pos (S coord mod D) (2 * id)%N
      else part_of D r pos (S coord mod D) (2 * id + 1)%N
    end
  end.

(* Grid::<2>::rcb / Grid::<3>::rcb; [plen] = partition.len() *)
Definition grid_rcb (c : cfg) (fuel T : nat) (fw : wty) (ds : list nat) (ws : list Z)
           (iter_count plen : nat) : res (list N) :=
  if existsb (Nat.eqb 0) ds then Panic 8 else
  match (match length ds with
         | 2 => Some (start_rec2 c, start_po2 c)
         | 3 => Some (start_rec3 c, start_po3 c)
         | _ => None end)%nat with
  | None => Panic 9
  | Some (sr, sp) =>
    let total_weight := sumZ ws in
    bind (recurse c fuel T fw ds ws (into_subgrid ds) total_weight iter_count sr) (fun iters =>
      map_res (fun i => bind (position_of ds i) (fun pos => part_of (length ds) iters pos sp 0%N))
              (seq 0 plen))
  end.

(* ---------------------------------------------------------------- specification vocabulary *)

(* weight of the cell at a position (0 outside the grid: only used inside) *)
Definition wfun (ds : list nat) (ws : list Z) (pos : list nat) : Z :=
  match wat ds ws pos with Ok w => w | _ => 0%Z end.

(* sum of f over the cells of a box, axes outermost first *)
Fixpoint box_sum (sub : subgrid) (f : list nat -> Z) : Z :=
  match sub with
  | [] => f []
  | (off, n) :: r => sumZ (map (fun x => box_sum r (fun p => f (x :: p))) (seq off n))
  end.

(* weight of the slab of the box at coordinate j of axis c *)
Definition slab (f : list nat -> Z) (sub : subgrid) (c j : nat) : Z := box_sum (set_nth sub c (j, 1%nat)) f.

Definition in_box (sub : subgrid) (pos : list nat) : Prop :=
  Forall2 (fun os x => (fst os <= x < fst os + snd os)%nat) sub pos.

(* prefix sum *)
Definition pre (ws : list Z) (j : nat) : Z := sumZ (firstn j ws).

Section Spec.
  Variable D : nat.
  Variable f : list nat -> Z.
  (* balance clause of one bisection: total weight split, weight of the low
     side, weight of the slab just above the cut, weight of the slab just below *)
  Variable bal : Z -> Z -> Z -> Z -> Prop.

  Definition node_bal (sub : subgrid) (c off p : nat) : Prop :=
    bal (box_sum sub f) (box_sum (set_nth sub c (off, p - off)%nat) f) (slab f sub c p)
        (if Nat.eqb p off then 0%Z else slab f sub c (p - 1)).

  (* [TreeOK d c sub t]: t is a recursive bisection of the box [sub] of depth
     at most d, cutting axis c first and then cyclically; a leaf above the full
     depth is an empty box; every cut lies inside the box and satisfies [bal]. *)
  Inductive TreeOK : nat -> nat -> subgrid -> tree -> Prop :=
  | T_leaf0 c sub : TreeOK 0 c sub Whole
  | T_leaf_empty d c sub off : nth_opt sub c = Some (off, 0%nat) -> TreeOK d c sub Whole
  | T_node d c sub off size p l r :
      nth_opt sub c = Some (off, size) -> size <> 0%nat ->
      (off <= p < off + size)%nat ->
      node_bal sub c off p ->
      TreeOK d (S c mod D) (set_nth sub c (off, p - off)%nat) l ->
      TreeOK d (S c mod D) (set_nth sub c (p, size - (p - off))%nat) r ->
      TreeOK (S d) c sub (Split p l r).
End Spec.

(* ---- the property's balance clause ----
   tot = weight being split, wl = weight of the low side, sr / sl = weight of
   the slab just above / just below the cut (all in the same unit).
   band: the low side is within 1% of half the weight
     - i64 weights: plus one unit (the thresholds are truncated to integers);
       for totals of 2^46 and more the f64 rounding of `total as f64 / 2.0 *
       fl(1 -+ TOLERANCE)` exceeds 1/200 unit (up to ~2^9 units at 2^62) and
       the literal "1% + 1 unit" is FALSE of the code (Properties/C10.v,
       C10_strict_band_refuted); what holds there is 1%*(1 + 2^-40) + 1 unit;
     - f64 weights: NO unit; the relative allowance 2^-e (e = 40 for exact
       dyadic weights) only covers the rounding of the two f64 products
       ideal * fl(1 -+ TOLERANCE) the code itself compares with
       (each within 2^-52 of 0.99 / 1.01 times half).
   adjacent: the cut is next to the slab that holds the half-weight mark. *)
Definition band_unit (tot wl : Z) : Prop := (100 * Z.abs (2 * wl - tot) <= tot + 200)%Z.
Definition band_rel (e : Z) (tot wl : Z) : Prop :=
  (2 ^ e * (100 * Z.abs (2 * wl - tot)) <= (2 ^ e + 1) * tot)%Z.
Definition adjacent (tot wl sr sl : Z) : Prop :=
  ((2 * wl <= tot <= 2 * (wl + sr)) \/ (2 * (wl - sl) <= tot <= 2 * wl))%Z.
Definition band_unit_rel (e : Z) (tot wl : Z) : Prop :=
  (2 ^ e * (100 * Z.abs (2 * wl - tot)) <= (2 ^ e + 1) * tot + 2 ^ e * 200)%Z.
Definition band_i64 (tot wl : Z) : Prop :=
  if (tot <? 2 ^ 46)%Z then band_unit tot wl else band_unit_rel 40 tot wl.
Definition bal_unit (tot wl sr sl : Z) : Prop := band_unit tot wl \/ adjacent tot wl sr sl.
Definition bal_i64 (tot wl sr sl : Z) : Prop := band_i64 tot wl \/ adjacent tot wl sr sl.
Definition bal_rel (e : Z) (tot wl sr sl : Z) : Prop := band_rel e tot wl \/ adjacent tot wl sr sl.

Definition band_unit_b (tot wl : Z) : bool := (100 * Z.abs (2 * wl - tot) <=? tot + 200)%Z.
Definition band_rel_b (e : Z) (tot wl : Z) : bool :=
  (2 ^ e * (100 * Z.abs (2 * wl - tot)) <=? (2 ^ e + 1) * tot)%Z.
Definition adjacent_b (tot wl sr sl : Z) : bool :=
  (((2 * wl <=? tot) && (tot <=? 2 * (wl + sr))) || ((2 * (wl - sl) <=? tot) && (tot <=? 2 * wl)))%Z.
Definition band_unit_rel_b (e : Z) (tot wl : Z) : bool :=
  (2 ^ e * (100 * Z.abs (2 * wl - tot)) <=? (2 ^ e + 1) * tot + 2 ^ e * 200)%Z.
Definition band_i64_b (tot wl : Z) : bool :=
  if (tot <? 2 ^ 46)%Z then band_unit_b tot wl else band_unit_rel_b 40 tot wl.
Definition bal_unit_b (tot wl sr sl : Z) : bool := band_unit_b tot wl || adjacent_b tot wl sr sl.
Definition bal_i64_b (tot wl sr sl : Z) : bool := band_i64_b tot wl || adjacent_b tot wl sr sl.
Definition bal_rel_b (e : Z) (tot wl sr sl : Z) : bool := band_rel_b e tot wl || adjacent_b tot wl sr sl.

(* the clause for a weight type *)
Definition bal_prop (fw : wty) : Z -> Z -> Z -> Z -> Prop :=
  match fw with I64 => bal_i64 | F64 _ => bal_rel 40 end.
Definition bal_prop_b (fw : wty) : Z -> Z -> Z -> Z -> bool :=
  match fw with I64 => bal_i64_b | F64 _ => bal_rel_b 40 end.

(* The statement of C10 about an output array [ids] of Grid::rcb. *)
Definition C10_spec (bal : Z -> Z -> Z -> Z -> Prop) (s : nat) (ds : list nat) (ws : list Z)
           (k : nat) (ids : list N) : Prop :=
  length ids = glen ds /\
  Forall (fun q => (q < 2 ^ N.of_nat k)%N) ids /\
  exists t, TreeOK (length ds) (wfun ds ws) bal k s (into_subgrid ds) t /\
    forall i, (i < glen ds)%nat ->
      exists pos q, position_of ds i = Ok pos /\ in_box (into_subgrid ds) pos /\ index_of ds pos = Ok i /\
                    part_of (length ds) t pos s 0%N = Ok q /\ nth_opt ids i = Some q.

(* ---------------------------------------------------------------- checker *)

Fixpoint check_tree (D : nat) (f : list nat -> Z) (balb : Z -> Z -> Z -> Z -> bool)
         (d c : nat) (sub : subgrid) (t : tree) : bool :=
  match t with
  | Whole =>
    match d with
    | O => true
    | S _ => match nth_opt sub c with Some (_, O) => true | _ => false end
    end
  | Split p l r =>
    match d with
    | O => false
    | S d' =>
      match nth_opt sub c with
      | None => false
      | Some (off, size) =>
        negb (Nat.eqb size 0) && Nat.leb off p && Nat.ltb p (off + size)
        && balb (box_sum sub f) (box_sum (set_nth sub c (off, p - off)%nat) f) (slab f sub c p)
                      (if Nat.eqb p off then 0%Z else slab f sub c (p - 1))
        && check_tree D f balb d' (S c mod D) (set_nth sub c (off, p - off)%nat) l
        && check_tree D f balb d' (S c mod D) (set_nth sub c (p, size - (p - off))%nat) r
      end
    end
  end.

(* Rebuild the bisection tree from the ids alone: at depth d (of k) the bit
   k-1-d of the id of a cell tells its side; the cut is placed after the slabs
   whose representative cell (other coordinates at the box's offsets) is on
   the low side.  Nothing is assumed of this function: its result is only a
   candidate witness, verified by [check_tree] and by recomputing the ids. *)
Definition id_at (ds : list nat) (ids : list N) (pos : list nat) : option N :=
  match index_of ds pos with
  | Ok i => nth_opt ids i
  | _ => None
  end.

Fixpoint rebuild (ds : list nat) (ids : list N) (d c : nat) (sub : subgrid) : tree :=
  match d with
  | O => Whole
  | S d' =>
    match nth_opt sub c with
    | None | Some (_, O) => Whole
    | Some (off, size) =>
      let bit := N.of_nat d' in          (* d = k - depth: bit k-1-depth = d-1 *)
      let low j := match id_at ds ids (map fst (set_nth sub c (j, 1%nat))) with
                   | Some q => negb (N.testbit q bit)
                   | None => false
                   end in
      let nonempty := forallb (fun os => negb (Nat.eqb (snd os) 0)) sub in
      let cnt := if nonempty then length (filter low (seq off size)) else 0%nat in
      let p := (off + cnt)%nat in
      Split p (rebuild ds ids d' (S c mod length ds) (set_nth sub c (off, p - off)%nat))
              (rebuild ds ids d' (S c mod length ds) (set_nth sub c (p, size - (p - off))%nat))
    end
  end.

Fixpoint list_eqb_N (a b : list N) : bool :=
  match a, b with
  | [], [] => true
  | x :: a', y :: b' => (x =? y)%N && list_eqb_N a' b'
  | _, _ => false
  end.

Definition ids_of_tree (ds : list nat) (t : tree) (sp : nat) : res (list N) :=
  map_res (fun i => bind (position_of ds i) (fun pos => part_of (length ds) t pos sp 0%N))
          (seq 0 (glen ds)).

Definition check_C10 (balb : Z -> Z -> Z -> Z -> bool) (s : nat) (ds : list nat) (ws : list Z) (k : nat) (ids : list N) : bool :=
  negb (existsb (Nat.eqb 0) ds)
  && (Nat.eqb (length ds) 2 || Nat.eqb (length ds) 3)
  && Nat.eqb (length ws) (glen ds)
  && Nat.eqb (length ids) (glen ds)
  && forallb (fun q => (q <? 2 ^ N.of_nat k)%N) ids
  && let t := rebuild ds ids k s (into_subgrid ds) in
     check_tree (length ds) (wfun ds ws) balb k s (into_subgrid ds) t
     && match ids_of_tree ds t s with
        | Ok ids' => list_eqb_N ids' ids
        | _ => false
        end.

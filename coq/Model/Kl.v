(* Model of src/algorithms/kernighan_lin.rs (KernighanLin, two parts).
   Executable definitions only; proofs are in Proofs/KlProofs.v.

   Edge weights / gains / cut sizes are f64 in the code; they are integer
   valued and small in the contract, so they are modelled in Z (recorded
   assumption: f64 +,-,*2 and comparisons are exact on integers below 2^53).

   The vertex weights are used by the code only through `.zip(weights.iter())`
   in the two candidate scans, i.e. through their number: [wlen].

   Panic sites: 1 = `unimplemented!()` (number of distinct part ids <> 2; since
   3ea376d only > 2: fewer than two ids return at once, flag [few_ids_return]),
   2 = index out of bounds / `outer_view(..).unwrap()` on a missing row,
   3 = `.unwrap()` of the second candidate scan,
   4 = (pinned tree only) `.unwrap()` of `min_by` on an empty `cut_saves`,
   5 = (pinned tree only) `.unwrap()` of the first candidate scan.

   [old_scan = true] / [old_rewind = true] reproduce the tree before the `fix:`
   commits 0b6d4a7 / 625d2b1, [few_ids_return = false] the one before 3ea376d
   (kept for the regression witnesses); which one the current source is, is
   read from it by the translator (Gen/KlGen.v). *)
From Coupe Require Import Lib.Prelude Lib.Graph.
Open Scope Z_scope.

Record kl_cfg := {
  max_passes : option N;          (* Option<usize> *)
  max_flips : option N;           (* Option<usize> *)
  max_bad : N;                    (* max_bad_move_in_a_row *)
  old_scan : bool;                (* first candidate scan ends in `.unwrap()`, no `any` test *)
  old_rewind : bool;              (* `min_by(..).unwrap()`, rewind keeps saves[..=best_pos] *)
  few_ids_return : bool;          (* `if unique_ids.len() < 2 { return; }` precedes the `unimplemented!()` *)
  sprs_cut : bool                 (* the topology is a CsMatView (overridden edge_cut); false: Topology::edge_cut *)
}.

(* itertools `unique()`: first occurrences, in order *)
Fixpoint uniq (seen : list N) (p : list N) : list N :=
  match p with
  | [] => []
  | x :: t => if existsb (N.eqb x) seen then uniq seen t else x :: uniq (x :: seen) t
  end.

(* `adjacency.edge_cut(partition)`, which depends on the topology type:
   - CsMatView overrides it (src/topology/sprs.rs): `partition[vertex]` for every row, then
     take_while (u < v) -- the neighbours it reads are < vertex;
   - every other topology (Grid, &T, user types) runs the provided method of the trait
     (src/topology/mod.rs): filter (partition[vertex] != partition[u] && u < v), which reads
     `partition[u]` for EVERY neighbour. *)
Definition cut_of (sp : bool) (g : graph) (p : list N) : Z :=
  if sp then edge_cut_sprs g p else edge_cut g p.
Definition edge_cut_chk (sp : bool) (g : graph) (p : list N) : option Z :=
  if Nat.leb (length g) (length p)
     && (sp || forallb (forallb (fun e => Nat.ltb (fst e) (length p))) g)
  then Some (cut_of sp g p) else None.

(* "construct gains", one vertex: for (j, w) in neighbors(idx) *)
Fixpoint gain_row (p : list N) (pi : N) (r : row) (acc : Z) : option Z :=
  match r with
  | [] => Some acc
  | (j, w) :: t =>
    match nth_opt p j with
    | None => None
    | Some pj => gain_row p pi t (if (pi =? pj)%N then acc - w else acc + w)
    end
  end.

(* "construct gains": for (idx, gain) in gains.iter_mut().enumerate();
   the values ACCUMULATE from one flip to the next, as in the code *)
Fixpoint add_gains (g : graph) (p : list N) (idx : nat) (gains : list Z) : option (list Z) :=
  match gains with
  | [] => Some []
  | x :: t =>
    match nth_opt g idx, nth_opt p idx with
    | Some r, Some pi =>
      match gain_row p pi r x with
      | None => None
      | Some x' =>
        match add_gains g p (S idx) t with
        | None => None
        | Some t' => Some (x' :: t')
        end
      end
    | _, _ => None
    end
  end.

(* gains.zip(locks).zip(weights).enumerate().filter(part == uid && !locked)
   .max_by(gain): the LAST maximum *)
Fixpoint argmax_last (uid : N) (wlen idx : nat) (p : list N) (gains : list Z) (locks : list bool)
         (best : option (nat * Z)) : option (nat * Z) :=
  match p, gains, locks with
  | pi :: p', gi :: g', li :: l' =>
    let best' :=
      if Nat.ltb idx wlen && (pi =? uid)%N && negb li then
        match best with
        | Some (_, gb) => if gi <? gb then best else Some (idx, gi)
        | None => Some (idx, gi)
        end
      else best in
    argmax_last uid wlen (S idx) p' g' l' best'
  | _, _, _ => best
  end.

(* initial_partition.iter().zip(&locks).any(part == uid && !locked) *)
Fixpoint any_free (uid : N) (p : list N) (locks : list bool) : bool :=
  match p, locks with
  | pi :: p', li :: l' => ((pi =? uid)%N && negb li) || any_free uid p' l'
  | _, _ => false
  end.

(* "update gain of neighbors" of the first chosen vertex *)
Fixpoint upd_nbrs (p : list N) (p1 : N) (r : row) (gains : list Z) : option (list Z) :=
  match r with
  | [] => Some gains
  | (j, w) :: t =>
    match nth_opt p j, nth_opt gains j with
    | Some pj, Some gj => upd_nbrs p p1 t (set_nth gains j (if (p1 =? pj)%N then gj + 2 * w else gj - 2 * w))
    | _, _ => None
    end
  end.

(* slice::swap *)
Definition swap (p : list N) (a b : nat) : option (list N) :=
  match nth_opt p a, nth_opt p b with
  | Some x, Some y => Some (set_nth (set_nth p a y) b x)
  | _, _ => None
  end.

Fixpoint swaps (p : list N) (l : list (nat * nat)) : option (list N) :=
  match l with
  | [] => Some p
  | (a, b) :: t => match swap p a b with None => None | Some p' => swaps p' t end
  end.

(* what a pass's flip loop leaves behind: partition, saves, cut_saves (push order) *)
Definition flips_out := (list N * list (nat * nat) * list Z)%type.

(* the flip loop, [k] iterations left *)
Fixpoint kl_flips (sp old : bool) (g : graph) (uid0 uid1 : N) (wlen : nat) (no_bad : bool) (k : nat)
         (p : list N) (gains : list Z) (locks : list bool) (saves : list (nat * nat)) (cuts : list Z)
  : res flips_out :=
  match k with
  | O => Ok (p, saves, cuts)
  | S k' =>
    match add_gains g p 0 gains with
    | None => Panic 2
    | Some gains1 =>
      match argmax_last uid0 wlen 0 p gains1 locks None with
      | None => if old then Panic 5 else Ok (p, saves, cuts)
      | Some (pos1, g1) =>
        if negb old && negb (any_free uid1 p locks) then Ok (p, saves, cuts)
        else
          match nth_opt g pos1, nth_opt p pos1 with
          | Some r1, Some p1 =>
            match upd_nbrs p p1 r1 gains1 with
            | None => Panic 2
            | Some gains2 =>
              match argmax_last uid1 wlen 0 p gains2 locks None with
              | None => Panic 3
              | Some (pos2, g2) =>
                if (g1 + g2 <=? 0) && no_bad then Ok (p, saves, cuts)
                else
                  match swap p pos1 pos2 with
                  | None => Panic 2
                  | Some p' =>
                    match edge_cut_chk sp g p' with
                    | None => Panic 2
                    | Some c =>
                      kl_flips sp old g uid0 uid1 wlen no_bad k' p' gains2
                               (set_nth (set_nth locks pos1 true) pos2 true)
                               (saves ++ [(pos1, pos2)]) (cuts ++ [c])
                    end
                  end
              end
            end
          | _, _ => Panic 2
          end
      end
    end
  end.

(* cut_saves.iter().cloned().enumerate().min_by(cut): the FIRST minimum *)
Fixpoint first_min (idx : nat) (l : list Z) (best : option (nat * Z)) : option (nat * Z) :=
  match l with
  | [] => best
  | x :: t =>
    first_min (S idx) t
      (match best with
       | Some (_, b) => if x <? b then Some (idx, x) else best
       | None => Some (idx, x)
       end)
  end.

(* (initial_partition.len() / 2).min(max_flips_per_pass.unwrap_or(usize::MAX)) *)
Definition flip_count (n : nat) (mf : option N) : nat :=
  match mf with
  | None => Nat.div2 n
  | Some m => if (N.of_nat (Nat.div2 n) <=? m)%N then Nat.div2 n else N.to_nat m
  end.

Definition of_swaps (o : option (list N)) : res (list N) :=
  match o with Some p => Ok p | None => Panic 2 end.

(* the pass loop `for iter in 0..`; [cut] is `new_cut_size` *)
Fixpoint kl_passes (cfg : kl_cfg) (g : graph) (uid0 uid1 : N) (wlen : nat) (fuel : nat)
         (iter : N) (cut : Z) (p : list N) : res (list N) :=
  match fuel with
  | O => OutOfFuel
  | S f =>
    if match max_passes cfg with Some m => (m <=? iter)%N | None => false end then Ok p
    else
      let n := length p in
      match kl_flips (sprs_cut cfg) (old_scan cfg) g uid0 uid1 wlen (max_bad cfg =? 0)%N (flip_count n (max_flips cfg))
                     p (repeat 0 n) (repeat false n) [] [] with
      | Ok (p', saves, cuts) =>
        match first_min 0 cuts None with
        | Some (pos, c) =>
          if old_rewind cfg || (c <? cut) then
            (* rewind saves[best_pos + 1 ..] *)
            match swaps p' (skipn (S pos) saves) with
            | None => Panic 2
            | Some p'' => if c >=? cut then Ok p'' else kl_passes cfg g uid0 uid1 wlen f (iter + 1)%N c p''
            end
          else of_swaps (swaps p' saves)          (* undo all of them, break *)
        | None => if old_rewind cfg then Panic 4 else of_swaps (swaps p' saves)
        end
      | Err e => Err e
      | Panic s => Panic s
      | OutOfFuel => OutOfFuel
      end
  end.

Definition kl (cfg : kl_cfg) (fuel : nat) (g : graph) (wlen : nat) (p : list N) : res (list N) :=
  match uniq [] p with
  | [u0; u1] =>
    match edge_cut_chk (sprs_cut cfg) g p with
    | None => Panic 2
    | Some c => kl_passes cfg g u0 u1 wlen fuel 0%N c p
    end
  | [] | [_] => if few_ids_return cfg then Ok p else Panic 1
  | _ => Panic 1
  end.

(* a number of passes after which the loop has certainly stopped *)
Definition kl_fuel (sp : bool) (g : graph) (p : list N) : nat :=
  match edge_cut_chk sp g p with Some c => S (S (Z.to_nat c)) | None => 1%nat end.

(* ---- specification vocabulary and certified checker (lemmas in Proofs/KlProofs.v) ---- *)

Fixpoint count (x : N) (p : list N) : nat :=
  match p with [] => O | y :: t => (if (y =? x)%N then 1 else 0) + count x t end.

(* same part sizes for every id occurring in either array *)
Definition same_sizes (p p' : list N) : Prop := forall x, count x p' = count x p.
Definition same_sizesb (p p' : list N) : bool :=
  forallb (fun x => Nat.eqb (count x p') (count x p)) (uniq [] (p ++ p')).   (* each id once *)

Definition check_C15 (g : graph) (p p' : list N) : bool :=
  Nat.eqb (length p') (length p) && same_sizesb p p' && (edge_cut g p' <=? edge_cut g p).

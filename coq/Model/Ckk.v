(* Model of src/algorithms/ckk.rs (CompleteKarmarkarKarp, i64 weights).
   Executable definitions only; proofs are in Proofs/CkkProofs.v.

   The sorted Vec<(T, usize)> of the Rust code (ascending, `pop()` takes the
   largest) is kept as a list in DESCENDING order: head = what `pop()` returns. *)
From Coupe Require Import Lib.Prelude Lib.SFloat.
From Coq Require Import Floats.SpecFloat.
Open Scope Z_scope.

Definition item := (Z * nat)%type.

(* `a < b` on Rust tuples (weight, id): strict lexicographic order *)
Definition ltb_item (a b : item) : bool :=
  (fst a <? fst b) || ((fst a =? fst b) && (Nat.ltb (snd a) (snd b))).

(* `add`: binary_search_by(partial_cmp) never answers Equal, so on a sorted
   vector the insertion point is the number of elements `< e`; in the
   descending view: before the first element that is `< e`. *)
Fixpoint insert (e : item) (l : list item) : list item :=
  match l with
  | [] => [e]
  | x :: t => if ltb_item x e then e :: l else x :: insert e t
  end.

(* `sort_unstable_by(partial_cmp)` on pairs with pairwise distinct ids: the
   order is total and strict, so the result is unique. *)
Definition sort_desc (l : list item) : list item := fold_right insert [] l.

Record step := { sa : nat; sb : nat; separate : bool }.

(* ckk_bipart_rec.  [sep_sum] is the literal stored in the `separate` field by
   the SUM branch; it is read from the source by the translator
   (Gen/CkkGen.v).  Result: None = out of fuel; Some None = `false`;
   Some (Some (last_id, steps)) = `true`, steps most recent first. *)
Fixpoint ckk_rec (sep_sum : bool) (fuel : nat) (l : list item) (tol : Z) (steps : list step)
  : option (option (nat * list step)) :=
  match fuel with
  | O => None
  | S f =>
    match l with
    | [] => Some None            (* debug_assert_ne!(len, 0): never reached from ckk *)
    | [(w, i)] => if w <=? tol then Some (Some (i, steps)) else Some None
    | (aw, ai) :: (bw, bi) :: t =>
      match ckk_rec sep_sum f (insert (aw - bw, ai) t) tol
                    ({| sa := ai; sb := bi; separate := true |} :: steps) with
      | None => None
      | Some (Some r) => Some (Some r)
      | Some None =>
        ckk_rec sep_sum f (insert (aw + bw, ai) t) tol
                ({| sa := ai; sb := bi; separate := sep_sum |} :: steps)
      end
    end
  end.

(* ckk_bipart_build: `steps.iter().rev()` on a Vec that grows at its end =
   most recent first = head first here.  Panic 1: index out of bounds,
   Panic 3: `1 - partition[a]` underflow. *)
Fixpoint build (p : list N) (steps : list step) : res (list N) :=
  match steps with
  | [] => Ok p
  | s :: rest =>
    match nth_opt p (sa s) with
    | None => Panic 1
    | Some pa =>
      if Nat.ltb (sb s) (length p) then
        if separate s then
          (if (pa <=? 1)%N then build (set_nth p (sb s) (1 - pa)%N) rest else Panic 3)
        else build (set_nth p (sb s) pa) rest
      else Panic 1
    end
  end.

(* `T::from_f64(sum.to_f64().unwrap() * tolerance).unwrap()` for T = i64 *)
Definition tol_int (sum : Z) (tol : spec_float) : option Z :=
  match trunc_Z (f64_mul (f64_of_Z sum) tol) with
  | Some z => if (- 2 ^ 63 <=? z) && (z <? 2 ^ 63) then Some z else None
  | None => None
  end.

Definition items_of (ws : list Z) : list item := combine ws (seq 0 (length ws)).

(* ckk_bipart.  Panic 2: the `unwrap` of the tolerance conversion. *)
Definition ckk (sep_sum : bool) (ws : list Z) (tol : spec_float) (p0 : list N) : res (list N) :=
  if negb (Nat.eqb (length ws) (length p0)) then Err (InputLenMismatch (length p0) (length ws))
  else
    match ws with
    | [] => Ok p0
    | _ =>
      match tol_int (sumZ ws) tol with
      | None => Panic 2
      | Some t =>
        match ckk_rec sep_sum (length ws) (sort_desc (items_of ws)) t [] with
        | None => OutOfFuel
        | Some None => Err NotFound
        | Some (Some (last, stps)) =>
            if Nat.ltb last (length p0) then build (set_nth p0 last 0%N) stps else Panic 1
        end
      end
    end.

(* ---- specification vocabulary ---- *)

(* weight of part [b] *)
Fixpoint load (ws : list Z) (p : list N) (b : N) : Z :=
  match ws, p with
  | w :: ws', x :: p' => (if (x =? b)%N then w else 0) + load ws' p' b
  | _, _ => 0
  end.

Definition two_way (p : list N) : Prop := Forall (fun x => (x <= 1)%N) p.
Definition diff (ws : list Z) (p : list N) : Z := Z.abs (load ws p 1 - load ws p 0).

(* ---- certified checker (lemmas in Proofs/CkkProofs.v) ---- *)

(* all signed sums ±w1 ±w2 ... (deduplicated: the classic subset-sum DP) *)
Fixpoint nodupZ (l : list Z) : list Z :=
  match l with
  | [] => []
  | x :: t => if existsb (Z.eqb x) t then nodupZ t else x :: nodupZ t
  end.
Fixpoint signed_sums (ws : list Z) : list Z :=
  match ws with
  | [] => [0]
  | w :: t => let r := signed_sums t in nodupZ (map (Z.add w) r ++ map (fun s => s - w) r)
  end.
Definition exists_within (ws : list Z) (t : Z) : bool :=
  existsb (fun s => Z.abs s <=? t) (signed_sums ws).

Inductive outcome := OOk (p : list N) | ONotFound.

Definition check_C13 (ws : list Z) (t : Z) (o : outcome) : bool :=
  match o with
  | OOk p => Nat.eqb (length p) (length ws) && forallb (fun x => (x <=? 1)%N) p
             && (diff ws p <=? t)
  | ONotFound => negb (exists_within ws t)
  end.

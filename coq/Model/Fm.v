(* Model of src/algorithms/fiduccia_mattheyses.rs (FiducciaMattheyses, i64
   vertex weights, i64 edge weights).  Executable definitions only; proofs are
   in Proofs/FmProofs.v.

   The vertex moved at each step is whatever `HashSet` iteration yields first
   among the admissible ones, which is random per process: the model takes the
   choices as an ORACLE (per pass: the `current_edge_cut` recorded at the pass
   start and the list of (vertex, gain) the implementation recorded through
   the `coupe_verif` hook), REPLAYS them and checks each against exactly what
   the code guarantees about its choice:
     - the gain is the label of the highest bucket holding a feasible vertex
       (feasible: part_weights[target] + weight <= max_part_weight),
     - the vertex belongs to that bucket and is feasible,
     - its target part weight is minimal among the bucket's feasible vertices.
   A choice that fails the test, a missing or a superfluous choice make the
   run end in [FmBad code] (the correspondence fails); theorems quantify over
   all oracles.

   Panic sites: 2 = index out of bounds (slice or gain table),
   6 = `debug_assert_eq!(current_edge_cut, adjacency.edge_cut(partition))`
       (only when [fm_dbg], i.e. a build with debug assertions),
   7 = `W::from_f64(..).unwrap()` of the cap, 8 = negative table size,
   9 = `1 - initial_part` underflow. *)
From Coupe Require Import Lib.Prelude Lib.SFloat Lib.Graph.
From Coq Require Import Floats.SpecFloat.
Open Scope Z_scope.

Record fm_cfg := {
  fm_max_passes : option N;
  fm_max_moves : option N;
  fm_max_imb : option spec_float;
  fm_max_bad : N;
  fm_dbg : bool
}.

Inductive fm_out :=
| FmOk (p : list N) (moves_per_pass rewinded_moves_per_pass : list N)
| FmBad (code : N).   (* 1 missing choice | 2 inadmissible choice | 3 superfluous choice | 4 recorded cut differs | 5 pass count differs *)

(* one recorded pass: `current_edge_cut` at its start, the moves (vertex, gain) *)
Definition pass_rec := (Z * list (nat * Z))%type.

(* weight of part [b] (imbalance::compute_parts_load) *)
Fixpoint load (ws : list Z) (p : list N) (b : N) : Z :=
  match ws, p with
  | w :: ws', x :: p' => (if (x =? b)%N then w else 0) + load ws' p' b
  | _, _ => 0
  end.

Definition pw_get (pw : Z * Z) (q : N) : Z := if (q =? 0)%N then fst pw else snd pw.
Definition pw_add (pw : Z * Z) (q : N) (w : Z) : Z * Z :=
  if (q =? 0)%N then (fst pw + w, snd pw) else (fst pw, snd pw + w).

(* `1 - initial_part` on usize *)
Definition other (x : N) : option N := if (x <=? 1)%N then Some (1 - x)%N else None.

(* W::from_f64 for i64 *)
Definition to_i64 (x : spec_float) : option Z :=
  match trunc_Z x with
  | Some z => if (- 2 ^ 63 <=? z) && (z <? 2 ^ 63) then Some z else None
  | None => None
  end.

(* max_part_weight *)
Definition fm_cap (mi : option spec_float) (pw : Z * Z) : option Z :=
  match mi with
  | Some m =>
      let ideal := f64_div (f64_of_Z (fst pw + snd pw)) (f64_of_Z 2) in
      to_i64 (f64_add ideal (f64_mul m ideal))
  | None => Some (Z.max (fst pw) (snd pw))
  end.

(* The cap of the PROPERTY TEXT: the heaviest input part, or "(1 + max_imbalance) x half the
   total" as an ideal f64 implementation of the documented formula returns it: the EXACT value
   (max_imbalance = the value of the binary64 parameter, the total in Z) rounded ONCE to the
   nearest binary64, ties to even, then truncated to i64 like `W::from_f64`.  [fm_cap] above is
   the CODE's cap, which rounds three times (`total.to_f64()`, the product, the sum); the two
   differ only when these roundings accumulate (known finding, Properties/C07.v).
   (1 + mi) * t / 2 is an integer times a power of two: [binary_normalize] rounds it once. *)
Definition f64_rn (m e : Z) : spec_float := binary_normalize 53 1024 m e false.

Definition cap_prop (mi : option spec_float) (pw : Z * Z) : option Z :=
  let t := fst pw + snd pw in
  match mi with
  | None => Some (Z.max (fst pw) (snd pw))
  | Some (S754_zero _) => to_i64 (f64_rn t (-1))
  | Some (S754_finite s m e) =>
      let n := if s then Z.neg m else Z.pos m in              (* mi = n * 2^e *)
      if 0 <=? e then to_i64 (f64_rn ((1 + n * 2 ^ e) * t) (-1))
      else to_i64 (f64_rn ((2 ^ (- e) + n) * t) (e - 1))
  | Some _ => None                                            (* NaN, infinite *)
  end.

(* the gain of a vertex from its row; `partition[neighbor]` may be out of bounds *)
Fixpoint row_gain_chk (p : list N) (pv : N) (r : row) : option Z :=
  match r with
  | [] => Some 0
  | (u, w) :: t =>
    match nth_opt p u, row_gain_chk p pv t with
    | Some pu, Some s => Some ((if (pu =? pv)%N then - w else w) + s)
    | _, _ => None
    end
  end.

Definition row_weight (r : row) : Z := sumZ (map snd r).
(* max_possible_gain: `(0..n).map(row sum).max().unwrap()` *)
Definition max_gain (g : graph) : option Z :=
  match g with
  | [] => None
  | r :: t => Some (fold_left (fun a r' => Z.max a (row_weight r')) t (row_weight r))
  end.

(* Gain table `gain_to_vertex`: in the code a boxed slice of 2*mpg+1 HashSets, the set of gain
   g at index g + mpg; an index outside the slice panics.  Here: the range test of the index
   ([tbl_idx]) and the NON-EMPTY buckets only, as an association list from the gain to its set,
   kept in DESCENDING gain order (a slice of a million empty sets is not executable under
   vm_compute; an absent gain = an empty set).  HashSet semantics for insert / remove. *)
Definition table := list (Z * list nat).
Definition bucket_insert (b : list nat) (v : nat) : list nat := if existsb (Nat.eqb v) b then b else v :: b.
Definition bucket_remove (b : list nat) (v : nat) : list nat := filter (fun u => negb (Nat.eqb u v)) b.
Fixpoint tget (t : table) (k : Z) : list nat :=
  match t with
  | [] => []
  | (k', b) :: t' => if k' =? k then b else tget t' k
  end.
Fixpoint tset (t : table) (k : Z) (b : list nat) : table :=
  match t with
  | [] => [(k, b)]
  | (k', b') :: t' =>
    if k' =? k then (k, b) :: t'
    else if k' <? k then (k, b) :: t
    else (k', b') :: tset t' k b
  end.
(* gain_table_idx + the bounds check of the slice: Some gain iff 0 <= gain + mpg < 2*mpg+1 *)
Definition tbl_idx (mpg gain : Z) : option Z :=
  let i := gain + mpg in if (0 <=? i) && (i <? 2 * mpg + 1) then Some gain else None.
Definition tbl_upd (t : table) (i : option Z) (f : list nat -> list nat) : option table :=
  match i with
  | Some k => Some (tset t k (f (tget t k)))
  | None => None
  end.

Record fm_st := {
  s_p : list N;
  s_pw : Z * Z;
  s_v2g : list (option Z);
  s_g2v : table;
  s_cur : Z;
  s_best : Z;
  s_bestmove : option nat;
  s_nbad : N;
  s_hist : list (nat * N)       (* (vertex, initial_part), push order *)
}.

(* the initial gain of every vertex, written in both tables (start of a pass) *)
Fixpoint init_tables (p : list N) (mpg : Z) (v : nat) (rows : graph) (pv : list N) (t : table) {struct pv}
  : option (list (option Z) * table) :=
  match pv with
  | [] => Some ([], t)
  | x :: pv' =>
    match rows with
    | [] => None
    | r :: rows' =>
      match row_gain_chk p x r with
      | None => None
      | Some gn =>
        match tbl_upd t (tbl_idx mpg gn) (fun b => bucket_insert b v) with
        | None => None
        | Some t' =>
          match init_tables p mpg (S v) rows' pv' t' with
          | None => None
          | Some (l, t'') => Some (Some gn :: l, t'')
          end
        end
      end
    end
  end.

(* feasibility of one vertex: Some None = over the cap, Some (Some t) = target part weight t *)
Definition feas (ws : list Z) (p : list N) (pw : Z * Z) (cap : Z) (v : nat) : option (option Z) :=
  match nth_opt ws v, nth_opt p v with
  | Some w, Some x =>
    match other x with
    | None => None
    | Some tgt => let t := pw_get pw tgt + w in Some (if cap <? t then None else Some t)
    end
  | _, _ => None
  end.

(* min target part weight among the feasible vertices of a bucket *)
Fixpoint bucket_min (ws : list Z) (p : list N) (pw : Z * Z) (cap : Z) (b : list nat) (best : option Z)
  : option (option Z) :=
  match b with
  | [] => Some best
  | v :: b' =>
    match feas ws p pw cap v with
    | None => None
    | Some None => bucket_min ws p pw cap b' best
    | Some (Some t) =>
      bucket_min ws p pw cap b'
        (match best with Some m => if t <? m then Some t else best | None => Some t end)
    end
  end.

(* buckets given from the highest gain down: the first one with a feasible vertex *)
Fixpoint find_top (ws : list Z) (p : list N) (pw : Z * Z) (cap : Z) (bs : list (Z * list nat))
  : option (option (Z * Z)) :=
  match bs with
  | [] => Some None
  | (gn, b) :: bs' =>
    match bucket_min ws p pw cap b None with
    | None => None
    | Some (Some m) => Some (Some (gn, m))
    | Some None => find_top ws p pw cap bs'
    end
  end.

(* gain_to_vertex.iter().rev().zip((-mpg..=mpg).rev()): the buckets from the highest gain
   down, each with its gain (the empty ones, which the scan skips, are not stored) *)
Definition buckets_desc (mpg : Z) (t : table) : list (Z * list nat) := t.

(* the loop over the neighbours of the moved vertex *)
Fixpoint upd_nbrs (mpg : Z) (p : list N) (init : N) (r : row) (v2g : list (option Z)) (t : table)
  : option (list (option Z) * table) :=
  match r with
  | [] => Some (v2g, t)
  | (u, w) :: r' =>
    match nth_opt v2g u with
    | None => None
    | Some None => upd_nbrs mpg p init r' v2g t
    | Some (Some old) =>
      match nth_opt p u with
      | None => None
      | Some pu =>
        let new := if (pu =? init)%N then old + 2 * w else old - 2 * w in
        match tbl_upd t (tbl_idx mpg old) (fun b => bucket_remove b u) with
        | None => None
        | Some t1 =>
          match tbl_upd t1 (tbl_idx mpg new) (fun b => bucket_insert b u) with
          | None => None
          | Some t2 => upd_nbrs mpg p init r' (set_nth v2g u (Some new)) t2
          end
        end
      end
    end
  end.

(* is the recorded choice one the code could have made? *)
Definition choice_ok (ws : list Z) (st : fm_st) (mpg cap gn mint : Z) (v : nat) (gv : Z) : bool :=
  (gv =? gn)
  && match tbl_idx mpg gn with
     | Some k => existsb (Nat.eqb v) (tget (s_g2v st) k)
     | None => false
     end
  && match feas ws (s_p st) (s_pw st) cap v with Some (Some t) => t =? mint | _ => false end.

Inductive mv_res := MvOk (st : fm_st) | MvBad (code : N).

(* apply one move *)
Definition do_move (dbg : bool) (g : graph) (ws : list Z) (mpg : Z) (st : fm_st) (move_num : nat) (v : nat) (gn : Z)
  : res fm_st :=
  match nth_opt (s_p st) v, nth_opt ws v, nth_opt g v with
  | Some init, Some w, Some r =>
    match other init with
    | None => Panic 9
    | Some tgt =>
      match tbl_upd (s_g2v st) (tbl_idx mpg gn) (fun b => bucket_remove b v) with
      | None => Panic 2
      | Some t1 =>
        let p' := set_nth (s_p st) v tgt in
        let pw' := pw_add (pw_add (s_pw st) init (- w)) tgt w in
        let cur := s_cur st - gn in
        if dbg && negb (cur =? edge_cut_sprs g p') then Panic 6
        else
          let better := cur <? s_best st in
          match upd_nbrs mpg p' init r (set_nth (s_v2g st) v None) t1 with
          | None => Panic 2
          | Some (v2g', t2) =>
            Ok {| s_p := p'; s_pw := pw'; s_v2g := v2g'; s_g2v := t2; s_cur := cur;
                  s_best := if better then cur else s_best st;
                  s_bestmove := if better then Some move_num else s_bestmove st;
                  s_nbad := s_nbad st;
                  s_hist := s_hist st ++ [(v, init)] |}
          end
      end
    end
  | _, _, _ => Panic 2
  end.

(* the move loop `for move_num in 0..max_moves_per_pass` *)
Fixpoint fm_moves (cfg : fm_cfg) (g : graph) (ws : list Z) (mpg cap : Z) (fuel : nat) (move_num : nat)
         (st : fm_st) (orc : list (nat * Z)) : res mv_res :=
  match fuel with
  | O => OutOfFuel
  | S f =>
    if match fm_max_moves cfg with Some m => (m <=? N.of_nat move_num)%N | None => false end
    then Ok (match orc with [] => MvOk st | _ => MvBad 3 end)
    else
      match find_top ws (s_p st) (s_pw st) cap (buckets_desc mpg (s_g2v st)) with
      | None => Panic 2
      | Some None => Ok (match orc with [] => MvOk st | _ => MvBad 3 end)       (* None => break *)
      | Some (Some (gn, mint)) =>
        let stop := (gn <=? 0) && (fm_max_bad cfg <=? s_nbad st)%N in
        if stop then Ok (match orc with [] => MvOk st | _ => MvBad 3 end)
        else
          let nbad := if gn <=? 0 then (s_nbad st + 1)%N else 0%N in
          match orc with
          | [] => Ok (MvBad 1)
          | (v, gv) :: orc' =>
            if choice_ok ws st mpg cap gn mint v gv then
              match do_move (fm_dbg cfg) g ws mpg
                      {| s_p := s_p st; s_pw := s_pw st; s_v2g := s_v2g st; s_g2v := s_g2v st; s_cur := s_cur st;
                         s_best := s_best st; s_bestmove := s_bestmove st; s_nbad := nbad; s_hist := s_hist st |}
                      move_num v gn with
              | Ok st' => fm_moves cfg g ws mpg cap f (S move_num) st' orc'
              | Err e => Err e
              | Panic s => Panic s
              | OutOfFuel => OutOfFuel
              end
            else Ok (MvBad 2)
          end
      end
  end.

(* `move_history.drain(rewind_to..)`: restore the recorded initial parts, in push order *)
Fixpoint rewind (ws : list Z) (p : list N) (pw : Z * Z) (h : list (nat * N)) : option (list N * (Z * Z)) :=
  match h with
  | [] => Some (p, pw)
  | (v, init) :: h' =>
    match nth_opt ws v, other init with
    | Some w, Some tgt =>
      if Nat.ltb v (length p) then rewind ws (set_nth p v init) (pw_add (pw_add pw init w) tgt (- w)) h'
      else None
    | _, _ => None
    end
  end.

(* the pass loop `for _ in 0..max_passes` *)
Fixpoint fm_passes (cfg : fm_cfg) (g : graph) (ws : list Z) (mpg cap : Z) (fuel : nat) (pass : N)
         (p : list N) (pw : Z * Z) (best : Z) (mpp rpp : list N) (orc : list pass_rec) : res fm_out :=
  match fuel with
  | O => OutOfFuel
  | S f =>
    if match fm_max_passes cfg with Some m => (m <=? pass)%N | None => false end
    then Ok (match orc with [] => FmOk p mpp rpp | _ => FmBad 5 end)
    else
      match orc with
      | [] => Ok (FmBad 5)
      | (rc, moves) :: orc' =>
        if negb (rc =? best) then Ok (FmBad 4)
        else
          match init_tables p mpg 0 g p [] with
          | None => Panic 2
          | Some (v2g, t) =>
            let st0 := {| s_p := p; s_pw := pw; s_v2g := v2g; s_g2v := t; s_cur := best; s_best := best;
                          s_bestmove := None; s_nbad := 0%N; s_hist := [] |} in
            match fm_moves cfg g ws mpg cap (S (length p)) 0 st0 moves with
            | Ok (MvBad c) => Ok (FmBad c)
            | Ok (MvOk st) =>
              let rewind_to := match s_bestmove st with Some m => S m | None => O end in
              let nmoves := length (s_hist st) in
              match rewind ws (s_p st) (s_pw st) (skipn rewind_to (s_hist st)) with
              | None => Panic 2
              | Some (p', pw') =>
                let mpp' := mpp ++ [N.of_nat nmoves] in
                let rpp' := rpp ++ [N.of_nat (nmoves - rewind_to)] in
                if best <=? s_best st
                then Ok (match orc' with [] => FmOk p' mpp' rpp' | _ => FmBad 5 end)
                else fm_passes cfg g ws mpg cap f (pass + 1)%N p' pw' (s_best st) mpp' rpp' orc'
              end
            | Err e => Err e
            | Panic s => Panic s
            | OutOfFuel => OutOfFuel
            end
          end
      end
  end.

(* FiducciaMattheyses::partition *)
Definition fm (cfg : fm_cfg) (fuel : nat) (g : graph) (ws : list Z) (p : list N) (orc : list pass_rec) : res fm_out :=
  if negb (Nat.eqb (length p) (length ws)) then Err (InputLenMismatch (length p) (length ws))
  else if negb (Nat.eqb (length p) (length g)) then Err (InputLenMismatch (length p) (length g))
  else
    match p with
    | [] => Ok (match orc with [] => FmOk [] [] [] | _ => FmBad 5 end)
    | _ =>
      if existsb (fun x => (1 <? x)%N) p then Err BiPartitioningOnly
      else
        let pw := (load ws p 0, load ws p 1) in
        match fm_cap (fm_max_imb cfg) pw with
        | None => Panic 7
        | Some cap =>
          let best := edge_cut_sprs g p in
          match max_gain g with
          | None => Panic 2
          | Some mpg =>
            if mpg <? 0 then Panic 8
            else fm_passes cfg g ws mpg cap fuel 0%N p pw best [] [] orc
          end
        end
    end.

Definition fm_fuel (g : graph) (p : list N) : nat := S (S (Z.to_nat (edge_cut_sprs g p))).

(* ---- specification vocabulary and certified checker (lemmas in Proofs/FmProofs.v) ---- *)

Definition two_way (p : list N) : Prop := Forall (fun x => (x <= 1)%N) p.

(* number of positions where two arrays differ *)
Fixpoint hamming (p q : list N) : nat :=
  match p, q with
  | x :: p', y :: q' => (if (x =? y)%N then 0 else 1) + hamming p' q'
  | _, _ => O
  end.

Fixpoint sumN (l : list N) : N := match l with [] => 0%N | x :: t => (x + sumN t)%N end.

Fixpoint forallb2 {A B} (f : A -> B -> bool) (a : list A) (b : list B) : bool :=
  match a, b with
  | [], [] => true
  | x :: a', y :: b' => f x y && forallb2 f a' b'
  | _, _ => false
  end.

(* the Metadata clause of the property *)
Definition metadata_ok (mp mm : option N) (p0 p : list N) (mpp rpp : list N) : Prop :=
  length rpp = length mpp
  /\ (forall m, mp = Some m -> (N.of_nat (length mpp) <= m)%N)
  /\ (forall m, mm = Some m -> Forall (fun x => (x <= m)%N) mpp)
  /\ Forall2 (fun r m => (r <= m)%N) rpp mpp
  /\ (N.of_nat (hamming p0 p) + sumN rpp <= sumN mpp)%N.

Definition metadata_okb (mp mm : option N) (p0 p : list N) (mpp rpp : list N) : bool :=
  Nat.eqb (length rpp) (length mpp)
  && match mp with Some m => (N.of_nat (length mpp) <=? m)%N | None => true end
  && match mm with Some m => forallb (fun x => (x <=? m)%N) mpp | None => true end
  && forallb2 (fun r m => (r <=? m)%N) rpp mpp
  && (N.of_nat (hamming p0 p) + sumN rpp <=? sumN mpp)%N.

Definition check_C07 (g : graph) (ws : list Z) (cap : Z) (mp mm : option N) (p0 p : list N) (mpp rpp : list N) : bool :=
  Nat.eqb (length p) (length p0)
  && forallb (fun x => (x <=? 1)%N) p
  && (edge_cut g p <=? edge_cut g p0)
  && (load ws p 0 <=? Z.max (load ws p0 0) cap)
  && (load ws p 1 <=? Z.max (load ws p0 1) cap)
  && metadata_okb mp mm p0 p mpp rpp.

(* Model of coupe's quality metrics (property C16):
     src/topology/mod.rs    Topology::edge_cut / lambda_cut  (the trait's DEFAULT methods)
     src/topology/sprs.rs   the CsMatView specialisation (take_while on sorted rows)
     src/cartesian/mod.rs   Grid::{len, position_of, index_of}, GridNeighbors::next
     src/imbalance.rs       compute_parts_load, imbalance, imbalance_target, max_imbalance
   Executable definitions only; proofs are in Proofs/Metrics*Proofs.v.

   Conventions.  A graph is a list of rows (Lib/Csr.v): row v = what
   `neighbors(v)` yields, in order.  Part ids are `nat` (they index the load
   vector), edge and vertex weights are `Z` (i64; the f64 instantiation is run
   with integer-valued weights whose sums are exact).  Panic sites:
     1 = slice index out of bounds (`partition[v]`, `acc[part]`)
     2 = `debug_assert!(max(partition) < num_parts)` in compute_parts_load
     3 = `debug_assert_eq!(partition.len(), weights.len())` in imbalance
   The harness runs the dev profile (debug assertions on).
   Rayon: the per-vertex map + `sum()` of the cut functions is written as a
   sequential sum ([sum_res]); [par_sum] is the same reduction over an arbitrary
   split tree (Proofs: equal for every tree).  compute_parts_load's
   fold/reduce_with is modelled over an explicit split tree ([par_loads]). *)
From Coupe Require Import Lib.Prelude Lib.SFloat Lib.Csr.
From Coq Require Import Floats.SpecFloat.
Open Scope Z_scope.

(* ------------------------------------------------------------ res helpers *)

Fixpoint traverse {A B} (f : A -> res B) (l : list A) : res (list B) :=
  match l with
  | [] => Ok []
  | x :: t => bind (f x) (fun y => bind (traverse f t) (fun ys => Ok (y :: ys)))
  end.

(* `.map(f).sum()` where f may panic *)
Definition sum_res {A} (f : A -> res Z) (l : list A) : res Z :=
  bind (traverse f l) (fun ys => Ok (sumZ ys)).

Definition part_at (p : list nat) (v : nat) : res nat :=
  match nth_opt p v with Some x => Ok x | None => Panic 1 end.

(* `(0..n).zip(rows)` *)
Definition indexed {A} (l : list A) : list (nat * A) := combine (seq 0 (length l)) l.

(* ------------------------------------------------- Topology::edge_cut (default) *)

(* one neighbour of [v]: `vertex_part != partition[*neighbor] && *neighbor < vertex`
   (the left operand is always evaluated: `partition[*neighbor]` may panic),
   then `.map(|(_, w)| w).sum()`: a rejected entry contributes 0 *)
Definition cut_entry (p : list nat) (pv v : nat) (e : nat * Z) : res Z :=
  bind (part_at p (fst e)) (fun pu =>
    Ok (if negb (Nat.eqb pv pu) && Nat.ltb (fst e) v then snd e else 0)).

Definition cut_vertex_generic (p : list nat) (vr : nat * row) : res Z :=
  let (v, r) := vr in
  bind (part_at p v) (fun pv => sum_res (cut_entry p pv v) r).

Definition edge_cut (g : graph) (p : list nat) : res Z :=
  sum_res (cut_vertex_generic p) (indexed g).

(* ------------------------------------- CsMatView::edge_cut (specialisation) *)

Fixpoint take_while {A} (f : A -> bool) (l : list A) : list A :=
  match l with
  | [] => []
  | x :: t => if f x then x :: take_while f t else []
  end.

(* `.filter(|(neighbor, _)| vertex_part != partition[**neighbor])` *)
Definition sprs_entry (p : list nat) (pv : nat) (e : nat * Z) : res Z :=
  bind (part_at p (fst e)) (fun pu => Ok (if negb (Nat.eqb pv pu) then snd e else 0)).

Definition cut_vertex_sprs (p : list nat) (vr : nat * row) : res Z :=
  let (v, r) := vr in
  bind (part_at p v) (fun pv =>
    sum_res (sprs_entry p pv) (take_while (fun e : nat * Z => Nat.ltb (fst e) v) r)).

Definition sprs_edge_cut (g : graph) (p : list nat) : res Z :=
  sum_res (cut_vertex_sprs p) (indexed g).

(* --------------------------------------------------------------- lambda_cut *)

(* HashSet<usize>: only its length is observed; a duplicate-free list *)
Fixpoint dedup (l : list nat) : list nat :=
  match l with
  | [] => []
  | x :: t => if existsb (Nat.eqb x) t then dedup t else x :: dedup t
  end.

(* clear; insert(partition[vertex]); extend(neighbors.map(|v| partition[v])); len() - 1
   [ns]: the neighbour indices of the vertex, in order *)
Definition lambda_vertex (p : list nat) (v : nat) (ns : list nat) : res Z :=
  bind (part_at p v) (fun pv =>
  bind (traverse (part_at p) ns) (fun ps =>
    Ok (Z.of_nat (length (dedup (pv :: ps)) - 1)))).

(* `(0..len).zip(weights)`: zip truncates to the shorter side.
   Generic: `self.neighbors(vertex).map(|(v, _)| partition[v])`. *)
Definition lambda_cut (g : graph) (p : list nat) (ws : list Z) : res Z :=
  sum_res (fun x : (nat * row) * Z =>
             let (vr, w) := x in
             bind (lambda_vertex p (fst vr) (map fst (snd vr))) (fun c => Ok (c * w)))
          (combine (indexed g) ws).
(* sprs: `indices[start..end].iter().map(|v| partition[*v])` -- the index slice
   of the row, i.e. the same list; no early stop here *)
Definition sprs_row_indices (r : row) : list nat := map fst r.
Definition sprs_lambda_cut (g : graph) (p : list nat) (ws : list Z) : res Z :=
  sum_res (fun x : (nat * row) * Z =>
             let (vr, w) := x in
             bind (lambda_vertex p (fst vr) (sprs_row_indices (snd vr))) (fun c => Ok (c * w)))
          (combine (indexed g) ws).

(* ----------------------------------------------------------- rayon reductions *)

Inductive split := Leaf | Node (k : nat) (l r : split).

(* `par_iter().map(f).sum()` over a split tree of the index range *)
Fixpoint par_sum (t : split) (xs : list Z) : Z :=
  match t with
  | Leaf => sumZ xs
  | Node k l r => par_sum l (firstn k xs) + par_sum r (skipn k xs)
  end.

(* ----------------------------------------------------------------- Grid<D> *)

(* `self.size.iter().product()` *)
Definition grid_len (dims : list nat) : nat := fold_right Nat.mul 1%nat dims.

(* generic branch of position_of: `for (s, p) in size.zip(&mut pos) { *p = i % s; i = i / s }` *)
Fixpoint position_loop (dims : list nat) (i : nat) : list nat :=
  match dims with
  | [] => []
  | s :: t => (i mod s)%nat :: position_loop t (i / s)%nat
  end.

Definition position_of (dims : list nat) (i : nat) : list nat :=
  match dims with
  | [w; h] => [(i mod w)%nat; (i / w)%nat]
  | [w; h; d] => [(i mod w)%nat; ((i / w) mod h)%nat; (i / w / h)%nat]
  | _ => position_loop dims i
  end.

(* generic branch of index_of: `scan(1, |prefix, (s, p)| { a = prefix * p; prefix *= s; Some(a) }).sum()` *)
Fixpoint index_loop (prefix : nat) (dims pos : list nat) : nat :=
  match dims, pos with
  | s :: dt, x :: pt => (prefix * x + index_loop (prefix * s) dt pt)%nat
  | _, _ => 0%nat
  end.

Definition index_of (dims pos : list nat) : nat :=
  match dims, pos with
  | [w; h], [x; y] => (x + w * y)%nat
  | [w; h; d], [x; y; z] => (x + w * (y + h * z))%nat
  | _, _ => index_loop 1 dims pos
  end.

(* GridNeighbors::next for the counter value [i] (0 <= i < 2*D): the neighbour
   it yields, or None when the candidate is out of the grid (`continue`).
   [pos] and [dims] are `[usize; D]` arrays and axis = i/2 < D, so the accesses
   cannot fail; the unreachable branch yields nothing. *)
Definition neighbor_step (dims pos : list nat) (i : nat) : option nat :=
  let axis := (i / 2)%nat in
  match nth_opt pos axis, nth_opt dims axis with
  | Some c, Some s =>
    let new_coord := if Nat.eqb (i mod 2) 0 then (if Nat.eqb c 0 then None else Some (c - 1)%nat)
                     else Some (c + 1)%nat in
    match new_coord with
    | None => None
    | Some v => if Nat.leb s v then None else Some (index_of dims (set_nth pos axis v))
    end
  | _, _ => None
  end.

Fixpoint somes {A} (l : list (option A)) : list A :=
  match l with
  | [] => []
  | Some x :: t => x :: somes t
  | None :: t => somes t
  end.

(* Topology::neighbors for Grid: all items of the iterator, in order *)
Definition grid_neighbors (dims : list nat) (v : nat) : list nat :=
  let pos := position_of dims v in
  somes (map (neighbor_step dims pos) (seq 0 (2 * length dims))).

(* the rows the Topology trait shows for a Grid (`E::one()` on every edge) *)
Definition grid_rows (dims : list nat) : graph :=
  map (fun v => map (fun u => (u, 1)) (grid_neighbors dims v)) (seq 0 (grid_len dims)).

Definition grid_edge_cut (dims : list nat) (p : list nat) : res Z := edge_cut (grid_rows dims) p.
Definition grid_lambda_cut (dims : list nat) (p : list nat) (ws : list Z) : res Z :=
  lambda_cut (grid_rows dims) p ws.

(* ------------------------------------------------------- compute_parts_load *)

(* `acc[part] += w` *)
Fixpoint add_at (acc : list Z) (i : nat) (w : Z) : option (list Z) :=
  match acc, i with
  | [], _ => None
  | x :: t, O => Some ((x + w) :: t)
  | x :: t, S j => match add_at t j w with Some t' => Some (x :: t') | None => None end
  end.

(* the sequential fold of one leaf *)
Fixpoint fold_loads (acc : list Z) (pw : list (nat * Z)) : res (list Z) :=
  match pw with
  | [] => Ok acc
  | (q, w) :: t => match add_at acc q w with Some acc' => fold_loads acc' t | None => Panic 1 end
  end.

(* `for (w0, w1) in weights0.iter_mut().zip(weights1) { *w0 += w1 }` *)
Fixpoint zip_add (a b : list Z) : list Z :=
  match a, b with
  | x :: a', y :: b' => (x + y) :: zip_add a' b'
  | _, _ => a
  end.

(* fold(|| vec![0; k], ..).reduce_with(..) over a split tree; a leaf folds its
   chunk from a fresh zero vector *)
Fixpoint par_loads (t : split) (k : nat) (pw : list (nat * Z)) : res (list Z) :=
  match t with
  | Leaf => fold_loads (repeat 0 k) pw
  | Node m l r =>
    bind (par_loads l k (firstn m pw)) (fun a =>
    bind (par_loads r k (skipn m pw)) (fun b => Ok (zip_add a b)))
  end.

(* `*partition.par_iter().max().unwrap_or(&0)` *)
Definition max_part (p : list nat) : nat := fold_right Nat.max 0%nat p.

Definition compute_parts_load (t : split) (k : nat) (p : list nat) (ws : list Z) : res (list Z) :=
  if Nat.ltb (max_part p) k then par_loads t k (combine p ws) else Panic 2.

(* --------------------------------------------------------- itertools minmax *)

Section MinMax.
  Variable F : Type.
  Variable lt : F -> F -> bool.       (* `x < y` of PartialOrd *)

  (* the loop of minmax_impl: two elements per round, three comparisons *)
  Fixpoint minmax_loop (mn mx : F) (l : list F) : F * F :=
    match l with
    | [] => (mn, mx)
    | first :: t =>
      match t with
      | [] =>
        if lt first mn then (first, mx)
        else if negb (lt first mx) then (mn, first) else (mn, mx)
      | second :: t' =>
        if negb (lt second first) then
          minmax_loop (if lt first mn then first else mn)
                      (if negb (lt second mx) then second else mx) t'
        else
          minmax_loop (if lt second mn then second else mn)
                      (if negb (lt first mx) then first else mx) t'
      end
    end.

  (* `.minmax().into_option()` *)
  Definition minmax (l : list F) : option (F * F) :=
    match l with
    | [] => None
    | [x] => Some (x, x)
    | x :: y :: t => Some (if negb (lt y x) then minmax_loop x y t else minmax_loop y x t)
    end.
End MinMax.
Arguments minmax_loop {F} lt mn mx l.
Arguments minmax {F} lt l.

(* ---------------------------------------------------------------- imbalance *)

(* The arithmetic of `imbalance` over an abstract number type, so that the SAME
   expression is executed on f64 (SpecFloat) and read over the rationals. *)
Section ImbalanceExpr.
  Variable F : Type.
  Variable ofZ : Z -> F.               (* `to_f64().unwrap()` of an integer *)
  Variables fsub fdiv : F -> F -> F.
  Variable is_zero : F -> bool.        (* `== 0.0` *)
  Variable lt : F -> F -> bool.
  Variable zero : F.

  Definition imbalance_expr (k : nat) (loads : list Z) : F :=
    let total := sumZ loads in
    let ideal := fdiv (ofZ total) (ofZ (Z.of_nat k)) in
    if is_zero ideal then zero
    else
      match minmax lt (map (fun l => fdiv (fsub (ofZ l) ideal) ideal) loads) with
      | None => zero                   (* unwrap_or((0.0, 0.0)) *)
      | Some (_, mx) => mx
      end.
End ImbalanceExpr.

Definition f64_zero : spec_float := S754_zero false.
Definition f64_is_zero (x : spec_float) : bool := feq x f64_zero.

Definition imbalance_f64 (k : nat) (loads : list Z) : spec_float :=
  imbalance_expr spec_float f64_of_Z f64_sub f64_div f64_is_zero flt f64_zero k loads.

Definition imbalance (t : split) (k : nat) (p : list nat) (ws : list Z) : res spec_float :=
  if negb (Nat.eqb (length p) (length ws)) then Panic 3
  else if Nat.eqb k 0 then Ok f64_zero
  else bind (compute_parts_load t k p ws) (fun loads => Ok (imbalance_f64 k loads)).

(* `.iter().minmax().into_option().map_or_else(zero, |m| *m.1 - *m.0)` *)
Definition max_imbalance (t : split) (k : nat) (p : list nat) (ws : list Z) : res Z :=
  bind (compute_parts_load t k p ws) (fun loads =>
    Ok (match minmax Z.ltb loads with None => 0 | Some (mn, mx) => mx - mn end)).

(* `max_by(partial_cmp)`: the last of the maximal elements *)
Fixpoint max_by_last (cur : Z) (l : list Z) : Z :=
  match l with
  | [] => cur
  | x :: t => max_by_last (if x <? cur then cur else x) t
  end.

(* loads.zip(targets).map(|(x, t)| x - t).max_by(..).unwrap_or_else(zero); num_parts = targets.len() *)
Definition imbalance_target (t : split) (targets : list Z) (p : list nat) (ws : list Z) : res Z :=
  bind (compute_parts_load t (length targets) p ws) (fun loads =>
    Ok (match map (fun lt : Z * Z => fst lt - snd lt) (combine loads targets) with
        | [] => 0
        | d :: ds => max_by_last d ds
        end)).

(* ------------------------------------- specification vocabulary (code-free) *)

(* part of a vertex, for statements whose hypotheses put v in range *)
Definition pt (p : list nat) (v : nat) : nat := nth v p 0%nat.

Definition crosses (p : list nat) (u v : nat) : Z := if Nat.eqb (pt p u) (pt p v) then 0 else 1.

(* sum, over the unordered pairs {u,v} (u < v < n) joining different parts, of the weight of (u,v) *)
Definition cut_pairs (g : graph) (p : list nat) : Z :=
  let n := length g in
  sum_range 0 n (fun u => sum_range (S u) (n - S u) (fun v => crosses p u v * weight g u v)).

(* the same over the strictly lower triangle (entries (v,u) with u < v); equal to
   [cut_pairs] for symmetric graphs, and what the code computes for any graph *)
Definition cut_lower (g : graph) (p : list nat) : Z :=
  sum_range 0 (length g) (fun v => sum_range 0 v (fun u => crosses p u v * weight g v u)).

(* number of parts q < k, other than v's own, that own a neighbour of v *)
Definition foreign_parts (k : nat) (g : graph) (p : list nat) (v : nat) : Z :=
  Z.of_nat (length (filter (fun q => negb (Nat.eqb q (pt p v))
                                      && existsb (fun e : nat * Z => Nat.eqb (pt p (fst e)) q) (row_of g v))
                           (seq 0 k))).

Definition lambda_def (k : nat) (g : graph) (p : list nat) (ws : list Z) : Z :=
  sum_range 0 (length g) (fun v => nth v ws 0 * foreign_parts k g p v).

(* load of part q: total weight of the elements assigned to q *)
Fixpoint load_of (q : nat) (p : list nat) (ws : list Z) : Z :=
  match p, ws with
  | x :: p', w :: ws' => (if Nat.eqb x q then w else 0) + load_of q p' ws'
  | _, _ => 0
  end.
Definition loads_def (k : nat) (p : list nat) (ws : list Z) : list Z :=
  map (fun q => load_of q p ws) (seq 0 k).

(* largest minus smallest element *)
Definition list_max_Z (x : Z) (l : list Z) : Z := fold_right Z.max x l.
Definition list_min_Z (x : Z) (l : list Z) : Z := fold_right Z.min x l.
Definition spread (l : list Z) : Z :=
  match l with [] => 0 | x :: r => list_max_Z x r - list_min_Z x r end.
(* largest excess of a load over its target *)
Definition max_excess (loads targets : list Z) : Z :=
  match map (fun lt : Z * Z => fst lt - snd lt) (combine loads targets) with
  | [] => 0
  | d :: ds => list_max_Z d ds
  end.

(* lattice adjacency: positions differ by exactly one on exactly one axis *)
Fixpoint list_eqb_nat (a b : list nat) : bool :=
  match a, b with
  | [], [] => true
  | x :: a', y :: b' => Nat.eqb x y && list_eqb_nat a' b'
  | _, _ => false
  end.
Fixpoint adjacent_pos (a b : list nat) : bool :=
  match a, b with
  | x :: a', y :: b' =>
    (Nat.eqb x y && adjacent_pos a' b')
    || ((Nat.eqb (x + 1) y || Nat.eqb (y + 1) x) && list_eqb_nat a' b')
  | _, _ => false
  end.

(* number of lattice edges whose ends lie in different parts *)
Definition lattice_cut (dims : list nat) (p : list nat) : Z :=
  let n := grid_len dims in
  sum_range 0 n (fun u => sum_range (S u) (n - S u) (fun v =>
    if adjacent_pos (position_of dims u) (position_of dims v) then crosses p u v else 0)).

(* ABSTRACT model of src/algorithms/k_means.rs (DESIGN §7 C02, "KMeansAbs").

   The numeric core (distances, influences, bounds, centre recomputation,
   erosion, early exits) is NOT modelled: it is an oracle.  What is modelled
   is the only way the partition array is ever written:
     * `center_ids` = the distinct ids of the input partition in first
       occurrence order (`.iter().cloned().unique()`); the entry point panics
       ("Input partition is unsound") unless their number is 1 + max id, and
       returns at once when 1 + max id < 2;
     * in every balance iteration of every outer iteration, each point index
       (the permutation is a permutation of 0..n) is either left alone or
       overwritten with `center_ids[j]` for the `j` chosen by `best_values`
       (an element of the zipped centre list).
   The oracle answers, for (outer iteration, balance iteration, point index),
   `None` (keep) or `Some j`.  A `j` out of range cannot come out of
   `best_values`; the model ignores it. *)
From Coupe Require Import Lib.Prelude.

Fixpoint distinct (seen : list N) (p : list N) : list N :=
  match p with
  | [] => []
  | x :: t => if existsb (N.eqb x) seen then distinct seen t else x :: distinct (x :: seen) t
  end.
Definition center_ids (p : list N) : list N := distinct [] p.

Definition list_maxN (p : list N) : N := fold_right N.max 0%N p.

Definition oracle := nat -> nat -> nat -> option nat.

(* one balance iteration: every index is visited once *)
Fixpoint sweep (cids : list N) (choose : nat -> option nat) (i : nat) (p : list N) : list N :=
  match p with
  | [] => []
  | x :: t =>
    (match choose i with
     | Some j => match nth_opt cids j with Some c => c | None => x end
     | None => x
     end) :: sweep cids choose (S i) t
  end.

Fixpoint balance (cids : list N) (o : nat -> nat -> option nat) (iters : nat) (p : list N) : list N :=
  match iters with
  | O => p
  | S k => balance cids o k (sweep cids (o iters) 0 p)
  end.

Fixpoint outer (cids : list N) (o : oracle) (max_balance_iter : nat) (iters : nat) (p : list N) : list N :=
  match iters with
  | O => p
  | S k => outer cids o max_balance_iter k (balance cids (o iters) max_balance_iter p)
  end.

(* Panic 1 = "Input partition is unsound" *)
Definition kmeans_abs (o : oracle) (max_iter max_balance_iter : nat) (p : list N) : res (list N) :=
  if (list_maxN p + 1 <? 2)%N then Ok p
  else if negb (N.of_nat (length (center_ids p)) =? list_maxN p + 1)%N then Panic 1
  else Ok (outer (center_ids p) o max_balance_iter (S max_iter) p).

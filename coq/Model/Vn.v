(* Models of src/algorithms/vn/best.rs (VnBest) and src/algorithms/vn/first.rs
   (VnFirst), integer weights, with `compute_parts_load` of src/imbalance.rs.
   Executable definitions only; proofs are in Proofs/VnBestProofs.v and
   Proofs/VnFirstProofs.v.  Results are (partition, returned move count). *)
From Coupe Require Import Lib.Prelude Model.NumPart.
Open Scope Z_scope.

(* `1 + *part_ids.par_iter().max().unwrap_or(&0)` *)
Definition part_count (p : list N) : nat := N.to_nat (1 + maxN p).

(* compute_parts_load: `acc[part] += w` over `partition.zip(weights)`.
   Panic 1: index out of bounds (never: the vector has 1 + max id entries).
   Integer sums do not depend on the fold/reduce tree of rayon. *)
Fixpoint parts_load (ws : list Z) (p : list N) (acc : list Z) : res (list Z) :=
  match ws, p with
  | w :: ws', x :: p' =>
    match nth_opt acc (N.to_nat x) with
    | None => Panic 1
    | Some a => parts_load ws' p' (set_nth acc (N.to_nat x) (a + w))
    end
  | _, _ => Ok acc
  end.

(* ====================================================================== *)
(* VnBest                                                                  *)
(* ====================================================================== *)

(* itertools `minmax_by_key`: the FIRST minimum and the LAST maximum *)
Definition minmax_pos (l : list Z) : option (nat * nat) :=
  match l with
  | [] => None
  | x :: t => Some (argmin_first_aux 0 x 1 t, argmax_last_aux 0 x 1 t)
  end.

(* `let target = imbalance / two`.  With i64 weights the division truncates;
   with f64 weights (integer-valued data) it is exact and the target may be a
   half-integer.  Both are covered by keeping TWICE the target, [t2]: every
   comparison of the code against the target is stated on doubled values
   (exact in both number types). *)
Definition target2 (flt : bool) (imbalance : Z) : Z :=
  if flt then imbalance else 2 * Z.quot imbalance 2.

(* `criterion.binary_search_by(|(w, _)| partial_cmp(w, &target))`: the
   comparator never answers Equal, so the `Ok` arm is dead and, the vector
   being sorted, the answer is `Err(partition point)` = the number of entries
   whose weight is below the target. *)
Fixpoint count_lt (t2 : Z) (crit : list item) : nat :=
  match crit with
  | [] => O
  | x :: t => if 2 * fst x <? t2 then S (count_lt t2 t) else O
  end.

(* the closure computing `maybe_nearest`: scan outwards from the partition
   point for the nearest weight that lies in the heaviest part.
   Panic 2: index out of bounds. *)
Fixpoint nearest (fuel : nat) (crit : list item) (p : list N) (over : N) (t2 : Z)
         (above below : option nat) : res (option nat) :=
  match fuel with
  | O => OutOfFuel
  | S f =>
    let pick : res (option (nat * bool)) :=
      match above, below with
      | Some a, Some b =>
        match nth_opt crit a, nth_opt crit b with
        | Some ca, Some cb =>
          (* `criterion[above].0 - target < target - criterion[below].0` *)
          if 2 * fst ca - t2 <? t2 - 2 * fst cb then Ok (Some (a, true)) else Ok (Some (b, false))
        | _, _ => Panic 2
        end
      | Some a, None => Ok (Some (a, true))
      | None, Some b => Ok (Some (b, false))
      | None, None => Ok None
      end in
    match pick with
    | Ok None => Ok None
    | Ok (Some (c, is_above)) =>
      match nth_opt crit c with
      | None => Panic 2
      | Some cc =>
        match nth_opt p (snd cc) with
        | None => Panic 2
        | Some pc =>
          if (pc =? over)%N then Ok (Some c)
          else if is_above then
            nearest f crit p over t2 (if Nat.ltb (S c) (length crit) then Some (S c) else None) below
          else
            nearest f crit p over t2 above (match c with O => None | S c' => Some c' end)
        end
      end
    | Err e => Err e
    | Panic s => Panic s
    | OutOfFuel => OutOfFuel
    end
  end.

Definition vb_state := (list N * list Z * N)%type.   (* partition, part_loads, algo_iterations *)

(* the progress test added by fix 98041ea, after the stop test:
     let new_overweight_load = part_loads[overweight_part] - nearest_weight;
     let mut new_underweight_load = part_loads[underweight_part]; new_underweight_load += nearest_weight;
     if new_overweight_load < new_underweight_load
         && !(new_underweight_load - new_overweight_load < imbalance) { break; }
   (on integers it never fires: Proofs/VnBestProofs.v, vb_guard_never) *)
Definition vb_guard (lo lu w : Z) : bool :=
  (lo - w <? lu + w) && negb ((lu + w) - (lo - w) <? lo - lu).

(* one turn of the `loop`; [guard] = with the progress test (the current code) or without it (the loop
   before fix 98041ea).  Panic 3: `unwrap` of minmax on an empty vector. *)
Definition vb_step_g (guard : bool) (flt : bool) (crit : list item) (st : vb_state) : vb_state + res (list N * N) :=
  let '(p, L, n) := st in
  match minmax_pos L with
  | None => inr (Panic 3)
  | Some (under, over) =>
    match nth_opt L over, nth_opt L under with
    | Some lo, Some lu =>
      let imbalance := lo - lu in
      let t2 := target2 flt imbalance in
      let idx := count_lt t2 crit in
      let above := if Nat.ltb idx (length crit) then Some idx else None in
      let below := match idx with O => None | S i => Some i end in
      match nearest (S (length crit)) crit p (N.of_nat over) t2 above below with
      | Ok None => inr (Ok (p, n))
      | Ok (Some c) =>
        match nth_opt crit c with
        | None => inr (Panic 2)
        | Some (w, id) =>
          if (imbalance <=? w) || (w =? 0) then inr (Ok (p, n))
          else if guard && vb_guard lo lu w then inr (Ok (p, n))
          else if Nat.ltb id (length p) then
            let L1 := set_nth L over (lo - w) in
            match nth_opt L1 under with
            | None => inr (Panic 2)
            | Some lu1 => inl (set_nth p id (N.of_nat under), set_nth L1 under (lu1 + w), (n + 1)%N)
            end
          else inr (Panic 2)
        end
      | Err e => inr (Err e)
      | Panic s => inr (Panic s)
      | OutOfFuel => inr OutOfFuel
      end
    | _, _ => inr (Panic 2)
    end
  end.

Definition vb_step := vb_step_g true.     (* the code as it is *)
Definition vb_step0 := vb_step_g false.   (* without the progress test *)

Definition sumsq (l : list Z) : Z := sumZ (map (fun x => x * x) l).

(* vn_best_mono behind `VnBest::partition`; [flt] = the weights are f64 (holding integers).  The `loop` runs on binary fuel:
   1 + (sum of the squared part loads), which strictly decreases at every move. *)
Definition vn_best (flt : bool) (ws : list Z) (p : list N) : res (list N * N) :=
  let k := part_count p in
  if negb (Nat.eqb (length ws) (length p)) then Err (InputLenMismatch (length p) (length ws))
  else if existsb (fun w => w <? 0) ws then Err NegativeValues
  else if Nat.eqb (length p) 0 || forallb (fun w => w =? 0) ws || Nat.ltb k 2 then Ok (p, 0%N)
  else
    bind (parts_load ws p (repeat 0 k)) (fun L =>
      let crit := rev (sort_items_desc (items_of ws)) in
      match iter_pos (vb_step flt crit) (Z.to_pos (1 + sumsq L)) (p, L, 0%N) with
      | inl _ => OutOfFuel
      | inr r => r
      end).

(* ====================================================================== *)
(* VnFirst                                                                 *)
(* ====================================================================== *)

(* partition, part_loads, imbalance, max_load, i_last *)
Definition vf_state := (list N * list Z * Z * Z * nat)%type.

(* `for q in 0..num_parts { ... }` for the weight [w] at index [i], whose part
   on entry of the loop was [pp] (the variable `p` of the Rust code, NOT
   refreshed after a move: a later target is evaluated as if the weight were
   still in `p`).  Panic 2: index out of bounds; Panic 3: minmax of an empty vector. *)
Fixpoint vf_for (qs : list nat) (pp i : nat) (w : Z) (st : vf_state) : res vf_state :=
  match qs with
  | [] => Ok st
  | q :: t =>
    if Nat.eqb pp q then vf_for t pp i w st
    else
      let '(p, L, imb, mx, il) := st in
      match nth_opt L pp with
      | None => Panic 2
      | Some lp =>
        let L1 := set_nth L pp (lp - w) in
        match nth_opt L1 q with
        | None => Panic 2
        | Some lq =>
          let L2 := set_nth L1 q (lq + w) in
          match L2 with
          | [] => Panic 3
          | _ =>
            let nimb := maxl L2 - minl L2 in
            if imb <? nimb then
              (* the move does not decrease the imbalance: roll back *)
              match nth_opt L2 pp with
              | None => Panic 2
              | Some lp2 =>
                let L3 := set_nth L2 pp (lp2 + w) in
                match nth_opt L3 q with
                | None => Panic 2
                | Some lq3 => vf_for t pp i w (p, set_nth L3 q (lq3 - w), imb, mx, il)
                end
              end
            else if Nat.ltb i (length p) then
              vf_for t pp i w (set_nth p i (N.of_nat q), L2, nimb, maxl L2, i)
            else Panic 2
          end
        end
      end
  end.

(* `while i != i_last { i = (i + 1) % len; ... }`.  Panic 4: remainder by zero. *)
Fixpoint vf_while (fuel : nat) (ws : list Z) (k : nat) (i : nat) (iters : N) (st : vf_state)
  : res (list N * N) :=
  let '(p, L, imb, mx, il) := st in
  if Nat.eqb i il then Ok (p, iters)
  else
    match fuel with
    | O => OutOfFuel
    | S f =>
      if Nat.eqb (length ws) 0 then Panic 4
      else
        let i' := Nat.modulo (i + 1) (length ws) in
        match nth_opt p i' with
        | None => Panic 2
        | Some pi =>
          match nth_opt L (N.to_nat pi) with
          | None => Panic 2
          | Some lp =>
            if lp <? mx then vf_while f ws k i' iters st
            else
              match nth_opt ws i' with
              | None => Panic 2
              | Some w =>
                match vf_for (seq 0 k) (N.to_nat pi) i' w st with
                | Ok st' => vf_while f ws k i' (iters + 1)%N st'
                | Err e => Err e
                | Panic s => Panic s
                | OutOfFuel => OutOfFuel
                end
              end
          end
        end
    end.

(* vn_first behind `VnFirst::partition` (the debug_assert on num_parts cannot fail: 1 + max >= 1) *)
Definition vn_first (ws : list Z) (p : list N) : res (list N * N) :=
  let k := part_count p in
  if negb (Nat.eqb (length ws) (length p)) then Err (InputLenMismatch (length p) (length ws))
  else if Nat.eqb (length ws) 0 || Nat.ltb k 2 then Ok (p, 0%N)
  else
    bind (parts_load ws p (repeat 0 k)) (fun L =>
      if sumZ L =? 0 then Ok (p, 0%N)
      else
        match L with
        | [] => Panic 3
        | _ => vf_while (S (length ws)) ws k (length ws) 0%N (p, L, maxl L - minl L, maxl L, O)
        end).

(* ====================================================================== *)
(* checker                                                                 *)
(* ====================================================================== *)

(* the implementation's output array [p'] against the property, for the input [p] *)
Definition check_vn (ws : list Z) (p p' : list N) : bool :=
  let k := part_count p in
  let m := maxN p in
  Nat.eqb (length p') (length p)
  && forallb (fun x => (x <=? m)%N) p'
  && (gap (loads ws p' k) <=? gap (loads ws p k))
  && (sumZ (loads ws p' k) =? sumZ (loads ws p k)).

(* ArcSwap, stage 2: gain exactness and accounting.
   While a worker is between its first gain read and its store on v, the part
   ids of v and of v's neighbours do not change (stage 1), so the gain it
   applies is the cut delta at the store ([cut_store]); hence at every
   reachable state  cut p0 - cut part = sum of the recorded gains. *)
From Coupe Require Import Lib.Prelude Model.ArcSwap Proofs.ArcSwapCut Proofs.ArcSwapProto.
Open Scope Z_scope.

Ltac break_hyp H :=
  match type of H with
  | context [match ?x with _ => _ end] =>
      match x with
      | decide _ _ _ _ _ _ => fail 1
      | _ => destruct x eqn:?
      end
  end.
Ltac wstep_inv H :=
  unfold wstep in H;
  repeat (break_hyp H; try discriminate H).

Section WithW.
Context {W : wops}.


(* ------------------------------------------------------------- list facts *)

Lemma pid_nth_opt l i x : nth_opt l i = Some x -> pid l i = x.
Proof.
  unfold pid. revert i. induction l as [|y l IH]; intros [|i]; cbn; intros H; try discriminate.
  - now injection H. - now apply IH.
Qed.

Lemma pid_set_nth_other p v x i : i <> v -> pid (set_nth p v x) i = pid p i.
Proof.
  unfold pid. revert v i. induction p as [|y p IH]; intros [|v] [|i] H; cbn; auto; try congruence.
Qed.

Lemma row_gain_app p ip tg a b : row_gain p ip tg (a ++ b) = row_gain p ip tg a + row_gain p ip tg b.
Proof. unfold row_gain. now rewrite map_app, sumZ_app. Qed.

Lemma row_gain_stable p v x ip tg r : ~ In v (map fst r) ->
  row_gain (set_nth p v x) ip tg r = row_gain p ip tg r.
Proof.
  unfold row_gain. intros H. f_equal. apply map_ext_in. intros e He.
  rewrite pid_set_nth_other; [reflexivity|]. intros E. apply H. rewrite <- E. now apply in_map.
Qed.

Lemma sumZ_map_set_nth {A} (f : A -> Z) l t x y : nth_opt l t = Some x ->
  sumZ (map f (set_nth l t y)) = sumZ (map f l) - f x + f y.
Proof.
  revert t. induction l as [|a l IH]; intros [|t]; cbn [nth_opt set_nth map]; intros H; try discriminate.
  - injection H as ->. change (sumZ (?a :: ?l)) with (a + sumZ l). lia.
  - change (sumZ (?a :: ?l)) with (a + sumZ l). rewrite (IH _ H). lia.
Qed.

Lemma Forall_set_nth {A} (P : A -> Prop) l t y : Forall P l -> P y -> Forall P (set_nth l t y).
Proof.
  intros H Hy. revert t. induction H as [|a l Ha Hl IH]; intros [|t]; cbn [set_nth]; auto.
Qed.

Lemma Forall_nth_opt {A} (P : A -> Prop) l t x : Forall P l -> nth_opt l t = Some x -> P x.
Proof.
  intros H. revert t. induction H as [|a l Ha Hl IH]; intros [|t]; cbn [nth_opt]; intros E; try discriminate.
  - now injection E as <-. - eauto.
Qed.

Lemma relabelled_set_nth p0 p v x : relabelled p0 (set_nth p v x) <= relabelled p0 p + 1.
Proof.
  revert p v. induction p0 as [|a p0 IH]; intros [|b p] [|v]; cbn [relabelled set_nth]; try lia.
  - destruct (Nat.eqb a x), (Nat.eqb a b); lia.
  - specialize (IH p v). lia.
Qed.

Lemma targets_spec k ip t : In t (targets k ip) -> t <> ip /\ (t < k)%nat.
Proof.
  unfold targets. rewrite filter_In, in_seq. intros [H1 H2].
  split; [|lia]. intros ->. now rewrite Nat.eqb_refl in H2.
Qed.

(* ------------------------------------ thread-local effects of one access *)

Definition wgain (w : worker) := md_gain (w_md w).
Definition wmoves (w : worker) := md_moves (w_md w).

Definition is_store (p : pc) : bool := match p with PStore _ _ _ _ => true | _ => false end.
Definition is_eval (p : pc) : bool :=
  match p with PStore _ _ _ _ | PGain _ _ _ _ _ _ _ => true | _ => false end.

Lemma scan_next_loc w : wgain (scan_next w) = wgain w /\ wmoves (scan_next w) = wmoves w
  /\ w_pw (scan_next w) = w_pw w /\ is_eval (w_pc (scan_next w)) = false.
Proof. unfold scan_next, wgain, wmoves; cbn. destruct (Nat.ltb _ _); auto. Qed.
Lemma enter_loc w : wgain (enter_make_move w) = wgain w /\ wmoves (enter_make_move w) = wmoves w
  /\ w_pw (enter_make_move w) = w_pw w /\ is_eval (w_pc (enter_make_move w)) = false.
Proof. unfold enter_make_move. destruct (w_cut w); [apply scan_next_loc|cbn; auto]. Qed.
Lemma re_start_loc w v todo : wgain (re_start w v todo) = wgain w /\ wmoves (re_start w v todo) = wmoves w
  /\ w_pw (re_start w v todo) = w_pw w /\ is_eval (w_pc (re_start w v todo)) = false.
Proof. unfold re_start. destruct todo; [apply enter_loc|cbn; auto]. Qed.

Lemma decide_spec cf tmax w v ip bt bg w' : decide cf tmax w v ip (bt, bg) = Some w' ->
  wgain w' = wgain w /\ wmoves w' = wmoves w /\ w_pw w' = w_pw w /\
  (w_pc w' = PUnlock v UNoMove \/
   (w_pc w' = PStore v ip bt bg /\ 0 < bg /\
    exists wv pwt mx, nth_opt (cf_vw cf) v = Some wv /\ nth_opt (w_pw w) bt = Some pwt /\
                      nth_opt tmax bt = Some mx /\ w_ltb mx (w_add wv pwt) = false)).
Proof.
  unfold decide. destruct (Z.leb_spec bg 0).
  - intros [= <-]. cbn. auto.
  - destruct (nth_opt (cf_vw cf) v) as [wv|], (nth_opt (w_pw w) bt) as [pwt|] eqn:E2, (nth_opt tmax bt) as [mx|]; try discriminate.
    destruct (w_ltb mx (w_add wv pwt)) eqn:Elt; intros [= <-]; cbn; repeat split; auto.
    right. repeat split; auto. exists wv, pwt, mx. auto.
Qed.

Section Local.
Variable cf : config.
Let g := cf_g cf.
Let k := cf_k cf.

Lemma wstep_nonstore tmax locks part w locks' part' w' :
  wstep cf tmax locks part w = Some (locks', part', w') -> is_store (w_pc w) = false ->
  part' = part /\ wgain w' = wgain w /\ wmoves w' = wmoves w /\ w_pw w' = w_pw w.
Proof.
  intros H Hs. wstep_inv H.
  all: try (cbn in Hs; discriminate Hs).
  all: try (destruct (decide _ _ _ _ _ _) as [wd|] eqn:Hd; [|discriminate H];
            match type of Hd with decide _ _ _ _ _ ?b = _ => destruct b as [bt bg] end;
            apply decide_spec in Hd as (D1 & D2 & D3 & _)).
  all: injection H as <- <- <-.
  all: repeat split; auto.
  all: try solve [cbn; auto].
  all: try solve [apply scan_next_loc | apply enter_loc | apply re_start_loc].
  all: try solve [match goal with |- context [enter_make_move ?x] => destruct (enter_loc x) as (E1 & E2 & E3 & _); rewrite ?E1, ?E2, ?E3; reflexivity end].
  all: try solve [match goal with |- context [re_start ?x ?v ?t] => destruct (re_start_loc x v t) as (E1 & E2 & E3 & _); rewrite ?E1, ?E2, ?E3; try reflexivity; destruct (_ <? _); reflexivity end].
Qed.

Lemma wstep_store tmax locks part w locks' part' w' v ip tg gn :
  wstep cf tmax locks part w = Some (locks', part', w') -> w_pc w = PStore v ip tg gn ->
  part' = set_nth part v tg /\ (v < length part)%nat /\ wgain w' = wgain w + gn /\ wmoves w' = wmoves w + 1 /\
  w_pc w' = PUnlock v UMoved /\
  exists wv a b, nth_opt (cf_vw cf) v = Some wv /\ nth_opt (w_pw w) ip = Some a /\
    nth_opt (set_nth (w_pw w) ip (w_sub a wv)) tg = Some b /\
    w_pw w' = set_nth (set_nth (w_pw w) ip (w_sub a wv)) tg (w_add b wv).
Proof.
  intros H Hpc. unfold wstep in H. rewrite Hpc in H.
  destruct (nth_opt (cf_vw cf) v) as [wv|]; [|discriminate].
  destruct (nth_opt (w_pw w) ip) as [a|]; [|discriminate].
  destruct (nth_opt (w_pw w) tg); [|discriminate].
  destruct (Nat.ltb_spec v (length part)); [|discriminate].
  destruct (nth_opt _ tg) as [b|] eqn:Eb; [|discriminate]. injection H as <- <- <-.
  repeat split; auto. exists wv, a, b. auto.
Qed.

(* ---- what a worker knows while it evaluates / applies a move ---- *)

Definition best_ok (part : list nat) (v ip : nat) (best : option (nat * Z)) : Prop :=
  match best with
  | None => True
  | Some (bt, bg) => bt <> ip /\ (bt < k)%nat /\ bg = row_gain part ip bt (row g v)
  end.

Definition gain_ok (part : list nat) (w : worker) : Prop :=
  match w_pc w with
  | PGain v ip tg rest acc todo best =>
      pid part v = ip /\ (v < length part)%nat /\ tg <> ip /\ (tg < k)%nat /\ Forall (fun t => t <> ip /\ (t < k)%nat) rest /\
      (exists done, row g v = done ++ todo /\ acc = row_gain part ip tg done) /\ best_ok part v ip best
  | PStore v ip tg gn =>
      pid part v = ip /\ (v < length part)%nat /\ tg <> ip /\ (tg < k)%nat /\ gn = row_gain part ip tg (row g v) /\ 0 < gn
  | _ => True
  end.

Lemma gain_ok_other part w : is_eval (w_pc w) = false -> gain_ok part w.
Proof. unfold gain_ok. destruct (w_pc w); cbn; intros; auto; discriminate. Qed.

Lemma upd_best_ok part v ip best tg gn :
  best_ok part v ip best -> tg <> ip -> (tg < k)%nat -> gn = row_gain part ip tg (row g v) ->
  best_ok part v ip (Some (upd_best best tg gn)).
Proof.
  intros Hb H1 H2 H3. unfold upd_best. destruct best as [[bt bg]|]; cbn.
  - destruct (bg <=? gn); cbn; auto.
  - auto.
Qed.

Lemma wstep_gain_ok tmax locks part w locks' part' w' :
  wstep cf tmax locks part w = Some (locks', part', w') -> gain_ok part w -> gain_ok part w'.
Proof.
  intros H Hg.
  destruct (w_pc w) as [ | ip todo | v | v todo | v | v ip tg rest acc todo best | v ip tg gn | v r
                        | v todo | v todo nb np tg rest acc todo2 best | ] eqn:Hpc.
  5: { (* POwn *)
    unfold wstep in H. rewrite Hpc in H.
    destruct (nth_opt part v) as [ip|] eqn:Ep; [|discriminate].
    destruct (targets (cf_k cf) ip) as [|tg rest] eqn:Et; [discriminate|].
    assert (Ht : forall t, In t (tg :: rest) -> t <> ip /\ (t < k)%nat).
    { intros t Hin. apply targets_spec. unfold k. rewrite Et. exact Hin. }
    destruct (row (cf_g cf) v) eqn:Er; injection H as <- <- <-.
    - apply gain_ok_other. reflexivity.
    - unfold gain_ok. cbn [set_pc w_pc]. pose proof (nth_opt_Some _ _ _ Ep) as Hvl. apply pid_nth_opt in Ep.
      destruct (Ht tg (or_introl eq_refl)) as [T1 T2].
      repeat split; auto.
      + apply Forall_forall. intros t Hin. apply Ht. now right.
      + exists []. split; [exact Er|reflexivity]. }
  5: { (* PGain *)
    unfold wstep in H. rewrite Hpc in H. unfold gain_ok in Hg. rewrite Hpc in Hg.
    destruct Hg as (Hip & Hvl & Htg & Htk & Hrest & (done & Hrow & Hacc) & Hbest).
    destruct todo as [|[u ew] todo]; [discriminate|].
    destruct (nth_opt part u) as [pu|] eqn:Eu; [|discriminate]. apply pid_nth_opt in Eu.
    assert (Hacc' : acc + gain_term ip tg pu ew = row_gain part ip tg (done ++ [(u, ew)])).
    { rewrite row_gain_app, <- Hacc. unfold row_gain. cbn. rewrite Eu. lia. }
    destruct todo as [|e2 todo].
    - assert (Hfull : acc + gain_term ip tg pu ew = row_gain part ip tg (row g v)).
      { rewrite Hacc'. now rewrite Hrow. }
      pose proof (upd_best_ok part v ip best tg _ Hbest Htg Htk Hfull) as Hb'.
      destruct rest as [|tg' rest'].
      + destruct (decide _ _ _ _ _ _) as [wd|] eqn:Hd; [|discriminate]. injection H as <- <- <-.
        destruct (upd_best best tg (acc + gain_term ip tg pu ew)) as [bt bg] eqn:Eb.
        apply decide_spec in Hd as (_ & _ & _ & [Hu | (Hs & Hpos & _)]).
        * apply gain_ok_other. now rewrite Hu.
        * unfold gain_ok. rewrite Hs. cbn in Hb'. destruct Hb' as (B1 & B2 & B3). repeat split; auto.
      + injection H as <- <- <-. unfold gain_ok. cbn [set_pc w_pc].
        inversion Hrest as [|? ? [R1 R2] R3]; subst.
        repeat split; auto. exists []. split; [reflexivity|reflexivity].
    - injection H as <- <- <-. unfold gain_ok. cbn [set_pc w_pc].
      repeat split; auto. exists (done ++ [(u, ew)]). split; [|exact Hacc'].
      rewrite Hrow, <- app_assoc. reflexivity. }
  all: apply gain_ok_other.
  all: wstep_inv H; try discriminate.
  all: injection H as <- <- <-; cbn [set_pc w_pc is_eval]; auto.
  all: try solve [apply scan_next_loc | apply enter_loc | apply re_start_loc].
Qed.

(* a store elsewhere does not disturb an evaluation on a non-adjacent vertex *)
Lemma gain_ok_stable part w x tgx v :
  gain_ok part w -> wphase w = PhCrit v -> x <> v -> ~ In x (nbrs g v) ->
  gain_ok (set_nth part x tgx) w.
Proof.
  unfold gain_ok, wphase. intros Hg Hph Hx Hn.
  destruct (w_pc w) as [ | ip todo | v1 | v1 todo | v1 | v1 ip tg rest acc todo best | v1 ip tg gn | v1 r
                        | v1 todo | v1 todo nb np tg rest acc todo2 best | ]; auto.
  - cbn in Hph. injection Hph as ->.
    destruct Hg as (Hip & Hvl & Htg & Htk & Hrest & (done & Hrow & Hacc) & Hbest).
    repeat split; auto.
    + rewrite pid_set_nth_other by congruence. exact Hip.
    + now rewrite set_nth_length.
    + exists done. split; [exact Hrow|]. rewrite row_gain_stable; [exact Hacc|].
      intros Hin. apply Hn. unfold nbrs. fold g. rewrite Hrow, map_app. apply in_or_app. now left.
    + unfold best_ok in *. destruct best as [[bt bg]|]; auto.
      destruct Hbest as (B1 & B2 & B3). repeat split; auto. rewrite row_gain_stable; auto.
  - cbn in Hph. injection Hph as ->.
    destruct Hg as (Hip & Hvl & Htg & Htk & Hgn & Hpos).
    repeat split; auto.
    + rewrite pid_set_nth_other by congruence. exact Hip.
    + now rewrite set_nth_length.
    + rewrite row_gain_stable; auto.
Qed.
End Local.

(* ------------------------------------------------- the global invariant *)

Definition sum_gain (ws : list worker) : Z := sumZ (map wgain ws).
Definition sum_moves (ws : list worker) : Z := sumZ (map wmoves ws).

Lemma is_eval_crit p : is_eval p = true -> exists v, phase_of p = PhCrit v.
Proof. destruct p; cbn; intros; try discriminate; eauto. Qed.

Lemma pass_md_gain ws :
  md_gain (fold_right (fun w acc => md_merge acc (w_md w)) md_zero ws) = sum_gain ws
  /\ md_moves (fold_right (fun w acc => md_merge acc (w_md w)) md_zero ws) = sum_moves ws.
Proof.
  unfold sum_gain, sum_moves. induction ws as [|w ws [IH1 IH2]]; [split; reflexivity|].
  cbn [fold_right map md_merge md_gain md_moves]. change (sumZ (?a :: ?l)) with (a + sumZ l).
  rewrite IH1, IH2. unfold wgain, wmoves. lia.
Qed.

Lemma nth_opt_map {A B} (f : A -> B) l i : nth_opt (map f l) i = option_map f (nth_opt l i).
Proof. revert i. induction l as [|a l IH]; intros [|i]; cbn; auto. Qed.

Lemma init_workers_spec cf pw t w : nth_opt (init_workers cf pw) t = Some w ->
  w_pc w = PScanOwn /\ w_md w = md_zero /\ w_pw w = pw.
Proof.
  unfold init_workers. rewrite nth_opt_map. destruct (nth_opt (seq 0 (cf_tc cf)) t); cbn; [|discriminate].
  intros [= <-]. auto.
Qed.

Lemma init_workers_sums cf pw : sum_gain (init_workers cf pw) = 0 /\ sum_moves (init_workers cf pw) = 0.
Proof.
  unfold init_workers, sum_gain, sum_moves. induction (seq 0 (cf_tc cf)) as [|i l [IH1 IH2]]; [split; reflexivity|].
  cbn [map]. change (sumZ (?a :: ?l)) with (a + sumZ l). rewrite IH1, IH2. split; reflexivity.
Qed.

Lemma sum_gain_nonneg ws : Forall (fun w => 0 <= wgain w) ws -> 0 <= sum_gain ws.
Proof.
  unfold sum_gain. induction 1 as [|w ws Hw _ IH]; cbn [map]; [cbn; lia|].
  change (sumZ (?a :: ?l)) with (a + sumZ l). lia.
Qed.

Section Global.
Variable cf : config.
Let g := cf_g cf.
Let k := cf_k cf.
Hypothesis nbrs_sym : forall v u, In u (nbrs g v) -> In v (nbrs g u).
Hypothesis wt_sym : forall a b, wt g a b = wt g b a.
Hypothesis in_range : forall a u, In u (nbrs g a) -> (u < length g)%nat.
Variable p0 : list nat.
Hypothesis len_p0 : length p0 = length g.
Hypothesis ids_p0 : Forall (fun x => (x < k)%nat) p0.

Record ginv (st : gstate) : Prop := {
  gi_proto : proto_inv g (g_locks st) (g_ws st);
  gi_gain : forall t w, nth_opt (g_ws st) t = Some w -> gain_ok cf (g_part st) w;
  gi_len : length (g_part st) = length g;
  gi_ids : Forall (fun x => (x < k)%nat) (g_part st);
  gi_acct : cut g p0 - cut g (g_part st) = md_gain (g_md st) + sum_gain (g_ws st);
  gi_pos : 0 <= md_gain (g_md st) /\ Forall (fun w => 0 <= wgain w) (g_ws st);
  gi_moves : relabelled p0 (g_part st) <= md_moves (g_md st) + sum_moves (g_ws st)
}.

(* one access of worker t *)
Lemma wstep_ginv st t w locks' part' w' :
  ginv st -> nth_opt (g_ws st) t = Some w ->
  wstep cf (g_tmax st) (g_locks st) (g_part st) w = Some (locks', part', w') ->
  ginv (mkG locks' part' (set_nth (g_ws st) t w') (g_pw st) (g_tmax st) (g_md st) false).
Proof.
  intros [Hproto Hgain Hlen Hids Hacct [Hpos1 Hpos2] Hmoves] Hw Hstep.
  pose proof (wstep_cases _ _ _ _ _ _ _ _ Hstep) as K. fold g in K.
  pose proof (proto_step g _ _ _ _ _ _ _ _ Hproto Hw K) as Hproto'.
  pose proof (Hgain _ _ Hw) as Hgw.
  destruct (is_store (w_pc w)) eqn:Hst.
  - (* the store *)
    destruct (w_pc w) as [ | | | | | | v ip tg gn | | | | ] eqn:Hpc; try discriminate Hst.
    destruct (wstep_store _ _ _ _ _ _ _ _ _ _ _ _ Hstep Hpc) as (-> & Hv & Hg' & Hm' & Hpc' & _).
    unfold gain_ok in Hgw. rewrite Hpc in Hgw. destruct Hgw as (Hip & _ & Htg & Htk & Hgn & Hgpos).
    assert (Hcrit : wphase w = PhCrit v) by (unfold wphase; now rewrite Hpc).
    assert (Hcut : cut g (set_nth (g_part st) v tg) = cut g (g_part st) - gn).
    { rewrite cut_store; auto.
      - rewrite Hip. fold g in Hgn. now rewrite <- Hgn.
      - now rewrite <- Hlen.
      - exact (proto_no_self_loop g _ _ t w v Hproto Hw Hcrit).
      - congruence. }
    split; cbn [g_locks g_part g_ws g_md].
    + exact Hproto'.
    + intros t1 w1 H1. apply nth_opt_set_nth_inv in H1 as [(-> & -> & _)|(N1 & H1)].
      * apply gain_ok_other. now rewrite Hpc'.
      * pose proof (Hgain _ _ H1) as Hg1.
        destruct (is_eval (w_pc w1)) eqn:He; [|now apply gain_ok_other].
        destruct (is_eval_crit _ He) as [v1 Hv1].
        assert (Hno : ~ (v = v1 \/ In v1 (nbrs g v) \/ In v (nbrs g v1))).
        { intros Hadj. exact (proto_mutex g nbrs_sym _ _ t t1 w w1 v v1 Hproto Hw H1 (fun E => N1 (eq_sym E)) Hcrit Hv1 Hadj). }
        apply gain_ok_stable with (v := v1); auto; fold g; tauto.
    + now rewrite set_nth_length.
    + apply Forall_set_nth; auto.
    + unfold sum_gain in *. rewrite (sumZ_map_set_nth _ _ _ _ _ Hw), Hcut, Hg'. lia.
    + split; [assumption|]. apply Forall_set_nth; auto.
      pose proof (Forall_nth_opt _ _ _ _ Hpos2 Hw). cbn in H. lia.
    + unfold sum_moves in *. rewrite (sumZ_map_set_nth _ _ _ _ _ Hw), Hm'.
      pose proof (relabelled_set_nth p0 (g_part st) v tg). lia.
  - (* any other access *)
    destruct (wstep_nonstore _ _ _ _ _ _ _ _ Hstep Hst) as (-> & Hg' & Hm' & _).
    split; cbn [g_locks g_part g_ws g_md]; auto.
    + intros t1 w1 H1. apply nth_opt_set_nth_inv in H1 as [(-> & -> & _)|(N1 & H1)]; eauto.
      eapply wstep_gain_ok; eauto.
    + unfold sum_gain in *. rewrite (sumZ_map_set_nth _ _ _ _ _ Hw), Hg'. lia.
    + split; [assumption|]. apply Forall_set_nth; auto.
      pose proof (Forall_nth_opt _ _ _ _ Hpos2 Hw). cbn in H. lia.
    + unfold sum_moves in *. rewrite (sumZ_map_set_nth _ _ _ _ _ Hw), Hm'. lia.
Qed.

Lemma end_pass_ginv st st' : ginv st ->
  (forall t w, nth_opt (g_ws st) t = Some w -> wphase w = PhIdle) ->
  end_pass cf st = Some st' -> ginv st'.
Proof.
  intros [Hproto Hgain Hlen Hids Hacct [Hpos1 Hpos2] Hmoves] Hidle H. unfold end_pass in H.
  destruct (pass_md_gain (g_ws st)) as [Eg Em].
  pose proof (sum_gain_nonneg _ Hpos2) as Hsg.
  destruct (_ =? 0).
  - injection H as <-. split; cbn [g_locks g_part g_ws g_md md_merge md_gain md_moves]; auto.
    + apply proto_idle. intros t w Hn. destruct t; discriminate.
    + intros t w Hn. destruct t; discriminate.
    + rewrite Eg. change (sum_gain []) with 0. lia.
    + split; [rewrite Eg; lia|constructor].
    + rewrite Em. change (sum_moves []) with 0. lia.
  - destruct (thread_max cf _) as [tm|]; [|discriminate]. injection H as <-.
    destruct (init_workers_sums cf (pw_merge (cf_tc cf) (pw_sum (cf_k cf) (g_ws st)) (g_pw st))) as [S1 S2].
    split; cbn [g_locks g_part g_ws g_md md_merge md_gain md_moves md_passes]; auto.
    + apply proto_idle. intros t w Hn. apply init_workers_spec in Hn as (Hpc & _). unfold wphase. now rewrite Hpc.
    + intros t w Hn. apply init_workers_spec in Hn as (Hpc & _). apply gain_ok_other. now rewrite Hpc.
    + rewrite Eg, S1. lia.
    + split; [rewrite Eg; lia|]. apply Forall_forall. intros w Hin.
      apply In_nth_error in Hin as [i Hi]. unfold init_workers in Hi.
      rewrite nth_error_map in Hi. destruct (nth_error _ i); cbn in Hi; [|discriminate].
      injection Hi as <-. cbn. lia.
    + rewrite Em, S2. lia.
Qed.

Lemma all_done_idle ws : all_done ws = true -> forall t w, nth_opt ws t = Some w -> wphase w = PhIdle.
Proof.
  unfold all_done. intros H t w Hn. rewrite forallb_forall in H.
  assert (Hin : In w ws).
  { revert t Hn. induction ws as [|a ws IH]; intros [|t] Hn; cbn in Hn; try discriminate.
    - injection Hn as ->. now left. - right. eapply IH; eauto. intros x Hx. apply H. now right. }
  specialize (H _ Hin). unfold wphase. destruct (w_pc w); try discriminate. reflexivity.
Qed.

Lemma step_ginv st t st' : ginv st -> step cf st t = Some st' -> ginv st'.
Proof.
  intros Hinv H. unfold step in H.
  destruct (g_fin st); [discriminate|].
  destruct (nth_opt (g_ws st) t) as [w|] eqn:Hw; [|discriminate].
  destruct (wstep cf _ _ _ w) as [[[locks' part'] w']|] eqn:Hstep; [|discriminate].
  pose proof (wstep_ginv _ _ _ _ _ _ Hinv Hw Hstep) as Hinv'.
  destruct (all_done _) eqn:Hd.
  - eapply end_pass_ginv; eauto. cbn [g_ws]. now apply all_done_idle.
  - now injection H as <-.
Qed.

Lemma run_ginv sch : forall st st', ginv st -> run cf st sch = Some st' -> ginv st'.
Proof.
  induction sch as [|t sch IH]; intros st st' Hinv H; cbn [run] in H.
  - now injection H as <-.
  - destruct (step cf st t) as [st1|] eqn:Hs; [|discriminate].
    eapply IH; [|exact H]. eapply step_ginv; eauto.
Qed.

Lemma init_ginv st0 : init_state cf p0 = Some st0 -> ginv st0.
Proof.
  unfold init_state. destruct (thread_max cf _) as [tm|]; [|discriminate]. intros [= <-].
  destruct (init_workers_sums cf (wloads (cf_vw cf) p0 (cf_k cf))) as [S1 S2].
  split; cbn [g_locks g_part g_ws g_md md_passes md_zero md_gain md_moves]; auto.
  - apply proto_idle. intros t w Hn. apply init_workers_spec in Hn as (Hpc & _). unfold wphase. now rewrite Hpc.
  - intros t w Hn. apply init_workers_spec in Hn as (Hpc & _). apply gain_ok_other. now rewrite Hpc.
  - rewrite S1. lia.
  - split; [lia|]. apply Forall_forall. intros w Hin.
    apply In_nth_error in Hin as [i Hi]. unfold init_workers in Hi.
    rewrite nth_error_map in Hi. destruct (nth_error _ i); cbn in Hi; [|discriminate].
    injection Hi as <-. cbn. lia.
  - rewrite S2. assert (relabelled p0 p0 = 0); [|lia].
    clear. induction p0 as [|a l IH]; cbn [relabelled]; [reflexivity|]. rewrite Nat.eqb_refl. lia.
Qed.
End Global.

End WithW.

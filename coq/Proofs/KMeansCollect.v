(* The k-means statements of Properties/C02.v and C06.v, assembled from
   Proofs/KMeans*.v at the constants the translator reads from the source
   (Gen/KMeansGen.v). *)
From Coupe Require Import Lib.Prelude Lib.SFloat Lib.Rayon Model.KMeansAbs Model.KMeans Gen.KMeansGen
  Proofs.C02Proofs Proofs.KMeansProofs Proofs.KMeansNoPanic Proofs.KMeansF64 Proofs.KMeansSched
  Proofs.KMeansOrder Proofs.KMeansF64Sum Proofs.KMeansF64Sched Proofs.KMeansStatic.
From Coq Require Import Floats.SpecFloat.
Local Open Scope nat_scope.

(* binary64 with the literals of k_means.rs / geometry.rs; `ln` and `exp` (erode) are any functions *)
Definition F64g (lg : spec_float -> spec_float -> spec_float) (ex : spec_float -> spec_float) : karith :=
  F64km lg ex km_fmax_bits km_fmin_bits km_eps_bits km_step_bits.

(* C02 for the binary64 model: inside the contract KMeans::partition returns Ok
   (no panic, no out-of-bounds raw write, no fuel), keeps the length, writes
   only ids of the input *)
Theorem kmeans_c02_f64 : forall lg ex T P M D cfg points weights part,
  1 <= D -> 1 <= length M ->
  length points = length part ->
  valid_partition part ->
  exists part', kmeans (F64g lg ex) (reds_tree (F64g lg ex) T P) (Some M) D cfg points weights part = Ok part'
    /\ length part' = length part
    /\ (forall x, In x part' -> In x part)
    /\ Forall (fun x => (x <= list_maxN part)%N) part'.
Proof.
  intros lg ex T P M D cfg points weights part HD HM Hl Hv.
  destruct (kmeans_no_panic_f64 lg ex km_fmax_bits km_fmin_bits km_eps_bits km_step_bits T P M D cfg HD HM
              points weights part Hl Hv) as [part' E].
  exists part'. split; [exact E|].
  pose proof (kmeans_ids_length _ _ _ _ _ _ _ _ _ E) as [L I].
  pose proof (kmeans_ids_bound _ _ _ _ _ _ _ _ _ E) as [_ B]. auto.
Qed.

(* the same for every arithmetic in which the distances computed for a point
   inside the bounding box can be compared *)
Theorem kmeans_c02_generic : forall A T P M D cfg,
  1 <= D -> 1 <= length M ->
  (forall v w, inside_val A v -> inside_val A w -> k_cmp A v w <> None) ->
  forall points weights part,
  length points = length part ->
  valid_partition part ->
  exists part', kmeans A (reds_tree A T P) (Some M) D cfg points weights part = Ok part'
    /\ length part' = length part
    /\ (forall x, In x part' -> In x part)
    /\ Forall (fun x => (x <= list_maxN part)%N) part'.
Proof.
  intros A T P M D cfg HD HM HA points weights part Hl Hv.
  destruct (kmeans_no_panic A T P M D cfg HD HM HA points weights part Hl Hv) as [part' E].
  exists part'. split; [exact E|].
  pose proof (kmeans_ids_length _ _ _ _ _ _ _ _ _ E) as [L I].
  pose proof (kmeans_ids_bound _ _ _ _ _ _ _ _ _ E) as [_ B]. auto.
Qed.

Lemma km_fmax_ok : val_ok_f64 (f64_of_bits km_fmax_bits) = true.
Proof. vm_compute. reflexivity. Qed.
Lemma km_fmin_ok : val_ok_f64 (f64_of_bits km_fmin_bits) = true.
Proof. vm_compute. reflexivity. Qed.

(* C06 for the binary64 model *)
Theorem kmeans_c06_f64 : forall lg ex T0 T1 T2 P rot D cfg points weights part,
  kmeans (F64g lg ex) (reds_chk (F64g lg ex) sum_ok_f64 val_ok_f64 cmp_ok_f64 T0 P) rot D cfg points weights part <> Panic 99 ->
  kmeans (F64g lg ex) (reds_tree (F64g lg ex) T1 P) rot D cfg points weights part =
  kmeans (F64g lg ex) (reds_tree (F64g lg ex) T2 P) rot D cfg points weights part.
Proof.
  intros lg ex. apply kmeans_f64_sched_indep; [exact km_fmax_ok|exact km_fmin_ok].
Qed.

Theorem kmeans_c06_f64_chk : forall lg ex T1 T2 P rot D cfg points weights part r,
  kmeans (F64g lg ex) (reds_chk (F64g lg ex) sum_ok_f64 val_ok_f64 cmp_ok_f64 T1 P) rot D cfg points weights part = r ->
  r <> Panic 99 ->
  kmeans (F64g lg ex) (reds_tree (F64g lg ex) T2 P) rot D cfg points weights part = r.
Proof.
  intros lg ex. apply kmeans_f64_chk_sched_indep; [exact km_fmax_ok|exact km_fmin_ok].
Qed.

(* integer-valued inputs with bounded totals (static premise): only the
   comparisons need the dynamic flag *)
Theorem kmeans_c06_f64_int_inputs : forall lg ex T0 T1 T2 P rot D cfg points weights part,
  s_erode cfg = false ->
  sum_ok_f64 weights = true ->
  vsum_ok (F64g lg ex) sum_ok_f64 D points = true ->
  kmeans (F64g lg ex) (reds_chk (F64g lg ex) (fun _ => true) val_ok_f64 cmp_ok_f64 T0 P) rot D cfg points weights part <> Panic 99 ->
  kmeans (F64g lg ex) (reds_tree (F64g lg ex) T1 P) rot D cfg points weights part =
  kmeans (F64g lg ex) (reds_tree (F64g lg ex) T2 P) rot D cfg points weights part.
Proof.
  intros lg ex T0 T1 T2 P rot D cfg points weights part He Hw Hp H.
  apply (kmeans_c06_f64 lg ex T0).
  rewrite <- (kmeans_static_sums (F64g lg ex) sum_ok_f64 val_ok_f64 cmp_ok_f64 sum_ok_f64_sub T0 P rot D cfg He
                points weights Hw Hp part).
  exact H.
Qed.

(* ---- witnesses (binary64, rotation = identity, the doc example of k_means.rs) *)
Definition zf (x : Z) : spec_float := f64_of_Z x.
Definition nan1 (x : spec_float) : spec_float := S754_nan.
Definition nan2 (x y : spec_float) : spec_float := S754_nan.
Definition Fw := F64g nan2 nan1.
Definition ex_pts : list (vec Fw) := map (map zf) [[0;0];[1;0];[2;0];[0;5];[1;5];[2;5];[0;10];[1;10];[2;10]]%Z.
Definition ex_ws : list (num Fw) := repeat (zf 1) 9.
Definition ex_id : list (vec Fw) := [[zf 1; zf 0]; [zf 0; zf 1]].
Definition ex_cfg : settings Fw := mkSettings Fw (zf 5) (zf 0) 3 2 false true false.
Definition ex_tree : key -> sched := fun _ => Node 2 (Node 1 Leaf Leaf) (Node 3 Leaf Leaf).

Lemma kmeans_example :
  kmeans Fw (reds_tree Fw T_seq P_id) (Some ex_id) 2 ex_cfg ex_pts ex_ws [0;2;2;2;2;2;2;2;1]%N
    = Ok [0;0;0;2;2;2;1;1;1]%N
  /\ kmeans Fw (reds_tree Fw ex_tree P_id) (Some ex_id) 2 ex_cfg ex_pts ex_ws [0;2;2;2;2;2;2;2;1]%N
    = Ok [0;0;0;2;2;2;1;1;1]%N
  /\ kmeans Fw (reds_chk Fw sum_ok_f64 val_ok_f64 cmp_ok_f64 T_seq P_id) (Some ex_id) 2 ex_cfg ex_pts ex_ws [0;2;2;2;2;2;2;2;1]%N
    = Ok [0;0;0;2;2;2;1;1;1]%N.
Proof. vm_compute. auto. Qed.

(* every premise of kmeans_c02_f64 is needed *)
Lemma kmeans_unsound_partition_refuted :
  exists part, ~ valid_partition part /\
    kmeans Fw (reds_tree Fw T_seq P_id) (Some ex_id) 2 ex_cfg ex_pts ex_ws part = Panic 2.
Proof.
  exists [0;2;0]%N. split; [|vm_compute; reflexivity].
  intros H. assert (Hin : In 1%N [0;2;0]%N) by (apply H; vm_compute; discriminate).
  cbn in Hin. destruct Hin as [E|[E|[E|[]]]]; discriminate.
Qed.

(* more points than part ids: the raw write `ptr.add(idx)` lands outside the
   array (site 10) -- undefined behaviour in Rust, replayed on the real code by
   harness/src/bin/km_replay.rs *)
Lemma kmeans_more_points_than_ids_refuted :
  exists points part, valid_partition part /\ length part < length points /\
    kmeans Fw (reds_tree Fw T_seq P_id) (Some ex_id) 2 ex_cfg points ex_ws part = Panic 10.
Proof.
  exists (firstn 3 ex_pts), [0;1]%N. split; [|split; [cbn; lia|vm_compute; reflexivity]].
  intros i Hi. change (list_maxN [0;1]%N) with 1%N in Hi. assert (i = 0 \/ i = 1)%N as [-> | ->] by lia; cbn; auto.
Qed.

Lemma kmeans_no_inverse_refuted :
  kmeans Fw (reds_tree Fw T_seq P_id) None 2 ex_cfg (firstn 3 ex_pts) ex_ws [0;1;1]%N = Panic 4.
Proof. vm_compute. reflexivity. Qed.

Lemma kmeans_fewer_points_refuted :
  kmeans Fw (reds_tree Fw T_seq P_id) (Some ex_id) 2 ex_cfg [] ex_ws [0;1;1]%N = Panic 3.
Proof. vm_compute. reflexivity. Qed.

Lemma km_source_shape_ok : forallb (fun b => b) km_source_shape = true.
Proof. vm_compute. reflexivity. Qed.

(* The exact-sum facts of Proofs/MultiJaggedMono.v for binary64: weights that
   are integers (f64_of_Z z, z >= 0, total <= 2^53), thresholds = non-NaN,
   non-negative binary64 values (+0, positive finite, +infinity).
   Through Flocq (axioms of the classical reals). *)
From Coq Require Import ZArith Reals Lia Lra Bool List Sorted Floats.SpecFloat.
From Flocq Require Import Core BinarySingleNaN.
From Coupe Require Import Lib.Prelude Lib.SFloat Model.MultiJagged Proofs.MultiJaggedProofs Proofs.MultiJaggedTotal
  Proofs.MultiJaggedMono Proofs.F64AddExact Proofs.F64RoundFacts Proofs.HilbertSegFloat Proofs.ArcSwapFloat.
Import ListNotations.
Open Scope R_scope.

#[local] Existing Instance F64AddExact.Hprec.
#[local] Existing Instance F64AddExact.Hmax.
Notation B2SF := (@BinarySingleNaN.B2SF 53 1024).
Notation B2R := (@BinarySingleNaN.B2R 53 1024).
Notation is_nan := (@BinarySingleNaN.is_nan 53 1024).
Notation is_finite := (@BinarySingleNaN.is_finite 53 1024).
Notation Bsign := (@BinarySingleNaN.Bsign 53 1024).
Notation bf := (BinarySingleNaN.binary_float 53 1024).

Definition B53 : Z := (2 ^ 53)%Z.

(* thresholds: valid, not NaN, no negative sign *)
Definition Tthr (t : spec_float) : Prop :=
  exists X : bf, B2SF X = t /\ is_nan X = false /\ Bsign X = false.

Lemma inj_spec a : (0 <= a <= B53)%Z ->
  f64_of_Z a = B2SF (NZ a) /\ B2R (NZ a) = IZR a /\ is_finite (NZ a) = true /\ Bsign (NZ a) = false.
Proof.
  intros Ha. split; [apply of_Z_B|]. destruct (NZ_spec a) as [R [F S]]; [unfold B53 in Ha; lia|].
  repeat split; auto. rewrite S. apply Z.ltb_ge. lia.
Qed.

Lemma T_cases (X : bf) : is_nan X = false -> Bsign X = false ->
  is_finite X = true \/ X = B754_infinity false.
Proof. destruct X as [s|s| |s m e B]; cbn; intros H1 H2; try discriminate; auto. subst. auto. Qed.

Lemma lt_fin_inf (Y : bf) : is_finite Y = true -> SFltb (B2SF Y) (S754_infinity false) = true.
Proof. destruct Y as [s|s| |s m e B]; cbn; intros H; try discriminate; destruct s; reflexivity. Qed.

Lemma ltb_true_of_lt (X Y : bf) : is_finite X = true -> is_finite Y = true -> B2R X < B2R Y -> SFltb (B2SF X) (B2SF Y) = true.
Proof.
  intros Hx Hy H. rewrite ltb_link, Bltb_correct by assumption. apply Rlt_bool_true. exact H.
Qed.

Lemma mul_link' (x y : bf) : f64_mul (B2SF x) (B2SF y) = B2SF (Bmult mode_NE x y).
Proof. apply HilbertSegFloat.mul_link. Qed.
Lemma div_link' (x y : bf) : f64_div (B2SF x) (B2SF y) = B2SF (Bdiv mode_NE x y).
Proof. apply ArcSwapFloat.div_link. Qed.

(* ---- F_first ---- *)
Lemma f64_F_first t : Tthr t -> flt t (f64_of_Z 0) = false.
Proof.
  intros [X [<- [Hn Hs]]]. destruct X as [s|s| |s m e B]; cbn in Hn, Hs; try discriminate; subst; reflexivity.
Qed.

(* ---- F_up ---- *)
Lemma f64_F_up t a b : Tthr t -> (0 <= a <= B53)%Z -> (0 <= b <= B53)%Z -> (a <= b)%Z ->
  flt t (f64_of_Z a) = true -> flt t (f64_of_Z b) = true.
Proof.
  intros [X [<- [Hn Hs]]] Ha Hb Hab H.
  destruct (inj_spec a Ha) as [Ea [Ra [Fa _]]]. destruct (inj_spec b Hb) as [Eb [Rb [Fb _]]].
  rewrite Ea in H. rewrite Eb. unfold flt in *.
  destruct (T_cases X Hn Hs) as [Fx| ->]; [|rewrite ltb_inf_l in H; discriminate].
  apply ltb_true_lt in H; auto. apply ltb_true_of_lt; auto. rewrite Rb. rewrite Ra in H.
  eapply Rlt_le_trans; [exact H|]. apply IZR_le. exact Hab.
Qed.

(* ---- the order on thresholds, through the reals ---- *)
Definition tleF (t t' : spec_float) : Prop :=
  exists X X' : bf, B2SF X = t /\ B2SF X' = t' /\
    (X' = B754_infinity false \/ (is_finite X = true /\ is_finite X' = true /\ B2R X <= B2R X')).

Lemma B2SF_inj (X Y : bf) : B2SF X = B2SF Y -> X = Y.
Proof. apply BinarySingleNaN.B2SF_inj. Qed.

Lemma tleF_tle t t' : tleF t t' -> tle MultiJagged.F64 f64_of_Z B53 t t'.
Proof.
  intros [X [X' [<- [<- H]]]] a Ha. destruct (inj_spec a Ha) as [Ea [Ra [Fa _]]].
  cbn [a_lt MultiJagged.F64 F64eps]. rewrite Ea. unfold flt. split.
  - intros L. destruct H as [->|[Fx [Fx' Hle]]]; [apply lt_fin_inf; exact Fa|].
    apply ltb_true_lt in L; auto. apply ltb_true_of_lt; auto. lra.
  - intros L. destruct H as [->|[Fx [Fx' Hle]]]; [rewrite ltb_inf_l in L; discriminate|].
    apply ltb_true_lt in L; auto. apply ltb_true_of_lt; auto. lra.
Qed.

(* ---- F_eq: a threshold that is neither below nor above an exact sum IS that sum ---- *)
Lemma ulps_refl eps (X : bf) : is_nan X = false -> f64_ulps_eq eps (B2SF X) (B2SF X) = true.
Proof.
  intros Hn. unfold f64_ulps_eq. destruct (fle _ _); [reflexivity|].
  destruct X as [s|s| |s m e B]; cbn in Hn; try discriminate; cbn [BinarySingleNaN.B2SF sign_of];
    rewrite Bool.eqb_reflx, Z.sub_diag; reflexivity.
Qed.

Lemma f64_F_eq eps t a : Tthr t -> (0 <= a <= B53)%Z ->
  flt (f64_of_Z a) t = false -> flt t (f64_of_Z a) = false -> f64_ulps_eq eps t (f64_of_Z a) = true.
Proof.
  intros [X [<- [Hn Hs]]] Ha H1 H2. destruct (inj_spec a Ha) as [Ea [Ra [Fa Sa]]]. rewrite Ea in *. unfold flt in *.
  destruct (T_cases X Hn Hs) as [Fx| ->]; [|cbn [BinarySingleNaN.B2SF] in H1; rewrite (lt_fin_inf _ Fa) in H1; discriminate].
  apply ltb_false_le in H1; auto. apply ltb_false_le in H2; auto.
  assert (E : X = NZ a) by (apply B2R_Bsign_inj; auto; [lra|congruence]).
  rewrite E. apply ulps_refl. destruct (NZ a); cbn in *; try discriminate; reflexivity.
Qed.

(* ---- closure of the thresholds ---- *)
Lemma T_inf : Tthr (S754_infinity false).
Proof. exists (B754_infinity false). repeat split. Qed.

Lemma tleF_inf t : Tthr t -> tleF t (S754_infinity false).
Proof. intros [X [<- _]]. exists X, (B754_infinity false). repeat split. left. reflexivity. Qed.

Lemma tleF_trans a b c : tleF a b -> tleF b c -> tleF a c.
Proof.
  intros [X [Y [<- [<- H1]]]] [Y' [Z [E [<- H2]]]]. apply B2SF_inj in E. subst Y'.
  exists X, Z. repeat split. destruct H2 as [->|[Fy [Fz Hyz]]]; [left; reflexivity|].
  destruct H1 as [->|[Fx [_ Hxy]]]; [discriminate|]. right. repeat split; auto. lra.
Qed.

Lemma T_add t x : Tthr t -> Tthr x -> Tthr (f64_add t x) /\ tleF t (f64_add t x).
Proof.
  intros Ht Hx. pose proof Ht as [X [Et [Hn Hs]]]. pose proof Hx as [Y [Ex [Hny Hsy]]]. subst t x.
  destruct (T_cases X Hn Hs) as [Fx|EX].
  - destruct (T_cases Y Hny Hsy) as [Fy|EY].
    + rewrite F64AddExact.add_link. pose proof (Bplus_correct 53 1024 _ _ mode_NE X Y Fx Fy) as C.
      assert (Px : 0 <= B2R X).
      { destruct X as [s|s| |s m e B]; cbn in *; try discriminate; [lra|]. subst. apply F2R_ge_0. cbn. lia. }
      assert (Py : 0 <= B2R Y).
      { destruct Y as [s|s| |s m e B]; cbn in *; try discriminate; [lra|]. subst. apply F2R_ge_0. cbn. lia. }
      destruct (Rlt_bool _ _).
      * destruct C as [C1 [C2 C3]].
        assert (Sg : Bsign (Bplus mode_NE X Y) = false).
        { rewrite C3. destruct (Rcompare_spec (B2R X + B2R Y) 0); [lra|rewrite Hs, Hsy; reflexivity|reflexivity]. }
        split.
        -- exists (Bplus mode_NE X Y). repeat split; auto.
           destruct (Bplus mode_NE X Y); cbn in *; try discriminate; reflexivity.
        -- exists X, (Bplus mode_NE X Y). repeat split. right. repeat split; auto.
           rewrite C1. rewrite <- (rnd_id (B2R X)) at 1 by apply F64_B2R. apply rnd_mono. lra.
      * destruct C as [C1 _]. rewrite C1, Hs, overflow_inf. split; [apply T_inf|apply tleF_inf; exact Ht].
    + subst Y. rewrite F64AddExact.add_link. destruct X as [s|s| |s m e B]; cbn in *; try discriminate;
        (split; [apply T_inf|apply tleF_inf; exact Ht]).
  - subst X. rewrite F64AddExact.add_link.
    destruct Y as [s|s| |s m e B]; cbn in Hny, Hsy; try discriminate; subst; cbn;
      (split; [apply T_inf|apply tleF_inf; apply T_inf]).
Qed.

(* a finite non-negative value *)
Definition finN (x : spec_float) : Prop :=
  exists X : bf, B2SF X = x /\ is_finite X = true /\ Bsign X = false.

Lemma finN_T x : finN x -> Tthr x.
Proof. intros [X [E [F S]]]. exists X. repeat split; auto. destruct X; cbn in *; try discriminate; reflexivity. Qed.

Lemma T_mul x y : finN x -> finN y -> Tthr (f64_mul x y).
Proof.
  intros [X [<- [Fx Sx]]] [Y [<- [Fy Sy]]]. rewrite mul_link'.
  pose proof (Bmult_correct 53 1024 _ _ mode_NE X Y) as C. destruct (Rlt_bool _ _).
  - destruct C as [C1 [C2 C3]]. rewrite Fx, Fy in C2. cbn in C2.
    assert (Hn : is_nan (Bmult mode_NE X Y) = false) by (destruct (Bmult mode_NE X Y); cbn in *; try discriminate; reflexivity).
    exists (Bmult mode_NE X Y). repeat split; auto. rewrite (C3 Hn), Sx, Sy. reflexivity.
  - rewrite C, Sx, Sy. cbn [xorb]. rewrite overflow_inf. apply T_inf.
Qed.

Lemma finN_inj a : (0 <= a <= B53)%Z -> finN (f64_of_Z a).
Proof. intros Ha. destruct (inj_spec a Ha) as [E [_ [F S]]]. exists (NZ a). auto. Qed.

(* ---- `n as f64` for 1 <= n < 2^60, and the modifiers parts_i / parts ---- *)
Lemma NZ_pos z : (1 <= z < 2 ^ 60)%Z ->
  is_finite (NZ z) = true /\ Bsign (NZ z) = false /\ 1 <= B2R (NZ z) <= bpow radix2 60.
Proof.
  intros Hz. unfold NZ.
  pose proof (binary_normalize_correct 53 1024 F64AddExact.Hprec F64AddExact.Hmax mode_NE z 0 false) as C. cbv zeta in C.
  replace (F2R (Float radix2 z 0)) with (IZR z) in C by (unfold F2R; cbn [Fnum Fexp bpow]; lra).
  assert (H1 : 1 <= rnd (IZR z)).
  { rewrite <- (rnd_id 1) by (apply (int_format 1); cbn; lia). apply rnd_mono. apply (IZR_le 1 z). lia. }
  assert (H2 : rnd (IZR z) <= bpow radix2 60).
  { rewrite <- (rnd_id (bpow radix2 60)) by (apply generic_format_bpow; cbn; lia). apply rnd_mono.
    change (bpow radix2 60) with (IZR (2 ^ 60)). apply IZR_le. lia. }
  rewrite Rlt_bool_true in C.
  - destruct C as [C1 [C2 C3]]. repeat split; auto; try (rewrite C1; assumption).
    rewrite C3. rewrite Rcompare_Gt; [reflexivity|]. apply (IZR_lt 0 z). lia.
  - rewrite Rabs_pos_eq by lra. eapply Rle_lt_trans; [exact H2|]. apply bpow_lt. lia.
Qed.

Lemma modifier_finN cp parts : (1 <= cp < 2 ^ 60)%N -> (1 <= parts < 2 ^ 60)%N ->
  finN (f64_div (f64_of_Z (Z.of_N cp)) (f64_of_Z (Z.of_N parts))).
Proof.
  intros Hc Hp. rewrite !of_Z_B, div_link'.
  destruct (NZ_pos (Z.of_N cp)) as [Fc [Sc [Lc Uc]]]; [lia|]. destruct (NZ_pos (Z.of_N parts)) as [Fp [Sp [Lp Up]]]; [lia|].
  pose proof (Bdiv_correct 53 1024 _ _ mode_NE (NZ (Z.of_N cp)) (NZ (Z.of_N parts)) ltac:(lra)) as C.
  set (x := B2R (NZ (Z.of_N cp))) in *. set (y := B2R (NZ (Z.of_N parts))) in *.
  assert (Hq0 : 0 <= x / y) by (apply Rmult_le_pos; [lra|]; left; apply Rinv_0_lt_compat; lra).
  assert (Hq1 : x / y <= bpow radix2 60).
  { apply Rle_trans with x; [|exact Uc]. unfold Rdiv. rewrite <- (Rmult_1_r x) at 2.
    apply Rmult_le_compat_l; [lra|]. rewrite <- Rinv_1. apply Rinv_le_contravar; lra. }
  rewrite Rlt_bool_true in C.
  - destruct C as [C1 [C2 C3]]. exists (Bdiv mode_NE (NZ (Z.of_N cp)) (NZ (Z.of_N parts))).
    assert (Hf : is_finite (Bdiv mode_NE (NZ (Z.of_N cp)) (NZ (Z.of_N parts))) = true) by congruence.
    repeat split; auto. rewrite C3, Sc, Sp; [reflexivity|].
    destruct (Bdiv mode_NE (NZ (Z.of_N cp)) (NZ (Z.of_N parts))); cbn in *; try discriminate; reflexivity.
  - rewrite Rabs_pos_eq by (apply rnd_nonneg; exact Hq0).
    apply Rle_lt_trans with (bpow radix2 60); [|apply bpow_lt; lia].
    rewrite <- (rnd_id (bpow radix2 60)) by (apply generic_format_bpow; cbn; lia). apply rnd_mono. exact Hq1.
Qed.

(* ---- the thresholds of a call ---- *)
Lemma thresholds_T total : finN total -> forall mods c, Forall finN mods -> Tthr c ->
  Forall Tthr (thresholds MultiJagged.F64 total c mods) /\
  StronglySorted tleF (thresholds MultiJagged.F64 total c mods) /\
  Forall (tleF c) (thresholds MultiJagged.F64 total c mods).
Proof.
  intros Ht. induction mods as [|m mods IH]; intros c Hm Hc; cbn [thresholds]; [repeat split; constructor|].
  inversion Hm as [|? ? Hm1 Hm']; subst. cbv zeta. cbn [a_add a_mul MultiJagged.F64 F64eps].
  destruct (T_add c (f64_mul total m) Hc (T_mul total m Ht Hm1)) as [Tc' Lc'].
  destruct (IH (f64_add c (f64_mul total m)) Hm' Tc') as [I1 [I2 I3]].
  repeat split; constructor; auto.
  rewrite Forall_forall in *. intros t' Ht'. eapply tleF_trans; [exact Lc'|apply I3; exact Ht'].
Qed.

Lemma SSorted_impl {X} (R1 R2 : X -> X -> Prop) l : (forall a b, R1 a b -> R2 a b) -> StronglySorted R1 l -> StronglySorted R2 l.
Proof.
  intros Hi. induction 1 as [|a l Hs IH Hf]; constructor; auto. rewrite Forall_forall in *. auto.
Qed.

(* F_thresholds for binary64 *)
Lemma f64_F_thresholds W cparts parts (init : list spec_float) z : (0 <= W <= B53)%Z ->
  Forall (fun cp => (1 <= cp)%N) cparts -> parts = sumN cparts -> (parts < 2 ^ 60)%N ->
  map (fun cp => a_div MultiJagged.F64 (a_ofN MultiJagged.F64 cp) (a_ofN MultiJagged.F64 parts)) cparts = init ++ [z] ->
  Forall Tthr (thresholds MultiJagged.F64 (f64_of_Z W) (f64_of_Z 0) init) /\
  StronglySorted tleF (thresholds MultiJagged.F64 (f64_of_Z W) (f64_of_Z 0) init).
Proof.
  intros HW Hc1 Hp Hpb Emods.
  assert (Hparts : (1 <= parts)%N).
  { destruct cparts as [|c0 t]; [destruct init; discriminate|]. inversion Hc1; subst. cbn [sumN fold_right]. lia. }
  assert (Hle : forall cp, In cp cparts -> (cp <= parts)%N).
  { subst parts. clear. induction cparts as [|x t IH]; intros cp Hin; [destruct Hin|]. cbn [sumN fold_right]. fold (sumN t).
    destruct Hin as [<-|H]; [lia|]. specialize (IH cp H). lia. }
  assert (Hfin : Forall finN init).
  { assert (Hall : Forall finN (init ++ [z])).
    { rewrite <- Emods. rewrite Forall_forall. intros q Hq. apply in_map_iff in Hq as [cp [<- Hin]].
      cbn [a_div a_ofN MultiJagged.F64 F64eps]. rewrite Forall_forall in Hc1. specialize (Hc1 cp Hin). specialize (Hle cp Hin).
      apply modifier_finN; lia. }
    apply Forall_app in Hall. tauto. }
  destruct (thresholds_T (f64_of_Z W) (finN_inj W HW) init (f64_of_Z 0) Hfin (finN_T _ (finN_inj 0 ltac:(unfold B53; lia)))) as [T1 [T2 _]].
  split; [exact T1|exact T2].
Qed.

(* ---- assembling: mono_cuts for binary64 and integer-valued weights ---- *)

(* the only fact left open at this point: the ULP comparison is convex (proved below) *)
Definition ulps_convex_f64 : Prop :=
  forall t t' a, Tthr t -> Tthr t' -> tleF t t' -> (0 <= a <= B53)%Z ->
    flt (f64_of_Z a) t' = false -> f64_ulps_eq (f64_of_Z 0) t (f64_of_Z a) = true ->
    f64_ulps_eq (f64_of_Z 0) t' (f64_of_Z a) = true.

Lemma f64_Hadd a b : (0 <= a)%Z -> (0 <= b)%Z -> (a + b <= B53)%Z ->
  a_add MultiJagged.F64 (f64_of_Z a) (f64_of_Z b) = f64_of_Z (a + b).
Proof. intros Ha Hb Hab. cbn [a_add MultiJagged.F64 F64eps]. apply f64_add_exact; unfold B53 in *; lia. Qed.

Theorem f64_mono_cuts_of_convexity : ulps_convex_f64 ->
  forall (zs : list Z) blk, Forall (fun z => (0 <= z)%Z) zs -> (sumZ zs <= B53)%Z ->
  mono_cuts MultiJagged.F64 (length zs) (map f64_of_Z zs) blk.
Proof.
  intros HC zs blk Hz Hs.
  apply (mono_cuts_of_exact_sums MultiJagged.F64 f64_of_Z B53 eq_refl f64_Hadd Tthr tleF tleF_tle
           f64_F_first f64_F_up (f64_F_eq (f64_of_Z 0)) HC f64_F_thresholds zs Hz Hs).
Qed.
